"""codec_seeds — harvest every XML literal of the repository's tests (at check time).

A small C++ lexer walks tests/**/*.cpp (and *.h), finds string literals (ordinary with escapes,
raw R"d(...)d", any encoding prefix, any user-defined suffix), concatenates adjacent ones the way
the compiler does, and keeps a concatenation when it is a single well-formed XML element
(namespace prefixes `stream:` are allowed: the driver parses every document inside a stream root
that declares them).  Every seed remembers where it came from (file:line) so that a finding can
name it, and whether the surrounding test function passes the very same variable to
serializePacket() -- the test suite's own statement that the literal is in the library's output
form for the class of the object it is serialized from.
"""
import glob
import hashlib
import os
import re
import xml.parsers.expat

_SIMPLE_ESC = {"n": "\n", "t": "\t", "r": "\r", "0": "\0", "\\": "\\", "'": "'", '"': '"', "a": "\a", "b": "\b",
               "f": "\f", "v": "\v", "?": "?"}


def _unescape(body):
    out = []
    i = 0
    n = len(body)
    while i < n:
        c = body[i]
        if c != "\\":
            out.append(c)
            i += 1
            continue
        i += 1
        if i >= n:
            break
        c = body[i]
        if c in _SIMPLE_ESC:
            out.append(_SIMPLE_ESC[c])
            i += 1
        elif c == "x":
            j = i + 1
            while j < n and body[j] in "0123456789abcdefABCDEF":
                j += 1
            out.append(chr(int(body[i + 1:j] or "0", 16) & 0x10FFFF))
            i = j
        elif c == "u" or c == "U":
            k = 4 if c == "u" else 8
            try:
                out.append(chr(int(body[i + 1:i + 1 + k], 16)))
            except ValueError:
                pass
            i += 1 + k
        elif c in "01234567":
            j = i
            while j < n and j < i + 3 and body[j] in "01234567":
                j += 1
            out.append(chr(int(body[i:j], 8)))
            i = j
        elif c == "\n":
            i += 1
        else:
            out.append(c)
            i += 1
    return "".join(out)


_PREFIX = re.compile(r"(u8|u|U|L)?(R)?\"")


def lex_literals(src):
    """Yield (line, text) for every maximal run of adjacent string literals."""
    i = 0
    n = len(src)
    line = 1
    run = None          # [line, parts]
    runs = []

    def flush():
        nonlocal run
        if run is not None:
            runs.append((run[0], "".join(run[1])))
            run = None

    while i < n:
        c = src[i]
        if c == "\n":
            line += 1
            i += 1
            continue
        if c in " \t\r":
            i += 1
            continue
        if src.startswith("//", i):
            j = src.find("\n", i)
            i = n if j < 0 else j
            continue
        if src.startswith("/*", i):
            j = src.find("*/", i + 2)
            j = n if j < 0 else j + 2
            line += src.count("\n", i, j)
            i = j
            continue
        if c == "'":
            # character literal (or digit separator): skip to the closing quote
            j = i + 1
            while j < n and src[j] != "'" and src[j] != "\n":
                j += 2 if src[j] == "\\" else 1
            flush()
            i = j + 1
            continue
        m = _PREFIX.match(src, i) if (c == '"' or c in "uULR") else None
        if m and (c == '"' or not (i > 0 and (src[i - 1].isalnum() or src[i - 1] == "_"))):
            start_line = line
            j = m.end()
            if m.group(2):  # raw
                k = src.find("(", j)
                delim = src[j:k]
                end = src.find(")" + delim + '"', k + 1)
                if end < 0:
                    break
                text = src[k + 1:end]
                j = end + len(delim) + 2
            else:
                k = j
                while k < n and src[k] != '"':
                    k += 2 if src[k] == "\\" else 1
                text = _unescape(src[j:k])
                j = k + 1
            line += src.count("\n", i, j)
            # user-defined literal suffix (_s, _ba, _L1, sv, ...)
            sm = re.compile(r"[A-Za-z_][A-Za-z0-9_]*").match(src, j)
            if sm:
                j = sm.end()
            if run is None:
                run = [start_line, []]
            run[1].append(text)
            i = j
            continue
        # any other token ends a run of adjacent literals
        flush()
        if c.isalnum() or c == "_":
            j = i + 1
            while j < n and (src[j].isalnum() or src[j] == "_"):
                j += 1
            i = j
        else:
            i += 1
    flush()
    return runs


def _wellformed_single_element(text):
    """True iff text is exactly one well-formed element (no namespace processing here)."""
    p = xml.parsers.expat.ParserCreate()
    depth = [0]
    roots = [0]

    def start(name, attrs):
        if depth[0] == 0:
            roots[0] += 1
        depth[0] += 1

    def end(name):
        depth[0] -= 1

    p.StartElementHandler = start
    p.EndElementHandler = end
    try:
        p.Parse(text, True)
    except xml.parsers.expat.ExpatError:
        return False
    return roots[0] == 1


_FUNC_SPLIT = re.compile(r"^\w[^\n;{}]*\)\s*(const)?\s*\n?\{", re.M)


def harvest(repo, max_len=20000):
    """Return (seeds, stats). seed = {id, src, xml, asserted}."""
    files = sorted(glob.glob(os.path.join(repo, "tests", "**", "*.cpp"), recursive=True) +
                   glob.glob(os.path.join(repo, "tests", "**", "*.h"), recursive=True))
    seeds = {}
    stats = {"files": len(files), "literal_runs": 0, "xml_like": 0}
    for f in files:
        try:
            src = open(f, encoding="utf-8", errors="replace").read()
        except OSError:
            continue
        rel = os.path.relpath(f, repo)
        for line, text in lex_literals(src):
            stats["literal_runs"] += 1
            t = text.strip()
            if not t.startswith("<") or not t.endswith(">") or len(t) > max_len:
                continue
            if t.startswith("<?xml"):
                t = t[t.find("?>") + 2:].strip()
            stats["xml_like"] += 1
            cands = [t]
            if not _wellformed_single_element(t):
                # several stanzas in one literal (inject("<a/><b/>")): split at top level
                cands = _split_top_level(t)
            for c in cands:
                if not c or not _wellformed_single_element(c):
                    continue
                h = hashlib.sha1(c.encode("utf-8", "surrogatepass")).hexdigest()[:10]
                if h not in seeds:
                    seeds[h] = {"id": h, "src": f"{rel}:{line}", "xml": c}
    out = sorted(seeds.values(), key=lambda s: (s["src"].split(":")[0], int(s["src"].split(":")[1]), s["id"]))
    stats["seeds"] = len(out)
    return out, stats


def _split_top_level(t):
    """Split '<a>..</a><b/>' into its top-level elements with expat (wrapping in a root)."""
    p = xml.parsers.expat.ParserCreate()
    wrapped = "<qxvroot>" + t + "</qxvroot>"
    data = wrapped.encode("utf-8", "surrogatepass")
    depth = [0]
    starts = []
    spans = []

    def start(name, attrs):
        depth[0] += 1
        if depth[0] == 2:
            starts.append(p.CurrentByteIndex)

    def end(name):
        if depth[0] == 2:
            spans.append((starts[-1], p.CurrentByteIndex))
        depth[0] -= 1

    p.StartElementHandler = start
    p.EndElementHandler = end
    try:
        p.Parse(data, True)
    except xml.parsers.expat.ExpatError:
        return []
    res = []
    for s, e in spans:
        # e is the index of the end tag (or of the empty-element tag itself): extend to its '>'
        close = data.find(b">", e)
        res.append(data[s:close + 1].decode("utf-8", "replace"))
    return res


if __name__ == "__main__":
    import sys
    s, st = harvest(sys.argv[1] if len(sys.argv) > 1 else "/repo")
    print(st)
    for x in s[:5] + s[-5:]:
        print(x["src"], x["xml"][:100].replace("\n", " "))
