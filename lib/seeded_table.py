#!/usr/bin/env python3
"""Render seeded/results.json as the markdown table of DESIGN.md section 7."""
import json
import os

V = os.path.dirname(os.path.dirname(os.path.abspath(__file__)))
r = json.load(open(os.path.join(V, "seeded", "results.json")))
print("| seeded change | property | author | result | how the check reports it | note |")
print("|---|---|---|---|---|---|")
for k in sorted(r, key=lambda k: (r[k]["property"], k)):
    v = r[k]
    meta = os.path.join(V, "seeded", k, "meta.json")
    summ = ""
    if os.path.exists(meta):
        try:
            m = json.load(open(meta))
            summ = (m.get("summary") or "")[:0]
        except Exception:
            pass
    print(f"| `seeded/{k}` | {v['property']} | {v['author']} | **{v['result']}** | {v['signature']} | {v['note']} |")
tot = len(r)
caught = sum(1 for v in r.values() if v["result"].startswith("caught"))
first = sum(1 for v in r.values() if v["result"] == "caught")
print(f"\n{tot} changes; {caught} reported by the checks as committed now ({first} of them at first attempt, "
      f"{caught - first} after the check was strengthened); {tot - caught} not (yet) reported.")
