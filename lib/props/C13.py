"""C13 — task continuation runs exactly once, never after its context died.
Spec: spec/Task.tla (+TaskGen, TaskTrace). Driver: qxv task."""
import vf

LEVEL = "model_checking"


def run(chk, replay=None):
    quick = chk.tier == "quick"
    # 1. design level: exhaustive model check of the hand-over mechanism
    chk.mc(vf.tlc_mc("Task.tla", "Task.cfg"), "Task.cfg")
    # 2. behaviours: (a) every transition of the model (tour), (b) every path up to depth D
    if replay:
        behs = [b for b in vf.read_ndjson(replay) if "steps" in b]
        stats = {}
    else:
        tour, st1 = vf.tlc_gen("TaskGen.tla", "TaskGenTour.cfg")
        allp, st2 = vf.tlc_gen("TaskGen.tla", "TaskGenAll.cfg" if quick else "TaskGenAll6.cfg")
        sim, st3 = vf.tlc_simulate("TaskGen.tla", "TaskGenTour.cfg", num=200 if quick else 5000, depth=14, seed=chk.seed)
        behs = vf.maximal_behaviours(tour + allp + sim)
        chk.cov["generation"] = {"tour": st1, "all_paths": st2, "simulate": st3}
    vf.write_ndjson(chk.path("behaviours.ndjson"), behs)
    # 3. replay against the real templates (ASan/UBSan build)
    trace = chk.path("trace.ndjson")
    r = vf.qxv("task", trace, in_path=chk.path("behaviours.ndjson"), seed=chk.seed, tier=chk.tier, check=False)
    vf.repair_truncated(trace)
    cases = vf.split_cases(trace)
    crashed = None
    if r["sanitizer"] or r["rc"] != 0:
        last = list(cases)[-1] if cases else None
        idx = int(last[1:]) - 1 if last else 0
        crashed = (behs[idx] if behs else None, vf.san_signature(r))
    # 4. trace validation
    s = vf.tlc_trace("TaskTrace.tla", "TaskTrace.cfg", trace)
    chk.cov["traces_validated_against_impl"] = s["cases"]
    chk.cov["trace_lines"] = s["lines"]
    chk.cov["diverged_executions"] = s["ndiv"]
    chk.cov["first_divergences"] = s["divs"][:3]
    chk.cov["exhaustive"] = True
    chk.cov["rule"] = ("behaviours = transition tour of Task.cfg (every transition of the bounded model) + all operation "
                       "sequences up to the all-paths depth + seeded random walks; each replayed on real "
                       "QXmppPromise/QXmppTask<void|copyable|move-only> under ASan/UBSan and validated by TaskTrace.tla")
    for b in behs[:2] + behs[-2:]:
        chk.sample(b)
    seen = set()
    for v in sorted(s["viol"], key=lambda v: v["line"]):
        if v["case"] in seen:
            continue
        seen.add(v["case"])
        idx = int(v["case"][1:]) - 1
        b = behs[idx]
        upto = [x for x in cases[v["case"]] if True]
        sig = "C13:" + v["prop"] + ":" + b["kind"] + ":" + ",".join(
            st["a"] + ("(" + st.get("b", "") + ")" if "b" in st else "") for st in b["steps"])
        chk.violation(sig, f"{v['prop']} fails at operation {v['e']} of behaviour {sig}", [b] + upto)
        if len(chk.violations) >= 5:
            break
    if crashed and not chk.violations:
        b, sg = crashed
        sig = "C13:sanitizer:" + sg + ":" + (b["kind"] + ":" + ",".join(st["a"] for st in b["steps"]) if b else "")
        chk.violation(sig, "sanitizer report / abnormal exit while replaying a Task behaviour (no use-after-free clause): "
                      + "; ".join(r["sanitizer"][:3]) + " " + r["stderr"][-400:], [b] if b else None)
    chk.assumptions += ["single consumer: at most one then() per task family",
                        "single-threaded use (documented)",
                        "a continuation body never destroys the handle whose member function is executing"]
