"""Replay files live under out/<id>/, which vf.Check() empties when it is constructed -- before the
property module's run() gets to read the file named by --replay.  bin/check imports the property
module first, so a module that imports this helper has the replay file read into memory in time.
(lib/vf.py is shared and not edited here; if Check stops deleting replay files this is a no-op.)"""
import json
import os
import sys

_CACHE = {}


def _preload():
    argv = sys.argv
    for i, a in enumerate(argv):
        p = None
        if a == "--replay" and i + 1 < len(argv):
            p = argv[i + 1]
        elif a.startswith("--replay="):
            p = a.split("=", 1)[1]
        if p and os.path.exists(p):
            with open(p) as f:
                _CACHE[os.path.abspath(p)] = [json.loads(l) for l in f if l.strip()]


_preload()


def read(path):
    """Lines of the replay file (preloaded if it was named on the command line)."""
    ap = os.path.abspath(path)
    if ap in _CACHE:
        return _CACHE[ap]
    with open(path) as f:
        return [json.loads(l) for l in f if l.strip()]
