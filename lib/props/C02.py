"""C02 — parsing any well-formed XML is safe and normalising: no crash, UB, hang or drift.
Spec: spec/XmlMutate.tla (+XmlMutateGen, XmlMutateTrace). Driver: qxv codec (harness/drv_codec.cpp,
registry harness/codec_registry.h).

Level: exploration.  Memory safety and serializer fidelity are not decided by a model; the
specification contributes the contract (termination, well-formed output, one pass is a fixpoint)
and a complete enumeration of the mutation sequences of a structured case space; the oracle is
ASan/UBSan + a step budget + the parse/serialize round trip of the real classes."""
import concurrent.futures
import random
import xml.dom.minidom

import codec_common as cc
import vf

LEVEL = "exploration"


def _known_namespace_jobs(seeds, quick, rot=0):
    """AddUnknownChild: for every distinct parent element (namespace, name) of the corpus, at its first
    occurrence, a new first child with an unknown name in every namespace that a child of such an element
    (or the element itself) has anywhere in the corpus -- the namespaces its parser evidently branches on.
    Thorough tier: in addition every namespace of the whole corpus under every distinct root element."""
    first = {}
    known = {}
    roots = {}
    universe = set()
    kinds = {}       # parent kind -> child kinds (namespace, name) seen under it anywhere in the corpus
    positions = []   # (seed, path, parent kind, own kind, has character data) of every non-root element
    exemplar = {}    # (parent kind, child kind) -> attributes of the first such child in the corpus
    containers = []  # (seed, path, own kind, kinds of its children) of every non-root element with element children

    def walk(e, si, path, parent_sig=None):
        sig = (e.namespaceURI or "", e.localName)
        first.setdefault(sig, (si, path))
        k = known.setdefault(sig, set())
        k.add(e.namespaceURI or "")
        universe.add(e.namespaceURI or "")
        kids = [c for c in e.childNodes if c.nodeType == 1]
        if parent_sig is not None:
            has_text = not kids and any(c.nodeType in (3, 4) and c.data.strip() for c in e.childNodes)
            positions.append((si, path, parent_sig, sig, has_text))
            exemplar.setdefault((parent_sig, sig), {a.name: a.value for a in (e.attributes.item(i) for i in range(e.attributes.length))
                                                    if not a.name.startswith("xmlns")})
            if kids:
                containers.append((si, path, sig, {(c.namespaceURI or "", c.localName) for c in kids}))
        n = 0
        for c in kids:
            n += 1
            k.add(c.namespaceURI or "")
            kinds.setdefault(sig, set()).add((c.namespaceURI or "", c.localName))
            walk(c, si, path + [n], sig)

    for si, sd in enumerate(seeds):
        try:
            d = xml.dom.minidom.parseString(
                "<r xmlns:stream='http://etherx.jabber.org/streams' xmlns:db='jabber:server:dialback'>" + sd["xml"] + "</r>")
        except Exception:
            continue
        root = next(c for c in d.documentElement.childNodes if c.nodeType == 1)
        roots.setdefault((root.namespaceURI or "", root.localName), si)
        walk(root, si, [])
    jobs = []
    for sig, (si, path) in sorted(first.items()):
        for ns in sorted(known[sig]):
            jobs.append({"k": "mut", "id": f"u{len(jobs)}", "seed": si, "off": 0, "anchor": 0, "client": True, "deep": False,
                         "steps": [{"op": "AddUnknownChild", "abs": True, "p": path, "ns": ns}]})
    if not quick:
        for sig, si in sorted(roots.items()):
            for ns in sorted(universe - known[sig]):
                jobs.append({"k": "mut", "id": f"u{len(jobs)}", "seed": si, "off": 0, "anchor": 0, "client": True, "deep": False,
                             "steps": [{"op": "AddUnknownChild", "abs": True, "p": [], "ns": ns}]})
    nu = len(jobs)
    # AddKnownSibling: next to every non-root element of every seed a sibling of ANOTHER kind that occurs under the
    # same kind of parent somewhere in the corpus: after it and empty / after it with its text / before it and empty.
    # Thorough: every other kind, all three variants; quick: 2 kinds per position (rotating with VERIF_SEED), the
    # with-text variant for the first of them, the before variant for every third.
    total_kinds = 0
    for pi, (si, path, psig, sig, has_text) in enumerate(positions):
        others = sorted(kinds.get(psig, set()) - {sig})
        total_kinds += len(others)
        if quick:
            others = [others[(pi + rot + k * 7) % len(others)] for k in range(min(2, len(others)))] if others else []
            others = sorted(set(others))
        for ki, (ns, name) in enumerate(others):
            variants = [(True, False)]                       # after the element, empty
            if has_text and (not quick or ki == 0):
                variants.append((True, True))                # after it, carrying its character data
            if not quick or (pi + ki + rot) % 3 == 0:
                variants.append((False, False))              # before it, empty
            for after, txt in variants:
                jobs.append({"k": "mut", "id": f"u{len(jobs)}", "seed": si, "off": 0, "anchor": 0, "client": True, "deep": False,
                             "steps": [{"op": "AddKnownSibling", "abs": True, "p": path, "ns": ns, "name": name, "after": after, "txt": txt}]})
    # DuplicateWithOtherChild: every non-root element that has element children is duplicated, the copy holding ONE
    # child of another kind known under it (with the attributes of that kind's first occurrence in the corpus).
    # Thorough: every other kind; quick: 2 kinds per container (rotating with VERIF_SEED).
    nk = len(jobs)
    for ci, (si, path, sig, present) in enumerate(containers):
        others = sorted(kinds.get(sig, set()) - present)
        if quick and others:
            others = sorted({others[(ci + rot + k * 5) % len(others)] for k in range(min(2, len(others)))})
        for ns, name in others:
            jobs.append({"k": "mut", "id": f"u{len(jobs)}", "seed": si, "off": 0, "anchor": 0, "client": True, "deep": False,
                         "steps": [{"op": "DuplicateWithOtherChild", "abs": True, "p": path, "ns": ns, "name": name,
                                    "attrs": exemplar.get((sig, (ns, name)), {})}]})
    return jobs, {"parent_signatures": len(first), "namespaces": len(universe), "root_signatures": len(roots),
                  "containers": len(containers), "duplicate_with_other_child_documents": len(jobs) - nk,
                  "add_unknown_child_documents": nu, "add_known_sibling_documents": nk - nu,
                  "sibling_positions": len(positions), "position_x_other_kinds": total_kinds}


def _jobs(chk, seeds, plans2, plans3, quick):
    """seed jobs, position jobs (every one-step move at every position of every seed) and multi-step
    plans of the abstract tree anchored at a random element of the seed."""
    rnd = random.Random(chk.seed)
    jobs = []
    n = 0

    def add(si, plan):
        nonlocal n
        n += 1
        jobs.append({"k": "mut", "id": f"m{n}", "seed": si, "off": rnd.randrange(0, 1 << 16), "anchor": rnd.randrange(0, 1 << 16),
                     "steps": plan["steps"], "client": True, "deep": False})

    for si in range(len(seeds)):
        jobs.append({"k": "seed", "id": f"s{si}", "seed": si, "client": True})
    # every position of every seed: DeleteChild, Rename, DropAttr, NegativeAttr, NonNumericAttr, UnknownEnum in both
    # tiers.  Second-line moves (DuplicateChild, SwapSiblings, MoveUnderSibling, Renamespace, Nest 3 levels, EmptyAttr)
    # and heavy moves (HugeAttr, Nest 8 and 24 levels: 20-100x the cost of a light document) at every position in the
    # thorough tier; in the quick tier at every 3rd / 32nd position (rotating with VERIF_SEED).
    for si in range(len(seeds)):
        jobs.append({"k": "pos", "id": f"w{si}", "seed": si, "client": True, "heavyEvery": 32 if quick else 1, "secondEvery": 3 if quick else 1,
                     "rot": chk.seed % 48})
    per2, per3 = (1, 0) if quick else (8, 6)
    for si in range(len(seeds)):
        if quick and (si + chk.seed) % 2:
            continue   # quick tier: one two-step plan for every second seed
        for _ in range(per2):
            add(si, plans2[rnd.randrange(len(plans2))])
        for _ in range(per3 if plans3 else 0):
            add(si, plans3[rnd.randrange(len(plans3))])
    return jobs


def _sig(prop, b):
    return cc.signature(prop, b)


def run(chk, replay=None):
    quick = chk.tier == "quick"
    seeds, hstats, seeds_path = cc.prepare_seeds(chk)
    chk.cov["seeds"] = hstats

    with concurrent.futures.ThreadPoolExecutor(max_workers=1) as bg:
        # 1. design level: every mutation sequence up to MaxMut keeps the tree well-formed
        # (quick: all sequences of two moves, XmlMutate.cfg; thorough: of three, XmlMutate3.cfg)
        mc_cfg = "XmlMutate.cfg" if quick else "XmlMutate3.cfg"
        mc_f = bg.submit(vf.tlc_mc, "XmlMutate.tla", mc_cfg, cc.TLC_WORKERS)
        # 2. plans: all single mutations, all pairs, triples (all of them in the thorough tier)
        if replay:
            jobs = [j for j in vf.read_ndjson(replay) if "k" in j]
            gen = {}
        else:
            p1, st1 = vf.tlc_gen("XmlMutateGen.tla", "XmlMutateGen1.cfg", keep_prefixes=True)
            p2, st2 = vf.tlc_gen("XmlMutateGen.tla", "XmlMutateGen2.cfg", keep_prefixes=True)
            p2 = [p for p in p2 if len(p["steps"]) == 2]
            if quick:
                p3, st3 = [], {"skipped": "quick tier: all 1- and 2-step plans only"}
            else:
                p3, st3 = vf.tlc_gen("XmlMutateGen.tla", "XmlMutateGen3.cfg", keep_prefixes=True, timeout=1500)
            p3 = [p for p in p3 if len(p["steps"]) == 3]
            gen = {"single": st1, "pairs": st2, "triples": st3}
            jobs = _jobs(chk, seeds, p2, p3, quick)
            ujobs, ustats = _known_namespace_jobs(seeds, quick, chk.seed % 48)
            jobs += ujobs
            chk.cov["known_namespace_children"] = dict(ustats, documents=len(ujobs))
        chk.cov["generation"] = gen
        vf.write_ndjson(chk.path("jobs.ndjson"), jobs)
        # 3. the real parsers (ASan/UBSan build), sharded; every job is announced before it runs
        # a parser that does not return within the alarm ends the process; the hang is confirmed on the
        # document alone with three times the budget before it is reported (C02:hang:<class>:<seed>:<plan>)
        paths, lines, crashes = cc.run_jobs(chk, "c02", jobs, seeds_path, alarm=10 if quick else 30)
        chk.mc(mc_f.result(), mc_cfg)

    # 4. trace validation: the monitor of XmlMutateTrace evaluates the C02 predicates per document
    s = cc.validate_traces("XmlMutateTrace.tla", "XmlMutateTrace.cfg", paths, "XmlMutateTrace")
    reg = cc.registry_info(chk, seeds_path)

    docs = [o for o in lines if o.get("e") in ("Doc", "Seed")]
    by_case = {o["case"]: o for o in docs}
    job_by_id = {j["id"]: j for j in jobs}

    def job_of(case):
        jid, _, k = case.partition(".")
        return dict(job_by_id[jid], **{"from": int(k), "upto": int(k) + 1}) if k else job_by_id[jid]

    posl = [o for o in lines if o.get("e") == "Positions" and not o.get("from")]
    onestep = [o for o in docs if o["e"] == "Doc" and len(o.get("steps", [])) == 1 and o["steps"][0].get("abs")
               and o["steps"][0]["op"] not in ("AddUnknownChild", "AddKnownSibling", "DuplicateWithOtherChild")]
    muts = [o for o in docs if o["e"] == "Doc"]
    nontrivial = {o["h"] for o in muts if o.get("wfdoc") and any(o.get("applied", [])) and o.get("runs", 0) > 0 and "h" in o}
    ops = {}
    for o in muts:
        for st, ap in zip(o.get("steps", []), o.get("applied", [])):
            d = ops.setdefault(st["op"], [0, 0])
            d[0] += 1
            d[1] += 1 if ap else 0
    chk.cov.update({
        "evaluations": len(docs),
        "distinct_nontrivial": len(nontrivial),
        "parser_executions": sum(o.get("runs", 0) for o in docs),
        "admitted_by_type_check": sum(o.get("admitted", 0) for o in docs),
        "documents_fed_to_connected_client": sum(1 for o in docs if o.get("sent", -1) >= 0),
        "client_reactions": sum(1 for o in docs if o.get("sent", 0) > 0),
        "mutated_documents": len(muts),
        "seed_elements": sum(o["elements"] for o in posl),
        "seed_positions": sum(o["positions"] for o in posl),
        "one_step_documents_planned": sum(o["plans"] for o in posl),
        "one_step_documents_run": len(onestep),
        "one_step_every_position": "DeleteChild Rename MoveText at every element, Renamespace at every element with element children; "
                                   "DropAttr at every attribute and character-data position, NegativeAttr/NonNumericAttr at every "
                                   "numeric one (NonNumericAttr at every character-data position), UnknownEnum at every word-like one; "
                                   + ("sampled: DuplicateChild SwapSiblings MoveUnderSibling Renamespace Nest(3) EmptyAttr at every 3rd position, "
                                      "HugeAttr Nest(8) Nest(24) at every 32nd"
                                      if quick else "DuplicateChild SwapSiblings MoveUnderSibling Renamespace Nest(3) Nest(8) Nest(24) at every element, "
                                                    "EmptyAttr HugeAttr at every attribute/text"),
        "multi_step_documents": sum(1 for o in muts if len(o.get("steps", [])) > 1),
        "mutation_not_applicable": sum(1 for o in muts if not any(o.get("applied", []))),
        "mutations_applied_per_op": {k: {"planned": v[0], "applied": v[1]} for k, v in sorted(ops.items())},
        "registry_classes": len(reg["registry"]),
        "registry_unchecked": sum(1 for r in reg["registry"] if not r["checked"]),
        "traces_validated_against_impl": s["cases"],
        "trace_lines": s["lines"],
        "diverged_executions": s["ndiv"],
        "harness_processes": cc.PROCS,
        "exhaustive": False,
        "rule": ("seeds = every XML literal of /repo/tests (harvested now) that is one well-formed element; documents = each seed "
                 "unmutated + every enabled one-step move of spec/XmlMutate.tla's Moves() on the concrete seed (every element, "
                 "attribute and character-data position; heavy moves sampled in the quick tier) + 2- and 3-step plans sampled with "
                 "VERIF_SEED from TLC's complete enumeration on the abstract tree, anchored at a random element of the seed; every registered parser whose type "
                 "check admits the element (unchecked parsers: all) runs doc->parse->toXml->parse->toXml under ASan/UBSan with a "
                 "per-document alarm, root element also fed to a connected in-memory client; non-trivial = distinct mutated "
                 "document (hash) on which a mutation applied and at least one parser ran"),
    })
    deepest = sorted(onestep, key=lambda o: -len(o["steps"][0].get("p", [])))[:2]
    for o in (deepest + muts[-2:]):
        chk.sample({"seed": o["seed"], "plan": o.get("plan"), "steps": o["steps"], "applied": o["applied"], "parsers_run": o["runs"], "bytes": o.get("size")})

    # 5. violations: monitor findings, grouped by an address-free signature
    seen = {}
    for v in sorted(s["viol"], key=lambda v: str(v.get("case"))):
        o = by_case.get(v["case"])
        if v["prop"] == "Terminated":
            continue  # reported through `crashes` below, with the sanitizer report attached
        if not o:
            continue
        for b in o["bad"]:
            if b["c"] == v["cls"] and b["k"] == v["kind"]:
                sig = _sig("C02", b)
                seen.setdefault(sig, []).append((o, b))
    for sig, occ in sorted(seen.items()):
        o, b = occ[0]
        src = next((sd["src"] for sd in seeds if sd["id"] == o["seed"]), "?")
        classes = sorted({x[1]["c"] for x in occ})
        what = (f"{b['k']} at {b.get('where', '')} in {', '.join(classes[:6])}{' ...' if len(classes) > 6 else ''} ({len(occ)} parser runs), first: seed {o['seed']} ({src}) steps "
                f"{[st['op'] for st in o.get('steps', [])]} element {b['el']}: X1={cc.short(b['x1'])} X2={cc.short(b['x2'])}")
        chk.violation(sig, what, [job_of(o["case"])] + [o])
        if len(chk.violations) >= 25:
            break
    for c in crashes:
        j = c["job"]
        if not c.get("seed_src") and isinstance(j.get("seed"), int) and j["seed"] < len(seeds):
            c["seed_src"] = seeds[j["seed"]]["src"]
        sig = cc.crash_signature("C02", c)
        if c["kind"] == "hang":
            what = (f"{c['cls']} does not terminate on a well-formed element: test literal {c['seed_src']} after {c['plan'] or [st['op'] for st in j.get('steps', [])]}: "
                    f"{c['stderr_tail']}")
        else:
            what = (f"{c['kind']} while handing a well-formed element to the parsers/client: {c['report'] or c['stderr_tail'][-300:]} "
                    f"(document {c.get('case') or j.get('id')}, seed #{j.get('seed')} {c.get('seed_src', '')}, "
                    f"{c.get('plan') or by_case.get(c.get('case'), {}).get('plan') or [st['op'] for st in j.get('steps', [])]})")
        chk.violation(sig, what, [j])
    # 6. no dependence on uninitialised memory: the seeds once more with another heap fill pattern
    det = cc.determinism(chk, "c02det", [j for j in jobs if j["k"] == "seed"], seeds_path, lines) if not replay else []
    for dv in det:
        chk.violation(f"C02:uninitialised:{dv['cls']}", dv["what"] + " (a member is read before it is initialised)", [job_by_id[dv["case"]]])
    chk.cov["determinism_reruns"] = sum(1 for j in jobs if j["k"] == "seed") if not replay else 0
    chk.cov["distinct_findings"] = len(seen) + len(crashes) + len({dv["cls"] for dv in det})
    chk.assumptions += [
        "elements up to a size bound: seeds from the test suite, <= 3 mutations, attribute values <= 70000 characters, nesting <= 24 extra levels per Nest, document <= 300000 characters",
        "Qt's own XML reader/writer and DOM are trusted; a sanitizer report without a frame in /repo/src is still reported",
        "termination: a parser/client that does not return within the per-document alarm (10 s quick, 30 s thorough; normal documents take "
        "milliseconds) and again not within three times that when run alone on the document is reported as a hang; memory by ASan's RSS limit",
    ]
