"""C02 — parsing any well-formed XML is safe and normalising: no crash, UB, hang or drift.
Spec: spec/XmlMutate.tla (+XmlMutateGen, XmlMutateTrace). Driver: qxv codec (harness/drv_codec.cpp,
registry harness/codec_registry.h).

Level: exploration.  Memory safety and serializer fidelity are not decided by a model; the
specification contributes the contract (termination, well-formed output, one pass is a fixpoint)
and a complete enumeration of the mutation sequences of a structured case space; the oracle is
ASan/UBSan + a step budget + the parse/serialize round trip of the real classes."""
import concurrent.futures
import random

import codec_common as cc
import vf

LEVEL = "exploration"


def _jobs(chk, seeds, plans1, plans2, plans3, quick):
    rnd = random.Random(chk.seed)
    jobs = []
    n = 0

    def add(si, plan, deep=False):
        nonlocal n
        n += 1
        jobs.append({"k": "mut", "id": f"m{n}", "seed": si, "off": rnd.randrange(0, 1 << 16), "steps": plan["steps"],
                     "client": True, "deep": deep})

    for si in range(len(seeds)):
        jobs.append({"k": "seed", "id": f"s{si}", "seed": si, "client": True})
    if quick:
        per1, per2, per3 = 3, 2, 0
    else:
        per1, per2, per3 = len(plans1), 8, 6
    for si in range(len(seeds)):
        # every single mutation is applied to every seed in the thorough tier; in the quick tier the
        # 49 single mutations rotate over the seeds (each is applied to ~ len(seeds)*5/49 seeds)
        for k in range(per1):
            add(si, plans1[(si * per1 + k) % len(plans1)], deep=(k == 0))
        for _ in range(per2):
            add(si, plans2[rnd.randrange(len(plans2))])
        for _ in range(per3 if plans3 else 0):
            add(si, plans3[rnd.randrange(len(plans3))])
    return jobs


def _sig(prop, b):
    return cc.signature(prop, b)


def run(chk, replay=None):
    quick = chk.tier == "quick"
    seeds, hstats, seeds_path = cc.prepare_seeds(chk)
    chk.cov["seeds"] = hstats

    with concurrent.futures.ThreadPoolExecutor(max_workers=1) as bg:
        # 1. design level: every mutation sequence up to MaxMut keeps the tree well-formed
        mc_f = bg.submit(vf.tlc_mc, "XmlMutate.tla", "XmlMutate.cfg", cc.PROCS)
        # 2. plans: all single mutations, all pairs, triples (all of them in the thorough tier)
        if replay:
            jobs = [j for j in vf.read_ndjson(replay) if "k" in j]
            gen = {}
        else:
            p1, st1 = vf.tlc_gen("XmlMutateGen.tla", "XmlMutateGen1.cfg", keep_prefixes=True)
            p2, st2 = vf.tlc_gen("XmlMutateGen.tla", "XmlMutateGen2.cfg", keep_prefixes=True)
            p2 = [p for p in p2 if len(p["steps"]) == 2]
            if quick:
                p3, st3 = [], {"skipped": "quick tier: all 1- and 2-step plans only"}
            else:
                p3, st3 = vf.tlc_gen("XmlMutateGen.tla", "XmlMutateGen3.cfg", keep_prefixes=True, timeout=1500)
            p3 = [p for p in p3 if len(p["steps"]) == 3]
            gen = {"single": st1, "pairs": st2, "triples": st3}
            jobs = _jobs(chk, seeds, p1, p2, p3, quick)
        chk.cov["generation"] = gen
        vf.write_ndjson(chk.path("jobs.ndjson"), jobs)
        # 3. the real parsers (ASan/UBSan build), sharded; every job is announced before it runs
        paths, lines, crashes = cc.run_jobs(chk, "c02", jobs, seeds_path, alarm=90)
        chk.mc(mc_f.result(), "XmlMutate.cfg")

    # 4. trace validation: the monitor of XmlMutateTrace evaluates the C02 predicates per document
    s = cc.validate_traces("XmlMutateTrace.tla", "XmlMutateTrace.cfg", paths, "XmlMutateTrace")
    reg = cc.registry_info(chk, seeds_path)

    docs = [o for o in lines if o.get("e") in ("Doc", "Seed")]
    by_case = {o["case"]: o for o in docs}
    job_by_id = {j["id"]: j for j in jobs}
    muts = [o for o in docs if o["e"] == "Doc"]
    nontrivial = {o["h"] for o in muts if o.get("wfdoc") and any(o.get("applied", [])) and o.get("runs", 0) > 0 and "h" in o}
    ops = {}
    for o in muts:
        for st, ap in zip(o.get("steps", []), o.get("applied", [])):
            d = ops.setdefault(st["op"], [0, 0])
            d[0] += 1
            d[1] += 1 if ap else 0
    chk.cov.update({
        "evaluations": len(docs),
        "distinct_nontrivial": len(nontrivial),
        "parser_executions": sum(o.get("runs", 0) for o in docs),
        "admitted_by_type_check": sum(o.get("admitted", 0) for o in docs),
        "documents_fed_to_connected_client": sum(1 for o in docs if o.get("sent", -1) >= 0),
        "client_reactions": sum(1 for o in docs if o.get("sent", 0) > 0),
        "mutated_documents": len(muts),
        "mutation_not_applicable": sum(1 for o in muts if not any(o.get("applied", []))),
        "mutations_applied_per_op": {k: {"planned": v[0], "applied": v[1]} for k, v in sorted(ops.items())},
        "registry_classes": len(reg["registry"]),
        "registry_unchecked": sum(1 for r in reg["registry"] if not r["checked"]),
        "traces_validated_against_impl": s["cases"],
        "trace_lines": s["lines"],
        "diverged_executions": s["ndiv"],
        "harness_processes": cc.PROCS,
        "exhaustive": False,
        "rule": ("seeds = every XML literal of /repo/tests (harvested now) that is one well-formed element; documents = each seed "
                 "unmutated + mutation plans from TLC's enumeration of spec/XmlMutate.tla (all 1-step plans; 2- and 3-step plans "
                 "sampled with VERIF_SEED from the complete enumeration) mapped onto the seed; every registered parser whose type "
                 "check admits the element (unchecked parsers: all) runs doc->parse->toXml->parse->toXml under ASan/UBSan with a "
                 "per-document alarm, root element also fed to a connected in-memory client; non-trivial = distinct mutated "
                 "document (hash) on which a mutation applied and at least one parser ran"),
    })
    for o in (muts[:2] + muts[-2:]):
        chk.sample({"seed": o["seed"], "steps": o["steps"], "applied": o["applied"], "parsers_run": o["runs"], "bytes": o.get("size")})

    # 5. violations: monitor findings, grouped by an address-free signature
    seen = {}
    for v in sorted(s["viol"], key=lambda v: str(v.get("case"))):
        o = by_case.get(v["case"])
        if v["prop"] == "Terminated":
            continue  # reported through `crashes` below, with the sanitizer report attached
        if not o:
            continue
        for b in o["bad"]:
            if b["c"] == v["cls"] and b["k"] == v["kind"]:
                sig = _sig("C02", b)
                seen.setdefault(sig, []).append((o, b))
    for sig, occ in sorted(seen.items()):
        o, b = occ[0]
        src = next((sd["src"] for sd in seeds if sd["id"] == o["seed"]), "?")
        classes = sorted({x[1]["c"] for x in occ})
        what = (f"{b['k']} at {b.get('where', '')} in {', '.join(classes[:6])}{' ...' if len(classes) > 6 else ''} ({len(occ)} parser runs), first: seed {o['seed']} ({src}) steps "
                f"{[st['op'] for st in o.get('steps', [])]} element {b['el']}: X1={cc.short(b['x1'])} X2={cc.short(b['x2'])}")
        chk.violation(sig, what, [job_by_id[o["case"]]] + [o])
        if len(chk.violations) >= 25:
            break
    for c in crashes:
        sig = cc.crash_signature("C02", c)
        j = c["job"]
        chk.violation(sig, f"{c['kind']} while handing a well-formed element to the parsers/client: {c['report'] or c['stderr_tail'][-300:]} "
                           f"(job {j.get('id')}, seed #{j.get('seed')}, steps {[st['op'] for st in j.get('steps', [])]})", [j])
    # 6. no dependence on uninitialised memory: the seeds once more with another heap fill pattern
    det = cc.determinism(chk, "c02det", [j for j in jobs if j["k"] == "seed"], seeds_path, lines) if not replay else []
    for dv in det:
        chk.violation(f"C02:uninitialised:{dv['cls']}", dv["what"] + " (a member is read before it is initialised)", [job_by_id[dv["case"]]])
    chk.cov["determinism_reruns"] = sum(1 for j in jobs if j["k"] == "seed") if not replay else 0
    chk.cov["distinct_findings"] = len(seen) + len(crashes) + len({dv["cls"] for dv in det})
    chk.assumptions += [
        "elements up to a size bound: seeds from the test suite, <= 3 mutations, attribute values <= 70000 characters, nesting <= 24 extra levels per Nest, document <= 300000 characters",
        "Qt's own XML reader/writer and DOM are trusted; a sanitizer report without a frame in /repo/src is still reported",
        "resource use is bounded by a per-document alarm and an RSS limit, not measured precisely",
    ]
