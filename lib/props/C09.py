"""C09 — stream management: a stanza is confirmed only when acked, else resent, in order; h = stanzas received.
Spec: spec/StreamMgmt.tla (+StreamMgmtGen, StreamMgmtTrace). Driver: qxv sm (real QXmppClient over loopback)."""
import collections
import concurrent.futures
import os
import random
import shutil

import vf

LEVEL = "model_checking"
WORKERS = 4     # TLC workers / parallel replay chunks (shared machine)
CHUNK = 1500
ACTIONS = ["SendStanza", "SendIqRequest", "SendNonza", "Ack", "Req", "RecvStanza", "RecvIqResponse", "RecvIqGet", "RecvNonza",
           "Loss", "Reconnect", "ResumeOk", "ResumeFail", "EnableOk", "EnableFail", "Destroy"]


def edge_cover(edges, seed, maxlen=40):
    """Paths from the initial state of the labelled state graph that together take every transition
    at least once.  Destroy is terminal and enabled in every state: it is not a target of the cover
    (every replayed path ends with the client being destroyed anyway); the caller measures which
    Destroy transitions were taken.  Returns (paths as lists of action records, stats)."""
    rnd = random.Random(seed)
    out = collections.defaultdict(list)     # node -> [(edge index)]
    E = []
    seen = set()
    init = None
    for e in edges:
        key = (e["s"], vf._canon(e["a"]), e["t"])
        if key in seen:
            continue
        seen.add(key)
        E.append((e["s"], e["a"], e["t"]))
        out[e["s"]].append(len(E) - 1)
        if e["d"] == 1 and init is None:
            init = e["s"]
    todo = set(i for i, e in enumerate(E) if e[1]["a"] != "Destroy")
    n_destroy = len(E) - len(todo)
    # BFS tree from init: shortest prefix to every node
    parent = {init: None}
    q = collections.deque([init])
    while q:
        u = q.popleft()
        for i in out[u]:
            v = E[i][2]
            if v not in parent:
                parent[v] = i
                q.append(v)

    def prefix(node):
        p = []
        while parent[node] is not None:
            i = parent[node]
            p.append(i)
            node = E[i][0]
        return p[::-1]

    def nearest_uncovered(node, radius=4):
        """shortest edge sequence (<= radius) from node to a state that has an uncovered out-edge"""
        par = {node: None}
        dq = collections.deque([(node, 0)])
        while dq:
            u, d = dq.popleft()
            if d and any(i in todo for i in out[u]):
                p = []
                while par[u] is not None:
                    p.append(par[u])
                    u = E[par[u]][0]
                return p[::-1]
            if d < radius:
                for i in out[u]:
                    v = E[i][2]
                    if v not in par and E[i][1]["a"] != "Destroy":
                        par[v] = i
                        dq.append((v, d + 1))
        return None

    paths = []
    order = sorted(todo, key=lambda i: len(prefix(E[i][0])))
    for start in order:
        if start not in todo:
            continue
        p = prefix(E[start][0]) + [start]
        todo.discard(start)
        for i in p:
            todo.discard(i)
        node = E[start][2]
        while len(p) < maxlen:
            cand = [i for i in out[node] if i in todo]
            if cand:
                # prefer edges that move on over self-loops so that loops are taken last
                mv = [i for i in cand if E[i][2] != node]
                i = rnd.choice(mv or cand)
                p.append(i)
                todo.discard(i)
                node = E[i][2]
                continue
            hop = nearest_uncovered(node)
            if not hop or len(p) + len(hop) >= maxlen:
                break
            for i in hop:
                p.append(i)
                todo.discard(i)
            node = E[hop[-1]][2]
        paths.append(p)
    ends = set(E[p[-1]][2] for p in paths)
    stats = {"transitions_in_model": len(E), "destroy_transitions": n_destroy,
             "transitions_covered_by_paths": len(set(i for p in paths for i in p)) ,
             "destroy_transitions_taken_at_path_ends": len(ends),
             "paths": len(paths), "steps": sum(len(p) for p in paths)}
    return [{"steps": [E[i][1] for i in p]} for p in paths], stats


def sig_of(steps):
    def one(st):
        a = st["a"]
        if "h" in st:
            return f"{a}({st['h']})"
        if "i" in st:
            return f"{a}({st['i']})"
        if "sm" in st:
            return f"{a}({'sm' if st['sm'] else 'nosm'})"
        return a
    return ",".join(one(st) for st in steps)


def failing(chk, behs, tag):
    """Replay behaviours; returns [(k, prop, behaviour, trace lines)] for the executions the monitor flags
    (k = 1-based index of the first failing step)."""
    bp, trace = chk.path(f"behaviours-{tag}.ndjson"), chk.path(f"trace-{tag}.ndjson")
    vf.write_ndjson(bp, behs)
    r = vf.qxv("sm", trace, in_path=bp, seed=chk.seed, tier=chk.tier, check=False, opts={"raw": 1, "probe": 1})
    vf.repair_truncated(trace)
    cases = vf.split_cases(trace)
    if r["sanitizer"] or r["rc"] != 0 or not behs:
        return []
    sx = vf.tlc_trace("StreamMgmtTrace.tla", "StreamMgmtTrace.cfg", trace, tag=f"StreamMgmtTrace-{tag}", heap="3g")
    names = list(cases)
    res, seen = [], set()
    for v in sorted(sx["viol"], key=lambda v: v["line"]):
        if v["case"] in seen:
            continue
        seen.add(v["case"])
        k = v["line"] - (sum(len(cases[c]) for c in names[:names.index(v["case"])]) + 1)
        res.append((k, v["prop"], behs[int(v["case"][1:]) - 1], cases[v["case"]]))
    return res


def minimise(chk, b, prop, k):
    """Shrink a violating behaviour: cut after the failing step, then drop single steps while the same
    predicate still fails (each round = one harness run + one monitor run).  Gives short, stable signatures."""
    cur = {"steps": b["steps"][:k]}
    for rnd in range(25):
        cands = [{"steps": cur["steps"][:i] + cur["steps"][i + 1:]} for i in range(len(cur["steps"]))]
        hits = [(kk, c) for kk, p, c, _ in failing(chk, cands, f"min{rnd}") if p == prop]
        if not hits:
            break
        kk, c = min(hits, key=lambda h: (h[0], vf._canon(h[1])))
        cur = {"steps": c["steps"][:kk]}
    return cur


def run(chk, replay=None):
    quick = chk.tier == "quick"
    # 1. design level: exhaustive model check of the accounting + session machine
    chk.mc(vf.tlc_mc("StreamMgmt.tla", "StreamMgmt.cfg" if quick else "StreamMgmtBig.cfg", workers=WORKERS), "StreamMgmt")
    # 2. behaviours
    if replay:
        behs = [b for b in vf.read_ndjson(replay) if "steps" in b]
    else:
        shutil.rmtree(os.path.join(vf.OUT, "C09-replay"), ignore_errors=True)
        edges, st0 = vf.tlc_gen("StreamMgmtGen.tla", "StreamMgmtGenEdges.cfg" if quick else "StreamMgmtGenEdgesBig.cfg",
                                steps_key=None, keep_prefixes=True)
        tour, st1 = edge_cover(edges, chk.seed)
        st1["tlc"] = st0
        allp, st2 = vf.tlc_gen("StreamMgmtGen.tla", "StreamMgmtGenAll.cfg" if quick else "StreamMgmtGenAllBig.cfg")
        # TLC -simulate evaluates the emitter on every candidate successor, so the export holds the walks and all
        # their one-step side branches: a seeded sample of the longest ones is replayed
        sim, st3 = vf.tlc_simulate("StreamMgmtGen.tla", "StreamMgmtGenSim.cfg", num=40 if quick else 400,
                                   depth=40 if quick else 80, seed=chk.seed, workers=WORKERS)
        rnd = random.Random(chk.seed)
        sim.sort(key=lambda b: (-len(b["steps"]), vf._canon(b)))
        keep = 300 if quick else 3000
        sim = sim[:keep // 2] + rnd.sample(sim[keep // 2:], min(keep // 2, max(0, len(sim) - keep // 2)))
        st3["replayed"] = len(sim)
        st3["max_depth"] = max([len(b["steps"]) for b in sim] or [0])
        behs = vf.maximal_behaviours(tour + allp + sim)
        chk.cov["generation"] = {"transition_tour": st1, "all_paths": st2, "simulate": st3}
    vf.write_ndjson(chk.path("behaviours.ndjson"), behs)
    # 3. replay on the real client over loopback (ASan/UBSan build), 4. trace validation; in chunks, 4 at a time
    nch = WORKERS * max(1, -(-len(behs) // (WORKERS * CHUNK))) if len(behs) >= WORKERS else 1     # a multiple of the pool size
    per = max(1, -(-len(behs) // nch))
    chunks = [behs[i:i + per] for i in range(0, len(behs), per)] or [[]]

    def one(ci):
        bp = chk.path(f"behaviours-{ci}.ndjson")
        trace = chk.path(f"trace-{ci}.ndjson")
        vf.write_ndjson(bp, chunks[ci])
        r = vf.qxv("sm", trace, in_path=bp, seed=chk.seed, tier=chk.tier, check=False,
                   opts={"raw": 1, "probe": 1} if replay else {"probe": 1})
        vf.repair_truncated(trace)
        cases = vf.split_cases(trace)
        if r["sanitizer"] or r["rc"] != 0:
            last = list(cases)[-1] if cases else None
            b = chunks[ci][int(last[1:]) - 1] if last else None
            raise vf.MachineryError("qxv sm failed (" + vf.san_signature(r) + ") while replaying " + (sig_of(b["steps"]) if b else "?")
                                    + ": " + "; ".join(r["sanitizer"][:3]) + " " + r["stderr"][-1500:])
        s = vf.tlc_trace("StreamMgmtTrace.tla", "StreamMgmtTrace.cfg", trace, tag=f"StreamMgmtTrace-{ci}", heap="3g")
        return r, cases, s

    with concurrent.futures.ThreadPoolExecutor(max_workers=WORKERS) as ex:
        results = list(ex.map(one, range(len(chunks))))
    lines = [x for _, cases, _ in results for c in cases.values() for x in c]
    wire_bad = sum(1 for x in lines if "o" in x and not x["o"].get("wire", True))
    if wire_bad:
        raise vf.MachineryError(f"{wire_bad} steps where the client's SentMessage log and the bytes at the peer disagree")
    s = {"cases": sum(x["cases"] for _, _, x in results), "lines": sum(x["lines"] for _, _, x in results),
         "ndiv": sum(x["ndiv"] for _, _, x in results), "nfail": sum(x["nfail"] for _, _, x in results),
         "divs": [d for _, _, x in results for d in x["divs"]],
         "wall_s": round(sum(x["wall_s"] for _, _, x in results), 2)}
    r = {"wall_s": round(sum(x["wall_s"] for x, _, _ in results), 2)}
    chk.cov["traces_validated_against_impl"] = s["cases"]
    chk.cov["trace_lines"] = s["lines"]
    chk.cov["steps_replayed"] = sum(1 for x in lines if x.get("e") not in ("Reset", "HarnessFailure", "Crash"))
    chk.cov["actions_replayed"] = dict(collections.Counter(x["e"] for x in lines if x.get("e") != "Reset"))
    if not replay:
        missing = [a for a in ACTIONS if not chk.cov["actions_replayed"].get(a)]
        if missing:      # vacuity guard: every action of the specification must have been driven on the real client
            raise vf.MachineryError("actions never replayed: " + ",".join(missing))
    chk.cov["diverged_executions"] = s["ndiv"]
    chk.cov["first_divergences"] = s["divs"][:3]
    chk.cov["steps_not_completed"] = s["nfail"]
    chk.cov["replay_wall_s"] = r["wall_s"]
    chk.cov["trace_validation_wall_s"] = s["wall_s"]
    chk.cov["exhaustive"] = True
    chk.cov["rule"] = ("behaviours = a path cover of every transition of the bounded StreamMgmt model (Destroy only at path ends) "
                       "+ all action sequences up to the all-paths depth + seeded random walks (TLC -simulate); every behaviour is followed by "
                       "a probe of model actions (Req; Loss; Reconnect(sm); ResumeOk(0)) that exposes the handled count and the "
                       "unacknowledged queue before the client is destroyed; each replayed on "
                       "a real QXmppClient connected over loopback TCP to a scripted server (ASan/UBSan build) and validated by "
                       "StreamMgmtTrace.tla: the monitor derives covered / expected resend list / expected h from the script's "
                       "moves and the wire only and judges every send-task report, every resend and every <a h/>, <resume h/>")
    if s["nfail"]:
        chk.note(f"{s['nfail']} executions ended early: the hang detector fired (client stopped responding to the script)")
    for b in behs[:1] + behs[len(behs) // 2:len(behs) // 2 + 1] + behs[-2:]:
        chk.sample(b)
    found = []
    for ci, (_, cases, sx) in enumerate(results):
        seen = set()
        names = list(cases)
        for v in sorted(sx["viol"], key=lambda v: v["line"]):
            if v["case"] in seen:
                continue
            seen.add(v["case"])
            b = chunks[ci][int(v["case"][1:]) - 1]
            mine = cases[v["case"]]
            k = v["line"] - (sum(len(cases[c]) for c in names[:names.index(v["case"])]) + 1)   # failing step, 1-based
            sig = "C09:" + v["prop"] + ":" + sig_of([dict(x, a=x["e"]) for x in mine[1:k + 1]])
            found.append((k, sig, v, b, mine))
    chk.cov["violating_executions"] = len(found)
    chk.cov["violated_predicates"] = dict(collections.Counter(f[2]["prop"] for f in found))
    done = set()
    for k, sig, v, b, mine in sorted(found, key=lambda f: (f[0], f[1])):      # per predicate: the shortest history, minimised
        if v["prop"] in done:
            continue
        done.add(v["prop"])
        # confirmed re-run (nothing here depends on timing; a finding that does not repeat is a harness problem, not a violation)
        if not [f for f in failing(chk, [b], "rerun") if f[1] == v["prop"]]:
            chk.note(f"unconfirmed: {sig} did not repeat on re-run; not reported")
            chk.cov["unconfirmed"] = chk.cov.get("unconfirmed", 0) + 1
            continue
        small = minimise(chk, b, v["prop"], k)
        again = [f for f in failing(chk, [small], "confirm") if f[1] == v["prop"]]
        if again:
            k, _, b, mine = again[0]
            sig = "C09:" + v["prop"] + ":" + sig_of([dict(x, a=x["e"]) for x in mine[1:k + 1]])
        # replay files live outside out/C09 (which every run wipes on start), so the printed path can be fed to --replay
        rp = os.path.join(vf.OUT, "C09-replay", f"violation-{len(chk.violations) + 1}.ndjson")
        vf.write_ndjson(rp, [b] + mine)
        chk.violation(sig, f"{v['prop']} fails at step {k} ({mine[k]['e']}) of {sig_of(b['steps'])}; "
                      f"observed: {vf._canon(mine[k].get('o'))}", replay_path=rp)
    chk.assumptions += [
        "the scripted server is honest in framing and negotiation; only its h values are arbitrary (stale, exact, beyond)",
        "h wrap-around at 2^32 is out of scope (TLC integers are 32 bit; counters stay small)",
        "reports of stanzas the library sends itself (initial presence) are not observable; their wire behaviour is",
        "a stanza sent while stream management is not active (negotiation, session without SM, offline) is outside the "
        "property: written at once / reported without acknowledgement (named deviations SendDuringNegotiation, NewSessionNoSm)",
    ]
