"""C19 — a file transfer reported successful delivered exactly the bytes that were sent.
Spec: spec/Ibb.tla (+IbbGen, IbbTrace). Driver: qxv ibb (two real QXmppTransferManagers, in-band
method, the harness is the network and applies the behaviour's fault to the block sequence)."""
import collections
import os
import random
import shutil

import vf

LEVEL = "model_checking"

REAL_BS = 4096          # the library's sender always proposes 4096 (not configurable at this commit)
SCRIPT_BS = [1, 2, 3, 7, 64, 1000, 4095, 4096]
STREAM_FAULTS = ["Lose", "Drop", "Dup", "Flip", "WrongSid", "WrongFrom", "Swap", "EarlyClose"]
SETUP = [{"a": "Offer"}, {"a": "RDeliver"}, {"a": "SDeliver"}, {"a": "RDeliver"}, {"a": "SDeliver"}]


def sizes_for(n, bs, pick):
    """A file of n blocks of bs bytes: last block 1 byte, all but one byte, or full."""
    if n == 0:
        return 0
    cands = sorted({(n - 1) * bs + 1, n * bs - 1, n * bs} - {(n - 1) * bs})
    cands = [c for c in cands if (c + bs - 1) // bs == n and c > 0]
    return cands[pick % len(cands)]


def concretise(behs, rnd, script_share):
    """Model behaviour (n blocks, steps) -> executions: block size, size in bytes, content seed, who sends."""
    out = []
    for i, b in enumerate(behs):
        n = b["n"]
        out.append(dict(b, sender="real", bs=REAL_BS, size=sizes_for(n, REAL_BS, i), cseed=rnd.getrandbits(40)))
        if rnd.random() < script_share:
            bs = SCRIPT_BS[rnd.randrange(len(SCRIPT_BS))]
            out.append(dict(b, sender="script", bs=bs, size=sizes_for(n, bs, rnd.randrange(3)), cseed=rnd.getrandbits(40)))
    return out


OTHER_ANNS = ["size", "hash", "none"]     # besides "both": what the offer announces about the file


def announcements(one_fault, rnd, quick):
    """Offers that do not announce size and hash (sendFile(jid, device, fileInfo) with the fields of the
    QXmppTransferFileInfo left unset: generated data; a size of 0 means 'unknown' in this code base).
    Fault-free: the size sweep, real sender and scripted sender, for each announcement.  One stream
    fault: every path of the one-fault model, real sender, with only the size or only the hash announced
    (thorough: also with nothing announced, where only the model's prediction is compared)."""
    out = []
    for ann in OTHER_ANNS:
        for size in [0, 1, 2, REAL_BS - 1, REAL_BS, REAL_BS + 1, 2 * REAL_BS - 1, 2 * REAL_BS, 2 * REAL_BS + 1, 3 * REAL_BS,
                     7 * REAL_BS + 5]:
            out.append({"n": (size + REAL_BS - 1) // REAL_BS, "steps": [{"a": "Offer"}], "sender": "real", "bs": REAL_BS,
                        "size": size, "ann": ann, "cseed": rnd.getrandbits(40), "kind": "sweep"})
        for bs in ([1, 3, 1000] if quick else [1, 2, 3, 16, 1000, 4095, 4096]):
            for size in [0, 1, bs - 1, bs, bs + 1, 2 * bs, 3 * bs + 1]:
                out.append({"n": (size + bs - 1) // bs, "steps": [{"a": "Offer"}], "sender": "script", "bs": bs,
                            "size": size, "ann": ann, "cseed": rnd.getrandbits(40), "kind": "sweep"})
    nsweep = len(out)
    for ann in (["size", "hash"] if quick else OTHER_ANNS):
        for i, b in enumerate(one_fault):
            if quick and b["n"] > 4:
                continue
            out.append(dict(b, sender="real", bs=REAL_BS, size=sizes_for(b["n"], REAL_BS, i), ann=ann, cseed=rnd.getrandbits(40)))
    return out, nsweep


DEV_CLAIMED = {"short": ("both", "size"), "fail": ("both", "size", "hash")}


def device_execs(rnd, quick):
    """The receiving application's output device misbehaves at its devAt-th write: accepts all but the last byte
    of the block without an error ("short") or fails ("fail").  Fault-free stream, real sender and receiver, for the
    announcements that can notice (short: an announced size; fail: size or hash).  With less announced an unannounced
    transfer cannot notice -- not claimed (thorough runs them too: only the model's prediction is compared)."""
    out = []
    for dev in ("short", "fail"):
        for ann in (DEV_CLAIMED[dev] if quick else ("both", "size", "hash", "none")):
            for size, at in ([(1, 1), (REAL_BS, 1), (2 * REAL_BS + 1, 2), (3 * REAL_BS, 3)] if quick else
                             [(1, 1), (2, 1), (REAL_BS, 1), (REAL_BS + 1, 2), (2 * REAL_BS + 1, 1), (2 * REAL_BS + 1, 2), (2 * REAL_BS + 1, 3),
                              (3 * REAL_BS, 3), (7 * REAL_BS + 5, 4), (7 * REAL_BS + 5, 8)]):
                out.append({"n": (size + REAL_BS - 1) // REAL_BS, "steps": [{"a": "Offer"}], "sender": "real", "bs": REAL_BS,
                            "size": size, "ann": ann, "dev": dev, "devAt": at, "cseed": rnd.getrandbits(40), "kind": "device"})
            for bs, size, at in ([(3, 7, 2)] if quick else [(1, 4, 4), (3, 7, 2), (1000, 2500, 3)]):
                out.append({"n": (size + bs - 1) // bs, "steps": [{"a": "Offer"}], "sender": "script", "bs": bs,
                            "size": size, "ann": ann, "dev": dev, "devAt": at, "cseed": rnd.getrandbits(40), "kind": "device"})
    return out


ACCEPT_PATH = ["new", "shorter", "longer", "same"]     # accept(filePath): destination absent / holds an older file


def accept_execs(chk, rnd, quick, socks):
    """The receiving application accepts with accept(filePath) instead of accept(QIODevice*): the destination does not
    exist, or already holds an older file that is shorter, longer (7000 bytes more) or of the same size.  Fault-free;
    the oracle reads the file back from disk: success => the destination holds exactly the sent bytes."""
    out = []
    sizes = ([0, 1, 3000] if socks else [0, 1, 3000, REAL_BS + 1]) if quick else \
        ([0, 1, 3000, 40000] if socks else [0, 1, 3000, REAL_BS, REAL_BS + 1, 3 * REAL_BS + 7])
    for how in ACCEPT_PATH:
        for ann in (("both",) if quick else ("both", "none")):
            for size in sizes:
                dest = chk.path(f"dest-{'s5' if socks else 'ibb'}-{len(out)}.bin")
                if socks:
                    out.append({"size": size, "ann": ann, "accept": how, "dest": dest, "cseed": rnd.getrandbits(40), "kind": "accept"})
                else:
                    out.append({"n": (size + REAL_BS - 1) // REAL_BS, "steps": [{"a": "Offer"}], "sender": "real", "bs": REAL_BS,
                                "size": size, "ann": ann, "accept": how, "dest": dest, "cseed": rnd.getrandbits(40), "kind": "accept"})
    return out


def sweep(rnd, quick):
    """Fault-free transfers, sizes around block boundaries x block sizes (drained by the harness)."""
    out = []

    def add(sender, bs, size):
        if size >= 0:
            out.append({"n": (size + bs - 1) // bs, "steps": [{"a": "Offer"}], "sender": sender, "bs": bs, "size": size,
                        "cseed": rnd.getrandbits(40), "kind": "sweep"})
    for bs in [REAL_BS]:
        for size in [0, 1, 2, bs - 1, bs, bs + 1, 2 * bs - 1, 2 * bs, 2 * bs + 1, 3 * bs, 7 * bs + 5, 16 * bs]:
            add("real", bs, size)
    for bs in ([1, 2, 3, 16, 1000, 4095, 4096] if quick else [1, 2, 3, 4, 5, 7, 16, 100, 255, 256, 1000, 1024, 2048, 4095, 4096]):
        for size in [0, 1, bs - 1, bs, bs + 1, 2 * bs - 1, 2 * bs, 2 * bs + 1, 3 * bs, 9 * bs + 1]:
            add("script", bs, size)
    if not quick:
        for _ in range(300):
            bs = rnd.choice([1, 2, 3, 5, 64, 999, 4096])
            add("script", bs, rnd.randrange(0, 40 * bs))
        for _ in range(60):
            add("real", REAL_BS, rnd.randrange(0, 40 * REAL_BS))
    return out


def long_cases(rnd, quick):
    """Transfers of about 65536 blocks (wrap of the 16-bit block counter) and faults next to the wrap."""
    out = []

    def add(sender, bs, nblocks, tail=(), burst=None):
        k = (nblocks - 1) if burst is None else burst
        steps = list(SETUP) + ([{"a": "Burst", "k": k}] if k > 0 else []) + list(tail)
        out.append({"n": nblocks, "steps": steps, "sender": sender, "bs": bs, "size": nblocks * bs,
                    "cseed": rnd.getrandbits(40), "kind": "long"})
    add("script", 1, 65537)
    if quick:
        return out
    add("script", 1, 65536)
    add("script", 2, 65538)
    add("script", 3, 131075)           # wraps twice
    add("real", REAL_BS, 65536)
    add("real", REAL_BS, 65537)
    # one fault at the blocks around the wrap: block 65536 has seq 65535, block 65537 seq 0
    # (sequence-related kinds at both, the others at one of them)
    for i, k in enumerate(STREAM_FAULTS):
        for at in ((65536, 65537) if k in ("Dup", "Drop", "Swap") else (65536 + i % 2,)):
            add("script", 1, 65540, tail=[{"a": "Fault", "k": k}], burst=at - 1)
    for w in ("from", "sid"):
        add("script", 1, 65540, tail=[{"a": "Inject", "w": w}], burst=65536)
    return out


S5_SWEEP_QUICK = [16384, 32769, 300007]          # one socket block, two blocks + 1, many reads
S5_SWEEP_THOROUGH = [1000, 16383, 16384, 16385, 32767, 32768, 32769, 65536, 262144, 300007, 1048583, 3145728]
S5_UNITS_QUICK = [1000]
S5_UNITS_THOROUGH = [1, 1000, 20000]     # 20000 > the jobs' 16384-byte socket block


def s5_classes(behs):
    """One model behaviour per class (file size in units, fault kind, unit hit): the sockets decide the interleaving."""
    cl = {}
    for b in behs:
        f = [s for s in b["steps"] if s["a"] == "Fault"]
        key = (b["n"], f[0]["k"] if f else "none", f[0]["u"] if f else 0)
        if key not in cl or len(b["steps"]) > len(cl[key]["steps"]):
            cl[key] = b
    return [cl[k] for k in sorted(cl)]


def run_s5(chk, quick, rnd, replay_execs=None):
    """SOCKS5 bytestreams: IbbS5.tla model-checked, one real loopback transfer per class of its behaviours."""
    chk.mc(vf.tlc_mc("IbbS5.tla", "IbbS5.cfg", workers=2), "IbbS5.cfg")
    chk.mc(vf.tlc_mc("IbbS5.tla", "IbbS5Dev.cfg", workers=2), "IbbS5Dev.cfg (misbehaving output device)")
    chk.mc(vf.tlc_mc("IbbS5.tla", "IbbS5Live.cfg", workers=2), "IbbS5Live.cfg (both jobs finish under fair scheduling)")
    if replay_execs is not None:
        execs = replay_execs
    else:
        behs, st = vf.tlc_gen("IbbS5Gen.tla", "IbbS5GenAll.cfg")
        classes = [b for b in s5_classes(behs) if b["n"] <= (3 if quick else 4)]
        st["classes"] = len(classes)
        chk.cov["generation"]["socks5_all_paths_one_fault"] = st
        execs = []
        for unit in (S5_UNITS_QUICK if quick else S5_UNITS_THOROUGH):
            for i, b in enumerate(classes):
                size = b["n"] * unit - (i % 2 if unit > 1 and b["n"] > 0 else 0)     # last unit full / one byte short
                execs.append(dict(b, method="socks5", unit=unit, size=size, cseed=rnd.getrandbits(40)))
        # the stream host offer with the right session id from a foreign full JID, just before the genuine one
        for w in ("from", "res"):
            for b in classes:
                if any(st["a"] == "Fault" for st in b["steps"]) or (quick and b["n"] not in (0, 1, 3)):
                    continue
                execs.append(dict(b, steps=[{"a": "ForeignOffer", "w": w}] + b["steps"], method="socks5", unit=1000,
                                  size=b["n"] * 1000, foreign=w, cseed=rnd.getrandbits(40)))
        # offers that announce less: fault-free for every announcement; one fault where what is announced must notice it
        for ann in OTHER_ANNS:
            for i, b in enumerate(classes):
                flt = [st["k"] for st in b["steps"] if st["a"] == "Fault"]
                if not flt:
                    if quick and b["n"] not in (0, 1, 3):
                        continue
                elif quick or not (ann == "hash" or (ann == "size" and flt[0] in ("Drop", "Cut"))):
                    continue
                size = b["n"] * 1000 - (i % 2 if b["n"] > 0 else 0)
                execs.append(dict(b, method="socks5", unit=1000, size=size, ann=ann, cseed=rnd.getrandbits(40)))
        # fault-free size sweep relative to the socket block (16 KiB) and to what one readyRead delivers, for every
        # announcement: 0 and 1 byte are the classes above; here one block, two blocks +- 1, many reads
        clean = {b["n"]: b for b in classes if not any(st["a"] == "Fault" for st in b["steps"])}
        sweep_sizes = S5_SWEEP_QUICK if quick else S5_SWEEP_THOROUGH
        for ann in ["both"] + OTHER_ANNS:
            for size in sweep_sizes:
                n = min(size, max(clean))
                unit = (size + n - 1) // n
                if (size + unit - 1) // unit != n:
                    continue
                execs.append(dict(clean[n], method="socks5", unit=unit, size=size, ann=ann, cseed=rnd.getrandbits(40), kind="sweep"))
        for dev in ("short", "fail"):
            for ann in (DEV_CLAIMED[dev] if quick else ("both", "size", "hash", "none")):
                for size in ([3000] if quick else [1, 3000, 40000]):
                    n = min(size, 3)
                    execs.append(dict(clean[n], method="socks5", unit=(size + n - 1) // n, size=size, ann=ann, dev=dev,
                                      cseed=rnd.getrandbits(40), kind="device"))
        for a in accept_execs(chk, rnd, quick, True):
            n = min(a["size"], 3)
            execs.append(dict(clean[n], method="socks5", unit=(a["size"] + n - 1) // n if n else 1000, **a))
        chk.cov["generation"]["socks5_size_sweep"] = {"sizes": sweep_sizes, "announcements": 4}
    if not execs:
        return [], {}, {"cases": 0, "lines": 0, "viol": [], "ndiv": 0, "divs": [], "faulted": 0, "clean": 0, "wall_s": 0}
    vf.write_ndjson(chk.path("behaviours-s5.ndjson"), execs)
    trace = chk.path("trace-s5.ndjson")
    r = vf.qxv("ibbs5", trace, in_path=chk.path("behaviours-s5.ndjson"), seed=chk.seed, tier=chk.tier, check=True)
    chk.cov["socks5_replay_wall_s"] = r["wall_s"]
    s = vf.tlc_trace("IbbS5Trace.tla", "IbbS5Trace.cfg", trace)
    cases = vf.split_cases(trace)
    busy = [c for c, lines in cases.items() if lines[-1].get("o", {}).get("timeout")]
    if busy:
        raise vf.MachineryError(f"qxv ibbs5: executions {busy[:5]} were still active after 120 s (hang detector): no outcome to judge")
    # a stalled transfer is judged by rounds without any activity: confirm with a 4x longer quiet period
    bad = sorted({v["case"] for v in s["viol"]}, key=lambda c: int(c[1:]))
    if bad and replay_execs is None:
        again = [dict(execs[int(c[1:]) - 1], idle=240) for c in bad]
        vf.write_ndjson(chk.path("behaviours-s5-confirm.ndjson"), again)
        t2 = chk.path("trace-s5-confirm.ndjson")
        vf.qxv("ibbs5", t2, in_path=chk.path("behaviours-s5-confirm.ndjson"), seed=chk.seed, tier=chk.tier, check=True)
        s2 = vf.tlc_trace("IbbS5Trace.tla", "IbbS5Trace.cfg", t2, tag="IbbS5Trace-confirm")
        confirmed = {bad[int(v["case"][1:]) - 1] + "/" + v["prop"] for v in s2["viol"]}
        dropped = [v for v in s["viol"] if v["case"] + "/" + v["prop"] not in confirmed]
        if dropped:
            chk.note(f"{len(dropped)} SOCKS5 outcome(s) not confirmed by the re-run with a longer quiet period (not reported): "
                     + ", ".join(sorted({v['case'] + '/' + v['prop'] for v in dropped})))
        s["viol"] = [v for v in s["viol"] if v["case"] + "/" + v["prop"] in confirmed]
        chk.cov["socks5_confirm_reruns"] = len(again)
    return execs, cases, s


def twin_execs(rnd, quick):
    """Two peers offering with the SAME session id at the same time (stranger / other resource of the sender's
    account), interleaved by a seeded schedule; each must get exactly its own bytes."""
    out = []
    for peer2 in ("X", "Y"):
        for ann in (("both", "none") if quick else ("both", "size", "hash", "none")):
            for bs, n1, n2 in ([(3, 2, 3), (1000, 3, 1)] if quick else [(1, 4, 6), (3, 2, 3), (3, 0, 2), (1000, 3, 1), (4096, 2, 2), (4096, 1, 5)]):
                for _ in range(2 if quick else 4):
                    out.append({"mode": "twin", "peer2": peer2, "ann": ann, "bs": bs, "size": max(0, n1 * bs - rnd.randrange(2)),
                                "size2": max(0, n2 * bs - rnd.randrange(2)), "cseed": rnd.getrandbits(40),
                                "sched": rnd.getrandbits(40), "n": n1, "steps": []})
    return out


def run_twin(chk, quick, rnd, replay_execs=None):
    execs = replay_execs if replay_execs is not None else twin_execs(rnd, quick)
    empty = {"cases": 0, "lines": 0, "viol": [], "ndiv": 0, "divs": [], "faulted": 0, "clean": 0, "wall_s": 0}
    if not execs:
        return [], {}, empty
    vf.write_ndjson(chk.path("behaviours-twin.ndjson"), execs)
    trace = chk.path("trace-twin.ndjson")
    r = vf.qxv("ibbtwin", trace, in_path=chk.path("behaviours-twin.ndjson"), seed=chk.seed, tier=chk.tier, check=True)
    chk.cov["twin_replay_wall_s"] = r["wall_s"]
    s = vf.tlc_trace("IbbTrace.tla", "IbbTrace.cfg", trace, tag="IbbTrace-twin")
    return execs, vf.split_cases(trace), s


def short_twin(b, case):
    return (f"two peers, same sid (peer 2 = {'stranger' if b['peer2'] == 'X' else 'other resource of the account'}), ann={b['ann']}, "
            f"bs={b['bs']}, sizes {b['size']}/{b['size2']}, lane {'1' if case.endswith('a') else '2'}")


def short_s5(b):
    f = [s for s in b["steps"] if s["a"] == "Fault"]
    if b.get("foreign"):
        return f"socks5/ann={b.get('ann', 'both')}/size={b.get('size')}/n={b['n']}:foreign stream host offer ({b['foreign']}), clean"
    return f"socks5/ann={b.get('ann', 'both')}" + (f"/accept(path:{b['accept']})" if b.get("accept", "device") != "device" else "") + (f"/dev={b['dev']}" if b.get("dev", "all") != "all" else "") + f"/unit={b.get('unit')}/size={b.get('size')}/n={b['n']}:" + (f"{f[0]['k']}(unit {f[0]['u']})" if f else "clean")


def klass(b, lines, prop=""):
    """Class of an execution for the violation signature: the faults that were *applied* (logged)."""
    ks = [ln["k"] for ln in lines if ln["e"] == "Fault"]
    inj = [ln["w"] + "/" + ln.get("t", "data") for ln in lines if ln["e"] == "Inject"]
    c = "+".join(ks) if ks else "clean"
    if inj and (not ks or prop == "ForeignInert"):
        c += "+inject(" + ",".join(inj) + ")"
    return c + (":dev=" + b["dev"] if b.get("dev", "all") != "all" else "") + (":accept=path-" + b["accept"] if b.get("accept", "device") != "device" else "") + (":blocks>65536" if b["n"] > 65536 else "") + (":ann=" + b["ann"] if b.get("ann", "both") != "both" else "")


def short(b):
    parts = []
    for s in b["steps"]:
        a = s["a"]
        parts.append({"RDeliver": "R", "SDeliver": "S", "Offer": "O"}.get(a, a) +
                     ("(" + str(s.get("k", s.get("w"))) + ("/" + s["t"] if "t" in s else "") + ")"
                      if a in ("Fault", "Inject", "Burst") else ""))
    return f"{b.get('sender', 'real')}/ann={b.get('ann', 'both')}" + (f"/accept(path:{b['accept']})" if b.get("accept", "device") != "device" else "") + (f"/dev={b['dev']}@{b.get('devAt')}" if b.get("dev", "all") != "all" else "") + f"/bs={b.get('bs')}/size={b.get('size')}/n={b['n']}:" + ",".join(parts)


def validate_in_chunks(chk, trace, max_lines=60000):
    """TLC reads a whole trace file into memory: validate executions in groups of <= max_lines lines."""
    chunks, cur, n = [], [], 0
    with open(trace) as f:
        for line in f:
            if line.startswith('{"') and '"e":"Reset"' in line and n >= max_lines:
                chunks.append(cur)
                cur, n = [], 0
            cur.append(line)
            n += 1
    if cur:
        chunks.append(cur)
    total = {"cases": 0, "lines": 0, "viol": [], "ndiv": 0, "divs": [], "faulted": 0, "clean": 0, "wall_s": 0.0, "chunks": len(chunks)}
    off = 0
    for i, ch in enumerate(chunks):
        path = chk.path(f"trace-{i:03d}.ndjson")
        with open(path, "w") as f:
            f.writelines(ch)
        s = vf.tlc_trace("IbbTrace.tla", "IbbTrace.cfg", path, tag=f"IbbTrace-{i:03d}")
        for v in s["viol"]:
            v["line"] += off
        for d in s["divs"]:
            d["line"] += off
        for k in ("cases", "lines", "ndiv", "faulted", "clean", "wall_s"):
            total[k] += s[k]
        total["viol"] += s["viol"]
        total["divs"] += s["divs"]
        off += len(ch)
        if len(chunks) > 1:
            os.remove(path)
    total["wall_s"] = round(total["wall_s"], 2)
    return total


def run(chk, replay=None):
    quick = chk.tier == "quick"
    rnd = random.Random(chk.seed)
    # 1. design level: exhaustive model check (one fault + one foreign block, sizes beyond the wrap, W = 4)
    with_burst = vf.tlc_mc("Ibb.tla", "Ibb.cfg", workers=4)
    chk.mc(with_burst, "Ibb.cfg")
    no_burst = vf.tlc_mc("Ibb.tla", "IbbNoBurst.cfg", workers=4)
    chk.mc(no_burst, "IbbNoBurst.cfg")
    if with_burst["distinct"] != no_burst["distinct"]:
        raise vf.MachineryError("Ibb.tla: Burst (closed form of k fault-free rounds) reaches states the single steps do not "
                                f"({with_burst['distinct']} vs {no_burst['distinct']} distinct states)")
    chk.mc(vf.tlc_mc("Ibb.tla", "IbbDev.cfg", workers=4), "IbbDev.cfg (misbehaving output device)")
    chk.mc(vf.tlc_mc("Ibb.tla", "IbbLive.cfg", workers=4), "IbbLive.cfg (termination under fair delivery)")
    if not quick:
        chk.mc(vf.tlc_mc("Ibb.tla", "Ibb2.cfg", workers=4), "Ibb2.cfg (two faults: safety)")
    # 2. behaviours
    s5_replay = None
    tw_replay = None
    if replay:
        items = [b for b in vf.read_ndjson(replay) if "steps" in b]
        execs = [b for b in items if b.get("method") != "socks5" and b.get("mode") != "twin"]
        tw_replay = [b for b in items if b.get("mode") == "twin"]
        s5_replay = [b for b in items if b.get("method") == "socks5"]
        chk.cov["generation"] = {"replay": replay}
    else:
        one, st1 = vf.tlc_gen("IbbGen.tla", "IbbGenAll.cfg")       # one stream fault, files of 0..7 blocks
        inj, st2 = vf.tlc_gen("IbbGen.tla", "IbbGenInj.cfg")       # one foreign block
        mix, st3 = vf.tlc_gen("IbbGen.tla", "IbbGenMix.cfg" if quick else "IbbGenAllT.cfg")   # both
        chk.cov["generation"] = {"all_paths_one_fault": st1, "all_paths_one_foreign_block": st2,
                                 "all_paths_fault_and_foreign_block": st3}
        extra = []
        if not quick:
            tour, st4 = vf.tlc_gen("IbbGen.tla", "IbbGenTour2.cfg")
            st4["sampled"] = min(len(tour), 2500)
            tour = rnd.sample(tour, st4["sampled"])
            sim, st5 = vf.tlc_simulate("IbbGen.tla", "IbbGenTour2.cfg", num=800, depth=40, seed=chk.seed)
            extra = vf.maximal_behaviours(tour + sim)
            chk.cov["generation"].update({"tour_two_faults": st4, "simulate_two_faults": st5})
        execs = concretise(vf.maximal_behaviours(one + inj + mix), rnd, 0.5 if quick else 1.0) + concretise(extra, rnd, 1.0)
        sw = sweep(rnd, quick)
        an, nsw = announcements(vf.maximal_behaviours(one), rnd, quick)
        chk.cov["generation"]["other_announcements"] = {"fault_free_sweep": nsw, "one_fault": len(an) - nsw}
        dv = device_execs(rnd, quick)
        chk.cov["generation"]["output_device"] = {"executions": len(dv)}
        ac = accept_execs(chk, rnd, quick, False)
        chk.cov["generation"]["accept_by_path"] = {"executions": len(ac)}
        sw = sw + an + dv + ac
        lg = long_cases(rnd, quick)
        chk.cov["generation"].update({"size_sweep": len(sw), "long_transfers": len(lg)})
        execs = execs + sw + lg
    # 3. in-band: replay on the real transfer managers (ASan/UBSan build), 4. trace validation
    cases, s, crashed, r = {}, {"cases": 0, "lines": 0, "viol": [], "ndiv": 0, "divs": [], "faulted": 0, "clean": 0,
                                "wall_s": 0, "chunks": 0}, None, None
    if execs:
        vf.write_ndjson(chk.path("behaviours.ndjson"), execs)
        trace = chk.path("trace.ndjson")
        r = vf.qxv("ibb", trace, in_path=chk.path("behaviours.ndjson"), seed=chk.seed, tier=chk.tier, check=False)
        vf.repair_truncated(trace)
        cases = vf.split_cases(trace)
        chk.cov["replay_wall_s"] = r["wall_s"]
        if r["sanitizer"]:
            chk.note("sanitizer output while replaying (C19 has no no-UB clause; not judged): " + "; ".join(r["sanitizer"][:3]))
        if r["rc"] != 0:
            last = list(cases)[-1] if cases else None
            idx = int(last[1:]) - 1 if last else 0
            crashed = (execs[idx] if execs else None, vf.san_signature(r))
        s = validate_in_chunks(chk, trace)
    # two concurrent offers with the same session id from different full JIDs: each lane validated as an execution of Ibb
    tw_execs, tw_cases, tw = run_twin(chk, quick, rnd, tw_replay)
    # 5. SOCKS5: model check, one real loopback transfer per class of behaviours, outcome validation
    s5_execs, s5_cases, s5 = run_s5(chk, quick, rnd, s5_replay)
    applied = collections.Counter()
    for lines in cases.values():
        for ln in lines:
            if ln["e"] == "Fault":
                applied[ln["k"]] += 1
            elif ln["e"] == "Inject":
                applied["Inject:" + ln["w"] + "/" + ln.get("t", "data")] += 1
    for lines in s5_cases.values():
        if lines[-1].get("o", {}).get("applied"):
            applied["socks5:" + lines[0].get("k", "?")] += 1
    chk.cov["traces_validated_against_impl"] = s["cases"] + s5["cases"] + tw["cases"]
    chk.cov["twin_lane_executions"] = tw["cases"]
    chk.cov["inband_executions"] = s["cases"]
    chk.cov["socks5_executions"] = s5["cases"]
    chk.cov["trace_lines"] = s["lines"] + s5["lines"] + tw["lines"]
    chk.cov["trace_wall_s"] = round(s["wall_s"] + s5["wall_s"], 2)
    chk.cov["trace_chunks"] = s["chunks"]
    chk.cov["executions_with_stream_fault"] = s["faulted"] + s5["faulted"]
    chk.cov["executions_without_stream_fault"] = s["clean"] + s5["clean"]
    chk.cov["faults_applied_by_kind"] = dict(sorted(applied.items()))
    chk.cov["diverged_executions"] = s["ndiv"] + s5["ndiv"] + tw["ndiv"]
    chk.cov["first_divergences"] = (s["divs"] + tw["divs"] + s5["divs"])[:4]
    chk.cov["exhaustive"] = True
    chk.cov["bounds"] = {"model": "Ibb: W=4, files of 0..9 blocks, <=1 stream fault + <=1 foreign block (two of each: safety "
                                  "only); IbbS5: files of 0..5 units, <=1 fault",
                         "replay": "in-band: W=65536, every path of the model for files of 0..7 blocks (one fault) / 1,2 blocks "
                                   "(fault + foreign block; thorough 0..4), block sizes 1..4096, transfers of >65536 blocks; "
                                   "SOCKS5: every (size, fault kind, unit hit) class for files of 0..3 (thorough 0..4) units"}
    chk.cov["max_blocks_transferred"] = max((b["n"] for b in execs), default=0)
    chk.cov["block_sizes"] = sorted({b.get("bs", REAL_BS) for b in execs})
    chk.cov["rule"] = ("in-band: behaviours = every path of the bounded Ibb model (file sizes x one stream fault of each kind at "
                       "every block x one injected foreign block x delivery interleavings) to its end, each replayed with the real "
                       "sender and receiver (4096-byte blocks) and with the specification's sender at other block sizes; "
                       "fault-free size sweep around block boundaries; transfers crossing the 16-bit counter wrap; every "
                       "execution drained to quiescence and validated by IbbTrace.tla (C19 predicates on the logged outcome). "
                       "SOCKS5: one loopback transfer between the two real managers per class (size, fault, unit) of the "
                       "IbbS5 model's behaviours through a tampering TCP proxy, outcome validated by IbbS5Trace.tla")
    for b in execs[:2] + execs[-2:]:
        chk.sample({k: v for k, v in b.items() if k != "steps"} | {"steps": short(b)})
    for b in s5_execs[:1] + s5_execs[-1:]:
        chk.sample({k: v for k, v in b.items() if k != "steps"} | {"steps": short_s5(b)})
    # one violation per class of behaviour (first = the shortest execution of that class).
    # Replay files live beside out/C19 (vf.Check empties out/C19 at start, also in --replay mode).
    rdir = os.path.join(vf.OUT, "C19.replay")
    if not replay:
        shutil.rmtree(rdir, ignore_errors=True)
        os.makedirs(rdir, exist_ok=True)

    def report(sig, what, items):
        if replay:
            rpath = os.path.abspath(replay)      # re-driven from this file: it stays the replay
        else:
            rpath = os.path.join(rdir, f"violation-{len(chk.violations) + 1}.ndjson")
            vf.write_ndjson(rpath, items)
        chk.violation(sig, what, replay_path=rpath)

    by_case = {}
    for v in s["viol"]:
        by_case.setdefault(v["case"], []).append(v)
    reported = set()
    for case in sorted(by_case, key=lambda c: (len(cases.get(c, [])), int(c[1:]))):
        b = execs[int(case[1:]) - 1]
        for v in sorted(by_case[case], key=lambda v: v["prop"]):
            sig = "C19:" + v["prop"] + ":" + klass(b, cases[case], v["prop"])
            if sig in reported or len(reported) >= 6:
                continue
            reported.add(sig)
            end = cases[case][-1].get("o", {})
            report(sig, f"{v['prop']} fails for {short(b)}: receiver {end.get('rs')}/{end.get('re')}, sender "
                   f"{end.get('ss')}/{end.get('se')}, receiver holds the sent bytes: {end.get('eq')} "
                   f"({end.get('rlen')} of {end.get('slen')} bytes)", [b] + cases[case])
    by_case_t = {}
    for v in tw["viol"]:
        by_case_t.setdefault(v["case"], []).append(v)
    reported_t = set()
    for case in sorted(by_case_t, key=lambda c: (int(c[1:-1]), c[-1])):
        b = tw_execs[int(case[1:-1]) - 1]
        end = tw_cases[case][-1].get("o", {})
        for v in sorted(by_case_t[case], key=lambda v: v["prop"]):
            sig = "C19:" + v["prop"] + ":same-sid-two-peers:" + ("stranger" if b["peer2"] == "X" else "other-resource") + \
                (":ann=" + b["ann"] if b["ann"] != "both" else "")
            if sig in reported_t or len(reported_t) >= 3:
                continue
            reported_t.add(sig)
            both = tw_cases.get(case[:-1] + "a", []) + tw_cases.get(case[:-1] + "b", [])
            report(sig, f"{v['prop']} fails for {short_twin(b, case)}: receiver {end.get('rs')}/{end.get('re')}, sender "
                   f"{end.get('ss')}/{end.get('se')}, receiver holds the sent bytes: {end.get('eq')} "
                   f"({end.get('rlen')} of {end.get('slen')} bytes)", [b] + both)
    by_case5 = {}
    for v in s5["viol"]:
        by_case5.setdefault(v["case"], []).append(v)
    reported5 = set()
    for case in sorted(by_case5, key=lambda c: int(c[1:])):
        b = s5_execs[int(case[1:]) - 1]
        end = s5_cases[case][-1].get("o", {})
        for v in sorted(by_case5[case], key=lambda v: v["prop"]):
            sig = "C19:" + v["prop"] + ":socks5:" + (s5_cases[case][0].get("k") if end.get("applied") else "clean") + \
                (":foreign-offer" if b.get("foreign") else "") + (":accept=path-" + b["accept"] if b.get("accept", "device") != "device" else "") + (":dev=" + b["dev"] if b.get("dev", "all") != "all" else "") + (":empty-file" if b["size"] == 0 else "") + (":ann=" + b["ann"] if b.get("ann", "both") != "both" else "")
            if sig in reported5 or len(reported5) >= 4:
                continue
            reported5.add(sig)
            report(sig, f"{v['prop']} fails for {short_s5(b)}: receiver {end.get('rs')}/{end.get('re')}, sender "
                   f"{end.get('ss')}/{end.get('se')}, receiver holds the sent bytes: {end.get('eq')} "
                   f"({end.get('rlen')} of {end.get('slen')} bytes)", [b] + s5_cases[case])
    chk.cov["violating_executions"] = len(by_case) + len(by_case5) + len(by_case_t)
    if crashed and not chk.violations:
        b, sg = crashed
        raise vf.MachineryError("qxv ibb ended abnormally (" + sg + ") while replaying " + (short(b) if b else "?") + ": " +
                                "; ".join(r["sanitizer"][:3]) + " " + r["stderr"][-600:])
    for f in os.listdir(chk.outdir):
        if f.startswith("dest-") and f.endswith(".bin"):
            os.remove(os.path.join(chk.outdir, f))
    chk.assumptions += [
        "the fault-free clause (both sides NoError, byte-for-byte copy) is checked for offers announcing size+hash, size only, "
        "hash only and nothing (a size of 0 = not announced); fault detection is claimed for what the announcement can notice: "
        "hash -> every single fault, size only -> all but a length-preserving alteration (SOCKS5: a stream that ends short), "
        "nothing announced -> no fault detection claimed (undetectable by anyone)",
        "in-band: IQ-based IBB (stop-and-wait); the network damages data blocks of the stream (and may acknowledge on the "
        "receiver's behalf to reorder or continue after a loss); it does not forge offer/open stanzas",
        "SOCKS5: direct connection (no XEP-0065 proxy activation); faults act on the data bytes of the TCP stream; a "
        "duplicate of the final unit (bytes after a complete file) is not a fault of the model",
        "MD5 is treated as injective on the contents used (no crafted collisions)",
        "detection is claimed for exactly one stream fault per transfer (two faults can cancel); safety for any number",
    ]
