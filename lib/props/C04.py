"""C04 — with TLS required nothing sensitive is sent before the link is encrypted.
Spec: spec/ClientStream.tla (C04_* properties), trace monitor spec/ClientStreamTrace.tla. Driver: qxv stream."""
from props._stream import run_stream

LEVEL = "model_checking"


def run(chk, replay=None):
    run_stream(chk, "C04", replay)
