"""C15 — an ICE component reacts only to checks authenticated with the session credentials; two honest
agents connect, advertise RFC 5245 priorities and carry datagrams unchanged.
Spec: spec/Ice.tla (+IceGen, IceTrace). Driver: qxv ice."""
import itertools
import json
import random

import vf

LEVEL = "model_checking"


def step_label(s):
    if s["a"] != "Recv":
        return s["a"]
    d = s["d"]
    return "Recv(%s,%s,%s,%s,%s,%s,%s,%s,%s)" % (d["cls"], d.get("meth", "binding"), d["auth"], "uc" if d["uc"] else "-", d["src"],
                                              d["tx"], d["ra"], d["un"], "pr" if d.get("pr") else "-")


def _canon(d):
    return json.dumps(d, sort_keys=True)


def select_loops(loops, rnd, mode):
    """Which of the no-effect datagrams of one state are replayed there.
    "all": the full alphabet.  Otherwise a covering sample: every combination of the primary fields
    (class x method x integrity [x source for the binding method]) at least once -- twice when the integrity
    code is absent --, the secondary fields (USE-CANDIDATE, role attribute, PRIORITY, USERNAME, transaction)
    drawn at random, so that over the hundreds of states every value of every field meets every primary
    combination; plus `mode` of the authenticated no-effect ones."""
    if mode == "all":
        return list(loops)
    groups = {}
    for d in loops:
        if d["auth"] == "valid":
            groups.setdefault(("valid",), []).append(d)
        else:
            groups.setdefault((d["cls"], d["meth"], d["auth"], d["src"] if d["meth"] == "binding" else "*"), []).append(d)
    keep = []
    for k in sorted(groups):
        g = groups[k]
        n = mode if k == ("valid",) else (2 if k[2] == "none" and k[1] == "binding" else 1)
        keep += rnd.sample(g, min(n, len(g)))
    return keep


def pack(behs, rnd, mode, frontier=False):
    """Transition tour -> replayable behaviours.  TLC exported the state-changing transitions (with the
    identity of source and target state) and the datagram alphabet; every datagram of the alphabet that is
    not among the exported steps out of a state is a self-loop of that state (Recv is always enabled).  The
    self-loops of one state -- every forged datagram, role conflicts, unknown transactions, indications, other
    methods -- go into one behaviour behind the shortest path to that state; the state-changing transitions
    are kept as maximal behaviours."""
    alphabet = {b["ctl"]: b["alphabet"] for b in behs if "alphabet" in b}
    trans = [b for b in behs if "steps" in b]
    path, pend, ctl_of, effd = {}, {}, {}, {}
    for b in trans:                                   # BFS order: the first path to a state is a shortest one
        if len(b["steps"]) == 1 and b["from"] not in path:
            path[b["from"]], pend[b["from"]], ctl_of[b["from"]] = [], False, b["ctl"]
        if b["to"] not in path and not b["over"]:       # (over: one step beyond the model's bounds, not a state of it)
            path[b["to"]], pend[b["to"]], ctl_of[b["to"]] = b["steps"], b["pend"], b["ctl"]
        last = b["steps"][-1]
        if last["a"] == "Recv":
            effd.setdefault(b["from"], set()).add(_canon(last["d"]))
    packed, nloops, nall = [], 0, 0
    for sid in sorted(path, key=lambda k: (len(path[k]), _canon(path[k]), ctl_of[k])):
        if pend[sid]:
            continue                                  # only the timer tick may follow (IceGen!Urgent)
        loops = [d for d in alphabet[ctl_of[sid]] if _canon(d) not in effd.get(sid, ())]
        nall += len(loops)
        keep = select_loops(loops, rnd, mode)
        rnd.shuffle(keep)
        nloops += len(keep)
        packed.append({"ctl": ctl_of[sid], "steps": path[sid] + [{"a": "Recv", "d": d} for d in keep], "prefix": len(path[sid])})
    # (frontier: also the transitions that leave the model's bounds by one step)
    mx = vf.maximal_behaviours([{"ctl": b["ctl"], "steps": b["steps"]} for b in trans if frontier or not b["over"]])
    return packed, mx, nloops, {"states": len(path), "alphabet": len(next(iter(alphabet.values()))), "no_effect_steps_in_model": nall,
                                "state_changing_transitions": len(trans)}


FORGED = [
    {"cls": "indication", "auth": "none", "uc": True, "ra": "controlling"},
    {"cls": "indication", "auth": "none", "uc": True, "ra": "none"},
    {"cls": "indication", "auth": "none", "uc": False, "ra": "controlled"},
    {"cls": "indication", "auth": "wrong", "uc": True, "ra": "none"},
    {"cls": "request", "meth": "other", "auth": "none", "uc": True, "ra": "none"},
    {"cls": "request", "auth": "none", "uc": True, "ra": "controlling"},
    {"cls": "request", "auth": "none", "uc": True, "ra": "none"},
    {"cls": "request", "auth": "none", "uc": False, "ra": "controlled"},
    {"cls": "request", "auth": "none", "uc": False, "ra": "none"},
    {"cls": "request", "auth": "wrong", "uc": True, "ra": "controlling"},
    {"cls": "request", "auth": "wrong", "uc": False, "ra": "controlled"},
    {"cls": "request", "auth": "trunc", "uc": True, "ra": "none"},
    {"cls": "response", "auth": "none"},
    {"cls": "response", "auth": "wrong"},
]


def nego_cases(quick, rnd):
    def payloads(k):
        r = random.Random(1000 + k)
        return [[128, 1, 2, 3], [255], [r.randrange(256) for _ in range(200)], [144] + [r.randrange(256) for _ in range(1199)]][: 3 if quick else 4]

    def forge():
        return [dict(f, when=w, to=t) for w in ("before", "during", "after") for t in ("A", "B") for f in FORGED]
    cases = []
    if quick:
        table = [(True, "A", [1], False, []), (False, "A", [1], False, [0]), (True, "B", [1, 2], True, []),
                 (False, "B", [1], False, [1]), (True, "A", [1], False, [0, 1]), (False, "B", [1, 2], False, [2])]
    else:
        table = []
        for ctlA, first, comps, rev in itertools.product((True, False), ("A", "B"), ([1], [1, 2]), (False, True)):
            if rev and len(comps) == 1:
                continue
            for n in range(0, 4):
                for lose in itertools.combinations(range(5), n):
                    table.append((ctlA, first, comps, rev, list(lose)))
        for lose in ([0, 1, 2, 3, 4, 5], [0, 2, 4], [1, 3, 5], [4], [5], [4, 5]):
            table.append((True, "A", [1], False, lose))
            table.append((False, "B", [1], False, lose))
    for k, (ctlA, first, comps, rev, lose) in enumerate(table):
        cid = "n:%s:%s:%s%s:lose=%s" % ("ctlA" if ctlA else "ctlB", first, "+".join(map(str, comps)), ":rev" if rev else "", ",".join(map(str, lose)) or "-")
        cases.append({"case": cid, "kind": "nego", "ctlA": ctlA, "first": first, "comps": comps, "rev": rev, "lose": lose,
                      "forge": forge(), "payloads": payloads(k)})
    return cases


def replay_items(b, upto=None):
    steps = b["steps"] if upto is None else b["steps"][:b.get("prefix", 0)] + [b["steps"][upto]]
    return {"case": b["case"], "kind": "script", "ctl": b["ctl"], "steps": steps}


def run_and_validate(chk, execs, tag):
    vf.write_ndjson(chk.path(f"behaviours{tag}.ndjson"), execs)
    trace = chk.path(f"trace{tag}.ndjson")
    r = vf.qxv("ice", trace, in_path=chk.path(f"behaviours{tag}.ndjson"), seed=chk.seed, tier=chk.tier, check=False, timeout=3000)
    vf.repair_truncated(trace)
    if r["rc"] != 0 and not r["sanitizer"]:
        raise vf.MachineryError(f"qxv ice exited {r['rc']}:\n{r['stderr'][-2000:]}")
    s = vf.tlc_trace("IceTrace.tla", "IceTrace.cfg", trace, tag="IceTrace" + tag)
    return r, s, trace


def run(chk, replay=None):
    quick = chk.tier == "quick"
    rnd = random.Random(chk.seed)
    # 1. design level: no step caused by a datagram without valid integrity code changes the component
    for cfg in (["Ice.cfg"] if quick else ["Ice.cfg", "IceFull.cfg"]):
        chk.mc(vf.tlc_mc("Ice.tla", cfg, workers=4), cfg)
    # 2. behaviours
    if replay:
        execs = [b for b in vf.read_ndjson(replay) if "steps" in b or b.get("kind") == "nego"]
        for i, b in enumerate(execs):
            b.setdefault("case", "r%d" % i)
            b.setdefault("kind", "script")
        gst = {}
    else:
        behs, gst = vf.tlc_gen("IceGen.tla", "IceGenTour.cfg", steps_key=None)
        # quick: a covering sample of the attacker's alphabet in every state; thorough: the whole alphabet in
        # every state of the tour model, plus the covering sample in every state of the larger model
        packed, mx, nloops, tour = pack(behs, rnd, 6 if quick else "all", frontier=not quick)
        gst["tour"] = tour
        if not quick:
            behs2, gst2 = vf.tlc_gen("IceGen.tla", "IceGenFull.cfg", steps_key=None)
            packed2, mx2, nloops2, tour2 = pack(behs2, rnd, 6)
            gst["full"] = dict(gst2, tour=tour2)
            nloops += nloops2
            # behaviours that wait for the component's 500 ms timer cost real time: a seeded sample of them
            def ticky(b):
                return any(s["a"] == "Tick" for s in b["steps"])
            tm = [b for b in mx2 if ticky(b)]
            tp = [b for b in packed2 if ticky(b)]
            mx = vf.maximal_behaviours(mx + [b for b in mx2 if not ticky(b)]) + rnd.sample(tm, min(60, len(tm)))
            packed = packed + [b for b in packed2 if not ticky(b)] + rnd.sample(tp, min(20, len(tp)))
        sim = []
        if not quick:
            # random walks beyond the tour's bounds (more checks, longer histories)
            sim, gst["simulate"] = vf.tlc_simulate("IceGen.tla", "IceGenSim.cfg", num=120, depth=40, seed=chk.seed, steps_key=None)
            sim = vf.maximal_behaviours([{"ctl": b["ctl"], "steps": b["steps"]} for b in sim if "steps" in b])
            gst["simulate"]["behaviours"] = len(sim)
        execs = []
        for i, b in enumerate(packed + mx + sim):
            b["case"] = "s%d" % i
            b["kind"] = "script"
            execs.append(b)
        gst["packed_no_effect_behaviours"] = len(packed)
        gst["no_effect_steps"] = nloops
        gst["maximal_effect_behaviours"] = len(mx)
        execs += nego_cases(quick, rnd)
    chk.cov["generation"] = gst
    by_id = {b["case"]: b for b in execs}
    # 3. replay on real components / connections, 4. trace validation
    r, s, trace = run_and_validate(chk, execs, "")
    chk.cov["driver_wall_s"] = r["wall_s"]
    cases = vf.split_cases(trace)
    if r["sanitizer"]:
        last = list(cases)[-1] if cases else "?"
        chk.violation("C15:sanitizer:" + vf.san_signature(r) + ":" + last,
                      "sanitizer report while driving ICE: " + "; ".join(r["sanitizer"][:3]), [by_id.get(last, {})])
    st = s["stats"]
    chk.cov["traces_validated_against_impl"] = s["cases"]
    chk.cov["trace_lines"] = s["lines"]
    chk.cov["scripted_steps"] = st["steps"]
    chk.cov["forged_datagrams_delivered"] = st["forged"]
    chk.cov["authenticated_datagrams_delivered"] = st["valid"]
    chk.cov["steps_without_quiescence"] = st["unquiet"]
    chk.cov["honest_negotiations"] = st["negos"]
    chk.cov["application_datagrams_carried"] = st["data"]
    chk.cov["predicate_failures"] = s["nviol"]
    chk.cov["diverged_executions"] = s["ndiv"]
    chk.cov["first_divergences"] = s["divs"][:3]
    # quick samples the wrong-key/truncated no-effect steps; thorough replays every transition of the tour
    chk.cov["exhaustive"] = (not quick) and not replay
    chk.cov["rule"] = (
        "scripted: transition tour of the bounded Ice model (every transition reached by a shortest path; the no-effect "
        "transitions of one state packed into one behaviour), replayed on a real QXmppIceConnection bound on 127.0.0.1 with a "
        "peer socket (the signalled candidate, knows the credentials) and a second socket (unknown address); every datagram built "
        "by QXmppStunMessage::encode with valid / no / wrong-key / truncated MESSAGE-INTEGRITY, effects observed after quiescence "
        "(datagrams emitted and their integrity, pair state log lines, 'ICE pair selected', connected(), isConnected()). "
        "honest: two real connections through a relay that loses chosen first transmissions, forged datagrams from a third socket "
        "before/during/after; both must connect, candidate priorities follow RFC 5245 4.1.2.1, payloads arrive unchanged both ways, "
        "the third socket never receives anything and is never selected. Validated by spec/IceTrace.tla.")
    for b in execs[:1] + [x for x in execs if x["kind"] == "script"][-1:] + [x for x in execs if x["kind"] == "nego"][:1]:
        sm = {k: v for k, v in b.items() if k not in ("forge", "payloads")}
        if "steps" in sm:
            sm["steps"] = [step_label(x) for x in sm["steps"]][:40]
        chk.sample(sm)
    # 5. violations: confirmed on a re-run of the single execution before they are reported
    firsts = {}
    for v in sorted(s["viol"], key=lambda v: v["line"]):
        firsts.setdefault((v["case"], v["prop"]), v)
    where = {}          # trace line number -> index of the step within its execution (0-based)
    k = 0
    for n, o in enumerate(vf.read_ndjson(trace), 1):
        k = -1 if o.get("e") == "Reset" else k + 1
        where[n] = k
    cands = {}
    for (cid, prop), v in firsts.items():
        b = by_id.get(cid)
        if not b:
            continue
        if b["kind"] == "script":
            idx = where[v["line"]]
            step = b["steps"][idx]
            # the path to the state the step was taken in (earlier no-effect steps of a packed behaviour left it unchanged)
            pre = b["steps"][:min(idx, b.get("prefix", idx))]
            sig = "C15:AuthOnly:%s:%s" % ("controlling" if b["ctl"] else "controlled", ",".join(step_label(x) for x in pre + [step]))
            key = ("script", step["d"]["cls"], step["d"]["auth"], step["d"]["src"], b["ctl"])
            mini = {"case": cid + "-min", "kind": "script", "ctl": b["ctl"], "steps": pre + [step]}
            rank = (len(pre), sig)
            what = ("a datagram without a valid integrity code changed the component's connectivity state: after "
                    + (", ".join(step_label(x) for x in pre) or "nothing") + " the step " + step_label(step)
                    + " caused " + json.dumps(cases[cid][idx + 1]["o"]))
        else:
            sig = "C15:%s:%s" % (prop, cid)
            key = ("nego", prop, cid)
            mini = b
            rank = (50, sig)
            what = {"Connects": "two agents that exchanged credentials and candidates did not both reach the connected state",
                    "AuthOnly-nego": "traffic from a socket that does not know the credentials had an effect during an honest negotiation "
                                     "(it received an answer / was selected)",
                    "Data": "an application datagram was not delivered unchanged",
                    "Priority": "an advertised candidate, or the PRIORITY attribute of a connectivity check (the priority of the peer-reflexive "
                                "candidate it would create), is not the RFC 5245 4.1.2.1 / 7.1.2.1 value"}.get(prop, prop) + ": " + v["what"]
        if key not in cands or rank < cands[key][0]:
            cands[key] = (rank, sig, what, mini, prop)
    # at most 4 scripted + 2 negotiation candidates, the shortest histories first
    order = sorted(cands, key=lambda k: cands[k][0:2])
    order = [k for k in order if k[0] == "script"][:4] + [k for k in order if k[0] == "nego"][:2]
    # one confirmation run for all of them (each execution starts from fresh objects)
    if order:
        minis = [cands[k][3] for k in order]
        for i, m in enumerate(minis):
            m["case"] = "confirm%d" % i
        r2, s2, _ = run_and_validate(chk, minis, "-confirm")
        for i, key in enumerate(order):
            rank, sig, what, mini, prop = cands[key]
            again = any(v["case"] == mini["case"] and v["prop"] == (prop if mini["kind"] == "nego" else "AuthOnly") for v in s2["viol"])
            if again:
                chk.violation(sig, what, [mini])
            else:
                chk.note(f"not confirmed on re-run, not reported: {sig}")
    chk.assumptions += [
        "the attacker is off-path for the honest negotiations (does not see transaction ids); in the scripted executions "
        "forged responses do carry the id of the outstanding check",
        "the implementation does not look at USERNAME and C15 does not ask it to; it is varied on the wire only",
        "one local host candidate on 127.0.0.1 per component (no STUN/TURN servers, no multi-homing)",
        "the 500 ms check timer and retransmission timers run on wall-clock time: behaviours in which a timer tick is "
        "pending let it happen first; retransmissions are recognised by their transaction id and not counted as effects",
    ]
