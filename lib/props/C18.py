"""C18 — automatic trust management: only an authenticated key's holder can move trust, within scope.
Spec: spec/Atm.tla (+AtmGen, AtmTrace). Driver: qxv atm."""
import os
from concurrent.futures import ThreadPoolExecutor

import vf

LEVEL = "model_checking"

WORKERS = 4          # TLC workers / parallel replay + validation chunks
RIDE = 8             # state-preserving transitions ridden on one behaviour
ACCTS = ["own", "a", "b"]
IDS = ["o1", "o2", "a1", "b1", "k"]          # key ids; a key is an (account, id) pair, "k" exists under every account
_DEV = {"blank": {"o1": "Und", "o2": "Und", "a1": "Und", "b1": "Und"},
        "auto": {"o1": "ATru", "o2": "ATru", "a1": "ATru", "b1": "ATru"},
        "mixed": {"o1": "Auth", "o2": "ADis", "a1": "MTru", "b1": "ADis"}}
_SHARED = {"blank": {"own": "Und", "a": "Und", "b": "Und"},
           "auto": {"own": "ATru", "a": "ATru", "b": "ATru"},
           "mixed": {"own": "MDis", "a": "ATru", "b": "Und"}}
_OWNER = {"o1": "own", "o2": "own", "a1": "a", "b1": "b"}
# spec/Atm.tla InitLv, in the order of PairSeq (accounts x ids): only used to name a behaviour's initial levels
INITS = {tuple((_SHARED[n][a] if i == "k" else _DEV[n][i] if _OWNER[i] == a else "Und") for a in ACCTS for i in IDS): n
         for n in _DEV}
# step kinds the behaviours of a tour must contain (vacuity guard; counted by AtmTrace on the model's steps)
MUST_SEE = ["change", "direct", "held", "fired", "cascade2", "discarded", "subsumed", "demoted", "outOfScope", "echo",
            "sameIdMsg", "sameIdHeld", "otherOwnerKept"]


def ride_loops(raw):
    """Emitted transitions -> behaviours. All transitions that leave a source state share the
    path to it (the BFS-shortest one, hist is hidden from the state by VIEW). Transitions that do
    not change the model state are chained in front of a state-changing transition from the same
    source (or form a behaviour of their own), so every transition is still executed once, from
    the model state it was generated in, at a fraction of the trace lines."""
    groups = {}
    for t in raw:
        key = (t["policy"], tuple(t["init"]), tuple(vf._canon(s) for s in t["steps"][:-1]))
        g = groups.setdefault(key, {"t": t, "loops": [], "moves": []})
        (g["loops"] if t.get("loop") else g["moves"]).append(t["steps"][-1])
    behs = []
    for g in groups.values():
        t = g["t"]
        prefix = t["steps"][:-1]
        chunks = [g["loops"][i:i + RIDE] for i in range(0, len(g["loops"]), RIDE)]
        for i, mv in enumerate(g["moves"]):
            behs.append({"policy": t["policy"], "init": t["init"],
                         "steps": prefix + (chunks[i] if i < len(chunks) else []) + [mv]})
        for ch in chunks[len(g["moves"]):]:
            behs.append({"policy": t["policy"], "init": t["init"], "steps": prefix + ch})
    return vf.maximal_behaviours(behs)


def step_str(s):
    if s["a"] == "Manual":
        return "Manual(%s:%s)" % (s["o"], ",".join(["+" + k for k in s["auth"]] + ["-" + k for k in s["dis"]]))
    ow = ";".join("%s:%s" % (o["o"], ",".join(["+" + k for k in o["t"]] + ["-" + k for k in o["d"]])) for o in s["owners"])
    return "%s(%s>%s)" % ("Msg" if s["a"] == "TrustMsg" else "Echo", s["sk"], ow)


def beh_sig(b, upto=None):
    steps = b["steps"] if upto is None else b["steps"][:upto]
    return "%s:%s:%s" % (b["policy"], INITS.get(tuple(b["init"]), "/".join(b["init"])), ",".join(step_str(s) for s in steps))


def split_chunks(behs, n):
    """n contiguous chunks of about equal number of steps; returns [(first index, behaviours)]."""
    total = sum(len(b["steps"]) + 1 for b in behs)
    chunks, cur, acc, start = [], [], 0, 0
    for i, b in enumerate(behs):
        cur.append(b)
        acc += len(b["steps"]) + 1
        if acc >= total / n and len(chunks) < n - 1:
            chunks.append((start, cur))
            cur, acc, start = [], 0, i + 1
    if cur:
        chunks.append((start, cur))
    return chunks


def run(chk, replay=None):
    quick = chk.tier == "quick"
    # 1. design level: the reference model satisfies the C18 step predicates (StepOK) exhaustively
    for cfg in (["Atm.cfg", "AtmDeep.cfg"] if quick else ["AtmFull.cfg", "AtmDeep5.cfg"]):
        chk.mc(vf.tlc_mc("Atm.tla", cfg, workers=WORKERS), cfg)
    # 2. behaviours: transition tours of bounded models + seeded random walks over the rich universe
    if replay:
        behs = [b for b in vf.read_ndjson(replay) if "steps" in b]
        tour_mode = False
    else:
        tour_mode = True
        gen = {}
        raw = []
        for cfg in (["AtmGenTour.cfg"] if quick else ["AtmGenTourA.cfg", "AtmGenTourB.cfg", "AtmGenTourC.cfg"]):
            r, st = vf.tlc_gen("AtmGen.tla", cfg, keep_prefixes=True)
            st["transitions_emitted"] = st.pop("emitted")
            st.pop("behaviours", None)
            gen[cfg] = st
            raw += r
        tour = ride_loops(raw)
        gen["tour_transitions"] = len(raw)
        gen["tour_behaviours"] = len(tour)
        sim, st3 = vf.tlc_simulate("AtmGen.tla", "AtmGenSim.cfg", num=400 if quick else 2500, depth=8 if quick else 12,
                                   seed=chk.seed, workers=WORKERS, steps_key=None)
        for b in sim:
            b.pop("loop", None)
        sim = vf.maximal_behaviours(sim)
        st3["behaviours"] = len(sim)
        gen["simulate"] = st3
        behs = tour + sim
        chk.cov["generation"] = gen
    vf.write_ndjson(chk.path("behaviours.ndjson"), behs)
    if not behs:
        raise vf.MachineryError("no behaviours to replay")
    # 3. replay against the real QXmppAtmManager (ASan/UBSan build), in parallel chunks
    chunks = split_chunks(behs, WORKERS if len(behs) >= 64 else 1)

    def replay_chunk(ic):
        i, (start, part) = ic
        inp = chk.path(f"behaviours-{i}.ndjson")
        trace = chk.path(f"trace-{i}.ndjson")
        vf.write_ndjson(inp, part)
        r = vf.qxv("atm", trace, in_path=inp, seed=chk.seed, tier=chk.tier, opts={"base": start}, check=False)
        vf.repair_truncated(trace)
        return r, trace

    with ThreadPoolExecutor(len(chunks)) as ex:
        reps = list(ex.map(replay_chunk, enumerate(chunks)))
    san = []
    for r, _ in reps:
        san += r["sanitizer"]
        if r["rc"] != 0:
            # C18 has no crash clause: an abnormal exit of the harness is a failure of the machinery
            raise vf.MachineryError("qxv atm exited %d: %s %s" % (r["rc"], "; ".join(r["sanitizer"][:3]), r["stderr"][-1500:]))
    if san:
        chk.note("sanitizer reports while replaying (not part of C18): " + "; ".join(sorted(set(san))[:3]))
    # 4. trace validation (same chunks, one TLC each)
    with ThreadPoolExecutor(len(chunks)) as ex:
        sums = list(ex.map(lambda it: vf.tlc_trace("AtmTrace.tla", "AtmTrace.cfg", it[1][1], tag=f"AtmTrace-{it[0]}", heap="4g"),
                           enumerate(reps)))
    kinds = {}
    okinds = {}
    viols = []
    divs = []
    for i, s in enumerate(sums):
        for k, v in s["kinds"].items():
            kinds[k] = kinds.get(k, 0) + v
        for k, v in s["okinds"].items():
            okinds[k] = okinds.get(k, 0) + v
        viols += [dict(v, chunk=i) for v in s["viol"]]
        divs += s["divs"]
    chk.cov["traces_validated_against_impl"] = sum(s["cases"] for s in sums)
    chk.cov["trace_lines"] = sum(s["lines"] for s in sums)
    chk.cov["diverged_executions"] = sum(s["ndiv"] for s in sums)
    chk.cov["first_divergences"] = divs[:3]
    chk.cov["step_kinds_model"] = kinds
    chk.cov["step_kinds_observed"] = okinds
    chk.cov["replay_wall_s"] = max(r["wall_s"] for r, _ in reps)
    chk.cov["trace_validation_wall_s"] = max(s["wall_s"] for s in sums)
    chk.cov["exhaustive"] = tour_mode
    chk.cov["bounds"] = {"accounts": 3, "key_ids": 5, "keys_owner_id_pairs": 7, "shared_key_id": "k (under all 3 accounts)", "policies": 2,
                         "model_check": "Atm.cfg: 3 senders, 6 keys, <=2 decisions/message, <=2 keys/manual decision, histories <=2; "
                                        "AtmDeep.cfg: 1 decision, histories <=4" if quick else
                                        "AtmFull.cfg: 3 senders, 6 keys, <=2 decisions/message, histories <=3; AtmDeep5.cfg: 1 decision, histories <=5"}
    chk.cov["rule"] = ("behaviours = transition tour(s) of bounded Atm models (every transition, reached by a shortest path; "
                       "state-preserving transitions ridden on the behaviour of a state-changing one) + seeded random walks over "
                       "the rich universe; each replayed on the real QXmppAtmManager + QXmppAtmTrustMemoryStorage (ASan/UBSan) and "
                       "validated by AtmTrace.tla, which evaluates the C18 step predicates on consecutive reported states")
    for b in behs[:2] + behs[len(behs) // 2:len(behs) // 2 + 2] + behs[-2:]:
        chk.sample(b)
    # 5. violations: one per (property, minimal behaviour prefix)
    seen = set()
    case_cache = {}
    for v in sorted(viols, key=lambda v: (v["step"], v["chunk"], v["line"])):
        if (v["case"], v["prop"]) in seen:
            continue
        seen.add((v["case"], v["prop"]))
        idx = int(v["case"][1:]) - 1
        b = behs[idx]
        if v["chunk"] not in case_cache:
            case_cache[v["chunk"]] = vf.split_cases(reps[v["chunk"]][1])
        lines = case_cache[v["chunk"]].get(v["case"], [])[:v["step"] + 1]
        cut = dict(b, steps=b["steps"][:max(v["step"], 1)])
        sig = "C18:" + v["prop"] + ":" + beh_sig(cut)
        chk.violation(sig, f"{v['prop']} fails at step {v['step']} ({v['e']}) of behaviour {beh_sig(cut)}", [cut] + lines)
        if len(chk.violations) >= 5:
            break
    if tour_mode and not chk.violations:
        # vacuity guard on the behaviours (kinds of steps the *model* takes along them)
        missing = [k for k in MUST_SEE if not kinds.get(k)]
        if missing:
            raise vf.MachineryError("vacuity guard: the replayed behaviours contain no step of kind " + ", ".join(missing))
    chk.assumptions += [
        "a key is an (owner, key id) pair; subject key ids are shared between owners, but the ids of keys that SEND trust messages belong to one account each (the storage interface keeps held decisions under the sender's key id only)",
        "the e2ee layer reports the true sender key: the sender key of a message from account x is a key of x",
        "a trust message lists an owner at most once and a key in at most one direction",
        "'distrusted' in the statement means the manual/ATM decision (ManuallyDistrusted), not the automatic TOAKAFA demotion",
        "a held decision may also disappear when an identical decision (same owner, same key id, same direction) is applied (DropSubsumed in spec/Atm.tla)",
        "memory storage: all storage tasks complete synchronously",
    ]
