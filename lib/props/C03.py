"""C03 — stream framing is independent of how the byte stream is split into reads.
Spec: spec/Framing.tla (+FramingGen, FramingTrace). Driver: qxv framing. Corpus: lib/framing_corpus.py."""
import concurrent.futures as cf
import hashlib
import json
import os

import framing_corpus as fc
import vf

LEVEL = "model_checking"
PARTS = 4          # driver + trace validation pipelines run side by side
RAND = {"quick": (60, 60), "thorough": (10000, 2000)}   # seeded random splits per corpus stream / per long stream
MAX_REPORT = 6     # VIOLATION lines per run (one per stream / kind of cut)
COARSE = 8192      # streams longer than this: explicit partitions only, coarse atoms in the description
# size classes x realisations of ONE large stanza (see lib/framing_corpus.py); m7a/m8a/m9a (instances of the
# model shapes m7..m9) are the 70 KiB text, 300 KiB attribute and 1.1 MiB children streams
SIZE_STREAMS = {"quick": ["1k-text", "1k-attr", "1k-child", "5k-text", "5k-attr", "5k-child", "70k-attr", "70k-child"],
                "thorough": ["1k-text", "1k-attr", "1k-child", "5k-text", "5k-attr", "5k-child", "70k-attr", "70k-child",
                             "300k-text", "300k-child", "1m-text", "1m-attr"]}
# compositions of the large shapes that are executed: at most this many reads
MAX_READS = {"quick": {"m7": 3, "m8": 2, "m9": 2}, "thorough": {"m7": 99, "m8": 4, "m9": 3}}


def _negative_control(cfg):
    """A deliberately wrong variant of the design spec must violate the C03 invariants."""
    rc, out, wall = vf._tlc(["-workers", "2", "-metadir", vf._metadir("mc-" + cfg[:-4]), "-config", cfg, "Framing.tla"], timeout=900)
    failed = "is violated" in out and ("PrefixOK" in out or "CompleteOK" in out)
    if not failed:
        raise vf.MachineryError(f"negative control {cfg} did not violate the framing invariants (vacuous specification?)\n" + out[-1500:])
    return {"cfg": cfg, "violates_invariant": True, "wall_s": round(wall, 2)}


def _job_cost(job, n):
    """~ trace lines a job produces"""
    if "cuts" in job:
        return len(job["cuts"]) + 3
    if job["gen"] == "all2":
        return (job["to"] - job["from"] + 1) * 4
    if job["gen"] == "bytes":
        return n + 2
    return job["count"] * 20


def _stream_units(st, comps, rand_count, chunk, all2=True, extra=()):
    """input lines of one corpus stream, cut into units of bounded cost; every unit starts with the
    definition of the stream (the driver then runs the one-read reference execution first)"""
    sid, desc = st["sid"], fc.describe(st)
    n = desc["n"]
    dline = {"def": {"sid": sid, "hex": fc.data(st).hex(), "s": desc}}
    jobs = [{"sid": sid, "gen": "all2", "from": a, "to": min(a + 3999, n - 1)} for a in range(1, n, 4000)] if all2 else []
    jobs += [dict(j, sid=sid) for j in extra]
    ends = fc.cell_ends(st)
    for c in comps:
        cuts, k = [], 0
        for s in c["steps"][:-1]:
            k += s["n"]
            cuts.append(ends[k - 1])
        jobs.append({"sid": sid, "cuts": cuts, "src": "tlc"})
    jobs.append({"sid": sid, "gen": "bytes"})
    jobs += [{"sid": sid, "gen": "rand", "count": min(2500, rand_count - a)} for a in range(0, rand_count, 2500)]
    units, cur, cost = [], [dline], 0
    for j in jobs:
        c = _job_cost(j, n)
        if cost + c > chunk and len(cur) > 1:
            units.append((cost, cur))
            cur, cost = [dline], 0
        cur.append(j)
        cost += c
    units.append((cost, cur))
    return units, desc


def _coarse_unit(st, comps, thorough):
    """a stream with a large stanza: explicit partitions only (positions relative to the large stanza, uniform
    chunks, the selected TLC compositions), description with coarse atoms.  One unit."""
    sid, b = st["sid"], fc.data(st)
    jobs = fc.size_partitions(st, thorough=thorough, max_reads=300 if thorough else 24)
    ends = fc.cell_ends(st)
    for c in comps:
        cuts, k = [], 0
        for s in c["steps"][:-1]:
            k += s["n"]
            cuts.append(ends[k - 1])
        jobs.append({"cuts": cuts, "src": "tlc"})
    desc, at = fc.describe_coarse(st, [j["cuts"] for j in jobs])
    lines = [{"def": {"sid": sid, "hex": b.hex(), "s": desc, "at": at}}] + [dict(j, sid=sid) for j in jobs]
    # cost ~ bytes the receiver parses again and again (every read re-parses the whole remainder), in trace-line units
    cost = 0
    for j in jobs:
        pts = [0] + j["cuts"] + [len(b)]
        cost += sum(pts[1:]) // 400 + len(pts) + 2
    return [(cost, lines)], desc


def _run_part(chk, tag, lines, verbose=False, seed=None):
    inp, trace = chk.path(f"in-{tag}.ndjson"), chk.path(f"trace-{tag}.ndjson")
    vf.write_ndjson(inp, lines)
    r = vf.qxv("framing", trace, in_path=inp, seed=seed or chk.seed, tier=chk.tier, opts={"verbose": 1} if verbose else None, check=False)
    if r["rc"] != 0:
        raise vf.MachineryError(f"qxv framing ({tag}) exited {r['rc']}: " + "; ".join(r["sanitizer"][:3]) + "\n" + r["stderr"][-2000:])
    s = vf.tlc_trace("FramingTrace.tla", "FramingTrace.cfg", trace, tag=f"FramingTrace-{tag}", heap="3g")
    if s["orphans"]:
        raise vf.MachineryError(f"trace {tag}: {s['orphans']} executions without a stream definition")
    return {"summary": s, "trace": trace, "qxv_wall_s": r["wall_s"], "ubsan": r["sanitizer"]}


def _scan_resets(trace, want=None):
    """Reset records of a trace: case -> record (all of them, or only the wanted cases)"""
    res = {}
    with open(trace) as f:
        for ln in f:
            if '"e":"Reset"' not in ln:
                continue
            o = json.loads(ln)
            if want is None or o["case"] in want:
                res[o["case"]] = o
    return res


def _case_lines(trace, case):
    out, on = [], False
    with open(trace) as f:
        for ln in f:
            if '"e":"Reset"' in ln:
                if on:
                    break
                on = json.loads(ln)["case"] == case
            if on:
                out.append(json.loads(ln))
    return out


def _label(classes):
    """kind of split a violation is attributed to: a cut inside a multi-byte character, or not"""
    return "mb" if "mb" in classes else "nomb"


def run(chk, replay=None):
    quick = chk.tier == "quick"
    # ---- 1. design level ---------------------------------------------------------------------
    chk.mc(vf.tlc_mc("Framing.tla", "Framing.cfg", workers=4), "Framing.cfg")
    chk.cov["negative_controls"] = [_negative_control("FramingPerRead.cfg"), _negative_control("FramingStale.cfg"),
                                    _negative_control("FramingLimit.cfg")]
    # ---- 2. behaviours: every composition of every shape (model-checked on the same run) ------
    streams = fc.model_variants() + fc.corpus_streams() + fc.size_model_variants() + fc.size_streams(SIZE_STREAMS[chk.tier]) \
        + fc.header_variants() + fc.header_streams()
    if not quick:
        streams += fc.long_streams(chk.seed)
    by_sid = {st["sid"]: st for st in streams}
    if replay:
        lines = [b for b in vf.read_ndjson(replay) if "def" in b or ("sid" in b and ("cuts" in b or "gen" in b))]
        parts = [lines]
        descs = {b["def"]["sid"]: b["def"]["s"] for b in lines if "def" in b}
        coarse = {b["def"]["sid"] for b in lines if "def" in b and b["def"].get("at")}
    else:
        gen, st = vf.tlc_gen("FramingGen.tla", "FramingGenAll.cfg", steps_key=None, keep_prefixes=True)
        shapes = {b["sid"]: b["cells"] for b in gen if "cells" in b}
        comps = {}
        for b in gen:
            if "steps" in b:
                comps.setdefault(b["sid"], []).append(b)
        chk.mc({"ok": True, "distinct": st["distinct"], "states": st["states"], "depth": 0, "wall_s": st["wall_s"]}, "FramingGenAll.cfg")
        chk.cov["generation"] = {"all_compositions": {k: len(v) for k, v in sorted(comps.items())}, "wall_s": st["wall_s"]}
        for s in streams:
            m = s["sid"][:2]
            if s["sid"].startswith("m") and fc.shape_of(s) != shapes.get(m):
                raise vf.MachineryError(f"corpus stream {s['sid']} does not instantiate the cells of model shape {m}")
        units, descs, coarse = [], {}, set()
        chunk = 70000 if quick else 150000
        for s in streams:
            is_model = s["sid"].startswith("m")
            # quick: the compositions of a shape go to its first variant; thorough: to all variants
            use = comps.get(s["sid"][:2], []) if is_model and (not quick or s["sid"].endswith("a")) else []
            if len(fc.data(s)) > COARSE:
                mr = MAX_READS[chk.tier].get(s["sid"][:2], 0)
                u, desc = _coarse_unit(s, [c for c in use if len(c["steps"]) <= mr], not quick)
                coarse.add(s["sid"])
            else:
                u, desc = _stream_units(s, use, RAND[chk.tier][s["sid"].startswith("L")], chunk,
                                        all2=not (quick and s.get("class") == "size" and len(fc.data(s)) > 2048),
                                        extra=fc.size_partitions(s) if s.get("class") == "size" else [])
            descs[s["sid"]] = desc
            units += u
        nparts = max(PARTS, -(-sum(c for c, _ in units) // chunk))
        parts = [[] for _ in range(nparts)]
        load = [0] * nparts
        for cost, lines in sorted(units, key=lambda x: -x[0]):
            i = load.index(min(load))
            parts[i] += lines
            load[i] += cost
        parts = [p for p in parts if p]
    # ---- 3/4. replay on the real XmppSocket over loopback TCP; trace validation ----------------
    with cf.ThreadPoolExecutor(max_workers=PARTS) as ex:
        results = list(ex.map(lambda a: _run_part(chk, f"p{a[0]}", a[1], verbose=bool(replay), seed=chk.seed * 1000 + a[0]), enumerate(parts)))
    tot = {k: sum(r["summary"][k] for r in results) for k in ("cases", "lines", "nviol", "ndiv", "nulls", "inexact", "refs")}
    chk.cov["traces_validated_against_impl"] = tot["cases"]
    chk.cov["evaluations"] = tot["cases"]
    chk.cov["trace_lines"] = tot["lines"]
    chk.cov["diverged_executions"] = tot["ndiv"]
    chk.cov["first_divergences"] = [d for r in results for d in r["summary"]["divs"]][:3]
    chk.cov["null_elements_projected_away"] = tot["nulls"]
    chk.cov["reads_not_delivered_as_one_readyRead"] = tot["inexact"]
    chk.cov["violating_executions"] = tot["nviol"]
    chk.cov["streams"] = len(descs)
    chk.cov["reference_runs"] = tot["refs"]
    chk.cov["exhaustive"] = True
    chk.cov["pipeline_wall_s"] = [{"qxv": r["qxv_wall_s"], "tlc_trace": r["summary"]["wall_s"], "lines": r["summary"]["lines"]} for r in results]
    ub = [x for r in results for x in r["ubsan"]]
    if ub:
        chk.note("UBSan reports while replaying: " + "; ".join(ub[:3]))
    # measured breakdown: executions per source, kinds of 2-way cuts
    by_src, samples = {}, {}
    for r in results:
        for case, o in _scan_resets(r["trace"]).items():
            by_src[o["src"]] = by_src.get(o["src"], 0) + 1
            if o["src"] not in samples or (o["src"] == "tlc" and len(o["cuts"]) == 4 and len(samples[o["src"]]["cut_offsets"]) != 4):
                samples[o["src"]] = {"case": case, "stream": o["sid"], "source": o["src"], "cut_offsets": o["cuts"][:24]}
    chk.cov["executions_by_source"] = by_src
    classes = {}
    for sid, d in descs.items():
        if sid in by_sid and sid not in coarse:
            for p in range(1, d["n"]):
                c = fc.cut_class(by_sid[sid], d, p)
                classes[c] = classes.get(c, 0) + 1
    chk.cov["two_way_cuts_by_kind"] = classes
    chk.cov["bytes_total"] = sum(len(fc.data(by_sid[sid])) if sid in by_sid else d["n"] for sid, d in descs.items())
    chk.cov["size_classes"] = [{"stream": st["sid"], "what": st["note"], "bytes": len(fc.data(st)),
                                "utf16_units": len(fc.data(st).decode("utf-8").encode("utf-16-le")) // 2,
                                "largest_stanza_bytes": fc.big_element(st)[1] - fc.big_element(st)[0]}
                               for st in streams if st.get("class") == "size" and st["sid"] in descs]
    for s in samples.values():
        chk.sample(s)
    chk.cov["rule"] = ("Framing.cfg model-checked; FramingGenAll.cfg enumerates (and model-checks) every composition of the cells of 6 "
                       "stream shapes into reads; each composition is mapped to byte offsets of a byte-exact instance of its shape; "
                       "additionally for every corpus stream: EVERY 2-way split at every byte offset, one byte at a time, seeded random "
                       "k-way splits. Size classes: streams with ONE stanza of 1 KiB .. 1.1 MiB (text / attribute value / child "
                       "elements, multi-byte characters) split after k*4 KiB, around k*64 KiB (bytes and UTF-16 units), at the stanza's "
                       "first and last bytes and into uniform chunks of 4 KiB .. 64 KiB+1. Every execution runs a fresh QXmpp::Private::XmppSocket over a loopback TCP connection (chunk = "
                       "read by construction) and is validated by FramingTrace.tla against the logged one-read run of the same stream. "
                       "An execution is distinct by (stream, set of cut offsets).")
    # ---- 5. violations: one witness per (stream, predicate, kind of cut), confirmed by a re-run --
    groups = {}
    for r in results:
        v = r["summary"]["viol"]
        resets = _scan_resets(r["trace"], {x["case"] for x in v})
        for x in v:
            o = resets[x["case"]]
            st = by_sid.get(o["sid"])
            d = {"elems": fc.elements(st)[0]} if st else None      # byte offsets (descs may have coarse atoms)
            cl = [fc.cut_class(st, d, p) if st else "?" for p in o["cuts"][:40]]
            key = (o["sid"], x["prop"], _label(cl))
            cand = (len(o["cuts"]), o["cuts"], x, o, cl, r["trace"])
            if key not in groups or cand[:2] < groups[key][:2]:
                groups[key] = cand
    edge = lambda sid: (by_sid.get(sid) or {}).get("class", "plain") != "plain"
    nbytes = lambda sid: len(fc.data(by_sid[sid])) if sid in by_sid else descs[sid]["n"]
    order = sorted(groups, key=lambda k: (edge(k[0]), edge(k[0]) and k[2] == "mb", groups[k][0], k[2] != "mb", nbytes(k[0]), k[0], k[1]))
    # one witness per kind of defect first (kind of cut; each unusual-but-valid stream is its own kind), then more streams
    seen_lab, first, rest = set(), [], []
    for k in order:
        kind = ("edge", k[0]) if edge(k[0]) else (k[2], "")
        (rest if kind in seen_lab else first).append(k)
        seen_lab.add(kind)
    chosen = (first + rest)[:MAX_REPORT]
    if chosen:
        chk.cov["violation_groups"] = len(groups)
        by_stream = {}
        for k in groups:
            by_stream[k[0]] = by_stream.get(k[0], 0) + 1
        chk.note(f"{tot['nviol']} violating executions in {len(groups)} groups (stream, predicate, kind of cut); reporting {len(chosen)}")
        confirm = []
        for k in chosen:
            sid = k[0]
            d = next(b for p in parts for b in p if "def" in b and b["def"]["sid"] == sid)
            confirm += [d, {"sid": sid, "cuts": groups[k][1], "src": "confirm"}]
        c = _run_part(chk, "confirm", confirm, verbose=True)
        again = {}
        for x in c["summary"]["viol"]:
            again.setdefault(x["case"].split("/")[0], []).append(x)
        for k in chosen:
            sid, prop, lab = k
            ncuts, cuts, x, o, cl, trace = groups[k]
            hit = [y for y in again.get(sid, []) if y["prop"] == prop]
            if not hit:
                chk.note(f"violation {k} cuts={cuts} was not reproduced by the confirmation run: not reported")
                continue
            case = hit[0]["case"]
            ref = [dl for ln in _case_lines(c["trace"], sid + "/ref") if ln["e"] == "Read" for dl in ln["dl"] if dl["k"] != "null"]
            lines = _case_lines(c["trace"], case)
            got = [dl for ln in lines if ln["e"] == "Read" for dl in ln["dl"] if dl["k"] != "null"]
            at = hit[0]["at"]
            g = got[at - 1] if 0 < at <= len(got) else None
            rf = ref[at - 1] if 0 < at <= len(ref) else None
            show = lambda z: "nothing" if z is None else (z["k"] + " " + z.get("x", "")[:300])
            st = by_sid.get(sid) or {}
            scuts = ",".join(map(str, cuts)) if len(cuts) <= 12 else f"{len(cuts)}cuts-" + hashlib.sha1(json.dumps(cuts).encode()).hexdigest()[:8]
            kinds = ", ".join(cl) if len(cl) <= 12 else ", ".join(sorted(set(cl)))
            what = (f"{prop} fails for stream {sid} ({st.get('note', '')}) split at byte offsets [{scuts}] (cut kinds: {kinds}): "
                    f"delivery #{at} is [{show(g)}] but the one-read run delivers [{show(rf)}]; "
                    f"the split run delivered {len(got)} events, the one-read run {len(ref)}")
            sig = f"C03:{prop}:{sid}:{lab}:cuts={scuts}"
            dline = next(b for b in confirm if "def" in b and b["def"]["sid"] == sid)
            # not under out/C03/: vf.Check() empties that directory when the replay command starts
            rdir = os.path.join(vf.OUT, "replay", "C03" if not replay else "C03-replayed")
            os.makedirs(rdir, exist_ok=True)
            rpath = os.path.join(rdir, f"violation-{len(chk.violations) + 1}.ndjson")
            vf.write_ndjson(rpath, [dline, {"sid": sid, "cuts": cuts, "src": "replay"}] + _case_lines(c["trace"], sid + "/ref") + lines)
            chk.violation(sig, what, replay_path=rpath)
    chk.assumptions += [
        "a stream restart never shares a read with the data before it (the new header answers something the receiver sent)",
        "content of a stream-open event = name, namespace and attributes of <stream:stream> (children excluded); content of a stanza = "
        "canonical XML (expanded names, sorted attributes, merged text/CDATA); comments and processing instructions are not in the corpus",
        "null elements emitted for whitespace-only reads are not stream events (projected away, counted)",
        "plain TCP on 127.0.0.1; TLS record boundaries are not explored (the decrypted byte stream reaches the same readyRead handler)",
    ]
