"""Shared pipeline of C04 and C10: spec/ClientStream*.tla + `qxv stream` (loopback TCP/TLS)."""
import collections
import json
import random

import vf

F_NONE = {"tls": "absent", "mechs": "none", "s2": "none", "b2": "none", "r2": False, "legacy": False, "bind": False, "sm": False, "register": False}


def feat(**kw):
    f = dict(F_NONE)
    f.update(kw)
    return {"k": "Features", "f": f}


HDR = {"k": "Hdr", "versioned": True}


def epilogue(cfg, end_sock):
    """Honest reconnection appended to every behaviour (C10: "a following connection attempt runs the
    negotiation from the start and succeeds"). Uses PLAIN so that no server proof is involved."""
    if cfg.get("reg", "none") != "none":
        return []       # a registration-on-connect client never opens a session: nothing to re-establish
    steps = [{"k": "EpilogueStart"}]
    if end_sock == "On":
        steps.append({"k": "Cut"})
    steps.append({"k": "Connect"})
    if cfg["tls"] == "Required":
        steps += [HDR, feat(tls="optional", mechs="plain"), {"k": "Proceed"}]
    steps.append(HDR)
    if cfg["sasl2"]:
        steps += [feat(s2="plain"), {"k": "Success2", "res": "none", "bnd": "none"}, feat(bind=True), {"k": "BindResult", "ok": True}]
    elif cfg["sasl"]:
        steps += [feat(mechs="plain"), {"k": "Success"}, HDR, feat(bind=True), {"k": "BindResult", "ok": True}]
    else:
        steps += [feat(bind=True), {"k": "BindResult", "ok": True}]
    steps.append({"k": "EpilogueMark"})
    return steps


def _key(b, coarse):
    k = dict(b["key"])
    if coarse:
        for f in ("canResume", "iq", "redirect", "lq"):
            k.pop(f, None)
        ident = [k, b["steps"][-1], b["cfg"].get("reg", "none")]
    else:
        ident = [b["cfg"], k, b["steps"][-1]]
    return json.dumps(ident, sort_keys=True)


def select(behs, cap, seed, coarse):
    """One shortest behaviour per distinct (source class, input, reaction) key; priority to what the
    properties talk about (TLS required and not yet encrypted; cuts and closes); seeded sample of the
    rest up to `cap`."""
    best = {}
    for b in behs:
        k = _key(b, coarse)
        if k not in best or len(b["steps"]) < len(best[k]["steps"]):
            best[k] = b
    regs, top, prio, rest = [], [], [], []
    for k in sorted(best):
        b = best[k]
        kk = b["key"]
        last = b["steps"][-1]["k"]
        pv = kk.get("prev") or {}
        carried = (not pv.get("none", True)) and (pv.get("authed") or pv.get("enc") or pv.get("session") or pv.get("sm"))
        hot = (kk["tls"] == "Required" and not kk["enc"]) or last in ("Cut", "Disconnect", "SeeOtherHost") or kk["sig"] \
            or (carried and b["steps"][-1]["k"] in ("Features", "Hdr", "Connect", "Success", "Success2", "BindResult", "Enabled", "Resumed", "SmFailed"))
        # first of all: the previous connection ended while a negotiation manager was waiting for
        # an answer, and the server now sends something on the new, not yet authenticated stream
        stale = (not pv.get("none", True)) and not pv.get("authed") and pv.get("lst", "Core") != "Core" \
            and not kk["authed"] and last not in ("Connect", "Cut", "Disconnect")
        # a client with an extension that acts on the stream features itself (registration on
        # connect): few keys, all of them about what is sent before authentication
        regk = b["cfg"].get("reg", "none") != "none" and last not in ("Connect", "Cut", "Disconnect")
        (regs if regk else top if stale else prio if hot else rest).append(b)
    rnd = random.Random(seed)
    for lst in (regs, top, prio, rest):
        rnd.shuffle(lst)
    nreg, nstale = len(regs), len(top)
    # within the registration keys: TLS required and not (yet) encrypted first
    regs.sort(key=lambda b: not (b["key"]["tls"] == "Required" and not b["key"]["enc"]))
    if cap:
        regs = regs[:cap // 5]
        top = top[:cap // 2 - len(regs) // 2]
    chosen = (regs + top + prio + rest)[:cap] if cap else regs + top + prio + rest
    return chosen, {"distinct_keys": len(best), "registration_keys": nreg, "registration_replayed": len(regs),
                    "stale_manager_keys": nstale, "stale_manager_replayed": len(top),
                    "priority_keys": len(prio), "replayed": len(chosen)}


def sig_of(b, upto=None):
    steps = b["steps"] if upto is None else b["steps"][:upto]

    def one(s):
        k = s["k"]
        if k in ("Features", "ProceedThen"):
            f = s["f"]
            on = [x for x in ("legacy", "bind", "sm", "register") if f.get(x)]
            if f.get("b2", "none") != "none":
                on.append("bind2" + ("+sm" if f["b2"] == "sm" else ""))
            if f.get("r2"):
                on.append("resume2")
            return "%s(tls=%s,mechs=%s,s2=%s%s)" % (k, f["tls"], f["mechs"], f["s2"], "".join("," + x for x in on))
        extra = [f"{a}={s[a]}" for a in sorted(s) if a != "k"]
        return k + ("(" + ",".join(extra) + ")" if extra else "")
    c = b["cfg"]
    cfg = "tls=%s,sasl2=%d,sasl=%d,legacy=%d" % (c["tls"], c["sasl2"], c["sasl"], c["legacy"])
    if c.get("reg", "none") != "none":
        cfg += ",reg=" + c["reg"]
    return cfg + ":" + ",".join(one(s) for s in steps)


def generate(chk):
    quick = chk.tier == "quick"
    # The behaviours are a function of the specification alone (not of /repo): generating the
    # tour (3*10^5 transitions, ~200 MB of JSON) and selecting from it is cached under
    # .build/cache, keyed by the spec/selection sources, tier and seed. The exhaustive model
    # check above and everything below (replay, validation) is never cached.
    import hashlib
    import os
    h = hashlib.sha256()
    for f in sorted(os.listdir(vf.SPEC)):
        if f.startswith("ClientStream") and "Trace" not in f:
            h.update(open(os.path.join(vf.SPEC, f), "rb").read())
    h.update(open(__file__, "rb").read())
    h.update(f"{chk.tier}:{chk.seed}".encode())
    cdir = os.path.join(vf.BUILD, "cache")
    os.makedirs(cdir, exist_ok=True)
    cpath = os.path.join(cdir, f"stream-{h.hexdigest()[:20]}.json")
    if os.path.exists(cpath):
        cached = json.load(open(cpath))
        behs, gen = cached["behs"], cached["gen"]
        gen["from_cache"] = True
    else:
        # one line per transition of the tour (gigabytes): the text before "steps" is (cfg, key incl.
        # the last step); breadth-first order makes the first line per prefix a shortest behaviour
        seen = set()
        marker = '\\"steps\\":'
        stat = {"lines": 0}

        def first_per_prefix(line):
            stat["lines"] += 1
            i = line.find(marker)
            if i < 0:
                return True
            hsh = hash(line[:i])
            if hsh in seen:
                return False
            seen.add(hsh)
            return True
        # (every emitted behaviour is a distinct JSON string that TLC interns for the life-time of the
        # process: the thorough generation is split into one TLC process per group of configurations)
        shards = ["ClientStreamGenTour.cfg"] if quick else \
            ["ClientStreamGenTourFull%s.cfg" % x for x in ("DF", "DT", "EF", "ET", "RF", "RT", "Reg")]
        tour, st = [], {"emitted": 0, "states": 0, "distinct": 0, "wall_s": 0.0, "behaviours": 0, "shards": len(shards)}
        for shard in shards:
            t1, s1 = vf.tlc_gen("ClientStreamGen.tla", shard, keep_prefixes=True, steps_key=None, heap="16g", timeout=3600,
                                line_filter=first_per_prefix)
            tour += t1
            for k in ("emitted", "states", "distinct", "wall_s", "behaviours"):
                st[k] = round(st[k] + s1[k], 2)
        st["transitions_emitted"] = stat["lines"]
        chosen, sel = select(tour, 5000 if quick else 30000, chk.seed, coarse=quick)
        # let time pass (longer than the keep-alive interval) at the end of a few behaviours that
        # stop before encryption and before any session, TLS being required: nothing may be written
        nstall = 25 if quick else 250
        behs = []
        stalled = 0
        for b in chosen:
            steps = list(b["steps"])
            kk = b["key"]
            if (stalled < nstall and kk["tls"] == "Required" and not kk["enc"] and kk["endSock"] == "On"
                    and not kk["session"] and not kk["sig"] and steps[-1]["k"] in ("Hdr", "Features", "Whitespace", "IqOther", "Partial")
                    and kk["lst2"] in ("Core", "Starttls")):
                steps.append({"k": "Stall"})
                stalled += 1
            behs.append({"cfg": b["cfg"], "steps": steps + epilogue(b["cfg"], kk["endSock"])})
        sel["stalled_behaviours"] = stalled
        gen = {"tour": st, "selection": sel, "from_cache": False}
        json.dump({"behs": behs, "gen": gen}, open(cpath + ".tmp", "w"))
        os.replace(cpath + ".tmp", cpath)
    chk.cov["generation"] = gen
    return behs


def run_stream(chk, prefix, replay=None):
    quick = chk.tier == "quick"
    # 1. design level: exhaustive model check of the client stream machine (all 24 configurations,
    #    arbitrary server over the 12 representative feature elements)
    mcfg = "ClientStream.cfg" if quick else "ClientStreamFull.cfg"   # 6 configurations / all 24
    chk.mc(vf.tlc_mc("ClientStreamMC.tla", mcfg, workers=12, heap="8g", timeout=3600), mcfg)
    # 2. behaviours
    if replay:
        behs = [b for b in vf.read_ndjson(replay) if "steps" in b]
        for b in behs:      # replay files written before the registration configuration existed
            b["cfg"].setdefault("reg", "none")
            for st in b["steps"]:
                if st.get("k") == "Features":
                    st["f"].setdefault("register", False)
    else:
        behs = generate(chk)
    bpath = chk.path("behaviours.ndjson")
    vf.write_ndjson(bpath, behs)
    # 3. replay over loopback sockets
    trace = chk.path("trace.ndjson")
    r = vf.qxv("stream", trace, in_path=bpath, seed=chk.seed, tier=chk.tier, check=False, timeout=2400)
    vf.repair_truncated(trace)
    crashed = r["sanitizer"] or r["rc"] != 0
    # 4. trace validation
    s = vf.tlc_trace("ClientStreamTrace.tla", "ClientStreamTrace.cfg", trace, tag="ClientStreamTrace-" + prefix)
    chk.cov["traces_validated_against_impl"] = s["cases"]
    chk.cov["trace_lines"] = s["lines"]
    chk.cov["diverged_executions"] = s["ndiv"]
    chk.cov["first_divergences"] = s["divs"][:3]
    chk.cov["replay_wall_s"] = r["wall_s"]
    chk.cov["exhaustive"] = False
    chk.cov["rule"] = ("TLC explores ClientStream exhaustively (24 client configurations x arbitrary server scripts over 12 feature "
                       "elements, cuts anywhere, <= 2 connections); the transition tour of the generation model is reduced to one "
                       "shortest behaviour per distinct (source state class, server move, client reaction) key, each extended by an "
                       "honest reconnection, replayed on a real QXmppClient over loopback TCP/TLS and validated by ClientStreamTrace.tla")
    for b in behs[:2] + behs[-1:]:
        chk.sample({"cfg": b["cfg"], "steps": [sig_of({"cfg": b["cfg"], "steps": b["steps"]})]})
    cases = vf.split_cases(trace, with_lines=True)
    hangs = sum(1 for c in cases.values() for e in c if e.get("hang"))
    chk.cov["hang_detector_fired"] = hangs
    if "hang budget" in r["stderr"]:
        # only a non-conforming implementation gets here (0 hangs on a conforming one); what was
        # replayed up to the budget is judged, the rest is reported as not explored
        chk.cov["replay_truncated_by_hang_budget"] = True
        chk.cov["behaviours_not_replayed"] = len(behs) - len(cases)
        chk.note(f"hang budget used up: {len(cases)} of {len(behs)} behaviours replayed")
    seen = set()
    for v in sorted(s["viol"], key=lambda v: (v["line"])):
        if not v["prop"].startswith(prefix):
            continue
        idx = int(v["case"][1:]) - 1
        b = behs[idx]
        lines = cases[v["case"]]
        # the behaviour up to and including the failing step identifies the finding
        nsteps = sum(1 for e in lines if e["_l"] <= v["line"] and e["e"] not in ("Reset", "End", "Epilogue", "Impossible"))
        hist = sig_of(b, nsteps if v["e"] not in ("End", "Epilogue") else None)
        sig = f"{v['prop']}:{hist}"
        if sig in seen:
            continue
        seen.add(sig)
        # Socket-level observations depend on time (hang detectors, TLS handshakes): a violating
        # behaviour is replayed once more on its own and reported only if the same clause fails
        # again.  (Not when the run itself is a replay of a stored violation file.)
        if not replay:
            n = len(seen)
            if n > 24:
                break       # (enough candidates examined)
            cb, ct = chk.path(f"confirm-{n}.behaviour.ndjson"), chk.path(f"confirm-{n}.trace.ndjson")
            vf.write_ndjson(cb, [b])
            vf.qxv("stream", ct, in_path=cb, seed=chk.seed, tier=chk.tier, check=False, timeout=300)
            vf.repair_truncated(ct)
            s2 = vf.tlc_trace("ClientStreamTrace.tla", "ClientStreamTrace.cfg", ct, tag=f"ClientStreamTrace-{prefix}-confirm")
            if not any(w["prop"] == v["prop"] for w in s2["viol"]):
                chk.cov["alarms_not_reproduced"] = chk.cov.get("alarms_not_reproduced", 0) + 1
                chk.note(f"{v['prop']} on {hist}: not reproduced when replayed alone, not reported")
                continue
        clean = [{k: x for k, x in e.items() if k != "_l"} for e in lines]
        chk.violation(sig, f"{v['prop']} at event {v['e']} of behaviour {hist}", [b] + clean)
        if len(chk.violations) >= 8:
            break
    if crashed and not chk.violations:
        chk.violation(prefix + "-harness:" + vf.san_signature(r),
                      "sanitizer report / abnormal exit of the harness while replaying stream behaviours: "
                      + "; ".join(r["sanitizer"][:3]) + r["stderr"][-400:])
    chk.assumptions += [
        "explicit host (no DNS/SRV address iteration), auto-reconnect off",
        "TLS handshakes succeed when the client starts one (self-signed certificate, ignoreSslErrors)",
        "C10's 'protocol-conforming' is the specification's Conforming predicate; session-timing clauses are judged only while the execution follows the model",
        "user-initiated sends happen only on an established session",
    ]
