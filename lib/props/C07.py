"""C07 — every request completes exactly once, and only by a reply from the entity asked.
Specs: spec/IqTracker.tla (raw request layer: sendIq / sendGenericIq, sessions) and
spec/IqApi.tla (request APIs of the bundled managers), each with Gen and Trace.
Drivers: qxv iq, qxv iqapi (real connections to a scripted server on 127.0.0.1)."""
import json
import random
import subprocess

import vf

LEVEL = "model_checking"
TLC_WORKERS = 4


def _step(st):
    a = st["a"]
    if a == "Send":
        c = st.get("c", "fresh")
        extra = ("" if c == "fresh" else f",id={c}") + ("" if st.get("b", "none") == "none" else f",then={st['b']}")
        return f"Send({st['id']}->{st['to']}{extra})"
    if a == "Recv":
        return f"Recv({st['id']}:{st['ty']}:{st['from']})"
    if a == "Attempt":
        return f"Attempt({st['r']})"
    if a in ("Open", "Close"):
        return f"{a}({st['k']})" if "k" in st else a
    if a == "Call":
        return f"Call({st['name']})"
    if a == "Reply":
        return f"Reply({st['from']}:{st['p']})"
    if a == "Msg":
        return f"Msg({'enc' if st['enc'] else 'plain'})"
    if a == "DecryptDone":
        return f"DecryptDone({st['i']})"
    return a


def _starts(cases):
    start, pos = {}, 1
    for c, lines in cases.items():
        start[c] = pos
        pos += len(lines)
    return start


def _report(chk, s, behs, cases, layer, prefix):
    start = _starts(cases)
    seen = set()
    count = {}
    # shortest histories first: they come from the all-paths / tour sets and do not depend on the seed
    for v in sorted(s["viol"], key=lambda v: (v["line"] - start[v["case"]], v["line"])):
        if v["case"] in seen:
            continue
        seen.add(v["case"])
        b = behs[int(v["case"][len(prefix):]) - 1]
        upto = b["steps"][:max(1, v["line"] - start[v["case"]])]
        # at most two per predicate and kind of caller id involved (plain / empty / duplicate)
        cids = {st.get("c", "fresh")[:3] for st in upto if st["a"] == "Send"}
        kind = (v["prop"], "dup" if "dup" in cids else "emp" if "emp" in cids else "")
        if count.get(kind, 0) >= 2:
            continue
        count[kind] = count.get(kind, 0) + 1
        sig = f"C07:{layer}:{v['prop']}:" + ",".join(_step(st) for st in upto)
        chk.violation(sig, f"{v['prop']} fails at step {v['e']} of behaviour {sig}", [b] + cases[v["case"]])


def _aborts(chk, s, behs, cases, what):
    if s["aborts"]:
        aborted = [c for c, lines in cases.items() if lines and lines[-1].get("e") == "Abort"]
        why = sorted({cases[c][-1].get("why", "") for c in aborted})
        chk.note(f"{what}: {s['aborts']} executions ended early because a step was impossible on the real objects: {why[:5]}")
        if s["aborts"] > max(5, len(behs) // 20) and not s["viol"]:
            raise vf.MachineryError(f"{what}: {s['aborts']} of {len(behs)} executions could not be driven ({why[:5]}): nothing was decided")


def run_tracker(chk, replay):
    quick = chk.tier == "quick"
    chk.mc(vf.tlc_mc("IqTracker.tla", "IqTracker.cfg", workers=TLC_WORKERS), "IqTracker.cfg")
    chk.mc(vf.tlc_mc("IqTracker.tla", "IqTrackerBody.cfg", workers=TLC_WORKERS, tag="IqTrackerBody"), "IqTrackerBody.cfg")
    if not quick:
        chk.mc(vf.tlc_mc("IqTracker.tla", "IqTrackerBig.cfg", workers=TLC_WORKERS, tag="IqTrackerBig"), "IqTrackerBig.cfg")
        # vacuity guard: without the rule "an empty / duplicate id is replaced" the design must break
        k = vf.tlc_mc("IqTracker.tla", "IqTrackerKeep.cfg", workers=TLC_WORKERS, tag="IqTrackerKeep")
        if k["ok"] or "RightSender is violated" not in k["out"]:
            raise vf.MachineryError("IqTrackerKeep.cfg (id rule left out) does not violate RightSender: the specification "
                                    "no longer depends on the rule it is meant to express")
        chk.cov["spec_self_test"] = "IqTrackerKeep.cfg (IdRule = keep) violates RightSender as it must"
    if replay is not None:
        behs = replay
    else:
        t1, st1 = vf.tlc_gen("IqTrackerGen.tla", "IqTrackerGenTour.cfg")
        t2, st2 = vf.tlc_gen("IqTrackerGen.tla", "IqTrackerGenTour2.cfg")
        sim, st3 = vf.tlc_simulate("IqTrackerGen.tla", "IqTrackerGenSim.cfg", num=150 if quick else 1500, depth=14 if quick else 24,
                                   seed=chk.seed, workers=TLC_WORKERS)
        allp, st5 = vf.tlc_gen("IqTrackerGen.tla", "IqTrackerGenAll.cfg" if quick else "IqTrackerGenAll7.cfg")
        if not quick and len(allp) > 10000:      # seeded sample: stay inside the thorough budget
            st5["replayed"] = 10000
            random.Random(chk.seed + 2).shuffle(allp)
            allp = allp[:10000]
        idp, st6 = vf.tlc_gen("IqTrackerGen.tla", "IqTrackerGenIds.cfg")
        # continuation bodies that re-enter the API: tour of the model in which the continuation of i1 issues request k1
        tbody, st10 = vf.tlc_gen("IqTrackerGen.tla", "IqTrackerGenTourBody.cfg")
        tbody2 = [dict(b, transport="sasl2") for b in tbody if any(st["a"] == "Open" and st.get("refused") for st in b["steps"])]
        # session histories: every sequence of openings / closings (up to 6, thorough 7 events) with one request sent at any
        # position, negotiated the classic way (SASL, bind, <enable/>, <resume/>) and once more with SASL 2 / bind 2 / inline
        # stream management; and a tour whose state includes which kinds of session the client has already had
        sess, st7 = vf.tlc_gen("IqTrackerGen.tla", "IqTrackerGenSess6.cfg" if quick else "IqTrackerGenSess.cfg")
        # over SASL 2 / bind 2: the histories in which a resumption happens (quick), all of them (thorough)
        sess2 = [dict(b, transport="sasl2") for b in sess
                 if not quick or any(st["a"] == "Open" and st["k"] == "resumed" for st in b["steps"])]
        tsess, st8 = vf.tlc_gen("IqTrackerGen.tla", "IqTrackerGenTourSess.cfg")
        # the tour includes every Attempt (connection attempt that ends before a session: auth failure, bind failure, user
        # abort, cut before authentication; disconnectFromServer() without a connection) from every state and session
        # history; the behaviours with an attempt are replayed over both transports.  Thorough: also all histories of length 4 with attempts.
        tsess2 = [dict(b, transport="sasl2") for b in tsess if any(st["a"] == "Attempt" for st in b["steps"])]
        if quick:
            att, st9 = [], {"behaviours": 0}
        else:
            att, st9 = vf.tlc_gen("IqTrackerGen.tla", "IqTrackerGenAttempt.cfg")
        gen = {"all_paths": st5, "all_paths_caller_ids": st6, "session_histories": st7, "session_histories_sasl2": {"behaviours": len(sess2)},
               "tour_continuation_bodies": st10, "tour_continuation_bodies_sasl2": {"behaviours": len(tbody2)},
               "tour_session_history": st8, "tour_session_history_sasl2": {"behaviours": len(tsess2)}, "attempt_histories": st9, "tour_1_request": st1, "tour_2_requests": st2, "simulate": st3}
        behs = allp + tbody + tbody2 + sess + sess2 + idp + tsess + tsess2 + att + t1 + t2 + sim
        if not quick:
            t3, st4 = vf.tlc_gen("IqTrackerGen.tla", "IqTrackerGenTourFull.cfg")
            st4["replayed"] = min(len(t3), 15000)
            random.Random(chk.seed).shuffle(t3)
            behs += t3[:15000]
            gen["tour_2_requests_all_senders_sampled"] = st4
        behs = vf.maximal_behaviours(behs)
        chk.cov["generation_tracker"] = gen
    if not behs:
        return
    s, cases, crashes = _replay(chk, "iq", "q", behs, "IqTrackerTrace", "tracker")
    chk.add("traces_validated_against_impl", s["cases"])
    chk.add("trace_lines", s["lines"])
    chk.add("diverged_executions", s["ndiv"])
    chk.add("aborted_executions", s["aborts"])
    chk.cov["tracker"] = {"executions": s["cases"], "trace_lines": s["lines"], "diverged": s["ndiv"], "first_divergences": s["divs"][:3],
                          "aborted": s["aborts"], "crashed": len(crashes), "replay_wall_s": s["replay_wall_s"],
                          "trace_validation_wall_s": s["wall_s"]}
    for b in behs[:1] + behs[-2:]:
        chk.sample(b)
    _aborts(chk, s, behs, cases, "tracker")
    _report(chk, s, behs, cases, "tracker", "q")
    _report_crashes(chk, crashes, behs, cases, "tracker", "q", lambda b: "any")


def _api_names():
    r = subprocess.run([vf.QXV, "iqapi", "--list=1"], stdout=subprocess.PIPE, stderr=subprocess.PIPE, text=True)
    if r.returncode != 0:
        raise vf.MachineryError("qxv iqapi --list failed: " + r.stderr[-500:])
    return json.loads(r.stdout)


def _replay(chk, driver, prefix, behs, trace_spec, tag):
    """Replay; an execution that crashes the process (sanitizer abort / assertion inside the library) is
    recorded and the replay continues with the next behaviour."""
    bpath = chk.path(f"behaviours-{tag}.ndjson")
    vf.write_ndjson(bpath, behs)
    trace = chk.path(f"trace-{tag}.ndjson")
    open(trace, "w").close()
    crashes = []
    first, wall = 1, 0.0
    while first <= len(behs):
        part = chk.path(f"trace-{tag}.part.ndjson")
        r = vf.qxv(driver, part, in_path=bpath, seed=chk.seed, tier=chk.tier, opts={"first": first}, check=False)
        wall += r["wall_s"]
        vf.repair_truncated(part)
        lines = [o for o in vf.read_ndjson(part) if o.get("e") != "Crash"]
        crashed = r["rc"] != 0 or r["sanitizer"]
        last_case = None
        for o in lines:
            if o.get("e") == "Reset":
                last_case = int(o["case"][len(prefix):])
        if crashed:
            if last_case is None:
                raise vf.MachineryError(f"qxv {driver} died before its first execution:\n{r['stderr'][-2000:]}")
            # the execution that was running is cut off after its last complete line; mark it
            lines.append({"e": "Crash", "what": vf.san_signature(r)})
            crashes.append((last_case, vf.san_signature(r), r["stderr"][-1500:]))
        with open(trace, "a") as f:
            for o in lines:
                f.write(json.dumps(o, separators=(",", ":")) + "\n")
        if not crashed:
            break
        first = last_case + 1
        if len(crashes) >= 120:
            chk.note(f"more than 120 executions crashed qxv {driver}: replay stopped early")
            break
    cases = vf.split_cases(trace)
    s = vf.tlc_trace(trace_spec + ".tla", trace_spec + ".cfg", trace)
    s["replay_wall_s"] = round(wall, 2)
    s["aborts"] -= len(crashes)
    return s, cases, crashes


def _report_crashes(chk, crashes, behs, cases, layer, prefix, key):
    """A request whose handling kills the process never completes."""
    best = {}
    for case_no, sg, err in crashes:
        b = behs[case_no - 1]
        done = [x for x in cases.get(f"{prefix}{case_no}", []) if x.get("e") not in ("Reset", "Crash")]
        upto = b["steps"][:len(done) + 1]
        sig = f"C07:{layer}:Crash:" + ",".join(_step(st) for st in upto)
        k = key(b)
        if k not in best or (len(upto), sig) < best[k][0]:     # the shortest history per API is the one reported
            best[k] = ((len(upto), sig), sg, err, b, case_no)
    for k in sorted(best)[:4]:
        (_, sig), sg, err, b, case_no = best[k]
        chk.violation(sig, f"the process dies ({sg}) while the library handles the last step of {sig}: the request never completes\n{err[-600:]}",
                      [b] + cases.get(f"{prefix}{case_no}", []))


def run_api(chk, replay):
    quick = chk.tier == "quick"
    chk.mc(vf.tlc_mc("IqApi.tla", "IqApi.cfg", workers=TLC_WORKERS), "IqApi.cfg")
    names = _api_names()
    if replay is not None:
        behs = replay
    else:
        env = {"QXV_NAPIS": str(len(names))}
        g1, st1 = vf.tlc_gen("IqApiGen.tla", "IqApiGenAll.cfg" if quick else "IqApiGenAll4.cfg", env=env)
        g2, st2 = vf.tlc_gen("IqApiGen.tla", "IqApiGenMamTour.cfg")
        g3, st3 = ([], {"behaviours": 0}) if quick else vf.tlc_gen("IqApiGen.tla", "IqApiGenMam.cfg")
        if not quick:
            # the larger generators are sampled (seeded) to stay inside the thorough budget
            st1["replayed"] = min(len(g1), 12000)
            random.Random(chk.seed).shuffle(g1)
            g1 = g1[:12000]
            st3["replayed"] = min(len(g3), 6000)
            random.Random(chk.seed + 1).shuffle(g3)
            g3 = g3[:6000]
        behs = vf.maximal_behaviours(g2 + g3 + g1)
        for b in behs:
            st = b["steps"][0]
            st["name"] = names[st["api"]["i"] - 1] if st["api"]["k"] == "gen" else \
                "mam.retrieveMessages" + ("+e2ee" if st["api"]["k"] == "mame" else "")
            b["layer"] = "api"
        chk.cov["generation_api"] = {"registry_size": len(names), "all_answer_scripts": st1, "archive_tour": st2, "archive_all_paths": st3}
    if not behs:
        return
    s, cases, crashes = _replay(chk, "iqapi", "a", behs, "IqApiTrace", "api")
    chk.add("traces_validated_against_impl", s["cases"])
    chk.add("trace_lines", s["lines"])
    chk.add("diverged_executions", s["ndiv"])
    chk.add("aborted_executions", s["aborts"])
    chk.cov["api"] = {"executions": s["cases"], "trace_lines": s["lines"], "diverged": s["ndiv"], "first_divergences": s["divs"][:3],
                      "aborted": s["aborts"], "crashed": len(crashes), "apis": len(names),
                      "replay_wall_s": s["replay_wall_s"], "trace_validation_wall_s": s["wall_s"]}
    for b in behs[:1] + behs[-1:]:
        chk.sample(b)
    _aborts(chk, s, behs, cases, "api")
    _report(chk, s, behs, cases, "api", "a")
    _report_crashes(chk, crashes, behs, cases, "api", "a", lambda b: b["steps"][0].get("name", "?"))


def run(chk, replay=None):
    rb = None
    if replay:
        rb = [b for b in vf.read_ndjson(replay) if "steps" in b]
    tracker = None if rb is None else [b for b in rb if b.get("layer", "tracker") == "tracker"]
    run_tracker(chk, tracker)
    run_api(chk, None if rb is None else [b for b in rb if b.get("layer") == "api"])
    chk.cov["exhaustive"] = True
    chk.cov["rule"] = ("raw layer: continuations may re-enter the API (body sendNew: the continuation of a request issues another "
                       "request, whichever way it was completed) and the requests issued that way are tracked like any other; "
                       "requests carry caller-chosen ids (fresh, empty, equal to the id of a pending request) and every "
                       "reply carries the id the request's stanza was really written with; "
                       "transition tour of the one-request model (every transition, all sender classes and iq types), "
                       "all send/reply sequences of length 4 with two requests and all id choices, "
                       "all session histories (open plain/sm/smr/resumed/refused-resume, cut, user close) of length 6 (thorough 7) with "
                       "one request sent at any position, over classic SASL+bind+XEP-0198 and over SASL 2 + bind 2 with inline "
                       "resume/enable, a tour whose state includes the kinds of session the client has had (both transports) and that takes "
                       "every failed connection attempt (auth failure, bind failure, user abort, cut before authentication, "
                       "disconnectFromServer() without a connection) from every state, "
                       "transition tour of the two-request model, seeded random walks with three requests; each replayed on a real "
                       "QXmppClient (sendIq, sendGenericIq) connected to a scripted server over 127.0.0.1 (real SASL, bind, XEP-0198 "
                       "enable/resume/failed resume, cut, disconnectFromServer, destruction) and validated by IqTrackerTrace.tla; "
                       "manager layer: for every entry of the registry of request APIs (qxv iqapi --list) every answer script up to the "
                       "all-paths depth over {reply from addressee|stranger} x {empty result, error, foreign payload} and session close, "
                       "for archive queries (with and without an encryption extension) a transition tour and all paths over message "
                       "results, replies, decryption completions in any order and close; validated by IqApiTrace.tla")
    chk.assumptions += [
        "a reply without `from` is the user's own server speaking (RFC 6120 8.1.2.1) and may complete any request (accepted by design)",
        "replies from the own bare JID / server domain to a request addressed elsewhere, and from the own full JID / another own "
        "resource / the server domain to a request without addressee, may be treated either way",
        "the server resumes only the session that ended last",
        "the id of a request that has completed is not reused within an execution (ids of pending requests and empty ids are)",
        "a task obtained from sendGenericIq (chained with the client as context) is abandoned, not completed, when the client "
        "object is destroyed (C13: no continuation after its context died); raw sendIq tasks are cancelled",
        "manager layer: an API is settled when the scripted server holds no unanswered request of the call and the stub "
        "encryption extension holds no unfinished decryption job; send-only APIs (subscribeTo, notifyContact) are not requests",
    ]
