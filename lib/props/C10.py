"""C10 — losing the connection at any point leaves a consistent client that can reconnect.
Spec: spec/ClientStream.tla (C10_* properties), trace monitor spec/ClientStreamTrace.tla. Driver: qxv stream."""
from props._stream import run_stream

LEVEL = "model_checking"


def run(chk, replay=None):
    run_stream(chk, "C10", replay)
