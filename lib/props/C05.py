"""C05 — SASL negotiation picks the strongest permitted mechanism, never a disabled one.
Spec: spec/SaslChoice.tla (+SaslChoiceGen, SaslChoiceTrace). Driver: qxv saslchoice."""
import concurrent.futures as cf
import json

import vf

LEVEL = "model_checking"

HASHES = ["SHA-256", "SHA-384", "SHA-512", "SHA3-224", "SHA3-256", "SHA3-384", "SHA3-512"]
KNOWN = ["X-OAUTH2", "X-MESSENGER-OAUTH2", "X-FACEBOOK-PLATFORM", "ANONYMOUS", "PLAIN", "DIGEST-MD5",
         "SCRAM-SHA-1", "SCRAM-SHA-256", "SCRAM-SHA-512", "SCRAM-SHA3-512"]
HT = [f"HT-{h}-{b}" for h in HASHES for b in ("ENDP", "UNIQ", "EXPR", "NONE")]
GARBLED = ["SCRAM-SHA-1-PLUS", "scram-sha-256", "SCRAM-SHA-384", "HT-SHA-256", "HT-SHA-1-NONE", "HT-SHA-256SHA-512-NONE",
           "HT-SHA-256-NONE-", "HT-SHA-256-none", "FOO", "PLAIN ", "plain", "DIGEST-MD5-SESS", "X-OAUTH", "ANONYMOUS2", "SCRAM-", ""]
SHARDS = 4


def mkcase(v=1, offered=(), fastFeature=False, fastMechs=(), useFast=True, userAgent=True, disabled=(), preferred="",
           pw=False, token="", google=False, wlive=False, fb=False):
    return {"c": {"v": v, "offered": sorted(set(offered)), "fastFeature": fastFeature, "fastMechs": sorted(set(fastMechs)),
                  "useFast": useFast, "userAgent": userAgent, "disabled": sorted(set(disabled)), "preferred": preferred,
                  "creds": {"pw": pw, "token": token, "google": google, "wlive": wlive, "fb": fb}}}


def edge_cases():
    """Small hand-picked cases with stable identity: every name of the universe alone (with every credential that
    could make it usable), every garbled name next to the credential it could be mistaken for, pairs of adjacent ranks,
    the default configuration. They give violations a minimal, seed-independent representative."""
    out = []
    allcred = dict(pw=True, google=True, wlive=True, fb=True)
    tokens = [f"HT-{h}-NONE" for h in HASHES]
    for v in (1, 2):
        for n in KNOWN + GARBLED:
            out.append(mkcase(v, [n], **allcred))
            out.append(mkcase(v, [n]))
            out.append(mkcase(v, [n], disabled=[n], **allcred))
            out.append(mkcase(v, [n, "ANONYMOUS"], preferred=n, **allcred))
        for n in HT + [g for g in GARBLED if g.startswith("HT-")]:
            for t in tokens + ["HT-SHA-256-ENDP"]:
                out.append(mkcase(v, [n], token=t))
                out.append(mkcase(v, [n, "ANONYMOUS"], token=t, disabled=[t]))
                if v == 2:
                    out.append(mkcase(2, ["ANONYMOUS"], True, [n], token=t))
                    out.append(mkcase(2, ["ANONYMOUS"], True, [n], token=t, useFast=False))
                    out.append(mkcase(2, ["ANONYMOUS"], True, [n], token=t, userAgent=False))
        ranked = ["ANONYMOUS", "PLAIN", "DIGEST-MD5", "SCRAM-SHA-1", "SCRAM-SHA-256", "SCRAM-SHA-512", "SCRAM-SHA3-512", "HT-SHA-256-NONE"]
        for i, a in enumerate(ranked):
            for b in ranked[i + 1:]:
                out.append(mkcase(v, [a, b], pw=True, token="HT-SHA-256-NONE"))
                out.append(mkcase(v, [a, b], pw=True, token="HT-SHA-256-NONE", disabled=[b]))
                out.append(mkcase(v, [a, b], pw=True, token="HT-SHA-256-NONE", preferred=a))
                out.append(mkcase(v, [a, b], pw=True, token="HT-SHA-256-NONE", preferred=a, disabled=[a]))
        out.append(mkcase(v, KNOWN, disabled=["PLAIN"], pw=True))
        out.append(mkcase(v, ["PLAIN"], disabled=["PLAIN"], pw=True))
        out.append(mkcase(v, ["PLAIN"], disabled=["PLAIN"], preferred="PLAIN", pw=True))
    seen, res = set(), []
    for c in out:
        k = vf._canon(c)
        if k not in seen:
            seen.add(k)
            res.append(c)
    return res


def casekey(c):
    cr = c["creds"]
    fast = ""
    if c["v"] == 2 and c["fastFeature"]:
        fast = "|fast=" + ",".join(c["fastMechs"]) + ("" if c["useFast"] else "|useFast=0") + ("" if c["userAgent"] else "|noUA")
    creds = ",".join(x for x in ["pw" if cr["pw"] else "", ("tok:" + cr["token"]) if cr["token"] else "", "google" if cr["google"] else "",
                                 "wlive" if cr["wlive"] else "", "fb" if cr["fb"] else ""] if x)
    return f"v{c['v']}|off={','.join(c['offered'])}{fast}|dis={','.join(c['disabled'])}|pref={c['preferred']}|creds={creds}"


def casesize(c):
    return (len(c["offered"]) + len(c["fastMechs"]) + len(c["disabled"]) + (1 if c["preferred"] else 0)
            + sum(1 for k, v in c["creds"].items() if v), casekey(c))


def _replay_shard(chk, name, cases, nrandom, seed):
    """driver + trace validation of one shard; returns (summary, trace path)"""
    trace = chk.path(f"trace-{name}.ndjson")
    inp = None
    if cases is not None:
        inp = chk.path(f"cases-{name}.ndjson")
        vf.write_ndjson(inp, cases)
    r = vf.qxv("saslchoice", trace, in_path=inp, seed=seed, tier=chk.tier, opts={"random": nrandom} if nrandom else None, check=False)
    if r["rc"] != 0:   # C05 has no crash clause: a dying harness is a machinery failure, never a violation
        raise vf.MachineryError(f"qxv saslchoice exited {r['rc']}: {'; '.join(r['sanitizer'][:3])}\n{r['stderr'][-2000:]}")
    s = vf.tlc_trace("SaslChoiceTrace.tla", "SaslChoiceTrace.cfg", trace, tag="SaslChoiceTrace-" + name, heap="4g")
    return s, trace


def run(chk, replay=None):
    quick = chk.tier == "quick"
    pool = cf.ThreadPoolExecutor(max_workers=SHARDS)
    # 1. design level: TLC enumerates the whole case space of the configuration and checks the
    #    predicates of C05 on the specification's own Choose (3 workers, next to the 1-worker export)
    mc_cfgs = ["SaslChoice.cfg"] if quick else ["SaslChoice.cfg", "SaslChoiceMid.cfg", "SaslChoiceBig.cfg"]
    mc_fut = pool.submit(lambda: [(n, vf.tlc_mc("SaslChoice.tla", n, workers=3, heap="6g")) for n in mc_cfgs])
    # 2. the cases: (a) every case of the exported configuration, (b) hand-picked edge cases,
    #    (c) seeded random cases over the whole name universe (generated by the driver)
    shards = []
    if replay:
        cases = [b for b in vf.read_ndjson(replay) if "c" in b and "e" not in b]
        shards.append(("replay", cases, 0))
        gen_stats = {}
    else:
        cases, gen_stats = vf.tlc_gen("SaslChoiceGen.tla", "SaslChoiceGenAll.cfg" if quick else "SaslChoiceGenMid.cfg",
                                      steps_key=None, heap="6g")
        cases = [{"c": b["c"]} for b in cases]
        per = max(1, -(-len(cases) // (SHARDS if quick else 3 * SHARDS)))
        for i in range(0, len(cases), per):
            shards.append((f"x{i // per}", cases[i:i + per], 0))
        shards.append(("edge", edge_cases(), 0))
        nrand = 20000 if quick else 800000
        per = 20000 if quick else 100000
        for i in range(nrand // per):
            shards.append((f"r{i}", None, per))
    futs = [(name, pool.submit(_replay_shard, chk, name, cs, nr, chk.seed * 1000 + i)) for i, (name, cs, nr) in enumerate(shards)]
    for n, res in mc_fut.result():
        chk.mc(res, n)
    tot = {"cases": 0, "observations": 0, "nonempty": 0, "ndiv": 0, "lines": 0}
    viol, divs, per_shard, dist = [], [], {}, {}
    for name, f in futs:
        s, trace = f.result()
        for k in tot:
            tot[k] += s[k]
        per_shard[name] = {"cases": s["cases"], "violating_observations": len(s["viol"]), "diverged": s["ndiv"], "tlc_wall_s": s["wall_s"]}
        divs += [dict(d, shard=name) for d in s["divs"]]
        for k, n in s["dist"].items():
            dist[k] = dist.get(k, 0) + n
        if s["viol"]:
            want = {v["k"] for v in s["viol"]}
            lines = {}
            with open(trace) as fh:
                for ln in fh:
                    if '"e":"Authenticate"' in ln:
                        o = json.loads(ln)
                        if o["k"] in want:
                            lines[o["k"]] = o
            for v in s["viol"]:
                viol.append((lines[v["k"]], v))
    pool.shutdown()
    chk.cov["traces_validated_against_impl"] = tot["cases"]
    chk.cov["observations"] = tot["observations"]
    chk.cov["cases_with_a_mechanism_chosen_by_the_model"] = tot["nonempty"]
    chk.cov["trace_lines"] = tot["lines"]
    chk.cov["diverged_executions"] = tot["ndiv"]
    chk.cov["first_divergences"] = divs[:3]
    chk.cov["generation"] = gen_stats
    chk.cov["model_choice_distribution"] = dist   # vacuity guard: every kind of outcome occurs among the validated cases
    if not replay:
        empty = sorted(k for k, n in dist.items() if n == 0)
        if empty:
            raise vf.MachineryError(f"C05 self-test: no validated case has outcome kind {empty} (vacuous exploration)")
    chk.cov["shards"] = per_shard
    chk.cov["exhaustive"] = not replay
    chk.cov["rule"] = (
        "a case = (SASL version, offered names, FAST feature + its names, FAST/user-agent configuration, disabled names, preferred "
        "mechanism, stored credentials). TLC enumerates every case of the configuration as an initial state and checks the C05 "
        "predicates on the specification's Choose; every case of the exported configuration (" +
        ("SaslChoiceGenAll.cfg" if quick else "SaslChoiceGenMid.cfg") + "), a fixed edge set (every known/garbled name alone, every "
        "HT name x token, adjacent ranks) and seeded random cases over the whole universe (10 fixed names, 28 HT names, 16 garbled) "
        "are run on the real SaslManager/Sasl2Manager in 4 orderings of the offer (sorted, reversed, shuffled, shuffled with a "
        "duplicate); SaslChoiceTrace.tla evaluates the predicates on (logged inputs, observed mechanism/error/elements sent). "
        "The property prescribes the output: a failing predicate is a violation; a difference from the model's Choose that breaks "
        "no predicate (X-* mechanisms, which the statement does not rank) is a divergence")
    for c in (cases[:1] + cases[len(cases) // 2:len(cases) // 2 + 2] if cases else []):
        chk.sample(c["c"])
    # 3. violations: group per case, report the smallest cases first (stable representatives from the edge set)
    bycase = {}
    for line, v in viol:
        key = casekey(line["c"])
        e = bycase.setdefault(key, {"line": line, "props": set(), "got": set(), "model": v["model"]})
        e["props"].add(v["prop"])
        e["got"].add(v["m"])
    reported = set()
    for key, e in sorted(bycase.items(), key=lambda kv: casesize(kv[1]["line"]["c"])):
        cls = ("+".join(sorted(e["props"])), ",".join(sorted(e["got"])))
        if cls in reported:   # one representative (the smallest case) per kind of failure
            continue
        reported.add(cls)
        sig = f"C05:{cls[0]}:{key}:got={cls[1]}"
        chk.violation(sig, f"predicate(s) {cls[0]} of C05 fail: the client used '{cls[1]}' where the specification's choice is "
                           f"'{e['model']}' for case {key} ({len([1 for k2, e2 in bycase.items() if ('+'.join(sorted(e2['props'])), ','.join(sorted(e2['got']))) == cls])} "
                           f"cases of this kind in this run)", [{"c": e["line"]["c"]}, e["line"]])
        if len(chk.violations) >= 5:
            break
    chk.cov["violating_cases"] = len(bycase)
    chk.assumptions += [
        "names outside the library's table (SaslMechanism::fromString: 10 fixed names, HT-<7 IANA hashes>-<4 bindings>) are unknown",
        "the X-* mechanisms are not ranked by the statement: their order (below ANONYMOUS, as the variant documents) is model only",
        "disabled and preferred mechanisms are compared as exact names",
        "the SASL 2 user agent, when set, has a device id",
    ]
