"""C12 — the roster view is the last full roster plus authorised pushes, nothing else.
Spec: spec/Roster.tla (+RosterGen, RosterTrace). Driver: qxv roster (real connections to a
scripted server on 127.0.0.1)."""
import random

import vf

LEVEL = "model_checking"
TLC_WORKERS = 4


BASE = {"x": 1, "n": "n1", "s": "both", "a": "", "ap": False, "g": ["g1"], "mx": False, "p": ""}
FIELDS = ["n", "s", "a", "ap", "g", "mx", "p"]
AUTHORISED = ("absent", "ownBare", "ownFull", "ownOther")      # what the design (and the code) applies


def _item(it):
    """Short stable name of an item record: the fields in which it differs from the base item, with their values."""
    if not it or it.get("x", 0) == 0:
        return "-"
    d = [f for f in FIELDS if it.get(f) != BASE[f]]
    if not d:
        return "base"

    def val(v):
        return "/".join(v) if isinstance(v, list) else ("1" if v is True else "0" if v is False else str(v))
    return "{" + ",".join(f"{f}:{val(it.get(f))}" for f in d) + "}"


def _sig_step(st):
    a = st["a"]
    if a in ("Connect", "Disconnect"):
        return f"{a}({st['k']})"
    if a == "Push":
        return "Push(" + st["from"] + ":" + "+".join(f"{i['j']}={_item(i['it'])}" for i in st["items"]) + ")"
    if a in ("Result", "ResultForged"):
        items = ",".join(f"{k}={_item(v)}" for k, v in sorted(st["items"].items()) if v.get("x"))
        return f"{a}({st.get('from', '')}{':' if 'from' in st else ''}{st['n']}:{items})"
    if a == "ResultErr":
        return f"ResultErr({st['n']})"
    if a == "Presence":
        return f"Presence({st['j']}/{st['r']}:{'avail' if st['av'] else 'unavail'})"
    return a


def _field_update_coverage(behs):
    """How many replayed authorised pushes replace a stored item by one that differs in exactly field f (per f),
    in several fields, or in none: computed by folding the behaviours the way the reference view is defined."""
    cov = {f: 0 for f in FIELDS}
    cov.update({"several": 0, "identical": 0})
    for b in behs:
        ref = {}
        for st in b["steps"]:
            a = st["a"]
            if a == "Connect" and st["k"] != "resumed":
                ref = {}
            elif a == "Disconnect" and st["k"] == "user":
                ref = {}
            elif a == "Result":
                ref = {j: it for j, it in st["items"].items() if it.get("x")}
            elif a == "Push" and st["from"] in AUTHORISED:
                for i in st["items"]:
                    old, new = ref.get(i["j"]), i["it"]
                    if old and new.get("x"):
                        d = [f for f in FIELDS if old.get(f) != new.get(f)]
                        cov[d[0] if len(d) == 1 else "several" if d else "identical"] += 1
                    if new.get("x"):
                        ref[i["j"]] = new
                    else:
                        ref.pop(i["j"], None)
    return cov


def run(chk, replay=None):
    quick = chk.tier == "quick"
    # 1. design level: exhaustive model check
    chk.mc(vf.tlc_mc("Roster.tla", "Roster.cfg", workers=TLC_WORKERS), "Roster.cfg")
    # one contact, every item of ItemsFields (items that differ in exactly one field, for each field of QXmppRosterIq::Item)
    chk.mc(vf.tlc_mc("Roster.tla", "RosterFields.cfg", workers=TLC_WORKERS, tag="RosterFields"), "RosterFields.cfg")
    if not quick:
        chk.mc(vf.tlc_mc("Roster.tla", "RosterBig.cfg", workers=TLC_WORKERS, tag="RosterBig"), "RosterBig.cfg")
    # 2. behaviours
    seeded = set()
    if replay:
        behs = [b for b in vf.read_ndjson(replay) if "steps" in b]
    else:
        tour, st1 = vf.tlc_gen("RosterGen.tla", "RosterGenTour.cfg")
        allp, st2 = vf.tlc_gen("RosterGen.tla", "RosterGenAll.cfg" if quick else "RosterGenAll5.cfg")
        sim, st3 = vf.tlc_simulate("RosterGen.tla", "RosterGenSim.cfg", num=200 if quick else 1500, depth=14 if quick else 24,
                                   seed=chk.seed, workers=TLC_WORKERS)
        # every transition "stored item v, pushed / full-roster item w" over ItemsFields: in particular every update that
        # differs from the stored item in exactly one field, for each field
        tfields, st5 = vf.tlc_gen("RosterGen.tla", "RosterGenTourFields.cfg")
        gen = {"tour_1_contact": st1, "tour_item_fields": st5, "all_paths": st2, "simulate": st3}
        if not quick:
            # the larger generators are sampled (seeded) to stay inside the thorough budget
            st2["replayed"] = min(len(allp), 10000)
            random.Random(chk.seed).shuffle(allp)
            allp = allp[:10000]
            tour2, st4 = vf.tlc_gen("RosterGen.tla", "RosterGenTour2.cfg")
            st4["replayed"] = min(len(tour2), 15000)
            random.Random(chk.seed + 1).shuffle(tour2)
            tour2 = tour2[:15000]
            gen["tour_2_contacts_sampled"] = st4
        else:
            tour2 = []
        behs = tfields + tour + allp + sim + tour2
        behs = vf.maximal_behaviours(behs)
        seeded = {vf._canon(b) for b in sim}      # random walks: their histories depend on the seed
        chk.cov["generation"] = gen
    chk.cov["authorised_updates_by_changed_field"] = _field_update_coverage(behs)
    vf.write_ndjson(chk.path("behaviours.ndjson"), behs)
    # 3. replay on the real client + roster manager
    trace = chk.path("trace.ndjson")
    r = vf.qxv("roster", trace, in_path=chk.path("behaviours.ndjson"), seed=chk.seed, tier=chk.tier, check=False)
    vf.repair_truncated(trace)
    cases = vf.split_cases(trace)
    if r["rc"] != 0 or r["sanitizer"]:
        raise vf.MachineryError(f"qxv roster ended abnormally (rc={r['rc']}, {vf.san_signature(r)}):\n{r['stderr'][-2000:]}")
    # 4. trace validation
    s = vf.tlc_trace("RosterTrace.tla", "RosterTrace.cfg", trace)
    chk.cov["traces_validated_against_impl"] = s["cases"]
    chk.cov["trace_lines"] = s["lines"]
    chk.cov["diverged_executions"] = s["ndiv"]
    chk.cov["first_divergences"] = s["divs"][:3]
    chk.cov["aborted_executions"] = s["aborts"]
    chk.cov["replay_wall_s"] = r["wall_s"]
    chk.cov["trace_validation_wall_s"] = s["wall_s"]
    chk.cov["exhaustive"] = True
    chk.cov["rule"] = ("items are records over every field of QXmppRosterIq::Item (name, subscription, ask, approved, groups, MIX "
                       "channel flag, MIX participant-id) and the view is compared field by field; "
                       "behaviours = tour over all (stored item, new item) pairs of ItemsFields (every single-field update) + "
                       "transition tour of the one-contact model (every transition of RosterGenTour.cfg) + all step "
                       "sequences up to the all-paths depth + seeded random walks over 3 contacts / 3 resources / 2-item pushes "
                       "(thorough: + seeded samples of the deeper all-paths set and of the tour of the two-contact model); each replayed on a real QXmppClient + "
                       "QXmppRosterManager connected to a scripted server over 127.0.0.1 (real SASL, bind, XEP-0198 "
                       "enable/resume/failed resume, cut, disconnectFromServer) and validated by RosterTrace.tla")
    for b in behs[:2] + behs[-2:]:
        chk.sample(b)
    if s["aborts"]:
        aborted = [c for c, lines in cases.items() if lines and lines[-1].get("e") == "Abort"]
        why = sorted({cases[c][-1].get("why", "") for c in aborted})
        chk.note(f"{s['aborts']} executions ended early because a step was impossible on the real objects: {why[:5]}")
        if s["aborts"] > max(5, len(behs) // 20) and not s["viol"]:
            raise vf.MachineryError(f"{s['aborts']} of {len(behs)} executions could not be driven ({why[:5]}): nothing was decided")
    start, pos = {}, 1      # trace line number of each execution's Reset line
    for c, lines in cases.items():
        start[c] = pos
        pos += len(lines)
    seen = set()
    def rank(v):       # histories from the tours / all-paths sets first (seed-independent), shortest first
        return (vf._canon(behs[int(v["case"][1:]) - 1]) in seeded, v["line"] - start[v["case"]], v["line"])
    for v in sorted(s["viol"], key=rank):
        if v["case"] in seen:
            continue
        seen.add(v["case"])
        b = behs[int(v["case"][1:]) - 1]
        upto = b["steps"][:max(1, v["line"] - start[v["case"]])]     # steps up to and including the failing one
        sig = "C12:" + v["prop"] + ":" + ",".join(_sig_step(st) for st in upto)
        chk.violation(sig, f"{v['prop']} fails at step {v['e']} of behaviour {sig}", [b] + cases[v["case"]])
        if len(chk.violations) >= 5:
            break
    chk.assumptions += [
        "a push whose from is the user's own full JID, another resource of the own account, or the bare server domain may be "
        "treated either way (RFC 6121 2.1.6 says ignore, the property statement says 'own account or server'): the monitor "
        "requires only that acknowledgement and application agree",
        "the server resumes only the session that ended last (no resumption of an older session)",
        "presence types other than available/unavailable are outside the quantifier",
        "the presence table is checked for JIDs that are contacts in the reference view",
        "while no session exists and none can be resumed the property demands nothing of the cached view",
    ]
