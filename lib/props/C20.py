"""C20 — the entity-capabilities verification string is the XEP-0115 5.1 hash: order- and duplicate-blind,
sensitive to every change; the hash advertised in presence = the hash of the disco#info answer.
Spec: spec/Caps.tla (+CapsGen, CapsInj, CapsTrace). Driver: qxv caps.

Model-checked: the canonicalisation (Caps.tla: neutral edits keep the canonical string, every other edit changes it,
the string determines the info set).  Differential: SHA-1/base64 and the comparison with the real
QXmppDiscoveryIq::verificationString() -- `refhash` below is an independent implementation of XEP-0115 5.1 on
strings (python, hashlib), `exp` is hashlib applied to the specification's canonical string."""
import base64
import hashlib
import json
import random

import tracepar
import vf

LEVEL = "model_checking"
W = 4

# atom -> string, increasing in i;octet order (RFC 4790: compare the UTF-8 octets), atom 0 = empty string.
# Atom 0 may stand in every role but the FORM_TYPE value.  Only "delim" contains '<' and '/': hashes are still compared
# there, but the "must change" clause is not judged (collisions there are the XEP's own delimiter weakness).
ALPHABETS = {
    "ascii":  ["", "a", "b", "c", "d"],
    "case":   ["", "A", "B", "a", "b"],                    # strings differing only in case; upper case sorts first
    "delim":  ["", "a", "a/b", "a<b", "b"],                # the XEP's own delimiters inside names and values
    "prefix": ["", "a", "a ", "a!", "aa"],                 # a string before its extensions
    "digits": ["", "10", "2", "A", "_"],                   # not numeric order
    "bmp":    ["", "z", "é", "中", "～"],     # 1, 2, 3, 3 octets
    "nonbmp": ["", "z", "～", "\U0001F600", "\U0001F601"],   # U+FF5E < U+1F600 in octets, > in UTF-16 code units
}
for _n, _a in ALPHABETS.items():
    _b = [s.encode("utf-8") for s in _a]
    assert _b == sorted(_b) and len(set(_b)) == len(_b), _n
LT, SL = 1000, 1001
MULTI_KINDS = ["list-multi", "jid-multi", "text-multi"]


def wire_of(info):
    """XEP-0004 as QXmppDataForm serializes it, applied to the strings the driver was given: the empty value of a
    single-valued field is not written at all; every member of a multi-valued field is a <value/>, also an empty one."""
    forms = [[dict(f, vals=([] if (not f.get("multi") and f["vals"] == [""] and f["var"] != "FORM_TYPE") else f["vals"])) for f in fields]
             for fields in info["forms"]]
    return dict(info, forms=forms)


def value_classes(info):
    """names of the unusual value classes present in an info set (for signatures)"""
    c = set()
    ids = [tuple(x) for x in info["ids"]]
    if len(set(ids)) < len(ids):
        c.add("identity:repeated")
    for x in ids:
        for comp, v in zip(("category", "type", "lang", "name"), x):
            if v == "" and comp in ("category", "type"):
                c.add("identity:empty-" + comp)
    if "" in info["feats"]:
        c.add("feature:empty")
    if len(set(info["feats"])) < len(info["feats"]):
        c.add("feature:repeated")
    for fields in info["forms"]:
        for f in fields:
            if f["var"] == "FORM_TYPE":
                continue
            if f["var"] == "":
                c.add("field:empty-name")
            if f.get("multi"):
                if not f["vals"]:
                    c.add("multi:no-value")
                if "" in f["vals"]:
                    c.add("multi:empty-member")
                if len(set(f["vals"])) < len(f["vals"]):
                    c.add("multi:repeated-member")
            elif f["vals"] == [""]:
                c.add("single:empty-value")
    return sorted(c)


# ----------------------------------------------------------------------------- reference (XEP-0115 5.1)
def refhash(info):
    """info = {"ids": [[category, type, lang, name]..], "feats": [..], "forms": [[{"var", "vals", ("type")}..]..]}"""
    def o(s):
        return s.encode("utf-8")
    S = b""
    for c, t, l, n in sorted((o(c), o(t), o(l), o(n)) for c, t, l, n in info["ids"]):      # steps 2, 3
        S += c + b"/" + t + b"/" + l + b"/" + n + b"<"
    for f in sorted({o(f) for f in info["feats"]}):                                       # steps 4, 5 (a feature counts once)
        S += f + b"<"
    forms = []
    for fields in info["forms"]:
        ft = [f for f in fields if f["var"] == "FORM_TYPE"]
        if len(ft) != 1 or len(ft[0]["vals"]) != 1:
            continue                                                                       # 5.4: ignore such a form
        forms.append((o(ft[0]["vals"][0]), fields))
    for ftv, fields in sorted(forms, key=lambda x: x[0]):                                 # step 6
        S += ftv + b"<"                                                                    # 7.1
        for f in sorted((f for f in fields if f["var"] != "FORM_TYPE"), key=lambda f: o(f["var"])):   # 7.2
            S += o(f["var"]) + b"<"                                                        # 7.3.1
            for v in sorted(o(v) for v in f["vals"]):                                      # 7.3.2, 7.3.3
                S += v + b"<"
    return base64.b64encode(hashlib.sha1(S).digest()).decode()                             # 8, 9


def exphash(tokens, alpha):
    """SHA-1 of the specification's canonical string (token sequence) under the behaviour's alphabet."""
    S = "".join("<" if t == LT else "/" if t == SL else alpha[t] for t in tokens)
    return base64.b64encode(hashlib.sha1(S.encode("utf-8")).digest()).decode()


# ----------------------------------------------------------------------------- behaviours
def _arg(st):
    a = {k: v for k, v in st.items() if k not in ("a", "t", "c")}
    return st["a"] + ("(" + ",".join(f"{k}={json.dumps(a[k], separators=(',', ':'))}" for k in sorted(a)) + ")" if a else "")


def _select(behs, rnd, n_emit, n_trans, near_len=3):
    """From a tour (one line per transition): one shortest behaviour per state (their maximal ones), every
    emission transition out of a state at most near_len - 1 edits away (deterministic), plus seeded samples of the
    other emission transitions and of the remaining transitions (n_trans = None: all of them, deterministic)."""
    per_state, emits_near, emits, others = {}, [], [], []
    for b in behs:
        k = json.dumps(b["key"], sort_keys=True)
        beh = {"steps": b["steps"]}
        if b["steps"][-1]["t"] == "emit":
            (emits_near if len(b["steps"]) <= near_len else emits).append(beh)
        elif k not in per_state:
            per_state[k] = beh
        else:
            others.append(beh)
    tree = vf.maximal_behaviours(list(per_state.values()))
    rnd.shuffle(emits)
    if n_trans is None:
        return tree, emits_near + others, emits[:n_emit], [], len(per_state)
    rnd.shuffle(others)
    return tree, emits_near, emits[:n_emit], others[:n_trans], len(per_state)


PROBES = [
    # hand-written info sets outside the quantifier (triage corpus, see docs/C20.md): observed, not judged
    ("xep-5.2-simple", {"ids": [["client", "pc", "", "Exodus 0.9.1"]],
                        "feats": ["http://jabber.org/protocol/caps", "http://jabber.org/protocol/disco#info",
                                  "http://jabber.org/protocol/disco#items", "http://jabber.org/protocol/muc"]}),
    ("boolean-field", {"ids": [["client", "pc", "", "x"]], "feats": ["f"],
                       "fields": [{"var": "FORM_TYPE", "type": "hidden", "vals": ["urn:t"]}, {"var": "b", "type": "boolean", "vals": ["1"]}]}),
    ("empty-text-single", {"ids": [["client", "pc", "", "x"]], "feats": ["f"],
                           "fields": [{"var": "FORM_TYPE", "type": "hidden", "vals": ["urn:t"]}, {"var": "e", "type": "text-single", "vals": []}]}),
    ("empty-list-multi", {"ids": [["client", "pc", "", "x"]], "feats": ["f"],
                          "fields": [{"var": "FORM_TYPE", "type": "hidden", "vals": ["urn:t"]}, {"var": "e", "type": "list-multi", "vals": []}]}),
    ("text-multi", {"ids": [["client", "pc", "", "x"]], "feats": ["f"],
                    "fields": [{"var": "FORM_TYPE", "type": "hidden", "vals": ["urn:t"]}, {"var": "m", "type": "text-multi", "vals": ["l2", "l1"]}]}),
    ("no-form-type", {"ids": [["client", "pc", "", "x"]], "feats": ["f"],
                      "fields": [{"var": "a", "type": "text-single", "vals": ["v"]}]}),
    ("duplicate-identity", {"ids": [["client", "pc", "", "x"], ["client", "pc", "", "x"]], "feats": ["f"]}),
]
XEP_5_2 = "QgayPKawpkPSDYmwT/WM94uAlu0="


def run(chk, replay=None):
    quick = chk.tier == "quick"
    rnd = random.Random(chk.seed)
    names = list(ALPHABETS)
    if XEP_5_2 != refhash({"ids": PROBES[0][1]["ids"], "feats": PROBES[0][1]["feats"], "forms": []}):
        raise vf.MachineryError("python reference does not reproduce the XEP-0115 5.2 example")
    # 1. design level.  The generator configurations carry the invariants and action properties too, so one TLC run
    #    per bounded model both checks it exhaustively and exports its transitions.
    tours = ["FormV"] if replay else ["Mix", "IdsQ" if quick else "Ids", "Feats", "Form", "FormV"] + ([] if quick else ["Feats5"])
    jobs = [lambda: vf.tlc_mc("CapsInj.tla", "CapsInj.cfg", workers=1)]
    for t in tours:
        jobs.append(lambda t=t: vf.tlc_gen("CapsGen.tla", f"CapsGen{t}.cfg", keep_prefixes=True, timeout=2400))
    if not replay:
        # random walks over larger constants; only complete walks are written (every candidate last step of a walk)
        jobs.append(lambda: vf.tlc_simulate("CapsGen.tla", "CapsGenSim.cfg" if quick else "CapsGenSimDeep.cfg",
                                            num=40 if quick else 400, depth=40, seed=chk.seed, workers=1))
    res = tracepar.par(jobs)
    chk.mc(res[0], "CapsInj.cfg")
    if not quick and not replay:
        # the product model and a larger form model: model checking only (their transition lists are too large to export)
        for cfg in ("CapsBig.cfg", "CapsForm3.cfg"):
            chk.mc(vf.tlc_mc("Caps.tla", cfg, workers=W, timeout=2400), cfg)
    behs = []
    gen_stats = {}
    states_visited = 0
    for t, (tour, st) in zip(tours, res[1:1 + len(tours)]):
        cfg = f"CapsGen{t}.cfg"
        chk.mc({"ok": True, "distinct": st["distinct"], "states": st["states"], "depth": 0, "wall_s": st["wall_s"]}, cfg)
        if replay:
            break
        big = t == "Feats5"
        if t == "FormV":   # the value-class model: every transition, every emission up to 3 edits away (stable signatures)
            tree, near, emits, others, nstates = _select(tour, rnd, n_emit=60 if quick else 1000, n_trans=None, near_len=4)
        else:
            tree, near, emits, others, nstates = _select(tour, rnd, n_emit=60 if quick else 1000, n_trans=60 if quick else 2000)
        if big:   # the product models are for TLC; replay a seeded sample of their state-covering behaviours
            rnd.shuffle(tree)
            tree = tree[:2000]
        else:
            states_visited += nstates
        # alphabets: the feature model under every alphabet; the identity and form models under a rotating one
        # and the one whose order differs between octets and UTF-16 (all of them when thorough); the mixed ones rotating
        for idx, b in enumerate(tree):
            if t in ("Feats", "FormV") or (t in ("Ids", "Form") and not quick):
                al = names
            elif t in ("IdsQ", "Form"):
                al = list(dict.fromkeys([names[idx % len(names)], "nonbmp"]))
            else:
                al = [names[idx % len(names)]]
            for a in al:
                behs.append({"alpha": a, "mk": MULTI_KINDS[idx % 3], "src": t, "steps": b["steps"]})
        for b in near:
            for a in (["ascii", "nonbmp"] if t == "Feats" else ["ascii"]):
                behs.append({"alpha": a, "mk": "list-multi", "src": t, "steps": b["steps"]})
        for idx, b in enumerate(emits + others):
            behs.append({"alpha": names[idx % len(names)], "mk": MULTI_KINDS[idx % 3], "src": t, "steps": b["steps"]})
        gen_stats[cfg] = dict(st, state_covering=len(tree), emission=len(near) + len(emits), other_transitions=len(others))
    if replay:
        behs = []
        for b in vf.read_ndjson(replay):
            if "steps" in b and "alphabet" in b:
                behs.append({"alpha": b["alphabet"], "mk": b.get("mk", "list-multi"), "src": "replay", "steps": b["steps"]})
    else:
        sim, st = res[-1]
        sim.sort(key=lambda b: json.dumps(b["steps"], sort_keys=True))
        rnd.shuffle(sim)
        sim = sim[:150 if quick else 6000]
        for idx, b in enumerate(sim):
            behs.append({"alpha": names[idx % len(names)], "mk": MULTI_KINDS[idx % 3], "src": "Sim", "steps": b["steps"]})
        gen_stats["simulate"] = st
        chk.cov["generation"] = gen_stats
        chk.cov["model_states_visited_by_replay"] = states_visited
    inp = [{"alpha": ALPHABETS[b["alpha"]], "mk": b["mk"], "steps": b["steps"]} for b in behs]
    probes = [] if (quick or replay) else [{"name": n, "probe": p} for n, p in PROBES]
    vf.write_ndjson(chk.path("behaviours.ndjson"), inp + probes)
    # 2. replay
    raw = chk.path("trace-raw.ndjson")
    r = vf.qxv("caps", raw, in_path=chk.path("behaviours.ndjson"), seed=chk.seed, tier=chk.tier, check=False)
    vf.repair_truncated(raw)
    if r["rc"] != 0 and not r["sanitizer"]:
        raise vf.MachineryError("qxv caps failed: " + r["stderr"][-2000:])
    chk.cov["driver_wall_s"] = r["wall_s"]
    # 3. interpretation of Sha1: annotate with the reference hashes, drop the bulky string fields
    out = []          # list of executions, each a list of lines
    cur = None
    probe_results = []
    nedit = nemit = 0
    classes = {}      # (case, step) -> value classes of the info set at that step
    class_count = {}
    for o in vf.read_ndjson(raw):
        if o["e"] == "Reset":
            idx = int(o["case"][1:]) - 1
            w = o["o"]
            if "probe" in o:
                ref = refhash(w["wire"])
                probe_results.append({"probe": o["probe"], "ver": w["ver"], "ref_of_wire": ref, "agree": w["ver"] == ref})
                cur = None
                continue
            cur = behs[idx]
            last_classes = []
            out.append([{"e": "Reset", "case": o["case"],
                         "o": {"ver": w["ver"], "exp": exphash([], ALPHABETS[cur["alpha"]]), "refwire": refhash(w["wire"])}}])
            continue
        if cur is None:
            continue
        w = o.pop("o")
        if o["t"] == "emit":
            nemit += 1
            o["o"] = {"presence": bool(w.get("presence")), "adv": w.get("adv", ""), "cap": w.get("cap", ""),
                      "rtype": w.get("rtype", "none"), "ansref": refhash(w["reply"]) if "reply" in w else ""}
        else:
            nedit += 1
            exp = exphash(o["c"], ALPHABETS[cur["alpha"]])
            last_classes = value_classes(w["in"])
            for c_ in last_classes:
                class_count[c_] = class_count.get(c_, 0) + 1
            if refhash(wire_of(w["in"])) != exp:      # the spec's Canon and the python reference disagree on one input: the check is broken
                raise vf.MachineryError(f"Caps.tla Canon and the python reference disagree for {json.dumps(w['in'])} / {o['c']}")
            o["o"] = {"ver": w["ver"], "exp": exp, "refwire": refhash(w["wire"])}
        classes[(out[-1][0]["case"], len(out[-1]))] = last_classes
        out[-1].append(o)
    # 4. trace validation, in up to 4 chunks of whole executions side by side
    s = tracepar.tlc_trace_chunks(chk, "CapsTrace.tla", "CapsTrace.cfg", out)
    chk.cov["trace_validation_wall_s"] = s["wall_s"]
    by_case = {ex_[0]["case"]: ex_ for ex_ in out}
    chk.cov["traces_validated_against_impl"] = s["cases"]
    chk.cov["trace_lines"] = s["lines"]
    chk.cov["edit_steps_hashed"] = nedit
    chk.cov["value_classes_hashed"] = dict(sorted(class_count.items()))
    chk.cov["distinct_hashes_observed"] = len({ln["o"]["ver"] for ex_ in out for ln in ex_ if "ver" in ln["o"]}
                                              | {ln["o"]["adv"] for ex_ in out for ln in ex_ if "adv" in ln["o"]})
    chk.cov["presence_emissions_checked"] = nemit
    chk.cov["diverged_executions"] = s["ndiv"]
    chk.cov["first_divergences"] = s["divs"][:3]
    chk.cov["alphabets"] = {n: a for n, a in ALPHABETS.items()}
    chk.cov["behaviours_by_source"] = {t: sum(1 for b in behs if b.get("src") == t) for t in sorted({b.get("src", "replay") for b in behs})}
    if probe_results:
        chk.cov["probes_outside_quantifier"] = probe_results
    chk.cov["exhaustive"] = not replay
    chk.cov["rule"] = ("TLC explores the bounded edit models of spec/Caps.tla exhaustively (CapsGen*.cfg, properties checked in the same "
                       "run); replayed: a shortest edit sequence to every state of the component models (identities / features / form) "
                       "and of the mixed model under rotating alphabets (the feature model under all), every presence-emission "
                       "transition near the initial state plus seeded samples of the others and of the remaining transitions, and "
                       "seeded random walks (-simulate) over larger constants; every step builds the real QXmppDiscoveryIq in the given "
                       "order (and, for emissions, drives a real client) and is validated by CapsTrace.tla against hashlib SHA-1 of the "
                       "specification's canonical string and an independent XEP-0115 implementation applied to the wire form")
    for b in behs[:1] + behs[len(behs) // 2:len(behs) // 2 + 2] + behs[-2:]:
        chk.sample({"alphabet": b["alpha"], "steps": [_arg(st) for st in b["steps"]]})
    # one violation per (clause, alphabet | emission kind): the shortest failing prefix
    best = {}
    not_judged = 0
    for v in s["viol"]:
        idx = int(v["case"][1:]) - 1
        b = behs[idx]
        if v["prop"] == "Change" and b["alpha"] == "delim":
            not_judged += 1       # two different info sets may have the same string S when names contain '<' or '/'
            continue
        prefix = [_arg(st) for st in b["steps"][:v["step"]]]
        vc = tuple(classes.get((v["case"], v["step"]), []))
        # which input class fails: the value classes present, else (ordinary strings) the alphabet
        key = (v["prop"], v["e"] if v["prop"] == "Advertised" else "", vc, "" if vc else b["alpha"])
        cand = (len(prefix), prefix, b["alpha"])
        if key not in best or cand < best[key][0]:
            best[key] = (cand, v, idx)
    chk.cov["violating_executions"] = len({v["case"] for v in s["viol"]
                                           if not (v["prop"] == "Change" and behs[int(v["case"][1:]) - 1]["alpha"] == "delim")})
    chk.cov["change_clause_not_judged_under_delimiter_alphabet"] = not_judged
    # a failing class set that strictly contains another failing one (whatever the clause) adds nothing
    failing_sets = {k[2] for k in best if k[2]}
    for key in list(best):
        if any(set(fs) < set(key[2]) for fs in failing_sets):
            del best[key]
    for key in sorted(best, key=lambda k: (len(k[2]), best[k][0], k)):
        cand, v, idx = best[key]
        b = behs[idx]
        sig = "C20:%s:%s:[%s]:%s" % (v["prop"], b["alpha"], ",".join(key[2]), ",".join(cand[1]))
        what = {
            "Hash": "verificationString() differs from SHA-1 of the XEP-0115 5.1 canonical string",
            "Wire": "verificationString() differs from the XEP-0115 hash of what the same IQ serializes to",
            "Neutral": "a reordering / repeated feature changed verificationString()",
            "Change": "adding / removing / altering an element left verificationString() unchanged",
            "Advertised": "the <c ver/> the client sent in presence differs from the XEP-0115 hash of its disco#info answer",
        }[v["prop"]] + f" at step {v['step']} ({v['e']}); value classes present: {list(key[2]) or 'none'}; " \
                        f"multi-valued fields are {b['mk']} (alphabet {b['alpha']}: {ALPHABETS[b['alpha']]})"
        chk.violation(sig, what, [{"alphabet": b["alpha"], "mk": b["mk"], "steps": b["steps"][:v["step"]]}] + by_case.get(v["case"], []))
        if len(chk.violations) >= 12:
            break
    if r["sanitizer"] and not chk.violations:
        raise vf.MachineryError("sanitizer report in qxv caps (C20 has no memory-safety clause): " + "; ".join(r["sanitizer"][:3]))
    chk.assumptions += [
        "SHA-1/base64 and string comparison are outside TLC: python hashlib interprets Sha1 (differential half)",
        "alphabet without '<' and '/'; features, FORM_TYPE values, field names and values from disjoint alphabets for global "
        "injectivity (the XEP's own delimiter weakness, XEP-0115 section 8)",
        "sorting is i;octet (RFC 4790) as XEP-0115 5.1 requires",
        "forms: one extension form with a non-empty hidden FORM_TYPE and distinct field names; fields single-valued (text-single; an "
        "empty value is not written on the wire) or multi-valued (list-/jid-/text-multi rotating; 0..3 values, empty and repeated "
        "members); the empty string may stand in every other role; boolean fields and several forms are outside (probes)",
        "under the alphabet that contains '<' and '/' hashes are compared but the must-change clause is not judged",
        "a presence is judged at the moment it is emitted: the peer asks disco#info immediately",
    ]
