"""C17 — the public part of a message split for end-to-end encryption never contains sensitive content;
public + sensitive = the unsplit message; parsing public then sensitive recovers the field values.
Spec: spec/Sce.tla (+SceGen, SceTrace). Driver: qxv sce."""
import os

import tracepar
import vf

LEVEL = "model_checking"
W = 4  # TLC workers (shared machine)


def _table(chk):
    """The spec's kind table (exported by SceGen's ASSUME) and the driver's list must name the same kinds."""
    return chk.path("table.ndjson")


def _send(st):
    """Send(sendSensitive/omemo/later) | SendPlain(send) | Split | Recover"""
    if st["a"] == "Send":
        return "Send(%s/%s/%s)" % (st["api"], st["style"], st["how"])
    if st["a"] == "SendPlain":
        return "SendPlain(%s)" % st["api"]
    return st["a"]


def run(chk, replay=None):
    quick = chk.tier == "quick"
    # 1. design level: the table + mode predicate satisfy the three clauses for every consistent set of <= MaxSet kinds
    chk.mc(vf.tlc_mc("Sce.tla", "Sce.cfg", workers=W), "Sce.cfg")
    if not quick:
        chk.mc(vf.tlc_mc("Sce.tla", "Sce3.cfg", workers=W), "Sce3.cfg")
    # 2. behaviours
    tpath = _table(chk)
    if replay:
        behs = [b for b in vf.read_ndjson(replay) if "steps" in b]
        # the table is still needed for the driver/spec consistency check
        vf.tlc_gen("SceGen.tla", "SceGen2.cfg", env={"QXV_TABLE": tpath}, tag="SceTable")
    else:
        focus_cfg = "SceGenEme1.cfg" if quick else "SceGenEme2.cfg"
        send_cfg = "SceGenSend1.cfg" if quick else "SceGenSend2.cfg"
        (ex, st1), (foc, st3), (snd, st4), (sim, st2) = tracepar.par([
            lambda: vf.tlc_gen("SceGen.tla", "SceGen2.cfg" if quick else "SceGen3.cfg", env={"QXV_TABLE": tpath}),
            # value focus: every encryption-method value x {fallback body, real body, both} x every further kind
            # (thorough: every further pair); the configuration carries the invariants, so it is model-checked too
            lambda: vf.tlc_gen("SceGen.tla", focus_cfg, env={"QXV_TABLE": ""}, timeout=2400),
            # client path: {}, {body}, {body, fallback body} + every further kind (thorough: pair), each sent through
            # sendSensitive / reply x stub style plain / omemo x task ready / later, and through send / sendPacket (control)
            lambda: vf.tlc_gen("SceGen.tla", send_cfg, env={"QXV_TABLE": ""}, timeout=2400),
            lambda: vf.tlc_simulate("SceGen.tla", "SceGenSim.cfg", num=40 if quick else 4000, depth=70, seed=chk.seed,
                                    workers=1, env={"QXV_TABLE": ""})])
        chk.mc({"ok": True, "distinct": st3["distinct"], "states": st3["states"], "depth": 0, "wall_s": st3["wall_s"]}, focus_cfg)
        chk.mc({"ok": True, "distinct": st4["distinct"], "states": st4["states"], "depth": 0, "wall_s": st4["wall_s"]}, send_cfg)
        # only complete behaviours (ending in Recover) are of interest; prefixes are covered by them
        seen = set()
        behs = []
        for b in ex + foc + snd + sim:
            if not (b["steps"] and b["steps"][-1]["a"] in ("Recover", "Send", "SendPlain")):
                continue
            key = tuple(st.get("k", _send(st)) for st in b["steps"])
            if key not in seen:
                seen.add(key)
                behs.append(b)
        chk.cov["generation"] = {"exhaustive_sets": st1, "value_focus": st3, "client_path": st4, "simulate": st2}
    table = vf._decode_gen(tpath)
    if not table:
        raise vf.MachineryError("SceGen did not export the kind table")
    spec_kinds = [(k["k"], k["slot"]) for k in table[0]["kinds"]]
    part = {k["k"]: k["part"] for k in table[0]["kinds"]}
    lst = chk.path("kinds.ndjson")
    vf.qxv("sce", lst, opts={"list": 1})
    drv_kinds = [(k["k"], k["slot"]) for o in vf.read_ndjson(lst) if o["e"] == "Kinds" for k in o["kinds"]]
    if sorted(spec_kinds) != sorted(drv_kinds):
        raise vf.MachineryError("kind tables of spec/Sce.tla and harness/drv_sce.cpp differ: "
                                f"{sorted(set(spec_kinds) ^ set(drv_kinds))}")
    chk.cov["kinds"] = len(spec_kinds)
    chk.cov["kinds_by_part"] = {p: sum(1 for v in part.values() if v == p) for p in sorted(set(part.values()))}
    vf.write_ndjson(chk.path("behaviours.ndjson"), behs)
    # 3. replay on the real QXmppMessage
    trace = chk.path("trace.ndjson")
    r = vf.qxv("sce", trace, in_path=chk.path("behaviours.ndjson"), seed=chk.seed, tier=chk.tier, check=False)
    vf.repair_truncated(trace)
    cases = vf.split_cases(trace)
    if r["rc"] != 0 and not r["sanitizer"]:
        raise vf.MachineryError("qxv sce failed: " + r["stderr"][-2000:])
    # 4. trace validation
    s = tracepar.tlc_trace_chunks(chk, "SceTrace.tla", "SceTrace.cfg", tracepar.split_executions(vf.read_ndjson(trace)))
    chk.cov["trace_validation_wall_s"] = s["wall_s"]
    chk.cov["driver_wall_s"] = r["wall_s"]
    sizes = {}
    for b in behs:
        n = sum(1 for st in b["steps"] if st["a"] == "Set")
        sizes[n] = sizes.get(n, 0) + 1
    chk.cov["traces_validated_against_impl"] = s["cases"]
    chk.cov["trace_lines"] = s["lines"]
    chk.cov["diverged_executions"] = s["ndiv"]
    chk.cov["first_divergences"] = s["divs"][:3]
    chk.cov["set_sizes"] = {str(k): v for k, v in sorted(sizes.items())}
    # vacuity guard (measured): every kind of the table was really emitted by the implementation and recovered somewhere
    emitted, recovered = set(), set()
    for lines in cases.values():
        for o in lines:
            if o["e"] == "Split" and "pub" in o.get("o", {}):
                emitted |= set(o["o"]["pub"]) | set(o["o"]["sens"])
            elif o["e"] == "Recover":
                recovered |= set(o["o"]["rec"])
    # client path (measured): encrypted sends that reached the wire through the stub extension, and the control --
    # plain sends of a message with sensitive kinds must show them in the clear, else the harness would be blind
    sens_kinds = {k for k, p_ in part.items() if p_ == "Sensitive"}
    n_enc = n_enc_ok = n_plain = n_plain_sens = n_plain_seen = 0
    on_wire = set()
    for lines in cases.values():
        S = {o["k"] for o in lines if o["e"] == "Set"}
        for o in lines:
            if o["e"] == "Send":
                n_enc += 1
                n_enc_ok += o["o"]["sent"] == 1 and o["o"]["encryptCalls"] == 1 and "e2eePayload" in o["o"]["wire"]
                on_wire |= set(o["o"]["wire"])
            elif o["e"] == "SendPlain":
                n_plain += 1
                if S & sens_kinds:
                    n_plain_sens += 1
                    n_plain_seen += bool(set(o["o"]["wire"]) & sens_kinds)
    chk.cov["client_path"] = {"encrypted_sends": n_enc, "of_which_one_stanza_with_payload_on_the_wire": n_enc_ok,
                              "public_kinds_seen_on_the_wire": len(on_wire & set(part)),
                              "control_plain_sends": n_plain, "control_with_sensitive_kinds": n_plain_sens,
                              "control_where_they_were_seen_in_the_clear": n_plain_seen}
    if not replay and (n_enc == 0 or n_enc_ok < n_enc or n_plain_sens == 0 or n_plain_seen < n_plain_sens):
        raise vf.MachineryError(f"client path is not observed as intended: {chk.cov['client_path']}")
    chk.cov["kinds_seen_emitted"] = len(emitted & set(part))
    chk.cov["kinds_seen_recovered"] = len(recovered & set(part))
    if not replay and emitted & set(part) != set(part):
        raise vf.MachineryError(f"kinds never emitted by the implementation (setter without effect?): {sorted(set(part) - emitted)}")
    chk.cov["exhaustive"] = not replay
    chk.cov["rule"] = ("every consistent set of at most %d of the %d element kinds of spec/Sce.tla (one behaviour each: "
                       "Set.., Split, Recover; a kind = an element in one value class, e.g. one per QXmpp::EncryptionMethod) + the "
                       "value focus (every encryption method x fallback body / body / both x every further kind, thorough: pair) "
                       "+ the client path ({}, {body}, {body, fallback body} + every further kind, thorough: pair; sent through a real "
                       "QXmppClient with a succeeding stub QXmppE2eeExtension by sendSensitive / reply x stub style x ready / later "
                       "task, judged WireNoLeak / WirePublic on the stanza logged as sent; send / sendPacket as control) "
                       "+ seeded random larger sets (TLC -simulate); each replayed on the real "
                       "QXmppMessage (setters with distinctive values; toXml(ScePublic), serializeExtensions(SceSensitive) in an "
                       "SCE <content/>, toXml(SceAll); parse public then sensitive into a fresh message) and validated by "
                       "SceTrace.tla, which evaluates NoLeak / Partition / Recover on the logged element kinds and raw-substring "
                       "hits") % (2 if quick else 3, len(spec_kinds))
    for b in behs[:2] + behs[len(behs) // 2:len(behs) // 2 + 1] + behs[-2:]:
        chk.sample([st.get("k", _send(st)) for st in b["steps"]])
    for b in [b for b in behs if b["steps"][-1]["a"] == "Send"][:2]:
        chk.sample([st.get("k", _send(st)) for st in b["steps"]], cap=8)
    # violations: one per (clause, offending kind), reported on the smallest set that shows it
    best = {}
    for v in s["viol"]:
        idx = int(v["case"][1:]) - 1
        S = [st["k"] for st in behs[idx]["steps"] if st["a"] == "Set"]
        if v["e"] == "Send":
            S = S + [_send(behs[idx]["steps"][-1])]
        for kind in v["kinds"]:
            key = (v["prop"], kind)
            if key not in best or (len(S), S) < (len(best[key][1]), best[key][1]):
                best[key] = (v, S, idx)
    chk.cov["violating_executions"] = len({v["case"] for v in s["viol"]})
    for key in sorted(best):
        v, S, idx = best[key]
        what = {"NoLeak": "the public part (toXml(ScePublic)) contains sensitive or unknown content: %s",
                "Partition": "public + sensitive part do not contain exactly the elements of the unsplit message, each once: %s",
                "Recover": "parse(public, ScePublic) + parseExtensions(sensitive, SceSensitive) does not give back the field value of: %s",
                "WireNoLeak": "the stanza QXmppClient put on the wire on the ENCRYPTED send path contains sensitive or unknown content "
                              "next to the encrypted payload: %s",
                "WirePublic": "the stanza QXmppClient put on the wire on the encrypted send path lacks (or repeats) a public element of "
                              "the message the encryption extension returned: %s",
                }[v["prop"]] % key[1]
        chk.violation("C17:%s:%s:S=%s" % (key[0], key[1], ",".join(S)), what + " (message with " + ", ".join(S) + " set)",
                      [behs[idx]] + cases.get(v["case"], []))
        if len(chk.violations) >= 20:
            break
    if r["sanitizer"] and not chk.violations:
        raise vf.MachineryError("sanitizer report in qxv sce (C17 has no memory-safety clause): " + "; ".join(r["sanitizer"][:3]))
    chk.assumptions += [
        "the classification of a kind as routing/hint/id/fallback vs conversational payload is the table KT of spec/Sce.tla, "
        "written from the property statement and the XEPs",
        "elements the class does not know (QXmppStanza::extensions()) are outside the property's quantifier: they are written "
        "by toXml in every mode, i.e. always into the public part",
        "recovery is demanded relative to what the unsplit (SceAll) round trip recovers",
        "OMEMO element (BUILD_OMEMO) not built: on the client path the encryption extension is a stub that succeeds and, like "
        "QXmppOmemoManager, returns the message with its sensitive fields still set; its payload travels as a QXmppElement",
    ]
