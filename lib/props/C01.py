"""C01 — stanza codecs lose nothing: serialize-then-parse is the identity on every field.
Spec: spec/Codec.tla (+CodecGen, CodecTrace). Driver: qxv codec (harness/drv_codec.cpp,
registry harness/codec_registry.h, field tables harness/drv_codec_objects.cpp).

Level: exploration.  Encode/decode fidelity of ~150 hand-written classes is not decided by a model.
The specification contributes the contract (writer/reader pair is the identity and writes no
markup: proved by TLC for all class strings up to the bound) and the complete enumeration of
presence subsets x character-class assignments; the oracle is the round trip of the real classes."""
import concurrent.futures
import math
import re

import codec_common as cc
import vf

LEVEL = "exploration"


def _obj_jobs(objects, plans, variants):
    jobs = []
    n = 0
    for t in objects:
        nf = len(t["fields"])
        for plan in plans:
            vals = [(st["v"][0] if st["v"] else "") for st in plan["steps"] if st["a"] == "Assign"]
            k = len(vals)
            nmaps = max(1, math.ceil(math.log(max(nf, 2), k))) if k > 1 else 1
            for mp in range(nmaps):
                for var in variants:
                    n += 1
                    jobs.append({"k": "obj", "id": f"o{n}", "cls": t["name"], "map": mp, "vals": vals, "variant": var})
    return jobs


def run(chk, replay=None):
    quick = chk.tier == "quick"
    seeds, hstats, seeds_path = cc.prepare_seeds(chk)
    chk.cov["seeds"] = hstats
    reg = cc.registry_info(chk, seeds_path)

    with concurrent.futures.ThreadPoolExecutor(max_workers=1) as bg:
        # 1. design level: Unescape(Escape(s)) = s and no markup token in Escape(s), all class strings up to the bound
        mc_cfg = "Codec.cfg" if quick else "Codec4.cfg"
        mc_f = bg.submit(vf.tlc_mc, "Codec.tla", mc_cfg, cc.TLC_WORKERS)
        if replay:
            jobs = [j for j in vf.read_ndjson(replay) if "k" in j]
            gen = {}
        else:
            # 2. plans: every presence subset x class assignment of the abstract stanza
            plans, gst = vf.tlc_gen("CodecGen.tla", "CodecGen2.cfg" if quick else "CodecGen3.cfg")
            gen = {"plans": gst}
            jobs = [{"k": "scalar", "id": "scalar"}]
            jobs += [{"k": "seed", "id": f"s{i}", "seed": i, "client": False} for i in range(len(seeds))]
            jobs += [{"k": "subst", "id": f"v{i}", "seed": i, "nrand": 0 if quick else 2, "stride": 4 if quick else 1, "phase": chk.seed % 4,
                      "nfixed": 2 if quick else 0}
                     for i in range(len(seeds))]
            jobs += _obj_jobs(reg["objects"], plans, [0, 7] if quick else [0, 1, 7])
            # presence lattice per type (Lattice(n) of spec/Codec.tla): no field, every single field, all but one, all
            for t in reg["objects"]:
                nf = len(t["fields"])
                subsets = [set()] + [{i} for i in range(nf)] + [set(range(nf)) - {i} for i in range(nf)] + [set(range(nf))]
                for sub in subsets:
                    for cls in ("Plain", "Lt"):
                        jobs.append({"k": "obj", "id": f"l{len(jobs)}", "cls": t["name"], "map": -1,
                                     "vals": [cls if i in sub else "" for i in range(nf)], "variant": 0})
            # list lattice (ListShapes of spec/Codec.tla): every list-valued field of every type takes every shape
            # (empty, one, two, dup, aba, case, space, emptymember), alone and with all other fields present
            for t in reg["objects"]:
                nf = len(t["fields"])
                for j, kind in enumerate(t.get("kinds", [])):
                    if not (kind.startswith("list:") or kind.startswith("set:") or "+set:" in kind):
                        continue
                    for shape in range(8):
                        for cls in ("Plain", "Amp"):
                            for others in ("", "Plain"):
                                jobs.append({"k": "obj", "id": f"q{len(jobs)}", "cls": t["name"], "map": -1, "shape": shape,
                                             "vals": [cls if i == j else others for i in range(nf)], "variant": 0})
            # default-constructed and fully set objects, getters logged (determinism across heap fill patterns)
            k = len(plans[0]["steps"]) - 2
            for t in reg["objects"]:
                for vals in ([""] * k, ["Plain"] * k):
                    jobs.append({"k": "obj", "id": f"d{len(jobs)}", "cls": t["name"], "map": 0, "vals": vals, "variant": 0, "getters": True})
        chk.cov["generation"] = gen
        vf.write_ndjson(chk.path("jobs.ndjson"), jobs)
        paths, lines, crashes = cc.run_jobs(chk, "c01", jobs, seeds_path, alarm=300)
        chk.mc(mc_f.result(), mc_cfg)

    s = cc.validate_traces("CodecTrace.tla", "CodecTrace.cfg", paths, "CodecTrace")
    by_case = {o["case"]: o for o in lines if o.get("e") in ("Obj", "Seed", "Subst", "Scalar")}
    job_by_id = {j["id"]: j for j in jobs}
    objs = [o for o in lines if o.get("e") == "Obj" and not o.get("skipped")]
    subs = [o for o in lines if o.get("e") == "Subst"]
    sds = [o for o in lines if o.get("e") == "Seed"]
    scal = [o for o in lines if o.get("e") == "Scalar"]
    own = {}
    for o in sds:
        for c in o.get("own", []):
            own[c] = own.get(c, 0) + 1
    chk.cov.update({
        "evaluations": len(objs) + sum(o["tried"] for o in subs) + sum(o["runs"] for o in sds) + sum(o["n"] for o in scal),
        "distinct_nontrivial": sum(1 for o in objs if o.get("nset", 0) > 0) + sum(o["tried"] for o in subs),
        "object_cases": len(objs),
        "presence_lattice_cases": sum(1 for o in objs if o.get("map") == -1 and "shape" not in o),
        "list_lattice_cases": sum(1 for o in objs if "shape" in o),
        "list_valued_fields": sum(1 for t in reg["objects"] for k in t.get("kinds", []) if k.startswith("list:") or k.startswith("set:") or "+set:" in k),
        "object_types": len(reg["objects"]),
        "object_fields": sum(len(t["fields"]) for t in reg["objects"]),
        "registry_classes": len(reg["registry"]),
        "seed_documents": len(sds),
        "seed_parser_runs": sum(o["runs"] for o in sds),
        "own_output_form_documents_per_class": dict(sorted(own.items(), key=lambda kv: -kv[1])[:40]),
        "classes_with_own_output_form_seed": len(own),
        "free_text_slots_confirmed": sum(o["slots"] for o in subs),
        "positions_probed": sum(o["positions"] for o in subs),
        "substitutions_tried": sum(o["tried"] for o in subs),
        "scalar_checks": sum(o["n"] for o in scal),
        "traces_validated_against_impl": s["cases"],
        "trace_lines": s["lines"],
        "diverged_executions": s["ndiv"],
        "exhaustive": False,
        "rule": ("(a) objects of every type of the field tables built through setters along every plan TLC enumerates for "
                 "spec/Codec.tla (each slot absent or one of 10 character classes; field j takes the slot given by the map-th "
                 "base-K digit of j, so every pair of fields meets every pair of slot values; typed fields walk through their "
                 "bounds), serialized, parsed, compared getter by getter, serialized again, structure compared with the plain-text "
                 "baseline; (b) every XML literal of /repo/tests through every parser admitting it, output must survive a second pass; "
                 "(c) for documents in the library's own output form every attribute/text position at which two probe strings "
                 "survive is a free-text slot: fixed representatives and seeded random strings of every class substituted there must "
                 "come back identical with unchanged element structure; (d) parseInt<T>/parseBoolean/parseBase64/date-time helpers at "
                 "their bounds. non-trivial = object case with at least one field differing from the default object, or one "
                 "substitution at a confirmed slot"),
    })
    rich = [o for o in objs if o.get("nset", 0) >= 2]
    for o in (rich[:1] + rich[len(rich) // 2: len(rich) // 2 + 2]):
        chk.sample({"class": o["cls"], "plan": o["vals"], "map": o["map"], "variant": o["variant"], "fields_set": o["nset"], "xml": o.get("x1", "")[:300]})
    for o in [x for x in subs if x["slots"] > 0][:2]:
        chk.sample({"seed": o["seed"], "free_text_slots": o.get("slotNames", [])[:6], "substitutions": o["tried"]})

    # violations, grouped by address-free signature
    seen = {}
    for v in s["viol"]:
        if v["prop"] == "Terminated":
            continue
        o = by_case.get(v["case"])
        if not o:
            continue
        b = o["bad"][v["n"] - 1]
        if o["e"] == "Obj":
            what_at = b.get("f") or ""
            sig = f"C01:{b['k']}:{o['cls']}:{what_at}"
            desc = (f"{o['cls']}: {b['k']}" + (f" of field {b['f']}" if b.get("f") else "") +
                    f" (plan {o['vals']}, map {o['map']}, variant {o['variant']}{', list shape ' + o['shape'] if 'shape' in o else ''}): before={cc.short(b.get('want', ''))} after={cc.short(b.get('got', ''))} "
                    f"xml={cc.short(o.get('x1', ''), 300)}")
        elif o["e"] == "Subst":
            slot = re.sub(r"\{[^}]*\}", "", b["slot"])
            sig = f"C01:{b['k']}:{re.sub(r'<.*>', '<>', b['c'])}:{'/'.join(slot.split('/')[-2:])}:{b['cls']}"
            desc = (f"{b['c']}: value of class {b['cls']} substituted at free-text slot {b['slot']} of seed {o['seed']} does not survive "
                    f"({b['k']}): value={b['v']!r} X1={cc.short(b['x1'], 300)}")
        elif o["e"] == "Scalar":
            sig = f"C01:scalar:{b['k']}"
            desc = f"{b['k']}: {b['in']!r} parses back as {b['got']}"
        else:
            sig = cc.signature("C01", b)
            desc = f"{b['c']}: {b['k']} at {b.get('where', '')} for test literal {o.get('src')} element {b['el']}: X1={cc.short(b['x1'])} X2={cc.short(b['x2'])}"
        seen.setdefault(sig, []).append((o, desc))
    for sig, occ in sorted(seen.items()):
        o, desc = occ[0]
        chk.violation(sig, f"{desc} [{len(occ)} cases]", [job_by_id[o["case"]], o])
        if len(chk.violations) >= 40:
            break
    for c in crashes:
        j = c["job"]
        chk.violation(cc.crash_signature("C01", c), f"{c['kind']} during a codec round trip: {c['report'] or c['stderr_tail'][-300:]} (job {j})", [j])
    det = cc.determinism(chk, "c01det", [j for j in jobs if j.get("getters")], seeds_path, lines) if not replay else []
    for dv in det:
        chk.violation(f"C01:uninitialised:{dv['cls']}:{dv['field']}", dv["what"] + " (a member is read before it is initialised)", [job_by_id[dv["case"]]])
    chk.cov["determinism_reruns"] = sum(1 for j in jobs if j.get("getters"))
    chk.cov["distinct_findings"] = len(seen) + len(crashes) + len({(dv["cls"], dv["field"]) for dv in det})
    chk.assumptions += [
        "free-text fields: non-blank strings without white space at the edges (documented trimming is outside the claim); "
        "characters: XML-legal, \\r excluded (XML line-end normalisation)",
        "XHTML-IM body is the documented raw exception (not a free-text field)",
        "field tables cover the types listed in coverage.object_types; other classes are covered by (b) and (c) only",
        "Qt's QXmlStreamWriter/QDom are trusted as the writer/reader pair (modelled in spec/Codec.tla)",
    ]
