"""C06 — SASL exchanges follow their RFCs; a server that cannot prove itself is refused.
Spec: spec/SaslExchange.tla (+SaslExchangeGen, SaslExchangeTrace). Driver: qxv saslexchange.
Two halves on the same recorded executions:
  * message-sequence / refusal logic: model checking + trace validation (TLC);
  * byte-exact responses: differential check against lib/refcrypto.py (hashlib/hmac) — NOT model checking."""
import base64
import concurrent.futures as cf
import random
import unicodedata

import refcrypto as rc
import vf

LEVEL = "model_checking"

SCRAM = list(rc.SCRAM_HASHES)
HT = [f"HT-{h}-NONE" for h in rc.HT_HASHES]
CONCRETE = {"SCRAM": SCRAM, "DIGEST": ["DIGEST-MD5"], "PLAIN": ["PLAIN"], "HT": HT}

# alphabets: "the normalised form the specifications operate on" = NFKC-stable, nothing SASLprep maps or prohibits
UNI = "äöüéñçøλжщюзер中文日本語한글אבג"
A_USER = "abcdefghijklmnopqrstuvwxyzABCDEFGHIJKLMNOPQRSTUVWXYZ0123456789.-_+!~=,;$*()[]{}|^`#%?\\" + UNI
A_PW = "".join(chr(c) for c in range(0x20, 0x7f)) + UNI
A_NONCE = "".join(chr(c) for c in range(0x21, 0x7f) if chr(c) != ",")     # RFC 5802 printable
A_DNONCE = "abcdefghijklmnopqrstuvwxyzABCDEFGHIJKLMNOPQRSTUVWXYZ0123456789+/=-_.:"  # DIGEST nonces as servers make them
A_HOST = "abcdefghijklmnopqrstuvwxyz0123456789"


def _rs(rng, alphabet, lo, hi):
    return "".join(rng.choice(alphabet) for _ in range(rng.randint(lo, hi)))


def random_creds(rng):
    c = {"user": _rs(rng, A_USER, 1, 12), "pw": _rs(rng, A_PW, 1, 20), "domain": _rs(rng, A_HOST, 1, 8) + "." + _rs(rng, A_HOST, 2, 3),
         "cnonce": _rs(rng, A_NONCE, 1, 32), "snonce": _rs(rng, A_NONCE, 1, 24), "dnonce": _rs(rng, A_DNONCE, 1, 32),
         "salt": bytes(rng.randrange(256) for _ in range(rng.randint(1, 32))),
         "iters": rng.choice([1, 2, 3, 7, 64, 500, 4096, rng.randint(1, 3000)]),
         "realm": rng.choice(["", "", _rs(rng, A_HOST, 1, 8) + ".org"]), "token": _rs(rng, A_PW, 8, 40)}
    if rng.random() < 0.15:   # passwords / tokens longer than the HMAC block size (64, 72, 128, 136, 144)
        c["pw"] = _rs(rng, A_PW, 65, 200)
        c["token"] = _rs(rng, A_PW, 65, 200)
    for k in ("user", "pw", "token"):
        assert unicodedata.normalize("NFKC", c[k]) == c[k]
    return c


BASE = {"user": "user", "pw": "pencil", "domain": "example.org", "cnonce": "fyko+d2lbbFgONRv9qkxdawL", "snonce": "3rfcNHYJY1ZVvWVs7j",
        "dnonce": "OA6MG9tEQGm2hh", "salt": base64.b64decode("QSXCR+Q6sek8bf92"), "iters": 4096, "realm": "", "token": "s3cr3tt0k3n"}

# edge credentials with stable identity (name, overrides)
EDGES = [
    ("rfc", {}),
    ("user-equals", {"user": "a=b"}), ("user-comma", {"user": "a,b"}), ("user-equals-comma", {"user": "=2C,=3D"}),
    ("user-backslash", {"user": "back\\slash"}), ("user-quote", {"user": 'quo"te'}), ("user-unicode", {"user": "юзер.中文"}),
    ("user-space", {"user": "first last"}),
    ("pw-specials", {"pw": 'p,=w"\\ :'}), ("pw-unicode", {"pw": "пароль密码"}), ("pw-long-65", {"pw": "x" * 65}),
    ("pw-long-200", {"pw": "y" * 200}), ("pw-space", {"pw": " lead trail "}),
    ("salt-1", {"salt": b"\x01"}), ("salt-nul-ff", {"salt": b"\x00\xff\x00\xff"}), ("salt-64", {"salt": bytes(range(64))}),
    ("iter-1", {"iters": 1}), ("iter-2", {"iters": 2}), ("iter-10000", {"iters": 10000}),
    ("nonce-1", {"cnonce": "x", "snonce": "y", "dnonce": "z"}), ("nonce-specials", {"cnonce": "n0n/ce=+\"q\\", "snonce": "=s/+", "dnonce": "d=n/o+n:c\"e"}),
    ("realm", {"realm": "example.org"}), ("realm-space-quote", {"realm": 'Realm "A" \\ B'}),
    ("dnonce-trailing-backslash", {"dnonce": "nonce\\"}),
    ("token-long", {"token": "t" * 150}), ("token-unicode", {"token": "токен-中"}),
]
THOROUGH_EDGES = [("iter-100000", {"iters": 100000})]


# ------------------------------------------------------------------ concretisation of abstract payloads
def _foreign(c):
    n = c["snonce"] + c["cnonce"][::-1] + "#"
    return n if not n.startswith(c["cnonce"]) else "#" + n


_PAYLOADS = {}


def payload(fam, mech, c, st):
    """memoised _payload (the pool of credentials of the model scripts is small, PBKDF2 is not free)"""
    key = (mech, c["user"], c["pw"], c["cnonce"], c["snonce"], c["dnonce"], c["salt"], c["iters"], c["realm"], c["domain"],
           st["t"], st["x"], st["y"], st["z"])
    if key not in _PAYLOADS:
        if len(_PAYLOADS) > 200000:
            _PAYLOADS.clear()
        _PAYLOADS[key] = _payload(fam, mech, c, st)
    return _PAYLOADS[key]


def _payload(fam, mech, c, st):
    """bytes of the abstract payload (t, x, y, z) of spec/SaslExchange.tla for credentials c; None = no data"""
    t, x, y, z = st["t"], st["x"], st["y"], st["z"]
    if t == "NONE":
        return None
    if t == "EMPTY":
        return b""
    if t == "GARBAGE":
        return b"garbage=1"
    if fam == "SCRAM":
        ref = rc.Scram(mech, c["user"], c["pw"], c["cnonce"], c["snonce"], c["salt"], c["iters"])
        honest = ref.server_first()
        if t == "SF":
            n = {"ext": None, "foreign": _foreign(c), "none": False}[x]
            s = {"ok": None, "empty": "", "none": False}[y]
            i = {"ok": None, "zero": "0", "neg": "-1", "nan": "4o96", "none": False}[z]
            return ref.server_first(n, s, i)
        if t == "FIN":
            if x == "right":
                return ref.server_final(honest)
            if x == "wrongpw":
                return ref.server_final(honest, password=c["pw"] + "x")
            if x == "stale":
                other = rc.Scram(mech, c["user"], c["pw"], c["cnonce"], c["snonce"] + "2", c["salt"], c["iters"])
                return ref.server_final(honest, auth_message=other.auth_message(other.server_first()))
            return b"e=other-error"
    if fam == "DIGEST":
        ref = rc.DigestMd5(c["user"], c["pw"], c["realm"], c["dnonce"], c["cnonce"], c["domain"])
        if t == "DC":
            return ref.challenge(with_nonce=(x == "ok"), qop={"auth": "auth", "none": None, "multi": "auth,auth-int", "authint": "auth-int"}[y])
        if t == "RSP":
            return ref.rspauth() if x == "right" else ref.rspauth(password=c["pw"] + "x")
    raise ValueError(f"no concretisation for {fam} {st}")


def concretise(ident, fam, mech, ver, steps, c, fast=None):
    out = []
    aborted = False
    for st in steps:
        if st["a"] == "Failure":   # a server that was sent <abort/> fails with <aborted/>, otherwise <not-authorized/>
            out.append(dict(S("Failure"), data="aborted" if aborted else "not-authorized"))
            continue
        aborted = aborted or st["a"] == "Continue"
        p = payload(fam, mech, c, st)
        out.append({"a": st["a"], "t": st["t"], "x": st["x"], "y": st["y"], "z": st["z"],
                    "data": None if p is None else base64.b64encode(p).decode()})
    return {"id": ident, "fam": fam, "mech": mech, "v": ver, "fast": (fam == "HT" and ver == 2) if fast is None else fast,
            "user": c["user"], "pw": c["pw"], "domain": c["domain"], "cnonce": c["cnonce"], "token": c["token"], "steps": out,
            "ref": {"snonce": c["snonce"], "dnonce": c["dnonce"], "salt": base64.b64encode(c["salt"]).decode(), "iters": c["iters"], "realm": c["realm"]}}


def S(a, t="NONE", x="", y="", z=""):
    return {"a": a, "t": t, "x": x, "y": y, "z": z}


def honest_flows(fam):
    if fam == "SCRAM":
        return [[S("Challenge", "SF", "ext", "ok", "ok"), S("Challenge", "FIN", "right"), S("Success")],
                [S("Challenge", "SF", "ext", "ok", "ok"), S("Success", "FIN", "right")]]
    if fam == "DIGEST":
        return [[S("Challenge", "DC", "ok", "auth"), S("Challenge", "RSP", "right"), S("Success")],
                [S("Challenge", "DC", "ok", "none"), S("Success", "RSP", "right")]]
    return [[S("Success")]]


# ------------------------------------------------------------------ the differential half
def _unb64(p):
    if p in ("", "="):
        return b""
    return base64.b64decode(p, validate=True)


def creds_of(exe):
    r = exe["ref"]
    return {"user": exe["user"], "pw": exe["pw"], "domain": exe["domain"], "cnonce": exe["cnonce"], "token": exe["token"],
            "snonce": r["snonce"], "dnonce": r["dnonce"], "salt": base64.b64decode(r["salt"]), "iters": r["iters"], "realm": r["realm"]}


def check_bytes(exe, lines):
    """Compare every response the client sent with the reference. Returns (problems, notes, comparisons)."""
    fam, mech, c = exe["fam"], exe["mech"], creds_of(exe)
    probs, notes, n = [], [], 0
    auth = lines[1]["o"]["out"] if len(lines) > 1 else []
    if fam == "SCRAM":
        ref = rc.Scram(mech, c["user"], c["pw"], c["cnonce"], c["snonce"], c["salt"], c["iters"])
        exp0 = ref.client_first()
    elif fam == "DIGEST":
        ref = rc.DigestMd5(c["user"], c["pw"], c["realm"], c["dnonce"], c["cnonce"], c["domain"])
        exp0 = b""
    elif fam == "PLAIN":
        ref, exp0 = None, rc.plain_message(c["user"], c["pw"])
    else:
        ref, exp0 = None, rc.ht_message(mech[3:-5], c["user"], c["token"])
    if len(auth) != 1:
        probs.append(("initial", f"{len(auth)} elements sent by authenticate()"))
        return probs, notes, n
    n += 1
    if auth[0].get("mech") != mech:
        probs.append(("initial", f"mechanism attribute {auth[0].get('mech')!r}, expected {mech!r}"))
    try:
        got0 = _unb64(auth[0]["p"])
    except Exception:
        got0 = None
    if got0 != exp0:
        probs.append(("initial", f"initial response {got0!r}, the specification prescribes {exp0!r}"))
    if fam in ("PLAIN", "HT") and got0 is not None:
        # a server holding another secret must not accept
        other = rc.plain_message(c["user"], c["pw"] + "x") if fam == "PLAIN" else rc.ht_message(mech[3:-5], c["user"], c["token"] + "x")
        if got0 == other:
            probs.append(("initial", "response does not depend on the secret"))
    answered = False
    before = lines[1]["o"]["res"] if len(lines) > 1 else "Error"
    for k, (st, ln) in enumerate(zip(exe["steps"], lines[2:])):
        o = ln["o"]
        pending, before = before == "Pending", o["res"]
        honest = (fam == "SCRAM" and (st["t"], st["x"], st["y"], st["z"]) == ("SF", "ext", "ok", "ok")) or \
                 (fam == "DIGEST" and st["t"] == "DC" and st["x"] == "ok" and st["y"] in ("auth", "none", "multi"))
        if (st["a"] == "Challenge" and honest and pending and not answered and o["kinds"] != ["data"]
                and all(s0["a"] == "Continue" for s0 in exe["steps"][:k])):
            # the first element of an honest server is a valid challenge: the specification prescribes a response
            n += 1
            probs.append(("client-final" if fam == "SCRAM" else "digest-response",
                          f"no response to a valid {'server-first message' if fam == 'SCRAM' else 'challenge'} (client reported {o['res']} {o['err']})"))
        if answered or st["a"] != "Challenge" or o["kinds"] != ["data"]:
            continue
        data = base64.b64decode(st["data"]) if st["data"] else b""
        try:
            resp = _unb64(o["out"][0]["p"])
        except Exception:
            probs.append(("response", "response is not base64"))
            continue
        if fam == "SCRAM" and st["t"] == "SF" and (st["x"], st["y"], st["z"]) == ("ext", "ok", "ok"):
            answered = True
            n += 1
            exp = ref.client_final(data)
            if resp != exp:
                probs.append(("client-final", f"client-final {resp!r}, RFC 5802 prescribes {exp!r}"))
            if got0 == exp0:   # the acceptance oracle is about the whole exchange
                if not ref.server_accepts(data, resp):
                    probs.append(("client-final", "a conforming server holding the same password rejects the proof"))
                if ref.server_accepts(data, resp, password=c["pw"] + "x"):
                    probs.append(("client-final", "a server holding a different password accepts the proof"))
        elif fam == "DIGEST" and st["t"] == "DC" and st["x"] == "ok" and st["y"] in ("auth", "none", "multi"):
            answered = True
            n += 1
            p, nt = ref.check_response(resp)
            probs += [("digest-response", x) for x in p]
            notes += nt
            p2, _ = ref.check_response(resp, password=c["pw"] + "x")
            if not p2:
                probs.append(("digest-response", "a server holding a different password accepts the response"))
    return probs, notes, n


def input_class(exe):
    """which feature of the input a byte mismatch is attributed to (for a stable signature)"""
    u = exe["user"]
    f = []
    if "," in u or "=" in u:
        f.append("user-contains-comma-or-equals")
    if exe["fam"] == "DIGEST" and (exe["ref"]["dnonce"].endswith("\\") or exe["ref"]["realm"].endswith("\\")):
        f.append("challenge-value-ends-with-backslash")
    return "+".join(f) if f else "id=" + exe["id"]


def step_label(st):
    args = "/".join(v for v in (st["x"], st["y"], st["z"]) if v)
    return st["a"] + ("(" + st["t"] + (":" + args if args else "") + ")" if st["t"] != "NONE" else "")


# ------------------------------------------------------------------ orchestration
def _replay_shard(chk, name, execs):
    inp = chk.path(f"exec-{name}.ndjson")
    trace = chk.path(f"trace-{name}.ndjson")
    vf.write_ndjson(inp, execs)
    r = vf.qxv("saslexchange", trace, in_path=inp, seed=chk.seed, tier=chk.tier, check=False)
    if r["rc"] != 0:   # C06 has no crash clause: a dying harness is a machinery failure, never a violation
        raise vf.MachineryError(f"qxv saslexchange exited {r['rc']}: {'; '.join(r['sanitizer'][:3])}\n{r['stderr'][-2000:]}")
    s = vf.tlc_trace("SaslExchangeTrace.tla", "SaslExchangeTrace.cfg", trace, tag="SaslExchangeTrace-" + name, heap="4g")
    return s, trace


def run(chk, replay=None):
    quick = chk.tier == "quick"
    assert rc.selftest()
    rng = random.Random(chk.seed)
    # 1. design level: every server script against the intended client (symbolic terms)
    chk.mc(vf.tlc_mc("SaslExchange.tla", "SaslExchange.cfg", workers=2), "SaslExchange.cfg")
    if not quick:
        chk.mc(vf.tlc_mc("SaslExchange.tla", "SaslExchangeDeep.cfg", workers=2), "SaslExchangeDeep.cfg")
    # 2. executions
    gen_stats = {}
    if replay:
        execs = [b for b in vf.read_ndjson(replay) if "steps" in b and "mech" in b]
    else:
        behs, gen_stats = vf.tlc_gen("SaslExchangeGen.tla", "SaslExchangeGenAll.cfg" if quick else "SaslExchangeGenAll6.cfg")
        execs = []
        edges = EDGES + ([] if quick else THOROUGH_EDGES)
        for fam, mechs in CONCRETE.items():  # (b) honest exchanges over edge credentials (first: stable representatives)
            for mech in mechs:
                for ver in (1, 2):
                    for fi, flow in enumerate(honest_flows(fam)):
                        for name, over in edges:
                            execs.append(concretise(f"edge-{mech}-v{ver}-f{fi}-{name}", fam, mech, ver, flow, dict(BASE, **over)))
        rr = {}
        pool_creds = [dict(BASE)] + [random_creds(rng) for _ in range(40)]
        for i, b in enumerate(behs):      # (a) every server script of the model, concrete mechanisms round-robin
            fam = b["mech"]
            k = rr[fam] = rr.get(fam, -1) + 1
            mech = CONCRETE[fam][k % len(CONCRETE[fam])]
            execs.append(concretise(f"b{i}", fam, mech, b["ver"], b["steps"], pool_creds[k % len(pool_creds)]))
        for fam, mechs in CONCRETE.items():  # (c) honest exchanges over random credentials
            for mech in mechs:
                nrand = (200 if quick else 4000) if fam != "SCRAM" else (200 if quick else 2500)
                for j in range(nrand):
                    flows = honest_flows(fam)
                    execs.append(concretise(f"r-{mech}-{j}", fam, mech, 1 + j % 2, flows[(j // 2) % len(flows)], random_creds(rng)))
    byid = {e["id"]: e for e in execs}
    nshards = max(3, -(-len(execs) // 25000)) if len(execs) > 3000 else 1
    per = -(-len(execs) // nshards)
    with cf.ThreadPoolExecutor(max_workers=3) as pool:
        futs = [pool.submit(_replay_shard, chk, f"s{i}", execs[i * per:(i + 1) * per]) for i in range(nshards)]
        results = [f.result() for f in futs]
    # 3. collect: TLC monitor (sequence logic) and the differential check (bytes) on the same traces
    tot = {"cases": 0, "lines": 0, "ndiv": 0}
    viols, divs = [], []
    bytes_probs, bytes_notes, comparisons, accepted = [], {}, 0, 0
    outcome = {}
    for s, trace in results:
        for k in tot:
            tot[k] += s[k]
        divs += s["divs"]
        cases, start = {}, {}
        for no, o in enumerate(vf.read_ndjson(trace), 1):
            if o.get("e") == "Reset":
                cur = o["case"]
                cases[cur], start[cur] = [], no
            cases[cur].append(o)
        for v in s["viol"]:
            viols.append((v, cases[v["case"]], v["line"] - start[v["case"]] - 1))   # index of the failing step (1-based)
        for cid, lines in cases.items():
            exe = byid[cid]
            p, nt, n = check_bytes(exe, lines)
            comparisons += n
            for x in nt:
                bytes_notes[x] = bytes_notes.get(x, 0) + 1
            if p:
                bytes_probs.append((exe, lines, p))
            fin = lines[-1]["o"]["res"]
            key = f"{exe['fam']}:{fin}"
            outcome[key] = outcome.get(key, 0) + 1
    chk.cov["traces_validated_against_impl"] = tot["cases"]
    chk.cov["trace_lines"] = tot["lines"]
    chk.cov["diverged_executions"] = tot["ndiv"]
    chk.cov["first_divergences"] = divs[:3]
    chk.cov["generation"] = gen_stats
    chk.cov["final_results_by_family"] = outcome
    chk.cov["differential"] = {
        "what": "byte-exact comparison of every initial response, SCRAM client-final and DIGEST-MD5 response with lib/refcrypto.py "
                "(RFC 5802/7677, 2831, 4616, XEP-0484 written with hashlib/hmac) plus the reference server's accept/reject decision "
                "with the same and with a different secret. This half is a differential check, not model checking.",
        "comparisons": comparisons, "executions_with_a_mismatch": len(bytes_probs), "conformance_notes": bytes_notes}
    chk.cov["exhaustive"] = not replay
    chk.cov["rule"] = (
        "executions = (a) every server script of SaslExchange up to the all-paths depth (challenge/success/failure/continue with "
        "honest, wrong-nonce, bad-parameter, wrong-signature, missing-field payloads; success at every step carrying any payload of the "
        "mechanism's term universe (server-first, challenge, proof, empty, garbage, nothing); extra elements after the "
        "end), each on a concrete mechanism (4 SCRAM hashes, DIGEST-MD5, PLAIN, 7 HT hashes round-robin), SASL 1 and SASL 2; (b) honest "
        "exchanges over a fixed edge set of credentials; (c) honest exchanges over seeded random user names / passwords (printable "
        "Unicode, NFKC-stable), salts, iteration counts and nonces. The client nonce is forced through QXmppSaslDigestMd5::setNonce. "
        "Each execution is run on the real SaslManager/Sasl2Manager + mechanism objects and validated by SaslExchangeTrace.tla")
    if execs:
        chk.sample({k: v for k, v in execs[0].items()})
        chk.sample({k: v for k, v in execs[len(execs) // 2].items()})
    # violations of the sequence logic: one per (predicate, family): the shortest history up to the failing
    # step (SASL 1 before SASL 2), so that the signature does not depend on the seed
    order = ["ScramProved", "NoSuccessAfterBadProof", "Rejects", "RefusedSilent", "Final"]
    best, count = {}, {}
    for v, lines, k in viols:
        exe = byid[v["case"]]
        key = (order.index(v["prop"]), v["prop"], exe["fam"])
        labels = [step_label(st) for st in exe["steps"][:k]]
        cand = (exe["v"], len(labels), ",".join(labels))
        count[key] = count.get(key, 0) + 1
        if key not in best or cand < best[key][0]:
            best[key] = (cand, exe, lines[:k + 2], v)
    for key in sorted(best):
        cand, exe, lines, v = best[key]
        sig = f"C06:{key[1]}:{key[2]}:SASL{cand[0]}:{cand[2]}"
        chk.violation(sig, f"{key[1]} fails for {exe['mech']} (SASL {cand[0]}) after the server elements {cand[2]}: the caller was told "
                           f"'{lines[-1]['o']['res']}' ({count[key]} executions of this run fail this predicate for {key[2]})", [exe] + lines)
    chk.cov["violating_executions_sequence"] = len({v["case"] for v, _, _ in viols})
    # byte mismatches: one per (family, message, input class); edge cases come first in the corpus
    seen = set()
    for exe, lines, probs in bytes_probs:
        for kind, what in probs:
            ic = input_class(exe)
            cls = (exe["fam"], kind, ic if not ic.startswith("id=") else "")   # one representative per class of input
            if cls in seen:
                continue
            seen.add(cls)
            sig = f"C06:Bytes:{cls[0]}:{cls[1]}:{ic}"
            chk.violation(sig, f"{exe['mech']} {kind} differs from the reference for user {exe['user']!r}: {what}", [exe] + lines)
    chk.assumptions += [
        "user names, passwords and tokens are in normalised form (NFKC-stable, nothing SASLprep maps or prohibits): SASLprep itself is not checked",
        "the client nonce is injected through QXmppSaslDigestMd5::setNonce; its generation (randomness) is not part of C06",
        "cryptographic functions are uninterpreted constructors in the TLA+ model; their interpretation is lib/refcrypto.py (hashlib/hmac), "
        "validated against the RFC 5802 / 7677 / 2831 test vectors at start-up",
        "DIGEST-MD5 responses are compared as directive maps by a reference RFC 2831 parser (order of directives is free); values sent as "
        "tokens where RFC 2831 writes quoted-strings are reported as conformance notes, not violations",
        "HT: the server's Responder HMAC (XEP-0484) is not part of C06 (the statement speaks of SCRAM logins)",
    ]
