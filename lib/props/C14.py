"""C14 — STUN messages round-trip; MESSAGE-INTEGRITY / FINGERPRINT are the RFC 5389 values and accept
only untampered data; decoding arbitrary bytes is memory-safe.
Spec: spec/Stun.tla (+StunGen, StunTrace). Driver: qxv stun. Reference interpretation: lib/refstun.py."""
import json
import random
import threading

import refstun
import vf

LEVEL = "exploration"

FLIP_CAP = 48      # accepted flips logged per case by the driver (harness/drv_stun.cpp)


def case_id(b):
    cid = "%s/v%d/k%d/fp%d" % ("+".join(b["sub"]) or "none", b["v"], b["klen"], 1 if b["fp"] else 0)
    return cid + ("/a%dp%d" % (b["ac"], b["pc"]) if b.get("ac") else "")


def merge_cases(behs):
    """TLC emits the history of every completed call; merge the histories on one case into one execution:
    Encode once, then every maximal history after it (each starts with a Decode, which re-reads the encoded
    bytes into a fresh receive buffer; the buffer life-cycle steps ReuseBuffer / FreeBuffer / Observe follow
    the Decode they belong to)."""
    cases, helper, tails = {}, [], {}
    for b in behs:
        if b.get("helper"):
            helper += [s for s in b["steps"]]
            continue
        cid = case_id(b)
        c = cases.setdefault(cid, {"case": cid, "sub": b["sub"], "v": b["v"], "klen": b["klen"], "fp": b["fp"],
                                   "ac": b.get("ac", 0), "pc": b.get("pc", 0)})
        if "m" in b:
            c.update(m=b["m"], mset=b["mset"], scoped=b["scoped"], mi=b["mi"], fpo=b["fpo"], n=b["n"])
        tails.setdefault(cid, set()).add(tuple(json.dumps(s, sort_keys=True) for s in b["steps"][1:]))
    order = {"same": 0, "other": 1, "none": 2}
    for cid, c in cases.items():
        ts = tails[cid]
        prefixes = {t[:i] for t in ts for i in range(len(t))}
        mx = [[json.loads(s) for s in t] for t in ts if t and t not in prefixes]
        mx.sort(key=lambda t: (order.get(t[0].get("key"), 9), -len(t), json.dumps(t)))
        c["steps"] = [{"a": "Encode"}] + [s for t in mx for s in t]
    hs = sorted({json.dumps(s, sort_keys=True) for s in helper})
    hsteps = sorted((json.loads(s) for s in hs), key=lambda s: (s["a"], s.get("kl", 0), s["tl"]))
    # small messages first (the trace validator keeps a bounded sample of failures per predicate, in trace order)
    return sorted(cases.values(), key=lambda c: (len(c["sub"]), c["case"])), hsteps


def annotate(trace_in, trace_out):
    """Add the reference interpretation (lib/refstun.py) to every line that refers to bytes."""
    out = []
    klen, cur = 0, b""
    for o in vf.read_ndjson(trace_in):
        e = o.get("e")
        if e == "Reset":
            klen, cur = o.get("klen", 0), b""
        elif e == "Encode":
            cur = bytes(o["bytes"])
            o["fr"] = refstun.annotate_frame(cur, refstun.key_bytes(klen))
            o["wa"] = refstun.addr_wire(cur)
        elif e == "Decode":
            if o["key"] == "same":
                key = refstun.key_bytes(klen)
            elif o["key"] == "none":
                key = b""
            else:
                key = refstun.other_key(klen, o["kv"])
            o["fr"] = refstun.annotate_frame(cur, key)
        elif e == "FlipAll":
            key = refstun.key_bytes(klen)
            for a in o["acc"]:
                f = bytearray(cur)
                f[a["pos"] - 1] ^= 1 << a["bit"]
                fr = a["fr"] = refstun.annotate_frame(f, key)
                a["mival"] = list(f[fr["mi"] + 4:fr["mi"] + 24]) if fr["st"] == "ok" and fr["mi"] else []
                a["fpval"] = list(f[fr["fp"] + 4:fr["fp"] + 8]) if fr["st"] == "ok" and fr["fp"] else []
        elif e == "Fuzz":
            for a in o["acc"]:
                a["fr"] = refstun.annotate_frame(a["bytes"], refstun.key_bytes(a["klen"]))
            for k in ("n", "nacc", "nkeyed"):
                o[k] = int(o[k])
            o["shapes"] = [int(x) for x in o["shapes"]]
        elif e == "Hmac":
            o["ref"] = refstun.ref_hmac(o["kl"], o["tl"])
        elif e == "Crc":
            o["ref"] = refstun.ref_crc(o["tl"])
        out.append(o)
    vf.write_ndjson(trace_out, out)
    return out


def run(chk, replay=None):
    quick = chk.tier == "quick"
    # 1. design level: the symbolic codec satisfies C14 on the case table, incl. single-bit tampering
    #    (runs concurrently with the generation/replay pipeline below)
    cfg = "Stun.cfg" if quick else "StunFull.cfg"
    mcres = {}

    def mc():
        try:
            mcres["r"] = vf.tlc_mc("Stun.tla", cfg, workers=4, timeout=2400)
        except Exception as ex:          # re-raised in the main thread
            mcres["ex"] = ex
    mct = threading.Thread(target=mc)
    mct.start()
    try:
        _pipeline(chk, replay, quick)
    finally:
        mct.join()
    if "ex" in mcres:
        raise mcres["ex"]
    chk.mc(mcres["r"], cfg)


def _pipeline(chk, replay, quick):
    # 2. the case table, enumerated by TLC
    if replay:
        execs = [b for b in vf.read_ndjson(replay) if "steps" in b or b.get("fuzz")]
        gst = {}
    else:
        behs, gst = vf.tlc_gen("StunGen.tla", "StunGenTour.cfg" if quick else "StunGenFull.cfg", steps_key=None, timeout=2400)
        cases, hsteps = merge_cases(behs)
        rnd = random.Random(chk.seed)
        # every single-bit corruption of every encoded case (the Tamper transitions of Stun.tla,
        # enumerated by the driver); quick: of a seeded half of the cases plus every small/large one
        for c in cases:
            if not quick or len(c["sub"]) != 2 or rnd.random() < 0.3:
                c["steps"].append({"a": "FlipAll"})
        execs = [{"case": "helpers", "helper": True, "steps": hsteps}] + cases
        execs.append({"case": "fuzz", "fuzz": True, "n": 100000 if quick else 2000000})
    vf.write_ndjson(chk.path("behaviours.ndjson"), execs)
    chk.cov["generation"] = gst
    # 3. the real codec (ASan/UBSan build)
    raw = chk.path("trace.raw.ndjson")
    r = vf.qxv("stun", raw, in_path=chk.path("behaviours.ndjson"), seed=chk.seed, tier=chk.tier, check=False, timeout=2400)
    vf.repair_truncated(raw)
    chk.cov["driver_wall_s"] = r["wall_s"]
    by_id = {b["case"]: b for b in execs}
    if r["sanitizer"] or r["rc"] != 0:
        # the "never crashes or reads out of bounds" clause: the sanitizers are the oracle
        cases_seen = vf.split_cases(raw)
        last = list(cases_seen)[-1] if cases_seen else "?"
        sg = vf.san_signature(r)
        b = by_id.get(last)
        chk.violation(f"C14:sanitizer:{sg}:{last}",
                      "sanitizer report / abnormal exit of the STUN codec while running case " + last + ": "
                      + "; ".join(r["sanitizer"][:3]) + " " + r["stderr"][-600:],
                      [b, {"seed": chk.seed}] if b else None)
    # 4. reference interpretation, then trace validation
    trace = chk.path("trace.ndjson")
    lines = annotate(raw, trace)
    s = vf.tlc_trace("StunTrace.tla", "StunTrace.cfg", trace, timeout=2400)
    if s["annot"]:
        raise vf.MachineryError("C14: reference annotation inconsistent with Stun!Frame: " + json.dumps(s["annot"][:3]))
    st = s["stats"]
    ncase = sum(1 for b in execs if "m" in b)
    nflipcases = sum(1 for b in execs if any(x["a"] == "FlipAll" for x in b.get("steps", [])))
    nhelper = sum(len(b["steps"]) for b in execs if b.get("helper"))
    chk.cov["evaluations"] = sum(1 for o in lines if o.get("e") in ("Encode", "Decode", "Hmac", "Crc")) + st["flips"] + st["fuzz"]
    # distinct non-trivial: distinct encoded byte strings that carry at least one attribute, MI or FP
    enc = {bytes(o["bytes"]) for o in lines if o.get("e") == "Encode" and len(o["bytes"]) > 20}
    chk.cov["distinct_nontrivial"] = len(enc)
    chk.cov["cases"] = ncase
    chk.cov["cases_with_all_bit_flips"] = nflipcases
    chk.cov["bit_flips_decoded"] = st["flips"]
    chk.cov["bit_flips_accepted"] = st["flipacc"]
    chk.cov["bit_flips_accepted_evaluated"] = st["fliplogged"]
    chk.cov["bit_flips_accepted_that_reframe_away_MI"] = st["reframed"]
    chk.cov["helper_calls"] = nhelper
    chk.cov["read_backs_after_buffer_reuse_or_free"] = sum(1 for o in lines if o.get("e") == "Observe")
    chk.cov["cases_with_buffer_life_cycle"] = sum(1 for b in execs if any(x["a"] == "Observe" for x in b.get("steps", [])))
    chk.cov["fuzz_inputs"] = st["fuzz"]
    chk.cov["fuzz_accepted"] = st["fuzzacc"]
    chk.cov["fuzz_accepted_evaluated"] = st["fuzzlogged"]
    chk.cov["traces_validated_against_impl"] = s["cases"]
    chk.cov["trace_lines"] = s["lines"]
    chk.cov["diverged_executions"] = s["ndiv"]
    chk.cov["first_divergences"] = s["divs"][:3]
    chk.cov["exhaustive"] = False
    chk.cov["rule"] = (
        "cases = TLC enumeration of Stun.tla's case table (attribute subsets: none, every single attribute, every pair, all; "
        "6 value variants covering string/data lengths 0..5 mod 4, IPv4/IPv6, plain and XOR-ed; every address attribute alone and all "
        "seven together x 13 address classes (IPv4 corner values; IPv6 ::, ::1, v4-mapped, v4-compatible, NAT64, link-local with and "
        "without scope id, global, all ones) x ports {0, 1, 0x2112, 65535}; key lengths "
        "{0,1,20,63,64,65,128,300}; fingerprint on/off; quick = rotated key/fingerprint for singles and pairs, thorough = full product); "
        "each encoded by the real QXmppStunMessage, decoded under the same key / another key (first or last byte changed) / no key, "
        "the decoded message read back after its heap receive buffer was overwritten in place and again after it was freed, "
        "every single-bit flip decoded under the key; public HMAC helper for key lengths 0..300 x 5 text lengths; seeded random and "
        "damaged byte strings under ASan/UBSan (sanitizer = oracle for memory safety). Reference values by python hmac/hashlib/zlib. "
        "distinct_nontrivial = distinct encoded byte strings longer than the bare header. evaluations = encode + decode + helper "
        "calls + flipped decodes + fuzz decodes.")
    withm = [b for b in execs if "m" in b]
    for b in withm[:2] + withm[-2:]:
        chk.sample({k: b[k] for k in ("case", "m", "klen", "fp", "steps")})
    if not withm:
        chk.sample({k: v for k, v in execs[0].items() if k != "steps"} | {"steps": execs[0].get("steps", [])[:5]})
    # 5. violations
    cases_seen = vf.split_cases(trace)
    groups = {}
    for v in s["viol"]:
        b = by_id.get(v["case"], {})
        if v["prop"].startswith("Helper"):
            klen = v["pos"]
            rank = (v["pos"], v["bit"])
        else:
            klen = v["bit"] if v["e"] == "Fuzz" else b.get("klen", 0)
            rank = (len(b.get("sub", [])), v["case"], v["pos"], v["bit"])
        # one report per predicate and call; the key-dependent ones split at the HMAC block size
        kclass = ("klen>64" if klen > 64 else "klen<=64") if v["prop"] in ("MI-RFC", "Integrity", "Helper-Hmac") else "any-key"
        key = (v["prop"], v["e"], kclass)
        if key not in groups or rank < groups[key][0]:
            groups[key] = (rank, v)
    for key in sorted(groups)[:8]:
        rank, v = groups[key]
        b = by_id.get(v["case"], {})
        where = v["case"]
        if v["e"] == "Flip":
            where += f" bit {v['bit']} of byte {v['pos']} flipped"
        elif v["prop"].startswith("Helper"):
            where = f"key length {v['pos']}, text length {v['bit']}"
        sig = "C14:%s:%s:%s:%s" % (key[0], key[1], key[2], "+".join(b.get("sub", [])) or ("helper" if b.get("helper") else "none"))
        what = {
            "RoundTrip": "a built message does not decode back to the same attribute values",
            "ValueStable": "the attribute values of a decoded message changed after decode(): the message refers to the "
                           "datagram buffer it was decoded from, which was then overwritten in place / destroyed",
            "MI-RFC": "MESSAGE-INTEGRITY written by encode() is not HMAC-SHA1(key, message) of RFC 5389/2104",
            "FP-RFC": "FINGERPRINT written by encode() is not CRC-32 xor 0x5354554e",
            "Enc-Framing": "encode() output is not a well-framed message carrying the requested MESSAGE-INTEGRITY/FINGERPRINT",
            "Integrity": "decode(key) accepted bytes that carry MESSAGE-INTEGRITY although the HMAC does not verify under that key",
            "Fingerprint": "decode accepted bytes that carry FINGERPRINT although the CRC does not verify",
            "ProtectedFlip": "decode(key) accepted a copy of a MESSAGE-INTEGRITY-protected message with one bit of the protected "
                             "bytes flipped, and the corrupted bytes are not a well-framed message without MESSAGE-INTEGRITY",
            "CoveredFlip": "decode accepted a copy of a FINGERPRINT-covered message with one bit flipped, and the corrupted bytes "
                           "are not a well-framed message without FINGERPRINT",
            "Helper-Hmac": "QXmppUtils::generateHmacSha1 differs from HMAC-SHA1 (RFC 2104)",
            "Helper-Crc": "QXmppUtils::generateCrc32 differs from CRC-32",
        }.get(v["prop"], v["prop"])
        why = next((o["hwhy"] for o in cases_seen.get(v["case"], []) if o.get("hwhy")), "") if v["prop"] == "RoundTrip" else ""
        chk.violation(sig, f"{what} [{v['e']}; {where}]" + (f" ({why})" if why else ""), [b] + cases_seen.get(v["case"], [])[:8])
    chk.assumptions += [
        "HMAC-SHA1 and CRC-32 are uninterpreted (collision-free) in Stun.tla; python hmac/hashlib/zlib is the reference interpretation",
        "which attributes a decoded object holds is observed through the attribute types it writes when encoded again "
        "(QXmppStunMessage has no public accessor for attribute presence)",
        "memory safety of decode on arbitrary bytes is judged by ASan/UBSan on seeded random and damaged inputs (exploration, not proof)",
        "messages the library can build: at most one of ICE-CONTROLLING/ICE-CONTROLLED, 8-byte tie-breakers and reservation tokens, "
        "error codes 300..699, non-zero ports",
    ]
