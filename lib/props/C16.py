"""C16 — the bundled server routes only for authenticated clients and stamps their true address.
Spec: spec/Server.tla (+ServerGen, ServerTrace). Driver: qxv server (real QXmppServer on loopback,
scripted raw TCP clients, password checker whose asynchronous replies the harness finishes)."""
import collections
import json
import os
from concurrent.futures import ThreadPoolExecutor

import vf

LEVEL = "model_checking"
PAR = 4            # parallel replay / validation slices (the machine is shared)
REPORT = 6         # distinct violating histories reported per run


def _step(s):
    a = s["a"]
    if a == "Open":
        return f"Open({s['dom']})"
    if a == "Auth":
        return f"Auth({s['ver']},{s['mech']},{s['cred']}{',bind2' if s.get('b2') else ''})"
    if a == "Response":
        return f"Response({s['ver']},{s['cred']})"
    if a == "Reply":
        return f"Reply({s['i']})"
    if a == "Abort":
        return f"Abort({s['ver']})"
    if a == "Bind":
        return f"Bind({s['r']})"
    if a == "Stanza":
        return f"Stanza({s['k']},{s['f']},{s['t']})"
    return a


def _history(b, upto=None):
    steps = b["steps"] if upto is None else b["steps"][:upto]
    return ",".join(_step(s) for s in steps)


def _jid(j):
    if "rr" in j:   # the string as received (lossless decomposition, see harness/rawclient.h)
        return j["u"] + ("@" if j["at"] else "") + j["d"] + ("/" if j["sl"] else "") + j["rr"]
    return f"{j['u']}@{j['d']}/{j['r']}"


# bulk replays: crash reports are not symbolized (0.4 s per crash otherwise); the confirmation run is
_ASAN_FAST = "detect_leaks=0:abort_on_error=0:halt_on_error=1:allocator_may_return_null=1:symbolize=0"


# A transition tour shows the immediate reaction to every (state, action) pair; whether the step left
# the connection in the right state shows only later.  Every tour behaviour is therefore extended by
# state-identification suffixes that make the server reveal the identity it holds for the
# connection: (1) bind a resource, send a message to the victim; (2) for behaviours that end in a step
# of a SASL exchange, first an (empty) <response/> that completes an exchange the server may
# wrongly consider verified, then (1).  Still behaviours of the model: every client action is enabled
# in every open state; the harness stops when the server closes the connection.
EMBED = ("embedEmpty", "embedBareEmpty", "embedSlashEmpty", "embedKnown")
PROBE = [{"a": "Bind", "r": "ra"}, {"a": "Stanza", "k": "message", "f": "absent", "t": "victimFull"}]


def _probed(behs, always_both=False, late_reply=True):
    out = []
    for b in behs:
        steps = b["steps"]
        out.append(dict(b, steps=steps + PROBE))
        if steps and (always_both or steps[-1]["a"] in ("Reply", "Response", "Auth")):
            ver = next((s["ver"] for s in reversed(steps) if s["a"] == "Auth"), "sasl")
            out.append(dict(b, steps=steps + [{"a": "Response", "ver": ver, "cred": "empty"}] + PROBE))
            # (3) credentials the model refuses without asking the checker (a user name that is not a
            # localpart): an implementation that did ask is now waiting for the verdict -- deliver it,
            # complete the exchange, then identify
            # (4) a lookup is (probably) still outstanding -- more credential-carrying steps than
            # replies: deliver a verdict now, whatever has happened to the exchange or the stream in the
            # meantime (superseded, refused, closed: the reply object may be gone), then identify
            asks = sum(1 for s in steps if s["a"] in ("Auth", "Response") and s.get("cred") not in (None, "empty", "malformed"))
            if (late_reply and asks > sum(1 for s in steps if s["a"] == "Reply") and steps[-1]["a"] != "Reply"
                    and steps[-1].get("cred") not in EMBED):
                out.append(dict(b, steps=steps + [{"a": "Reply", "i": 1}, {"a": "Response", "ver": ver, "cred": "empty"}] + PROBE))
            if steps[-1].get("cred") in EMBED:
                out.append(dict(b, steps=steps + [{"a": "Reply", "i": 1}] + PROBE))
                out.append(dict(b, steps=steps + [{"a": "Reply", "i": 1}, {"a": "Response", "ver": ver, "cred": "empty"}] + PROBE))
    return out


def _replay_and_validate(chk, behs, tag, symbolize=False, keep_all=False):
    """Replay behaviours on the real server in PAR slices and validate each trace with TLC.
    Returns dict(cases, lines, ndiv, divs, ncrash, crashes, viol, traces, ...):
      viol    = list of (case id, step number inside the execution, predicate[whose address])
      crashes = list of (case id, steps completed before the crash)
      traces  = case id -> trace lines (Reset line first)"""
    n = len(behs)
    size = max(1, (n + PAR - 1) // PAR)
    slices = [(i, behs[i:i + size]) for i in range(0, n, size)]

    def one(arg):
        k, (base, part) = arg
        inp = chk.path(f"{tag}-behaviours-{k}.ndjson")
        trace = chk.path(f"{tag}-trace-{k}.ndjson")
        vf.write_ndjson(inp, part)
        r = None
        for _attempt in (1, 2):
            r = vf.qxv("server", trace, in_path=inp, seed=chk.seed, tier=chk.tier, opts={"base": base, "raw": 1 if symbolize else 0}, check=False,
                       env=None if symbolize else {"ASAN_OPTIONS": _ASAN_FAST, "UBSAN_OPTIONS": "print_stacktrace=0:halt_on_error=0"})
            if r["rc"] != 4:
                break   # rc 4: an execution hit the hang detector; once more before giving up
        if r["rc"] != 0:
            raise vf.MachineryError(f"qxv server exited {r['rc']} (4 = hang detector):\n{r['stderr'][-2000:]}")
        vf.repair_truncated(trace)
        violf = chk.path(f"{tag}-viol-{k}.ndjson")
        if os.path.exists(violf):
            os.remove(violf)
        s = vf.tlc_trace("ServerTrace.tla", "ServerTrace.cfg", trace, tag=f"ServerTrace-{tag}-{k}", heap="3g", env={"QXV_VIOL": violf})
        # failing steps are written by the monitor as it goes (one JSON line each)
        seen = set()
        s["viol"] = []
        for v in vf._decode_gen(violf):
            for f in v["failed"]:
                key = (v["case"], v["line"], f["prop"], f["who"])
                if key not in seen:
                    seen.add(key)
                    s["viol"].append({"case": v["case"], "line": v["line"], "e": v["e"], "prop": f["prop"], "who": f["who"]})
        if len(s["viol"]) != s["nviol"]:
            raise vf.MachineryError(f"monitor counted {s['nviol']} failed predicates but wrote {len(s['viol'])}")
        return r, s, trace

    with ThreadPoolExecutor(max_workers=PAR) as ex:
        results = list(ex.map(one, enumerate(slices)))
    res = {"cases": 0, "lines": 0, "ndiv": 0, "divs": [], "ncrash": 0, "crashes": [], "viol": [], "traces": {},
           "replay_wall_s": 0.0, "validate_wall_s": 0.0, "sanitizer": []}
    for r, s, trace in results:
        for k in ("cases", "lines", "ndiv", "ncrash"):
            res[k] += s[k]
        res["divs"] += s["divs"]
        res["replay_wall_s"] = max(res["replay_wall_s"], r["wall_s"])
        res["validate_wall_s"] = max(res["validate_wall_s"], s["wall_s"])
        res["sanitizer"] += r["sanitizer"]
        res["sanitizer_raw"] = res.get("sanitizer_raw", "") + r["stderr"][-20000:]
        reset_line = {}
        # (lines are parsed only where needed: a thorough trace has more than a million of them)
        cur = None
        steps_of = {}
        wanted = {v["case"] for v in s["viol"]} if not keep_all else None
        with open(trace) as f:
            for ln, line in enumerate(f, start=1):
                if '"e":"Reset"' in line:
                    o = json.loads(line)
                    cur = str(o["case"])
                    reset_line[cur] = ln
                    steps_of[cur] = 0
                    if wanted is None or cur in wanted:
                        res["traces"][cur] = [o]
                elif '"e":"Crash"' in line:
                    c = str(json.loads(line)["case"])
                    res["crashes"].append((c, steps_of.get(c, 0)))
                elif cur is not None:
                    steps_of[cur] += 1
                    if cur in res["traces"]:
                        res["traces"][cur].append(json.loads(line))
        for v in s["viol"]:
            prop = v["prop"] + (f"[{v['who'] or 'nobody'}]" if v["prop"] in ("IdentityApproved", "RoutedStamped") else "")
            res["viol"].append((v["case"], v["line"] - reset_line[v["case"]], prop))
    return res


def _first_violations(viol):
    """case id -> (number of the first failing step, sorted predicate names failing there)"""
    per_case = collections.defaultdict(dict)
    for c, stepno, prop in viol:
        per_case[c].setdefault(stepno, set()).add(prop)
    return {c: (min(d), sorted(d[min(d)])) for c, d in per_case.items()}


def run(chk, replay=None):
    quick = chk.tier == "quick"
    # 1. design level: exhaustive model check of the intended server (full alphabet, two outstanding checker replies)
    chk.mc(vf.tlc_mc("Server.tla", "Server.cfg", workers=4), "Server.cfg")
    # 2. behaviours
    if replay:
        behs = [b for b in vf.read_ndjson(replay) if "steps" in b]
    else:
        gen = {}
        tour1, gen["tour_one_reply_both_sasl_versions"] = vf.tlc_gen("ServerGen.tla", "ServerGenTour.cfg")
        tour2, gen["tour_two_replies_sasl"] = vf.tlc_gen("ServerGen.tla", "ServerGenTour2.cfg")
        tourf, gen["tour_every_from_class_x_identity_state"] = vf.tlc_gen("ServerGen.tla", "ServerGenTourF.cfg")
        tourc, gen["tour_every_credential_class_x_exchange_state"] = vf.tlc_gen("ServerGen.tla", "ServerGenTourC.cfg")
        # several attempts on one stream, SASL elements in any order (generator models tolerate MaxRetry = 2
        # refusals; the harness ends an execution where the real server closes the stream)
        tourr, gen["tour_retries"] = vf.tlc_gen("ServerGen.tla", "ServerGenTourRetry.cfg" if quick else "ServerGenTourRetryW.cfg")
        allr, gen["all_sasl_sequences_retries"] = vf.tlc_gen("ServerGen.tla", "ServerGenAllRetry.cfg" if quick else "ServerGenAllRetry7.cfg")
        # the password checker as an asynchronous party: several lookups outstanding on one exchange,
        # answered in any order, with further client elements in between (all sequences, as-built no-retry model)
        alla, gen["all_sasl_sequences_async_lookups"] = vf.tlc_gen("ServerGen.tla", "ServerGenAllAsync.cfg" if quick else "ServerGenAllAsync3.cfg")
        # (the late-verdict suffix everywhere in the thorough tier; in the quick tier on the tours with outstanding lookups)
        behs = (_probed(tour1 + tourf + tourc, late_reply=not quick) + _probed(tour2 + tourr)
                + [dict(b, steps=b["steps"] + PROBE) for b in allr + alla])
        if quick:
            sim, gen["random_walks_full_alphabet"] = vf.tlc_simulate("ServerGen.tla", "ServerGenSim.cfg", num=1500, depth=12, seed=chk.seed)
            behs += sim
        else:
            t3, gen["tour_wide_no_reauth"] = vf.tlc_gen("ServerGen.tla", "ServerGenTourW.cfg")
            t4, gen["tour_reauth"] = vf.tlc_gen("ServerGen.tla", "ServerGenTourR.cfg")
            allp, gen["all_paths_depth5"] = vf.tlc_gen("ServerGen.tla", "ServerGenAll5.cfg")
            sim, gen["random_walks_full_alphabet"] = vf.tlc_simulate("ServerGen.tla", "ServerGenSim.cfg", num=40000, depth=14, seed=chk.seed)
            ar2, gen["all_sasl_sequences_retries_sasl2"] = vf.tlc_gen("ServerGen.tla", "ServerGenAllRetryS2.cfg")
            arp, gen["all_sasl_sequences_retries_plain_digest"] = vf.tlc_gen("ServerGen.tla", "ServerGenAllRetryP.cfg")
            chk.mc(vf.tlc_mc("Server.tla", "ServerRetry.cfg", workers=4), "ServerRetry.cfg")
            aa2, gen["all_sasl_sequences_async_lookups_sasl2"] = vf.tlc_gen("ServerGen.tla", "ServerGenAllAsyncS2.cfg")
            behs += _probed(t3 + t4, late_reply=False) + allp + sim + [dict(b, steps=b["steps"] + PROBE) for b in ar2 + arp + aa2]
        behs = vf.maximal_behaviours(behs)
        chk.cov["generation"] = gen
    vf.write_ndjson(chk.path("behaviours.ndjson"), behs)
    # 3. replay on the real server + 4. trace validation
    res = _replay_and_validate(chk, behs, "run")
    beh_of = lambda c: behs[int(c[1:]) - 1]   # noqa: E731
    chk.cov["traces_validated_against_impl"] = res["cases"]
    chk.cov["trace_lines"] = res["lines"]
    chk.cov["diverged_executions"] = res["ndiv"]
    chk.cov["first_divergences"] = [{"case": d["case"], "line": d["line"], "e": d["e"], "history": _history(beh_of(d["case"]))}
                                    for d in res["divs"][:3]]
    chk.cov["crashed_executions"] = res["ncrash"]
    chk.cov["replay_wall_s"] = res["replay_wall_s"]
    chk.cov["trace_validation_wall_s"] = res["validate_wall_s"]
    chk.cov["exhaustive"] = True
    chk.cov["rule"] = ("Server.cfg model-checked exhaustively (all client actions in any order, full alphabet, <= 2 outstanding checker "
                       "replies). Behaviours = transition tours of the generator configurations (every transition of each bounded "
                       "model reached by a shortest path) + seeded random walks over the full alphabet (+ all paths to depth 5 and "
                       "wider tours in the thorough tier); each is replayed on a fresh real QXmppServer over loopback TCP with a "
                       "logged-in victim and validated by ServerTrace.tla, which evaluates the C16 predicates on what both clients "
                       "received, the clientConnected signals and the checker verdicts.")
    for b in behs[:2] + behs[len(behs) // 2:len(behs) // 2 + 2] + behs[-2:]:
        chk.sample({"history": _history(b), "steps": b["steps"]})
    if res["ncrash"]:
        crashed = sorted({(done + 1, _history(beh_of(c), done + 1), c) for c, done in res["crashes"]})
        chk.cov["crash_samples"] = sorted({h for _, h, _ in crashed}, key=lambda h: (h.count(","), h))[:5]
        # the shortest crashing history once more, with a symbolized report for the note
        n0, h0, c0 = crashed[0]
        r0 = _replay_and_validate(chk, [{"steps": beh_of(c0)["steps"][:n0]}], "crash", symbolize=True)
        where = [ln for ln in r0["sanitizer_raw"].splitlines() if ln.startswith("SUMMARY:") or "runtime error" in ln][:2]
        chk.note(f"{res['ncrash']} executions ended by a crash of the implementation (outside C16's statement: recorded, not "
                 f"counted as violations); shortest: {h0}; report: {where}")
    # 5. violations: the first failing step of each execution; distinct histories, shortest first
    first = _first_violations(res["viol"])
    chk.cov["violating_executions"] = len(first)
    chk.cov["violations_by_predicate"] = dict(sorted(collections.Counter(p for _, ps in first.values() for p in ps).items()))
    found = {}
    for c, (stepno, props) in first.items():
        b = beh_of(c)
        sig = "C16:" + "+".join(props) + ":" + _history(b, stepno)
        found.setdefault(sig, (b, props, stepno))
    ordered = sorted(found.items(), key=lambda kv: (kv[1][2], kv[0]))
    chk.cov["distinct_violating_histories"] = len(ordered)
    # confirmed re-run: a violation is reported only if it repeats on a fresh run of the same history
    # reported: the shortest history of every kind of failure (set of predicates) first, then the next shortest
    kinds, rest = {}, []
    for sig, v in ordered:
        if tuple(v[1]) in kinds:
            rest.append((sig, v))
        else:
            kinds[tuple(v[1])] = (sig, v)
    top = (list(kinds.values()) + rest)[:REPORT]
    if top:
        again = [{"steps": b["steps"][:stepno]} for _, (b, _props, stepno) in top]
        res2 = _replay_and_validate(chk, again, "confirm", symbolize=True, keep_all=True)
        first2 = _first_violations(res2["viol"])
        for i, (sig, (b, props, stepno)) in enumerate(top):
            c2 = f"s{i + 1}"
            if first2.get(c2) != (stepno, props):
                chk.note(f"violation {sig} did not repeat on a fresh run (got {first2.get(c2)}): not reported")
                continue
            last = res2["traces"][c2][-1]
            what = (f"{' and '.join(props)} violated at step {stepno} of history {_history(b, stepno)}: "
                    f"attacker received {[r['k'] + (':' + r['t'] if r['t'] else '') for r in last.get('att', [])]}, "
                    f"victim received {[r['k'] + ' from=' + _jid(r['f']) for r in last.get('vic', [])]}, "
                    f"signals {[s['s'] + ':' + _jid(s['j']) for s in last.get('sig', [])]}")
            chk.violation(sig, what, [{"steps": b["steps"][:stepno]}] + res2["traces"][c2])
    chk.assumptions += [
        "the attacker knows the password of its own account only; the victim is logged in and idle",
        "one attacking connection; elements are sent one per TCP write and the harness waits for quiescence between them "
        "(pipelining inside one read buffer is not explored; asynchrony of the password checker is explored explicitly)",
        "no server extensions are loaded (the bundled server ships none)",
        "crashes of the server on nonsensical sequences are recorded (crashed_executions) but are not C16 violations",
    ]
