"""C11 — carbon copies are unwrapped only when the outer stanza comes from the own bare JID.
Spec: spec/Carbons.tla (+CarbonsGen, CarbonsTrace). Driver: qxv carbons."""
import vf
from props import replaycache

LEVEL = "model_checking"


def _sig(v, beh):
    # jid config at the time of the failing stanza; a failure after the application switched the account of the live
    # client object is a different input class
    own = v.get("own", beh["jidcfg"])
    how = v.get("how", "none")
    return (f"C11:{v['prop']}:{beh['gen']}:{own}:{v['c']}/{v['w']}/{v['i']}"
            + (f":reconfigured-by-{how}" if how != "none" else "")
            + (f":{v['estab']}" if v.get("estab", "configured") != "configured" else ""))


def run(chk, replay=None):
    quick = chk.tier == "quick"
    # 1. design level: exhaustive model check (all sender classes x wrappers x inner kinds x generations x JID configs)
    chk.mc(vf.tlc_mc("Carbons.tla", "Carbons.cfg", workers=4), "Carbons.cfg")
    # 2. behaviours
    if replay:
        behs = [b for b in replaycache.read(replay) if "steps" in b]
    else:
        tour, st1 = vf.tlc_gen("CarbonsGen.tla", "CarbonsGenTour.cfg")
        allp, st2 = vf.tlc_gen("CarbonsGen.tla", "CarbonsGenAll.cfg" if quick else "CarbonsGenAll4.cfg")
        sim, st3 = vf.tlc_simulate("CarbonsGen.tla", "CarbonsGenTour.cfg", num=150 if quick else 3000, depth=8,
                                   seed=chk.seed, workers=2)
        # the application switches the account of the live client object between stanzas:
        # (a) Recv(OwnBare, sent) ; Reconfigure(j, how) ; every Recv of a representative vocabulary (tour),
        # (b) all sequences of Recv / Reconfigure to depth 3 (thorough 4) over a reduced vocabulary, (c) random walks
        rtour, st4 = vf.tlc_gen("CarbonsGen.tla", "CarbonsGenReconf.cfg")
        rall, st5 = vf.tlc_gen("CarbonsGen.tla", "CarbonsGenReconfAll.cfg" if quick else "CarbonsGenReconfAll4.cfg")
        rsim, st6 = vf.tlc_simulate("CarbonsGen.tla", "CarbonsGenSimReconf.cfg", num=150 if quick else 3000, depth=8,
                                    seed=chk.seed, workers=2)
        # inner messages that carry XEP-0280/0334/0203/0297 markers of their own (<private/>, hints, delay, a nested
        # <forwarded/>), headline / groupchat inner types: tour over representative sender classes and wrappers
        itour, st7 = vf.tlc_gen("CarbonsGen.tla", "CarbonsGenInner.cfg")
        # the own address is not configured but assigned by the server in the RFC 6120 bind result (driven through the
        # real receive path), with resources that contain '/', '@', non-ASCII text or are very long
        btour, st8 = vf.tlc_gen("CarbonsGen.tla", "CarbonsGenBound.cfg")
        behs = vf.maximal_behaviours(tour + allp + sim + rtour + rall + rsim + itour + btour)
        chk.cov["generation"] = {"tour": st1, "all_paths": st2, "simulate": st3, "reconfigure_tour": st4,
                                 "reconfigure_all_paths": st5, "reconfigure_simulate": st6, "inner_marker_tour": st7, "bound_address_tour": st8}
    vf.write_ndjson(chk.path("behaviours.ndjson"), behs)
    # 3. replay on the real client + carbon manager
    trace = chk.path("trace.ndjson")
    r = vf.qxv("carbons", trace, in_path=chk.path("behaviours.ndjson"), seed=chk.seed, tier=chk.tier)
    if r["sanitizer"]:
        chk.note("sanitizer output while replaying (C11 has no crash clause; reported only): " + "; ".join(r["sanitizer"][:3]))
    vf.repair_truncated(trace)
    cases = vf.split_cases(trace)
    # 4. trace validation
    s = vf.tlc_trace("CarbonsTrace.tla", "CarbonsTrace.cfg", trace)
    chk.cov["traces_validated_against_impl"] = s["cases"]
    chk.cov["trace_lines"] = s["lines"]
    chk.cov["stanzas_injected"] = s["lines"] - s["cases"] - s["reconfigured"]
    chk.cov["stanzas_unwrapped"] = s["unwrapped"]
    chk.cov["stanzas_shown_as_outer"] = s["outer"]
    chk.cov["account_switches_on_live_client"] = s["reconfigured"]
    chk.cov["carbons_from_previous_own_bare_jid"] = s["prevowncarbons"]
    if not replay and s["prevowncarbons"] == 0:
        raise vf.MachineryError("no carbon from the previously configured bare JID was injected: the Reconfigure dimension is vacuous")
    chk.cov["property_failures"] = s["nviol"]
    chk.cov["diverged_executions"] = s["ndiv"]
    chk.cov["first_divergences"] = s["divs"][:3]
    chk.cov["exhaustive"] = True
    chk.cov["rule"] = ("behaviours = every Recv(sender class, wrapper, inner kind) of Carbons.cfg for both manager generations "
                       "and three configured JIDs (transition tour) + all sequences up to the all-paths depth over a reduced "
                       "vocabulary + seeded random walks; every step is concretised into several sender spellings (fixed and "
                       "seeded random) and injected into a real QXmppClient; each recorded execution is validated by CarbonsTrace.tla")
    if not replay and s["unwrapped"] == 0:
        chk.note("no stanza was unwrapped at all: the carbon managers never accepted a wrapper (property holds vacuously)")
    for b in behs[:2] + behs[-2:]:
        chk.sample(b)
    lines = vf.read_ndjson(trace)
    seen = set()
    for v in sorted(s["viol"], key=lambda v: v["line"]):
        idx = int(v["case"][1:]) - 1
        b = behs[idx]
        sig = _sig(v, b)
        key = (v["prop"], b["gen"], v["c"], v.get("how", "none"), v.get("estab", "configured"))   # one report per property, generation, sender class, switch
        if key in seen:
            continue
        seen.add(key)
        ln = lines[v["line"] - 1]
        est = (f" (own address bound by the server: {cases[v['case']][0].get('bound')!r})"
               if v.get("estab", "configured") != "configured" else "")
        sw = est + (f" after the application switched the account of the live client object ({v['how']})"
              if v.get("how", "none") != "none" else "")
        chk.violation(sig, f"{v['prop']} fails{sw}: gen={b['gen']} own={ln['x']['own']!r} outer from={ln['x']['ofrom']!r} "
                           f"(class {v['c']}), wrapper {v['w']}, inner {v['i']}: application was shown {ln['shown']}",
                      [b] + cases[v["case"]])
        if len(chk.violations) >= 8:
            break
    chk.assumptions += ["sender classes are concretised into finitely many spellings (fixed list + seeded random) per class",
                        "a sender that differs from the configured bare JID only in letter case denotes the same address: "
                        "unwrapping it is permitted (the code does not)",
                        "the application changes the account of a live client object only between stanzas, in one of four ways: "
                        "configuration().setJid(), setUser()+setDomain(), assigning a fresh QXmppConfiguration, copy + setJid() + "
                        "assign back; the configured identity (ground truth) is user()@domain()",
                        "outer, wrapped and second-level messages carry pairwise distinct ids and bodies, so a message shown "
                        "to the application can be attributed"]
