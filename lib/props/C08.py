"""C08 — every incoming IQ request is answered exactly once; responses are never answered.
Spec: spec/IqDispatch.tla (+IqDispatchGen, IqDispatchTrace). Driver: qxv iqin."""
import vf
from props import replaycache

LEVEL = "model_checking"


def _sig(v, beh):
    # which extension set / type / payload: the sender class is left out on purpose (a manager that
    # mishandles a payload does so for every sender it accepts; one finding per handler gap)
    # an IQ whose id collides with an outstanding tracked request of the client is a different input class
    return f"C08:{v['prop']}:{beh['ext']}:{v['t']}/{v['p']}" + (":idOfPendingRequest" if v.get("coll") else "")


def run(chk, replay=None):
    quick = chk.tier == "quick"
    # 1. design level: the dispatch table is well formed (ASSUMEs) and every Recv satisfies the three predicates
    chk.mc(vf.tlc_mc("IqDispatch.tla", "IqDispatch.cfg", workers=4), "IqDispatch.cfg")
    # ... and the deferred-reply machinery (file offer / SOCKS5 stream hosts) interleaved with ordinary IQs
    chk.mc(vf.tlc_mc("IqDispatch.tla", "IqDispatchDefer.cfg", workers=4), "IqDispatchDefer.cfg")
    # 2. behaviours
    if replay:
        behs = [b for b in replaycache.read(replay) if "steps" in b]
    else:
        tour, st1 = vf.tlc_gen("IqDispatchGen.tla", "IqDispatchGenTour.cfg" if quick else "IqDispatchGenTourIds.cfg")
        # the client has a tracked request of its own outstanding (id collisions): tour over a representative payload subset
        pend, st1p = vf.tlc_gen("IqDispatchGen.tla", "IqDispatchGenPend.cfg")
        allp, st2 = vf.tlc_gen("IqDispatchGen.tla", "IqDispatchGenAll.cfg")
        if not quick:
            allp5, st25 = vf.tlc_gen("IqDispatchGen.tla", "IqDispatchGenAll5.cfg")
            allp += allp5
            st2 = {"depth3": st2, "depth4": st25}
        sim, st3 = vf.tlc_simulate("IqDispatchGen.tla", "IqDispatchGenSim.cfg", num=300 if quick else 20000, depth=12,
                                   seed=chk.seed, workers=2)
        # random sequences in which a tracked request is always outstanding (re-issued after it completes)
        simp, st3p = vf.tlc_simulate("IqDispatchGen.tla", "IqDispatchGenSimPend.cfg", num=200 if quick else 10000, depth=12,
                                     seed=chk.seed, workers=2)
        # deferred replies: every transition of the file-offer / stream-host machinery (tour), all its paths,
        # and random sequences in which ordinary IQs arrive while replies are deferred
        dtour, st4 = vf.tlc_gen("IqDispatchGen.tla", "IqDispatchGenDefer.cfg")
        dall, st5 = vf.tlc_gen("IqDispatchGen.tla", "IqDispatchGenDeferAll.cfg")
        dsim, st6 = vf.tlc_simulate("IqDispatchGen.tla", "IqDispatchGenDeferSim.cfg", num=150 if quick else 4000, depth=14,
                                    seed=chk.seed, workers=2)
        behs = vf.maximal_behaviours(tour + pend + allp + sim + simp + dtour + dall + dsim)
        chk.cov["generation"] = {"tour": st1, "tour_pending_request": st1p, "all_paths": st2, "simulate": st3,
                                 "simulate_pending_request": st3p, "deferred_tour": st4, "deferred_all_paths": st5,
                                 "deferred_simulate": st6}
    vf.write_ndjson(chk.path("behaviours.ndjson"), behs)
    # 3. replay on the real client
    trace = chk.path("trace.ndjson")
    r = vf.qxv("iqin", trace, in_path=chk.path("behaviours.ndjson"), seed=chk.seed, tier=chk.tier)
    if r["sanitizer"]:
        chk.note("sanitizer output while replaying (C08 has no crash clause; reported only): " + "; ".join(r["sanitizer"][:3]))
    vf.repair_truncated(trace)
    cases = vf.split_cases(trace, with_lines=True)
    # 4. trace validation
    s = vf.tlc_trace("IqDispatchTrace.tla", "IqDispatchTrace.cfg", trace)
    chk.cov["traces_validated_against_impl"] = s["cases"]
    chk.cov["trace_lines"] = s["lines"]
    chk.cov["iqs_injected"] = s["lines"] - s["cases"] - s["tracked"]
    chk.cov["iq_requests"] = s["requests"]
    chk.cov["iq_responses"] = s["responses"]
    chk.cov["iq_other_type"] = s["othertype"]
    chk.cov["streams_closed_by_client"] = s["closed"]
    chk.cov["tracked_requests_issued"] = s["tracked"]
    chk.cov["iqs_with_id_of_pending_request"] = s["idcollisions"]
    chk.cov["pending_tasks_completed"] = s["taskdone"]
    if s["taskdonebyrequest"]:
        chk.note(f"{s['taskdonebyrequest']} injected IQs that are not responses completed the client's outstanding request "
                 "(conformance warning; the clause belongs to C07)")
    if not replay and s["idcollisions"] == 0:
        raise vf.MachineryError("no IQ was injected with the id of an outstanding request: the pending-request dimension is vacuous")
    chk.cov["iq_property_failures"] = s["nviol"]
    chk.cov["diverged_executions"] = s["ndiv"]
    chk.cov["first_divergences"] = s["divs"][:3]
    chk.cov["exhaustive"] = True
    chk.cov["rule"] = ("behaviours = every Recv(type, payload kind, sender class[, id kind]) of IqDispatch for the extension sets "
                       "none / default / every bundled manager (both registration orders) as one-step executions on a fresh "
                       "client (transition tour) + all sequences up to depth 3 (thorough: also depth 4) over reduced vocabularies + seeded random "
                       "sequences; each IQ is built from the library's own IQ classes or literal XML, injected into a real "
                       "QXmppClient, and the IQ result/error stanzas with the same id addressed to the sender are counted "
                       "after the event loop is drained; each recorded execution is validated by IqDispatchTrace.tla")
    for b in behs[:2] + behs[-2:]:
        chk.sample(b)
    lines = vf.read_ndjson(trace)
    seen = {}
    for v in sorted(s["viol"], key=lambda v: v["line"]):
        idx = int(v["case"][1:]) - 1
        b = behs[idx]
        sig = _sig(v, b)
        if sig in seen:
            seen[sig]["senders"].add(v["f"])
            continue
        ln = lines[v["line"] - 1]
        seen[sig] = {"v": v, "b": b, "ln": ln, "senders": {v["f"]}}
    # report per (property, type, payload): smallest extension set first
    order = {"none": 0, "default": 1, "all": 2, "allrev": 3}
    reported = set()
    for sig, e in sorted(seen.items(), key=lambda kv: (order.get(kv[1]["b"]["ext"], 9), kv[0])):
        v, b, ln = e["v"], e["b"], e["ln"]
        key = (v["prop"], v["t"], v["p"], bool(v.get("coll")))
        if key in reported:
            continue      # the same gap shows with a larger extension set too
        reported.add(key)
        what = {"RequestAnswered": f"an IQ request got {v['n']} replies instead of exactly one",
                "ResponseNotAnswered": f"an IQ response was answered ({v['n']} replies)",
                "NoReplyLoop": f"an IQ without a valid type got {v['n']} replies"}[v["prop"]]
        coll = (f" while the client's own tracked request with the same id to the {v['peer']} JID was outstanding"
                if v.get("coll") else "")
        chk.violation(sig, f"{what}{coll}: extensions={b['ext']} type={ln['x']['type']!r} payload={v['p']} "
                           f"senders={sorted(e['senders'])}; injected {ln['raw']}; sent back {ln['out']}; "
                           f"own task completed {ln.get('tdone', 0)}x",
                      [b] + [{k: x[k] for k in x if k != "_l"} for x in cases[v["case"]]])
    # deferred replies: one report per (property, request, sequence of deferred-reply steps up to the failing line)
    dseen = set()
    DEFER = {"OfferSI", "AppAccept", "AppDecline", "HostsOffer", "SecondHosts", "AbortJob", "HostAccepts", "HostCloses"}
    for v in sorted(s.get("dviol", []), key=lambda v: v["line"]):
        b = behs[int(v["case"][1:]) - 1]
        upto = [x for x in cases[v["case"]] if x.get("_l", 0) <= v["line"]]
        seq = ",".join(x["e"] + (f"({x['nh']})" if "nh" in x else "") for x in upto if x.get("e") in DEFER)
        sig = f"C08:{v['prop']}:{v['tag']}:{seq}"
        key = (v["prop"], v["tag"], seq.rsplit(",AbortJob", 1)[0] if seq.endswith(",AbortJob") else seq)
        if key in dseen:
            continue
        dseen.add(key)
        ln = next(x for x in upto if x.get("_l") == v["line"])
        req = {"offer": "the SI file offer (IQ set)", "hosts": "the bytestreams IQ set with the stream hosts",
               "second": "the second bytestreams IQ set for the same stream"}[v["tag"]]
        rid = next((t["id"] for t in ln.get("track", []) if t["tag"] == v["tag"]), "?")
        what = (f"{req}, id {rid!r}, got {v['n']} replies instead of exactly one although the "
                f"{'decision' if v['tag'] == 'offer' else 'connection attempt'} it waits for has ended"
                if v["prop"] == "DeferredAnswered" else f"{req}, id {rid!r}, got {v['n']} replies")
        chk.violation(sig, f"{what}; steps: {seq}; replies so far {ln.get('track')}",
                      [b] + [{k: x[k] for k in x if k != "_l"} for x in cases[v["case"]]])
        if len(dseen) >= 12:
            break
    chk.cov["deferred_reply_steps"] = s.get("defersteps", 0)
    chk.cov["deferred_replies_judged_due"] = s.get("deferreddue", 0)
    if not replay and s.get("deferreddue", 0) == 0:
        raise vf.MachineryError("no deferred reply became due: the deferred-reply dimension is vacuous")
    chk.cov["distinct_violating_inputs"] = len(reported) + len(dseen)
    chk.assumptions += ["a reply without `to` reaches a sender that is the user's server or own bare JID (handled by the server "
                        "on behalf of the account); for every other sender `to` must equal the sender",
                        "at most one tracked request of the client's own is outstanding at a time (QXmppClient::sendIq, disco#info "
                        "get); id collisions are explored for a representative payload subset (none, unknown, version, vcard, "
                        "discoInfo, roster, ibbData, errorOnly) x all types x all sender classes x 4 peers x extension sets none/all, and by random sequences "
                        "over the full vocabulary",
                        "apart from the two deferring handlers of QXmppTransferManager (SI file offer, SOCKS5 stream-host offer; "
                        "driven explicitly with an application that listens to fileReceived and loopback stream hosts of the "
                        "harness) all bundled managers answer synchronously or from posted events; the event loop is drained "
                        "after every injection",
                        "a deferred reply is judged once the event it waits for has been driven to its end while the stream stays "
                        "up: application accepts/declines; a stream host completes the SOCKS5 handshake or the last one drops the "
                        "connection (the 7 s candidate timer is never waited for); removal of the manager / deletion of the job "
                        "object by the application while a reply is pending is not driven",
                        "managers that need external state to accept a request (file-transfer jobs, joined MUC rooms, RPC "
                        "interfaces, a subscribed block list) are exercised without that state, i.e. on their refusal paths",
                        "QXmppCallManager (needs GStreamer) and QXmppOmemoManager (needs libomemo-c) are not part of the "
                        "verification build and not in the extension set 'all'"]
