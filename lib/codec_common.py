"""codec_common — shared by lib/props/C01.py and C02.py: seeds, sharded runs of `qxv codec`
with crash/hang attribution, trace concatenation."""
import concurrent.futures
import json
import os
import re

import codec_seeds
import vf

# the machine is shared: VERIF_JOBS harness processes (default 4, at most 8), at most four TLC workers
PROCS = max(1, min(int(os.environ.get("VERIF_JOBS", "0") or 0) or 4, 8))
TLC_WORKERS = min(PROCS, 4)

SAN_ENV = {
    # a sanitizer report ends the process: the job announced last (flushed "Begin" line) is the culprit
    "ASAN_OPTIONS": "detect_leaks=0:abort_on_error=0:halt_on_error=1:allocator_may_return_null=1:"
                    "hard_rss_limit_mb=6000:max_allocation_size_mb=2000:detect_stack_use_after_return=0",
    # UBSan reports (once per source location and process) and continues; the driver writes a
    # "qxv-case <id>" marker to stderr before every job, which attributes each report to a job
    "UBSAN_OPTIONS": "print_stacktrace=1:halt_on_error=0",
    # QSet/QHash iteration order must not differ between the two processes of the determinism check
    "QT_HASH_SEED": "0",
}


def prepare_seeds(chk):
    seeds, stats = codec_seeds.harvest(vf.REPO)
    if len(seeds) < 50:
        raise vf.MachineryError(f"only {len(seeds)} XML literals harvested from {vf.REPO}/tests: harvester broken?")
    path = chk.path("seeds.ndjson")
    vf.write_ndjson(path, seeds)
    return seeds, stats, path


def _read_trace(path):
    if not os.path.exists(path):
        return []
    vf.repair_truncated(path)
    return vf.read_ndjson(path)


def _unfinished(lines):
    """the Begin line that has no result line after it (crash/hang), else None"""
    open_case = None
    for o in lines:
        if o.get("e") == "Begin":
            open_case = o
        elif open_case is not None and o.get("case") == open_case.get("case"):
            open_case = None
    return open_case


def _locate(rest, case):
    """(index of the job in rest, job restricted to the crashed document, job resuming behind it)"""
    jid, _, n = case.partition(".")
    idx = next((i for i, j in enumerate(rest) if j.get("id") == jid), None)
    if idx is None:
        return None, None, None
    job = rest[idx]
    if n == "":
        return idx, job, None
    return idx, dict(job, **{"from": int(n), "upto": int(n) + 1}), dict(job, **{"from": int(n) + 1})


def _san_frames(stderr):
    """first frames of the sanitizer report that lie in the repository (address-free)"""
    frames = []
    for m in re.finditer(r"#\d+ 0x[0-9a-f]+ in (.+?) (/[^\s:]+):(\d+)", stderr):
        fn, path = m.group(1), m.group(2)
        if "/src/" in path and "harness" not in path:
            frames.append(re.sub(r"\(.*", "", fn).strip() + "@" + os.path.basename(path))
        if len(frames) >= 2:
            break
    return frames


def _ub_reports(stderr, jobs_by_id):
    """UBSan reports of one process, each attributed to the job announced last before it."""
    res = []
    case = None
    lines = stderr.split("\n")
    for i, ln in enumerate(lines):
        if ln.startswith("qxv-case "):
            case = ln[9:].strip()
        elif "runtime error:" in ln:
            m = re.search(r"([^/\s:]+):(\d+):\d+: runtime error: (.*)", ln)
            text = re.sub(r"-?\d+", "N", m.group(3)) if m else ln
            where = f"{m.group(1)}:{m.group(2)}" if m else "?"
            frames = _san_frames("\n".join(lines[i + 1:i + 40]))
            job = jobs_by_id.get(case)
            if job is None and case and "." in case and case.split(".")[0] in jobs_by_id:
                n = int(case.split(".")[1])
                job = dict(jobs_by_id[case.split(".")[0]], **{"from": n, "upto": n + 1})
            res.append({"job": job or {"id": case}, "case": case, "kind": "ubsan", "sig": f"runtime error: {text} at {where}",
                        "frames": frames, "report": [ln.strip()], "stderr_tail": "\n".join(lines[i:i + 12])})
    return res


def run_shard(chk, tag, shard_no, jobs, seeds_path, alarm, max_crashes=12, env_extra=None, skip=None):
    """Run one shard; after a crash restart behind the crashed job. Returns (lines, crashes)."""
    lines = []
    crashes = []
    rest = list(jobs)
    attempt = 0
    skip = skip if skip is not None else set()   # classes already reported as hanging: not run again (shared by the chunks)
    env = dict(SAN_ENV, **(env_extra or {}))
    while rest:
        inp = chk.path(f"{tag}-jobs-{shard_no}-{attempt}.ndjson")
        out = chk.path(f"{tag}-trace-{shard_no}-{attempt}.ndjson")
        vf.write_ndjson(inp, rest)
        opts = {"seeds": seeds_path, "alarm": alarm}
        if skip:
            opts["skip"] = ",".join(sorted(skip))
        r = vf.qxv("codec", out, in_path=inp, seed=chk.seed + 1000 * shard_no + attempt, tier=chk.tier,
                   opts=opts, env=env, check=False, timeout=6000)
        got = _read_trace(out)
        lines += got
        crashes += _ub_reports(r["stderr"], {j.get("id"): j for j in rest})
        if r["rc"] == 0:
            break
        begin = _unfinished(got)
        if begin is None:
            # the process failed outside a job: machinery, not the code under test
            raise vf.MachineryError(f"qxv codec exited {r['rc']} outside a job:\n{r['stderr'][-2000:]}")
        bad_case = begin["case"]
        idx, only_job, resume_job = _locate(rest, bad_case)
        if idx is None:
            raise vf.MachineryError(f"crashed job {bad_case} not found in shard")
        asan = [x for x in r["sanitizer"] if "runtime error:" not in x]
        hang = re.search(r"^qxv-hang (\S+) (.+)$", r["stderr"], re.M)
        if hang or r["rc"] in (124, -14, 142):
            # a parser did not return within the alarm.  Timing-dependent: confirm on the document alone,
            # with three times the budget, before it is reported; the class is not run again in this run.
            cls = hang.group(2).strip() if hang else "?"
            cinp = chk.path(f"{tag}-confirm-{shard_no}-{attempt}.ndjson")
            cout = chk.path(f"{tag}-confirm-trace-{shard_no}-{attempt}.ndjson")
            vf.write_ndjson(cinp, [only_job])
            copts = {"seeds": seeds_path, "alarm": 3 * alarm}
            if cls != "?" and cls != "harness":
                copts["only"] = cls
            r2 = vf.qxv("codec", cout, in_path=cinp, seed=chk.seed, tier=chk.tier, opts=copts, env=env, check=False, timeout=6000)
            if r2["rc"] in (124, -14, 142) or re.search(r"^qxv-hang ", r2["stderr"], re.M):
                crashes.append({"job": only_job, "kind": "hang", "cls": cls, "seed_src": begin.get("src", ""), "plan": begin.get("plan", ""),
                                "sig": f"no return within {3 * alarm} s", "frames": [], "report": [],
                                "stderr_tail": f"{cls} did not return within {alarm} s, nor within {3 * alarm} s when run alone on the document"})
            else:
                chk.note(f"{tag}: {cls} exceeded the {alarm} s alarm on {bad_case} but returned when run alone (slow, not a hang)")
            skip.add(cls)
        else:
            kind = "sanitizer" if asan else f"exit{r['rc']}"
            asan_sig = re.sub(r"0x[0-9a-f]+", "ADDR", asan[0])[:120] if asan else f"exit{r['rc']}"
            tail = r["stderr"][r["stderr"].rfind("ERROR: AddressSanitizer"):] if asan else r["stderr"][-1500:]
            crashes.append({"job": only_job, "kind": kind, "sig": asan_sig, "frames": _san_frames(tail),
                            "report": asan[:3], "stderr_tail": tail[:1500]})
        rest = ([resume_job] if resume_job else []) + rest[idx + 1:]
        attempt += 1
        if sum(1 for x in crashes if x["kind"] != "ubsan") >= max_crashes:
            chk.note(f"{tag}: shard {shard_no} stopped after {len(crashes)} crashes; {len(rest)} jobs not run")
            break
    return lines, crashes


def run_jobs(chk, tag, jobs, seeds_path, alarm=60, procs=PROCS, env_extra=None):
    """Run the jobs on `procs` harness processes at a time.  The jobs are dealt into 6*procs chunks that
    the workers pick up as they become free (jobs differ a lot in size); the chunk traces are merged
    into `procs` trace files.  Returns (trace paths, all lines, crashes)."""
    nchunks = max(1, min(len(jobs), procs * 6))
    chunks = [jobs[i::nchunks] for i in range(nchunks)]
    merged = [[] for _ in range(procs)]
    all_lines = []
    crashes = []
    skip = set()
    with concurrent.futures.ThreadPoolExecutor(max_workers=procs) as ex:
        futs = [ex.submit(run_shard, chk, tag, i, ch, seeds_path, alarm, 12, env_extra, skip) for i, ch in enumerate(chunks) if ch]
        for i, f in enumerate(futs):
            lines, cr = f.result()
            merged[i % procs] += lines
            all_lines += lines
            crashes += cr
    paths = []
    for i, lines in enumerate(merged):
        p = chk.path(f"{tag}-trace-{i}.ndjson")
        vf.write_ndjson(p, lines)
        paths.append(p)
    return paths, all_lines, crashes


def validate_traces(spec, cfg, paths, tag):
    """TLC trace validation of every shard trace (sequentially: each run is short). Merged summary."""
    total = {"cases": 0, "lines": 0, "viol": [], "ndiv": 0, "wall_s": 0.0, "runs": 0}
    for i, p in enumerate(paths):
        if os.path.getsize(p) == 0:
            continue
        s = vf.tlc_trace(spec, cfg, p, tag=f"{tag}-{i}")
        total["cases"] += s["cases"]
        total["lines"] += s["lines"]
        total["viol"] += s["viol"]
        total["ndiv"] += s["ndiv"]
        total["runs"] += s.get("runs", 0)
        total["wall_s"] += s["wall_s"]
    total["wall_s"] = round(total["wall_s"], 2)
    return total


def registry_info(chk, seeds_path):
    """Ask the harness for its registry and object tables (measured, for the evidence)."""
    inp = chk.path("list-jobs.ndjson")
    out = chk.path("list-trace.ndjson")
    vf.write_ndjson(inp, [{"k": "list", "id": "list"}])
    vf.qxv("codec", out, in_path=inp, seed=chk.seed, tier=chk.tier, opts={"seeds": seeds_path}, env=SAN_ENV)
    for o in vf.read_ndjson(out):
        if o.get("e") == "List":
            return o
    raise vf.MachineryError("qxv codec did not report its registry")


def short(s, n=160):
    s = s.replace("\n", "\\n")
    return s if len(s) <= n else s[:n] + "..."


def signature(prop, b):
    """Address-free signature of a round-trip finding: what fails and where the two serializations
    differ (last two components of the shortest differing locator) -- independent of the seed, of
    the mutation plan and of which of several classes sharing the code reported it."""
    where = b.get("where", "") or b.get("slot", "") or b.get("f", "")
    tail = "/".join(where.split("/")[-2:]) if "/" in where else where
    sign = where[:1] if where[:1] in "+-~" and not tail.startswith(where[:1]) else ""
    cls = "" if b["k"] == "fixpoint" else ":" + re.sub(r"<.*>", "<>", b["c"])
    return f"{prop}:{b['k']}{cls}:{sign}{tail}"


def crash_signature(prop, c):
    if c["kind"] == "hang":
        # which parser does not return, on which test literal, after which one-step/multi-step plan
        return f"{prop}:hang:{c['cls']}:{c.get('seed_src') or c['job'].get('seed')}:{c.get('plan') or '+'.join(s['op'] for s in c['job'].get('steps', []))}"
    sig = re.sub(r"-?\d+", "N", c["sig"])
    frames = ",".join(c["frames"]) or "no-repo-frame"
    return f"{prop}:{c['kind']}:{sig}:{frames}"


# A second heap fill pattern: ASan fills fresh allocations with malloc_fill_byte (0xbe by default).
# What a parser or a default-constructed object reports must not depend on it; if it does, a
# member is read without having been initialised (undefined behaviour the sanitizers do not flag
# for plain integers).
FILL_ENV = {"ASAN_OPTIONS": SAN_ENV["ASAN_OPTIONS"] + ":malloc_fill_byte=65"}


def determinism(chk, tag, jobs, seeds_path, first_lines):
    """Re-run `jobs` with another heap fill byte and compare with their result lines in first_lines.
    Returns a list of dict(job, kind, what) for outputs that differ."""
    _, lines2, _ = run_jobs(chk, tag, jobs, seeds_path, alarm=120, env_extra=FILL_ENV)
    a = {o["case"]: o for o in first_lines if o.get("e") in ("Seed", "Obj")}
    res = []
    for o2 in lines2:
        o1 = a.get(o2.get("case"))
        if not o1 or o2.get("e") not in ("Seed", "Obj"):
            continue
        if o2["e"] == "Seed":
            d1 = dict(x.split("=", 1) for x in o1.get("dig", "").split(",") if "=" in x)
            d2 = dict(x.split("=", 1) for x in o2.get("dig", "").split(",") if "=" in x)
            for cls in sorted(d1):
                if cls in d2 and d1[cls] != d2[cls]:
                    res.append({"case": o2["case"], "cls": cls, "field": "", "what": f"X1 of {cls} for seed {o2['seed']} ({o2.get('src')}) depends on the heap fill pattern"})
        else:
            g1 = dict(x.split("=", 1) for x in o1.get("g", []))
            g2 = dict(x.split("=", 1) for x in o2.get("g", []))
            for f in sorted(g1):
                if f in g2 and g1[f] != g2[f]:
                    res.append({"case": o2["case"], "cls": o2["cls"], "field": f,
                                "what": f"getter {f} of a {o2['cls']} built from plan {o2['vals']} reports {g1[f]!r} vs {g2[f]!r} depending on the heap fill pattern"})
            if not g1 and o1.get("x1") != o2.get("x1"):
                res.append({"case": o2["case"], "cls": o2["cls"], "field": "", "what": f"X1 of {o2['cls']} depends on the heap fill pattern"})
    return res
