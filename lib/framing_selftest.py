#!/usr/bin/env python3
"""Binding demonstration (a) for C03: corrupt recorded fields of an accepted trace and show that
spec/FramingTrace.tla reports it.  Needs a built harness (bin/check C03 once).  Usage:
    python3 lib/framing_selftest.py
Exit 0 iff the accepted trace is accepted and every property-relevant corruption is reported."""
import copy
import json
import os
import sys

sys.path.insert(0, os.path.dirname(os.path.abspath(__file__)))
import framing_corpus as fc  # noqa: E402
import vf  # noqa: E402


def main():
    d = os.path.join(vf.OUT, "C03-selftest")
    os.makedirs(d, exist_ok=True)
    st = {x["sid"]: x for x in fc.corpus_streams()}["c1"]
    inp = os.path.join(d, "in.ndjson")
    vf.write_ndjson(inp, [{"def": {"sid": "c1", "hex": fc.data(st).hex(), "s": fc.describe(st)}},
                          {"sid": "c1", "cuts": [100, 300], "src": "demo"}, {"sid": "c1", "cuts": [50], "src": "demo"}])
    trace = os.path.join(d, "trace.ndjson")
    vf.qxv("framing", trace, in_path=inp)
    base = vf.read_ndjson(trace)

    def val(lines, tag):
        p = os.path.join(d, tag + ".ndjson")
        vf.write_ndjson(p, lines)
        s = vf.tlc_trace("FramingTrace.tla", "FramingTrace.cfg", p, tag="C03-selftest-" + tag, heap="1g")
        got = [(v["case"], v["prop"], v["at"]) for v in s["viol"]]
        print(f"{tag:22s} executions={s['cases']} violations={got} diverged={s['ndiv']}")
        return got

    ok = val(base, "accepted") == []
    reads = [i for i, ln in enumerate(base) if ln["e"] == "Read" and ln["dl"] and i > 4]
    i = reads[0]
    t = copy.deepcopy(base)
    t[i]["dl"][-1]["d"] = "0" * 16                      # content of a delivered stanza altered
    ok &= [v[1] for v in val(t, "altered-digest")] == ["Prefix"]
    t = copy.deepcopy(base)
    t[i]["dl"] = t[i]["dl"][:-1]                        # a stanza lost
    ok &= [v[1] for v in val(t, "lost-delivery")] == ["Complete"]
    t = copy.deepcopy(base)
    t[i]["dl"].append(t[i]["dl"][-1])                   # a stanza duplicated
    ok &= [v[1] for v in val(t, "duplicated-delivery")] == ["Prefix"]
    t = copy.deepcopy(base)
    j = [k for k in reads if len(base[k]["dl"]) >= 2][0]
    t[j]["dl"][0], t[j]["dl"][1] = t[j]["dl"][1], t[j]["dl"][0]   # reordered
    ok &= [v[1] for v in val(t, "reordered")] == ["Prefix"]
    t = copy.deepcopy(base)
    t[i]["dl"].insert(0, {"k": "null", "d": ""})        # an extra null element is not a stream event
    ok &= val(t, "extra-null-element") == []
    print("selftest", "ok" if ok else "FAILED")
    return 0 if ok else 1


if __name__ == "__main__":
    sys.exit(main())
