"""refstun — reference interpretation of the uninterpreted symbols of spec/Stun.tla.

The specification treats HMAC-SHA1 and CRC-32 as constructors; this module is their
interpretation (python hmac/hashlib/zlib) plus the byte-level framing walk (a transcription of
Stun!Frame) that locates the attributes the terms belong to.  lib/props/C14.py uses it to annotate
a recorded trace with the reference values before spec/StunTrace.tla evaluates the C14 predicates;
StunTrace recomputes the framing itself and rejects an annotation whose offsets differ.
"""
import hashlib
import hmac
import zlib

MI = 0x0008
FP = 0x8028


def key_bytes(n):
    """The key of length n used by the harness (harness/drv_stun.cpp keyBytes)."""
    return bytes((n * 13 + i * 7 + 5) & 0xFF for i in range(n))


def text_bytes(n):
    return bytes((i * 31 + n) & 0xFF for i in range(n))


def other_key(klen, which):
    k = bytearray(key_bytes(klen if klen else 20))
    if which == "first":
        k[0] ^= 0x01
    else:
        k[-1] ^= 0x80
    return bytes(k)


def frame(b):
    """Stun!Frame on bytes: (st, mi, fp); offsets of the first MESSAGE-INTEGRITY before any
    FINGERPRINT and of the first FINGERPRINT, 0 = none; st 'ok' | 'bad'."""
    if len(b) < 20:
        return ("bad", 0, 0)
    length = (b[2] << 8) | b[3]
    if length != len(b) - 20:
        return ("bad", 0, 0)
    done, mi = 0, 0
    while done < length:
        if done + 4 > length:
            return ("bad", 0, 0)
        o = 20 + done
        ty = (b[o] << 8) | b[o + 1]
        al = (b[o + 2] << 8) | b[o + 3]
        nx = done + 4 + al + ((4 - al % 4) % 4)
        if nx > length:
            return ("bad", 0, 0)
        if ty == FP:
            return ("ok", mi, o)
        if ty == MI and mi == 0:
            mi = o
        done = nx
    return ("ok", mi, 0)


def with_len(prefix, n):
    p = bytearray(prefix)
    p[2] = (n >> 8) & 0xFF
    p[3] = n & 0xFF
    return bytes(p)


def ref_mi(b, off, key):
    """RFC 5389 §15.4: HMAC-SHA1 over the message up to MESSAGE-INTEGRITY, length field counting it."""
    return list(hmac.new(key, with_len(b[:off], off - 20 + 24), hashlib.sha1).digest())


def ref_fp(b, off):
    """RFC 5389 §15.5: CRC-32 over the message up to FINGERPRINT (length counting it) xor 0x5354554e."""
    v = (zlib.crc32(with_len(b[:off], off - 20 + 8)) & 0xFFFFFFFF) ^ 0x5354554E
    return [(v >> 24) & 0xFF, (v >> 16) & 0xFF, (v >> 8) & 0xFF, v & 0xFF]


def annotate_frame(b, key):
    """The `fr` record of a trace line: where the bytes carry MI/FP and the reference values."""
    b = bytes(b)
    st, mi, fp = frame(b)
    return {
        "st": st, "mi": mi, "fp": fp,
        "refmi": ref_mi(b, mi, key) if (st == "ok" and mi and key) else [],
        "reffp": ref_fp(b, fp) if (st == "ok" and fp) else [],
    }


def ref_hmac(klen, tlen):
    return list(hmac.new(key_bytes(klen), text_bytes(tlen), hashlib.sha1).digest())


def ref_crc(tlen):
    v = zlib.crc32(text_bytes(tlen)) & 0xFFFFFFFF
    return [(v >> 24) & 0xFF, (v >> 16) & 0xFF, (v >> 8) & 0xFF, v & 0xFF]


ADDR_TYPES = (0x0001, 0x0004, 0x0005, 0x802C, 0x0020, 0x0012, 0x0016)


def addr_wire(b):
    """Family byte and value length of every address-valued attribute in the bytes (own TLV walk, stops at
    MESSAGE-INTEGRITY / FINGERPRINT): [{code, fam, len}] in wire order."""
    b = bytes(b)
    out, o = [], 20
    while o + 4 <= len(b):
        ty = (b[o] << 8) | b[o + 1]
        al = (b[o + 2] << 8) | b[o + 3]
        if ty in (MI, FP) or o + 4 + al > len(b):
            break
        if ty in ADDR_TYPES:
            out.append({"code": ty, "fam": b[o + 5] if al >= 2 else -1, "len": al})
        o += 4 + al + ((4 - al % 4) % 4)
    return out
