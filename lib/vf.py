"""vf — spine of the /verif machinery.

build()            configure + build /repo (working tree) and the qxv harness, under a lock
tlc_mc()           exhaustive model check of a design spec (M.tla + M.cfg)
tlc_gen()          behaviour export (MGen*.cfg): TLC writes one JSON behaviour per transition
tlc_simulate()     random behaviours from the same spec
qxv()              run a harness driver: behaviours -> ndjson trace of the implementation
tlc_trace()        validate an ndjson trace against MTrace.tla; returns the monitor summary
Check              per-property run context: collects coverage, violations, writes evidence,
                   applies known-findings, prints VIOLATION / KNOWN-FINDING lines, exit code
"""
import fcntl
import hashlib
import json
import os
import re
import shutil
import subprocess
import sys
import time

VERIF = os.path.dirname(os.path.dirname(os.path.abspath(__file__)))
REPO = os.environ.get("QXV_REPO", "/repo")
BUILD = os.path.join(VERIF, ".build")
OUT = os.path.join(VERIF, "out")
SPEC = os.path.join(VERIF, "spec")
QXV = os.path.join(BUILD, "h", "qxv")
NCPU = int(os.environ.get("VERIF_JOBS", "0")) or os.cpu_count() or 4
TLA_CP = "/opt/veriftools/tla/tla2tools.jar:/opt/veriftools/tla/CommunityModules-deps.jar"


class MachineryError(Exception):
    """The checker itself failed (build, TLC crash, harness crash outside an oracle): exit 2."""


def log(*a):
    print("[vf]", *a, file=sys.stderr, flush=True)


# ----------------------------------------------------------------------------- build
def build(force_configure=False):
    """Bring the sanitized static library (from /repo's working tree) and qxv up to date."""
    os.makedirs(BUILD, exist_ok=True)
    lock = open(os.path.join(BUILD, ".lock"), "w")
    fcntl.flock(lock, fcntl.LOCK_EX)
    try:
        t0 = time.time()
        bdir = os.path.join(BUILD, "h")
        stamp = os.path.join(BUILD, ".repo")
        if not os.path.exists(stamp) or open(stamp).read().strip() != REPO:
            force_configure = True
            open(stamp, "w").write(REPO)
        if force_configure or not os.path.exists(os.path.join(bdir, "build.ninja")):
            r = subprocess.run(
                ["cmake", "-G", "Ninja", "-S", os.path.join(VERIF, "harness"), "-B", bdir, f"-DREPO={REPO}"],
                stdout=subprocess.PIPE, stderr=subprocess.STDOUT, text=True)
            if r.returncode != 0:
                raise MachineryError("cmake configure failed:\n" + r.stdout[-4000:])
        r = subprocess.run(["cmake", "--build", bdir, "-j", str(NCPU), "--target", "qxv"],
                           stdout=subprocess.PIPE, stderr=subprocess.STDOUT, text=True)
        if r.returncode != 0:
            raise MachineryError("build failed:\n" + r.stdout[-6000:])
        log(f"build ok in {time.time() - t0:.1f}s")
    finally:
        fcntl.flock(lock, fcntl.LOCK_UN)
        lock.close()
    return QXV


# ----------------------------------------------------------------------------- TLC
def _tlc(args, env=None, timeout=3000, heap=None, cwd=SPEC, deque=False):
    e = dict(os.environ)
    if env:
        e.update({k: str(v) for k, v in env.items()})
    # TLC creates a scratch directory per run under java.io.tmpdir: keep it under out/, not /tmp
    jtmp = os.path.join(OUT, "tlc", "tmp")
    os.makedirs(jtmp, exist_ok=True)
    cmd = ["java", "-XX:+UseParallelGC", "-Djava.io.tmpdir=" + jtmp]
    if heap:
        cmd.append("-Xmx" + heap)
    if deque:
        cmd.append("-Dtlc2.tool.queue.IStateQueue=StateDeque")
    cmd += ["-cp", TLA_CP, "tlc2.TLC", "-noGenerateSpecTE"] + args
    t0 = time.time()
    try:
        r = subprocess.run(cmd, cwd=cwd, env=e, stdout=subprocess.PIPE, stderr=subprocess.STDOUT,
                           text=True, timeout=timeout)
    except subprocess.TimeoutExpired as ex:
        raise MachineryError(f"TLC timed out after {timeout}s: {' '.join(args)}") from ex
    return r.returncode, r.stdout, time.time() - t0


_RE_STATES = re.compile(r"(\d+) states generated, (\d+) distinct states found")
_RE_DEPTH = re.compile(r"The depth of the complete state graph search is (\d+)")


def _metadir(tag):
    # per-property directories: two checks may share a cfg name (C04/C10) and run side by side
    d = os.path.join(OUT, "tlc", os.environ.get("QXV_PROP", "x") + "-" + tag)
    shutil.rmtree(d, ignore_errors=True)
    os.makedirs(d, exist_ok=True)
    return d


def tlc_mc(spec, cfg, workers=None, heap=None, timeout=3000, tag=None, coverage=False, env=None):
    """Exhaustive model check. Returns dict(ok, states, distinct, depth, wall_s, out, uncovered)."""
    tag = tag or cfg.replace(".cfg", "")
    args = ["-workers", str(workers or NCPU), "-metadir", _metadir("mc-" + tag), "-config", cfg]
    if coverage:
        args += ["-coverage", "1"]
    args.append(spec)
    rc, out, wall = _tlc(args, timeout=timeout, heap=heap, env=env)
    m = None
    for m in _RE_STATES.finditer(out):
        pass
    d = _RE_DEPTH.search(out)
    res = {
        "ok": rc == 0 and "No error has been found" in out,
        "rc": rc,
        "states": int(m.group(1)) if m else 0,
        "distinct": int(m.group(2)) if m else 0,
        "depth": int(d.group(1)) if d else 0,
        "wall_s": round(wall, 2),
        "out": out,
    }
    if not res["ok"]:
        log(f"TLC model check of {spec}/{cfg} FAILED rc={rc}\n" + out[-3000:])
    return res


def _decode_gen(path, line_filter=None):
    """Lines written by CSVWrite("%1$s", <<ToJson(x)>>): a JSON string holding JSON (or bare JSON).
    line_filter(raw line) -> bool decides, before any decoding, whether the line is wanted."""
    res = []
    bad = 0
    if not os.path.exists(path):
        return res
    with open(path) as f:
        for line in f:
            line = line.strip()
            if not line:
                continue
            if line_filter is not None and not line_filter(line):
                continue
            try:
                v = json.loads(line)
                if isinstance(v, str):
                    v = json.loads(v)
                res.append(v)
            except Exception:
                bad += 1
    if bad:
        log(f"{bad} undecodable generator lines in {path} (interleaved writes) dropped")
    return res


def _canon(v):
    return json.dumps(v, sort_keys=True, separators=(",", ":"))


def maximal_behaviours(behs, steps_key="steps"):
    """Drop behaviours that are strict prefixes of another emitted behaviour (same other fields)."""
    keyed = {}
    for b in behs:
        steps = b[steps_key]
        rest = {k: v for k, v in b.items() if k != steps_key}
        keyed[(_canon(rest), tuple(_canon(s) for s in steps))] = b
    parents = set()
    for (rest, steps) in keyed:
        if steps:
            parents.add((rest, steps[:-1]))
    return [b for k, b in keyed.items() if k not in parents]


def tlc_gen(spec, cfg, workers=1, timeout=3000, heap=None, tag=None, steps_key="steps", keep_prefixes=False, env=None,
            line_filter=None):
    """Run a generator configuration; returns (behaviours, stats)."""
    tag = tag or cfg.replace(".cfg", "")
    d = _metadir("gen-" + tag)
    gen = os.path.join(d, "gen.ndjson")
    e = {"QXV_GEN": gen}
    if env:
        e.update(env)
    rc, out, wall = _tlc(["-workers", str(workers), "-metadir", os.path.join(d, "m"), "-config", cfg, spec],
                         env=e, timeout=timeout, heap=heap)
    if rc != 0 or "No error has been found" not in out:
        raise MachineryError(f"generator {spec}/{cfg} failed rc={rc}:\n{out[-3000:]}")
    behs = _decode_gen(gen, line_filter)
    try:
        os.remove(gen)      # generator output can be gigabytes
    except OSError:
        pass
    m = None
    for m in _RE_STATES.finditer(out):
        pass
    stats = {"emitted": len(behs), "states": int(m.group(1)) if m else 0, "distinct": int(m.group(2)) if m else 0,
             "wall_s": round(wall, 2)}
    if not keep_prefixes and steps_key:
        behs = maximal_behaviours(behs, steps_key)
    stats["behaviours"] = len(behs)
    return behs, stats


def tlc_simulate(spec, cfg, num, depth, seed, workers=4, timeout=3000, tag=None, steps_key="steps", env=None):
    """Random behaviours: -simulate with the same ACTION_CONSTRAINT emitter; keeps maximal ones."""
    tag = tag or cfg.replace(".cfg", "") + "-sim"
    d = _metadir("sim-" + tag)
    gen = os.path.join(d, "gen.ndjson")
    e = {"QXV_GEN": gen}
    if env:
        e.update(env)
    rc, out, wall = _tlc(["-workers", str(workers), "-simulate", f"num={num}", "-depth", str(depth),
                          "-seed", str(seed), "-metadir", os.path.join(d, "m"), "-config", cfg, spec],
                         env=e, timeout=timeout)
    if rc != 0:
        raise MachineryError(f"simulation {spec}/{cfg} failed rc={rc}:\n{out[-3000:]}")
    behs = _decode_gen(gen)
    stats = {"emitted": len(behs), "wall_s": round(wall, 2)}
    behs = maximal_behaviours(behs, steps_key) if steps_key else behs
    stats["behaviours"] = len(behs)
    return behs, stats


def write_ndjson(path, items):
    os.makedirs(os.path.dirname(path), exist_ok=True)
    with open(path, "w") as f:
        for it in items:
            f.write(json.dumps(it, separators=(",", ":")) + "\n")


def read_ndjson(path):
    with open(path) as f:
        return [json.loads(l) for l in f if l.strip()]


# ----------------------------------------------------------------------------- harness
def qxv(driver, out_trace, in_path=None, seed=1, tier="quick", opts=None, timeout=3000, env=None, check=True):
    """Run a qxv driver. Returns dict(rc, stderr, wall_s). ASan/UBSan reports end up in stderr."""
    os.makedirs(os.path.dirname(out_trace), exist_ok=True)
    cmd = [QXV, driver, f"--out={out_trace}", f"--seed={seed}", f"--tier={tier}"]
    if in_path:
        cmd.append(f"--in={in_path}")
    for k, v in (opts or {}).items():
        cmd.append(f"--{k}={v}")
    e = dict(os.environ)
    e.setdefault("ASAN_OPTIONS", "detect_leaks=0:abort_on_error=0:halt_on_error=1:allocator_may_return_null=1")
    e.setdefault("UBSAN_OPTIONS", "print_stacktrace=1:halt_on_error=0")
    e["QT_LOGGING_RULES"] = "*.debug=false"
    if env:
        e.update(env)
    t0 = time.time()
    try:
        r = subprocess.run(cmd, stdout=subprocess.PIPE, stderr=subprocess.PIPE, text=True, timeout=timeout, env=e,
                           errors="replace")
    except subprocess.TimeoutExpired as ex:
        raise MachineryError(f"qxv {driver} timed out after {timeout}s") from ex
    res = {"rc": r.returncode, "stderr": r.stderr, "stdout": r.stdout, "wall_s": round(time.time() - t0, 2)}
    san = sanitizer_reports(r.stderr)
    res["sanitizer"] = san
    if check and r.returncode != 0 and not san:
        raise MachineryError(f"qxv {driver} exited {r.returncode}:\n{r.stderr[-3000:]}")
    return res


def sanitizer_reports(stderr):
    reps = []
    for m in re.finditer(r"(ERROR: AddressSanitizer: [^\n]*|runtime error: [^\n]*|ERROR: LeakSanitizer[^\n]*)", stderr):
        reps.append(m.group(1))
    return reps


def san_signature(res):
    """Stable signature of a sanitizer report: kind of error, no addresses."""
    if res["sanitizer"]:
        m = re.match(r"(ERROR: AddressSanitizer: [\w-]+|runtime error: [^\n]*|ERROR: LeakSanitizer)", res["sanitizer"][0])
        s = m.group(1) if m else res["sanitizer"][0]
        return re.sub(r"0x[0-9a-f]+", "ADDR", s)[:120]
    return f"exit{res['rc']}"


def repair_truncated(trace_path):
    """A crashed harness may leave a half-written last line: drop it."""
    with open(trace_path, "rb") as f:
        data = f.read()
    lines = data.split(b"\n")
    good = []
    for ln in lines:
        if not ln.strip():
            continue
        try:
            json.loads(ln)
            good.append(ln)
        except Exception:
            break
    with open(trace_path, "wb") as f:
        f.write(b"\n".join(good) + (b"\n" if good else b""))


# ----------------------------------------------------------------------------- trace validation
def tlc_trace(spec, cfg, trace_path, tag=None, timeout=3000, heap="8g", env=None):
    """Validate a recorded trace. The trace spec is a total monitor: it consumes every line,
    follows the design spec where it can (else marks the execution diverged) and evaluates the
    property predicates on the observed facts; at the end it writes a summary JSON."""
    tag = tag or cfg.replace(".cfg", "")
    d = _metadir("trace-" + tag)
    summ = os.path.join(d, "summary.json")
    e = {"QXV_TRACE": os.path.abspath(trace_path), "QXV_SUMMARY": summ}
    if env:
        e.update(env)
    rc, out, wall = _tlc(["-workers", "1", "-metadir", os.path.join(d, "m"), "-config", cfg, spec],
                         env=e, timeout=timeout, heap=heap)
    nlines = sum(1 for _ in open(trace_path))
    dm = _RE_DEPTH.search(out)
    depth = int(dm.group(1)) if dm else 0
    if rc != 0 or "No error has been found" not in out:
        raise MachineryError(f"trace validation {spec}/{cfg} failed rc={rc} (depth {depth} of {nlines} lines):\n{out[-3000:]}")
    s = _decode_gen(summ)
    if not s:
        raise MachineryError(f"trace validation {spec}/{cfg}: trace not consumed (stuck at line {depth} of {nlines}):\n{out[-2000:]}")
    res = s[-1]
    res["wall_s"] = round(wall, 2)
    res["trace_lines"] = nlines
    m = None
    for m in _RE_STATES.finditer(out):
        pass
    res["tlc_states"] = int(m.group(2)) if m else 0
    return res


def split_cases(trace_path, with_lines=False):
    """Executions of a trace file: dict case id -> list of lines (raw dicts), in file order.
    with_lines: each dict gets "_l" = its 1-based line number in the file (= TraceLog index)."""
    cases = {}
    cur = None
    for n, o in enumerate(read_ndjson(trace_path), 1):
        if with_lines:
            o["_l"] = n
        if o.get("e") == "Reset":
            cur = str(o.get("case"))
            cases[cur] = []
        if cur is not None:
            cases[cur].append(o)
    return cases


# ----------------------------------------------------------------------------- known findings
def load_known():
    p = os.path.join(VERIF, "known-findings.json")
    if not os.path.exists(p):
        return []
    return json.load(open(p)).get("findings", [])


# ----------------------------------------------------------------------------- check context
class Check:
    def __init__(self, prop, tier, seed, level):
        self.prop = prop
        self.tier = tier
        self.seed = seed
        self.level = level
        self.t0 = time.time()
        self.cov = {"samples": []}
        self.assumptions = []
        self.violations = []   # dict(sig, what, replay)
        self.notes = []
        self.outdir = os.path.join(OUT, prop)
        shutil.rmtree(self.outdir, ignore_errors=True)
        os.makedirs(self.outdir, exist_ok=True)

    def path(self, name):
        return os.path.join(self.outdir, name)

    def add(self, key, n):
        self.cov[key] = self.cov.get(key, 0) + n

    def sample(self, s, cap=6):
        if len(self.cov["samples"]) < cap:
            self.cov["samples"].append(s)

    def note(self, s):
        self.notes.append(s)
        log(f"{self.prop}: {s}")

    def violation(self, sig, what, replay_items=None, replay_path=None):
        """Record a violation. sig identifies *which* input/history fails (for known-findings)."""
        if any(v["sig"] == sig for v in self.violations):
            return
        if replay_path is None:
            n = len(self.violations) + 1
            replay_path = self.path(f"violation-{n}.ndjson")
            write_ndjson(replay_path, replay_items or [{"sig": sig, "what": what}])
        self.violations.append({"sig": sig, "what": what, "replay": replay_path})

    def mc(self, res, name):
        """Account for an exhaustive TLC run; a failing design-level check is a machinery failure
        (the specification itself is wrong), never a violation of the code."""
        if not res["ok"]:
            raise MachineryError(f"design spec {name} does not satisfy its properties (or TLC failed); see log")
        self.add("states", res["distinct"])
        self.add("transitions", res["states"])
        self.cov.setdefault("model_runs", []).append(
            {"model": name, "distinct_states": res["distinct"], "transitions": res["states"], "depth": res["depth"], "wall_s": res["wall_s"]})

    def finish(self):
        known = [k for k in load_known() if k.get("property") == self.prop and k.get("status", "open") == "open"]
        unknown = []
        for v in self.violations:
            hit = next((k for k in known if k.get("signature") == v["sig"]), None)
            if hit:
                print(f"KNOWN-FINDING: property={self.prop} {hit.get('what', v['what'])}")
            else:
                unknown.append(v)
        cov = dict(self.cov)
        cov.setdefault("evaluations", cov.get("traces_validated_against_impl", 0))
        if self.notes:
            cov["notes"] = self.notes
        cov["known_findings_reported"] = len(self.violations) - len(unknown)
        ev = {
            "property_id": self.prop,
            "tier": self.tier,
            "seed": int(self.seed),
            "level": self.level,
            "coverage": cov,
            "assumptions": self.assumptions,
            "wall_s": round(time.time() - self.t0, 2),
            "violations": len(unknown),
        }
        os.makedirs(os.path.join(VERIF, "evidence"), exist_ok=True)
        with open(os.path.join(VERIF, "evidence", f"{self.prop}.json"), "w") as f:
            json.dump(ev, f, indent=1, sort_keys=True)
            f.write("\n")
        for v in unknown:
            print(f"VIOLATION property={self.prop} replay={v['replay']}")
            print(f"  what: {v['what']}")
            print(f"  signature: {v['sig']}")
        sys.stdout.flush()
        return 1 if unknown else 0
