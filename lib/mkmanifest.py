#!/usr/bin/env python3
"""Assemble /verif/MANIFEST.json from manifest.d/*.json fragments (one per claimed property).
Properties without a fragment are listed under not_applicable with the reason in
manifest.d/not_applicable.json (or 'check under construction')."""
import glob
import json
import os

V = os.path.dirname(os.path.dirname(os.path.abspath(__file__)))
props = [json.loads(l)["id"] for l in open(os.path.join(V, "properties.jsonl")) if l.strip()]
checks = {}
for f in sorted(glob.glob(os.path.join(V, "manifest.d", "C*.json"))):
    c = json.load(open(f))
    checks[c["property_id"]] = c
na_path = os.path.join(V, "manifest.d", "not_applicable.json")
na_reasons = json.load(open(na_path)) if os.path.exists(na_path) else {}
hooks = json.load(open(os.path.join(V, "manifest.d", "hooks.json")))
m = {
    "version": 1,
    "setup_cmd": "bin/setup",
    "hooks": hooks,
    "engines": [
        {"name": "tlc+qxv", "path": "bin/check",
         "serves_properties": sorted(checks),
         "kind_free_text": "TLA+ specifications (spec/*.tla) model-checked by TLC; TLC-generated behaviours replayed by the C++ "
                           "harness qxv on the library built from /repo's working tree (static, -DQXMPP_VERIF, ASan+UBSan); "
                           "recorded ndjson traces validated by TLC against <M>Trace.tla"}],
    "checks": [checks[p] for p in props if p in checks],
    "not_applicable": [{"property_id": p, "reason": na_reasons.get(p, "check under construction in this session (see DESIGN.md §5)")}
                       for p in props if p not in checks],
    "notes": "All checks: `bin/check <ID> --tier quick|thorough [--seed N]` (VERIF_SEED/VERIF_TIER honoured). "
             "Exit 0 held / 1 VIOLATION / 2 machinery failure. Known findings: /verif/known-findings.json.",
}
json.dump(m, open(os.path.join(V, "MANIFEST.json"), "w"), indent=1)
print("MANIFEST.json:", len(m["checks"]), "checks,", len(m["not_applicable"]), "not_applicable")
