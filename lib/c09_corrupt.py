#!/usr/bin/env python3
"""Binding demonstration (a) for C09: corrupt single recorded fields of an accepted `qxv sm` trace and show that
the monitor of spec/StreamMgmtTrace.tla reports each.
usage: python3 lib/c09_corrupt.py [accepted-trace.ndjson]   (default: record lib/props/C09.sample.ndjson with `qxv sm` first)"""
import copy
import json
import os
import sys

sys.path.insert(0, os.path.dirname(os.path.abspath(__file__)))
import vf  # noqa: E402


def first(lines, pred):
    return next(i for i, x in enumerate(lines) if pred(x))


def corruptions(lines):
    # 1. an acknowledged report one step too early (before the covering <a/>)
    a = copy.deepcopy(lines)
    i = first(a, lambda x: x.get("e") == "Ack" and x["o"]["rep"])
    j = max(k for k in range(i) if a[k].get("e") == "SendStanza")
    a[j]["o"]["rep"].append(a[i]["o"]["rep"].pop(0))
    yield "report moved before the covering ack", a, "AckedOnlyCovered"
    # 2. a report fires twice
    a = copy.deepcopy(lines)
    i = first(a, lambda x: x.get("e") == "Ack" and x["o"]["rep"])
    a[i]["o"]["rep"].append(dict(a[i]["o"]["rep"][0]))
    yield "report duplicated", a, "AtMostOnce"
    # 3. resent stanzas swapped
    a = copy.deepcopy(lines)
    i = first(a, lambda x: x.get("e") == "ResumeOk" and len(x["o"]["out"]) >= 2)
    a[i]["o"]["out"].reverse()
    yield "resend order reversed", a, "ResendExact"
    # 4. one uncovered stanza not resent
    a = copy.deepcopy(lines)
    i = first(a, lambda x: x.get("e") == "ResumeOk" and len(x["o"]["out"]) >= 2)
    a[i]["o"]["out"].pop(0)
    yield "one uncovered stanza missing from the resend", a, "ResendExact"
    # 5. a covered stanza written again
    a = copy.deepcopy(lines)
    i = first(a, lambda x: x.get("e") == "ResumeOk")
    a[i]["o"]["out"].insert(0, {"k": "s", "v": 2})
    yield "covered stanza resent", a, "NoCoveredResent"
    # 6. h of <a/> off by one
    a = copy.deepcopy(lines)
    i = first(a, lambda x: x.get("e") == "Req" and x["o"]["out"])
    a[i]["o"]["out"][0]["v"] += 1
    yield "<a h/> off by one", a, "HandledCount"
    # 7. h of <resume/> off by one
    a = copy.deepcopy(lines)
    i = first(a, lambda x: x.get("e") == "Reconnect" and x["o"]["out"])
    a[i]["o"]["out"][0]["v"] -= 1
    yield "<resume h/> off by one", a, "HandledCount"
    # 8. unacknowledged success report while stream management is active
    a = copy.deepcopy(lines)
    i = first(a, lambda x: x.get("e") == "SendStanza" and x["o"]["en"])
    a[i]["o"]["rep"].append({"id": a[i]["id"], "r": "Plain"})
    yield "success reported at send time with SM active", a, "SuccessBeforeCovered"


def main():
    outdir = os.path.join(vf.OUT, "C09-corrupt")
    os.makedirs(outdir, exist_ok=True)
    if len(sys.argv) > 1:
        src = sys.argv[1]
    else:
        src = os.path.join(outdir, "base.ndjson")
        vf.qxv("sm", src, in_path=os.path.join(vf.VERIF, "lib", "props", "C09.sample.ndjson"))
    lines = vf.read_ndjson(src)
    base = vf.tlc_trace("StreamMgmtTrace.tla", "StreamMgmtTrace.cfg", src, tag="c09-corrupt-base")
    print("accepted trace:", base["cases"], "executions,", len(base["viol"]), "violations,", base["ndiv"], "diverged")
    ok = not base["viol"]
    for n, (what, lines2, expect) in enumerate(corruptions(lines), 1):
        p = os.path.join(outdir, f"c{n}.ndjson")
        vf.write_ndjson(p, lines2)
        s = vf.tlc_trace("StreamMgmtTrace.tla", "StreamMgmtTrace.cfg", p, tag=f"c09-corrupt-{n}")
        props = sorted(set(v["prop"] for v in s["viol"]))
        hit = expect in props
        ok = ok and hit
        print(f"{n}. {what}: monitor reports {props} ({'as expected' if hit else 'EXPECTED ' + expect})")
    return 0 if ok else 1


if __name__ == "__main__":
    sys.exit(main())
