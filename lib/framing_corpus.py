"""Byte-exact corpus for C03 (spec/Framing.tla).

A corpus stream is a list of CELLS (t, e, p, data[, sync]): the same cells the design model
uses -- t in hdr|st|ws|cl, e = identity of the header/stanza, p = kind of piece -- each with the
bytes it stands for.  Streams whose sid starts with a model shape id ("m2a" instantiates shape
"m2") must have exactly the cells of that shape (checked against what TLC exports); every cell
boundary then is a byte offset, which maps TLC's compositions to byte splits.

describe() turns a stream into the description [n, elems, chars, sync] with atoms = bytes that
spec/FramingTrace.tla runs the model on:  one element per header / stanza / close tag, one "ws"
element per whitespace byte between them, every multi-byte UTF-8 character as [from, to].
"""
import random

NS = "xmlns='jabber:client' xmlns:stream='http://etherx.jabber.org/streams'"
NSQ = 'xmlns="jabber:client" xmlns:stream="http://etherx.jabber.org/streams"'


def _b(x):
    return x if isinstance(x, bytes) else x.encode("utf-8")


def cell(t, e, p, data, sync=False):
    return {"t": t, "e": e, "p": p, "data": _b(data), "sync": sync}


def weight(c):
    """size class of a cell as the design model counts it: KiB, 0 = less than 1 KiB"""
    return len(c["data"]) // 1024


def H(e, *pieces, sync=False):
    """header e from (piece kind, data) pairs"""
    return [cell("hdr", e, p, d, sync and i == 0) for i, (p, d) in enumerate(pieces)]


def S(e, *pieces):
    return [cell("st", e, p, d) for p, d in pieces]


def W(data):
    return [cell("ws", 0, "ws", bytes([c])) for c in _b(data)]


def C(*pieces):
    return [cell("cl", 0, "tag", d) for d in pieces]


def stream(sid, cells, note="", klass="plain"):
    return {"sid": sid, "cells": cells, "note": note, "class": klass}


# --------------------------------------------------------------------------- model shape variants
def model_variants():
    out = []
    # m1: header only; declaration, whitespace, a non-ASCII domain in an attribute value
    out.append(stream("m1a", H(1, ("decl", "<?xml version='1.0'?>"), ("sp", "\n"),
                               ("tag", f"<stream:stream {NS} version='1.0' "), ("attr", "from='b"),
                               ("mb1", b"\xc3"), ("mb2", b"\xbc"), ("tag", "cher.example' id='s1'>")),
                      "header only, 2-byte character in an attribute value"))
    out.append(stream("m1b", H(1, ("decl", '<?xml version="1.0" encoding="UTF-8"?>'), ("sp", "\r\n  "),
                               ("tag", f"<stream:stream {NSQ} "), ("attr", 'from="'),
                               ("mb1", b"\xf0\x9f"), ("mb2", b"\x98\x80"), ("tag", '.example" version="1.0">')),
                      "header only, 4-byte character cut 2|2"))
    # m2: header + one rich stanza
    hdr2 = (("tag", f"<stream:stream {NS} "), ("attr", "id='abc' version='1.0'>"))
    out.append(stream("m2a", H(1, *hdr2) + S(1, ("tag", "<message "), ("attr", "from='j"), ("mb1", b"\xc3"), ("mb2", b"\xa9"),
                                              ("tag", "r@example.org' type='chat'><body>"), ("text", "Hi "),
                                              ("ent", "&am"), ("ent", "p;"), ("mb1", b"\xe2"), ("mbm", b"\x82"), ("mb2", b"\xac"),
                                              ("tag", " ok</body></message>")),
                      "2-byte char in attribute, entity, 3-byte char cut 1|1|1"))
    out.append(stream("m2b", H(1, *hdr2) + S(1, ("tag", "<message "), ("attr", "to='"), ("mb1", b"\xe6"), ("mb2", b"\x97\xa5"),
                                              ("tag", "@example.org'><body>"), ("text", "x > y "),
                                              ("ent", "&#x1F6"), ("ent", "00;"), ("mb1", b"\xf0"), ("mbm", b"\x9f\x98"), ("mb2", b"\x80"),
                                              ("tag", "</body></message>")),
                      "3-byte char in attribute cut 1|2, numeric reference, 4-byte char cut 1|2|1"))
    out.append(stream("m2c", H(1, *hdr2) + S(1, ("tag", "<presence "), ("attr", 'from="a@b/'), ("mb1", b"\xf0\x9f\x98"), ("mb2", b"\x80"),
                                              ("tag", '"><status>'), ("text", "äö "),
                                              ("ent", "&l"), ("ent", "t;"), ("mb1", b"\xf0\x9f"), ("mbm", b"\x98"), ("mb2", b"\x80"),
                                              ("tag", "</status></presence>")),
                      "4-byte char in attribute cut 3|1, 4-byte char in text cut 2|1|1"))
    # m3: two stanzas, whitespace keep-alives around them
    out.append(stream("m3a", H(1, ("tag", f"<stream:stream {NS} version='1.0'>")) + W("\n")
                      + S(1, ("tag", "<presence from='a@b/c'><status>"), ("text", "away"), ("tag", "</status></presence>"))
                      + W(" \n")
                      + S(2, ("tag", "<iq type='result' id='1'><q xmlns='urn:x'>"), ("ent", "&quot;"), ("tag", "</q></iq>"))
                      + W("\n"), "keep-alives between stanzas"))
    out.append(stream("m3b", H(1, ("tag", f"<stream:stream {NS} version='1.0'>")) + W("\r")
                      + S(1, ("tag", "<a xmlns='urn:xmpp:sm:3' h='1'"), ("text", " "), ("tag", "/>"))
                      + W("\n\t")
                      + S(2, ("tag", "<message><body>"), ("ent", "&#228;"), ("tag", "</body></message>"))
                      + W(" "), "CR / LF / TAB keep-alives, nonza"))
    # m4: three stanzas, whitespace, close
    out.append(stream("m4a", H(1, ("tag", f"<stream:stream {NS} "), ("tag", "version='1.0'>"))
                      + S(1, ("tag", "<stream:features><bind xmlns='urn:ietf:params:xml:ns:xmpp-bind'/>"), ("tag", "</stream:features>"))
                      + S(2, ("tag", "<message><body>"), ("mb1", b"\xc3"), ("mb2", b"\xa4"), ("tag", "</body></message>"))
                      + S(3, ("tag", "<r xmlns='urn:xmpp:sm:3'"), ("tag", "/>"))
                      + W("\n") + C("</stream:", "stream>"), "several stanzas per read, close"))
    out.append(stream("m4b", H(1, ("tag", f"<stream:stream {NS} id='q' "), ("tag", "version='1.0'>"))
                      + S(1, ("tag", "<iq id='1' type='get'><ping xmlns='urn:xmpp:ping'/>"), ("tag", "</iq>"))
                      + S(2, ("tag", "<message><subject>"), ("mb1", b"\xe2\x82"), ("mb2", b"\xac"), ("tag", "</subject></message>"))
                      + S(3, ("tag", "<presence"), ("tag", " type='unavailable'/>"))
                      + W(" ") + C("</stream", ":stream>"), "3-byte char cut 2|1"))
    # m5: stream restart (second header is an answer: the peer waits before sending it)
    out.append(stream("m5a", H(1, ("tag", f"<stream:stream {NS} id='one' "), ("tag", "version='1.0'>"))
                      + S(1, ("tag", "<success xmlns='urn:ietf:params:xml:ns:xmpp-sasl'"), ("tag", "/>"))
                      + H(2, ("tag", f"<stream:stream {NS} xmlns:x='urn:example:x' "), ("attr", "id='tw"), ("tag", "o' version='1.0'>"), sync=True)
                      + S(2, ("tag", "<x:ping><note>"), ("text", "after restart"), ("tag", "</note></x:ping>"))
                      + W("\n") + C("</stream:stream", ">"), "restart; the second header declares a prefix the stanza uses"))
    # m6: declaration, CDATA, close tag in three pieces
    out.append(stream("m6a", H(1, ("decl", '<?xml version="1.0" encoding="UTF-8"?>'), ("sp", "\n  "),
                               ("tag", f"<stream:stream {NSQ} "), ("attr", 'from="ex'), ("tag", 'ample.org" version="1.0">'))
                      + S(1, ("tag", "<message><body>"), ("cdata", "<![CDATA[a <b> & c"), ("cdata", " ]]>"), ("tag", "</body></message>"))
                      + C("</", "stream:stream", ">"), "CDATA section, close tag cut twice"))
    return out


# --------------------------------------------------------------------------- longer streams
def _hdr(e=1, extra="", ns=NS, decl="<?xml version='1.0'?>", sync=False):
    return H(e, ("decl", decl), ("tag", f"<stream:stream {ns} from='example.org' id='s{e}'{extra} version='1.0' xml:lang='en'>"), sync=sync) \
        if decl else H(e, ("tag", f"<stream:stream {ns} from='example.org' id='s{e}'{extra} version='1.0' xml:lang='en'>"), sync=sync)


def _st(e, xml):
    return S(e, ("xml", xml))


FEATURES_PRE = ("<stream:features><starttls xmlns='urn:ietf:params:xml:ns:xmpp-tls'><required/></starttls>"
                "<mechanisms xmlns='urn:ietf:params:xml:ns:xmpp-sasl'><mechanism>SCRAM-SHA-256</mechanism>"
                "<mechanism>SCRAM-SHA-1</mechanism><mechanism>PLAIN</mechanism></mechanisms></stream:features>")
FEATURES_POST = ("<stream:features><bind xmlns='urn:ietf:params:xml:ns:xmpp-bind'/>"
                 "<sm xmlns='urn:xmpp:sm:3'/><session xmlns='urn:ietf:params:xml:ns:xmpp-session'><optional/></session>"
                 "</stream:features>")
ROSTER = ("<iq id='r1' type='result' to='me@example.org/r'><query xmlns='jabber:iq:roster' ver='v7'>"
          "<item jid='juergen@example.org' name='Jürgen Müller' subscription='both'><group>Freunde &amp; Familie</group></item>"
          "<item jid='nihon@example.org' name='日本語の名前' subscription='to'/>"
          "<item jid='party@example.org' name='\U0001f389 party \U0001f468‍\U0001f469‍\U0001f467' subscription='from'/>"
          "<item jid='q@example.org' name='&quot;Q&quot; &lt;q&gt;' subscription='none' ask='subscribe'/>"
          "</query></iq>")
STANZAS = [
    "<presence from='juergen@example.org/phone'><show>away</show><status>bin gleich zurück</status><priority>5</priority></presence>",
    "<message from='nihon@example.org/pc' to='me@example.org' type='chat' id='m1'><body>こんにちは、世界! 1 &lt; 2 &amp;&amp; 3 &gt; 2</body></message>",
    "<r xmlns='urn:xmpp:sm:3'/>",
    "<a xmlns='urn:xmpp:sm:3' h='3'/>",
    "<message from='party@example.org/x' type='chat'><body>\U0001f600\U0001f601 é नमस्ते привет &#x1F389; &#228;</body><active xmlns='http://jabber.org/protocol/chatstates'/></message>",
    "<iq from='example.org' id='p1' type='get'><ping xmlns='urn:xmpp:ping'/></iq>",
    "<message type=\"headline\" from='news@example.org'><subject>a > b, \"quoted\" and 'single'</subject><body><![CDATA[<b>bold</b> & ]]]]><![CDATA[> done]]></body></message>",
    "<presence from='room@conf.example.org/ニック' to='me@example.org/r'><x xmlns='http://jabber.org/protocol/muc#user'><item affiliation='member' role='participant' nick='Åsa &amp; co'/></x></presence>",
    "<message from='a@example.org'><body>line1\nline2\r\nline3\ttab  two spaces </body></message>",
    "<iq type='result' id='v1'><vCard xmlns='vcard-temp'><FN>Émilie du Châtelet</FN><PHOTO><TYPE>image/png</TYPE><BINVAL>iVBORw0KGgoAAAANSUhEUgAAAAEAAAABCAYAAAAfFcSJAAAADUlEQVR42mNk+M9QDwADhgGAWjR9awAAAABJRU5ErkJggg==</BINVAL></PHOTO></vCard></iq>",
]
ERROR = "<stream:error><system-shutdown xmlns='urn:ietf:params:xml:ns:xmpp-streams'/><text xmlns='urn:ietf:params:xml:ns:xmpp-streams' xml:lang='de'>Wartung – bis später</text></stream:error>"


def corpus_streams():
    out = []
    # c1: start of a client session
    out.append(stream("c1", _hdr(1) + _st(1, FEATURES_PRE) + W("\n"), "stream start with features"))
    # c2: an established session: several stanzas per read, keep-alives, error, close
    cells = _hdr(1, decl="") + _st(1, FEATURES_POST) + _st(2, "<iq id='b1' type='result'><bind xmlns='urn:ietf:params:xml:ns:xmpp-bind'><jid>me@example.org/r</jid></bind></iq>")
    cells += _st(3, "<enabled xmlns='urn:xmpp:sm:3' id='sm-ä' resume='true'/>") + _st(4, ROSTER) + W("\n")
    e = 5
    for i, x in enumerate(STANZAS[:6]):
        cells += _st(e, x)
        e += 1
        if i % 2:
            cells += W(" \r\n"[: 1 + i % 3])
    cells += _st(e, ERROR) + C("</stream:stream>")
    out.append(stream("c2", cells, "session with roster, presences, messages, stream error, close"))
    # c3: text-heavy stanzas (CDATA, quotes, line ends, combining marks, emoji sequences)
    cells = _hdr(1, decl='<?xml version="1.0" encoding="UTF-8"?>')
    for i, x in enumerate(STANZAS[4:]):
        cells += _st(i + 1, x)
    cells += W("\n") + C("</stream:stream>") + W("\n")
    out.append(stream("c3", cells, "non-ASCII text, CDATA, quotes, base64, newline after the close tag"))
    # c4: many small elements with keep-alives of all kinds in between
    cells = _hdr(1, decl="")
    small = ["<r xmlns='urn:xmpp:sm:3'/>", "<a xmlns='urn:xmpp:sm:3' h='%d'/>", "<presence from='u%d@example.org/x'/>"]
    ws = ["\n", " ", "\r\n", "\t", "", "\n\n"]
    for i in range(18):
        x = small[i % 3]
        cells += _st(i + 1, x % i if "%d" in x else x) + W(ws[i % 6])
    out.append(stream("c4", cells, "18 small elements, whitespace keep-alives between them"))
    # c5: restart after SASL success; the new header has another id and one more declaration
    cells = _hdr(1) + _st(1, FEATURES_PRE) + _st(2, "<success xmlns='urn:ietf:params:xml:ns:xmpp-sasl'>dj1wTk5ERlZFUXh1WHhDb1NFaVc4R0VaKzFSU28=</success>")
    cells += _hdr(2, extra=" xmlns:ex='urn:example:ext'", sync=True) + _st(3, FEATURES_POST)
    cells += _st(4, "<ex:hello><ex:who>wörld</ex:who></ex:hello>") + W("\n") + C("</stream:stream>")
    out.append(stream("c5", cells, "stream restart"))
    # c6: server-to-server flavour: jabber:server default namespace, dialback prefix from the header
    ns = "xmlns='jabber:server' xmlns:stream='http://etherx.jabber.org/streams' xmlns:db='jabber:server:dialback'"
    cells = _hdr(1, ns=ns) + _st(1, "<stream:features><dialback xmlns='urn:xmpp:features:dialback'/></stream:features>")
    cells += _st(2, "<db:result from='a.example' to='b.example'>1e701f120f66824b57303384e83b51feba858024</db:result>")
    cells += _st(3, "<db:verify from='a.example' to='b.example' id='x' type='valid'/>")
    cells += _st(4, "<message from='u@a.example' to='v@b.example'><body>grüße</body></message>") + C("</stream:stream>")
    out.append(stream("c6", cells, "s2s stream, prefixed elements declared in the header"))
    # c7: header, error, close, nothing else
    out.append(stream("c7", _hdr(1, decl="") + _st(1, ERROR) + C("</stream:stream>"), "error and close right after the header"))
    # e1/e2: valid but unusual streams the regular expressions of processData look fragile for
    hdr = H(1, ("tag", f"<stream:stream {NS} from='example.org' id='a>b' version='1.0'>"))
    out.append(stream("e1", hdr + _st(1, FEATURES_POST) + _st(2, STANZAS[0]) + W("\n") + _st(3, STANZAS[2]) + C("</stream:stream>"),
                      "'>' inside a header attribute value", klass="edge"))
    out.append(stream("e2", _hdr(1, decl="") + _st(1, FEATURES_POST) + _st(2, STANZAS[5]) + C("</stream:stream>") + W("\r\n"),
                      "CR LF after the close tag", klass="edge"))
    return out


def long_streams(seed, count=4, stanzas=40):
    """thorough tier: seeded long streams built from the stanza pool"""
    rnd = random.Random(seed)
    out = []
    pool = STANZAS + [ROSTER, FEATURES_POST, ERROR.replace("stream:error", "message").replace("<system-shutdown xmlns='urn:ietf:params:xml:ns:xmpp-streams'/>", "")]
    for k in range(count):
        cells = _hdr(1, decl=rnd.choice(["", "<?xml version='1.0'?>"]))
        for i in range(stanzas):
            cells += _st(i + 1, rnd.choice(pool))
            if rnd.random() < 0.3:
                cells += W(rnd.choice(["\n", " ", "\r\n", "\t\n"]))
        if rnd.random() < 0.7:
            cells += C("</stream:stream>")
        out.append(stream(f"L{k + 1}", cells, f"{stanzas} random stanzas (seed {seed})"))
    return out


# --------------------------------------------------------------------------- description
def data(st):
    if "_data" not in st:
        st["_data"] = b"".join(c["data"] for c in st["cells"])
    return st["_data"]


def cell_ends(st):
    ends, p = [], 0
    for c in st["cells"]:
        p += len(c["data"])
        ends.append(p)
    return ends


def utf8_chars(b):
    """[from, to] (1-based, inclusive) of every multi-byte character"""
    res, i = [], 0
    while i < len(b):
        c = b[i]
        ln = 1 if c < 0x80 else 2 if c < 0xE0 else 3 if c < 0xF0 else 4
        if c >= 0xC0 and ln > 1:
            res.append({"from": i + 1, "to": i + ln})
        i += ln
    return res


def elements(st):
    """top-level elements and restart positions in byte offsets"""
    elems, sync, p = [], [], 0
    kind = {"hdr": "hdr", "st": "stanza", "ws": "ws", "cl": "close"}
    cells = st["cells"]
    for i, c in enumerate(cells):
        if c["sync"]:
            sync.append(p)
        p += len(c["data"])
        last = i + 1 == len(cells) or c["t"] == "ws" or (cells[i + 1]["t"], cells[i + 1]["e"]) != (c["t"], c["e"]) or cells[i + 1]["sync"]
        if c["t"] == "ws" and len(c["data"]) != 1:
            raise ValueError("whitespace cells are single bytes")
        if last:
            elems.append({"k": kind[c["t"]], "e": c["e"], "to": p})
    return elems, sync


def describe(st):
    b = data(st)
    b.decode("utf-8")  # the corpus must be valid UTF-8
    elems, sync = elements(st)
    chars = utf8_chars(b)
    bnd, held = [0] * len(b), [0] * len(b)      # indexes by position p = 1..n (see FromCells in spec/Framing.tla)
    for j, el in enumerate(elems):
        bnd[el["to"] - 1] = j + 1
    for c in chars:
        for q in range(c["from"], c["to"]):
            held[q - 1] = q - c["from"] + 1
    return {"n": len(b), "elems": elems, "chars": chars, "sync": sync, "bnd": bnd, "held": held}


def shape_of(st):
    """cells in the form TLC exports them"""
    return [{"t": c["t"], "e": c["e"], "p": c["p"], "sync": c["sync"], "w": weight(c)} for c in st["cells"]]


def cut_class(st, desc, p):
    """what a read boundary at byte offset p (0 < p < n) separates"""
    b = data(st)
    if (b[p] & 0xC0) == 0x80:
        return "mb"                       # inside a multi-byte character
    lo = 0
    for el in desc["elems"]:
        if p == el["to"]:
            return "boundary"             # between two top-level elements / keep-alives
        if lo < p < el["to"]:
            seg, off, k = b[lo:el["to"]], p - lo, el["k"]
            break
        lo = el["to"]
    # scan the element up to the cut
    state, quote = "text", None
    i = 0
    while i < off:
        ch = seg[i:i + 1]
        if state == "text":
            if seg.startswith(b"<![CDATA[", i):
                state = "cdata"
            elif ch == b"<":
                state = "tag"
            elif ch == b"&":
                state = "ent"
        elif state == "cdata":
            if seg.startswith(b"]]>", i):
                state, i = "text", i + 2
                if i + 1 > off:
                    return "cdata"
        elif state == "ent":
            if ch == b";":
                state = "text"
        elif state == "tag":
            if ch in (b"'", b'"'):
                state, quote = "attr", ch
            elif ch == b">":
                state = "text"
        elif state == "attr":
            if ch == quote:
                state = "tag"
            elif ch == b"&":
                state = "attrent"
        elif state == "attrent":
            if ch == b";":
                state = "attr"
        i += 1
    if state == "attrent":
        state = "ent"
    if state == "text" and k in ("hdr", "close"):
        state = "tag"
    return {"hdr": "hdr-", "close": "close-", "stanza": ""}[k] + state


# --------------------------------------------------------------------------- size classes
# How much unparsed data the receiver carries between reads is a dimension of its own: a stanza
# may be far larger than any read.  Sizes 1 KiB .. 1.1 MiB, realised as text content, as an
# attribute value and as many child elements (a limit could count bytes, characters or elements),
# always with 2-, 3- and 4-byte characters so that bytes != UTF-16 units != characters.
KIB = 1024
SIZES = {"1k": 1, "5k": 5, "70k": 70, "300k": 300, "1m": 1126}
_PAT = ("Größe €uro 𝄞 lorem ipsum dolor sit amet, consectetur adipiscing elit, sed do eiusmod tempor incididunt ut labore "
        "et dolore magna aliqua. ").encode("utf-8")


def _fill(nbytes):
    """exactly nbytes bytes of character data without markup characters or quotes"""
    out = _PAT * (nbytes // len(_PAT))
    return out + b"x" * (nbytes - len(out))


def _children(nbytes, first=0):
    out, i = [], first
    size = 0
    while True:
        it = f"<item jid='u{i:07d}@example.org' name='Jürgen Müller {i} €'><group>Größe {i % 7}</group></item>".encode("utf-8")
        if size + len(it) > nbytes:
            break
        out.append(it)
        size += len(it)
        i += 1
    pad = nbytes - size
    if pad:
        out.append(b" " * pad)      # whitespace between children
    return b"".join(out), i


def _slices(blob, sizes):
    """cut blob into consecutive pieces of (at least) the given sizes; a cut never falls inside a character"""
    res, a = [], 0
    for i, sz in enumerate(sizes):
        b = len(blob) if i + 1 == len(sizes) else a + sz
        while b < len(blob) and (blob[b] & 0xC0) == 0x80:
            b += 1
        res.append(blob[a:b])
        a = b
    return res


_OPEN = {"text": "<message from='big@example.org/x' id='big-text' type='chat'><body>",
         "attr": "<iq type='result' id='big-attr'><blob xmlns='urn:example:blob' data='",
         "child": "<iq type='result' id='big-kids'><query xmlns='jabber:iq:roster' ver='v9'>"}
_CLOSE = {"text": "</body></message>", "attr": "'/></iq>", "child": "</query></iq>"}


def big_stanza(e, kind, weights, mb_after=None):
    """cells of one large stanza: opening tag, content pieces of the given weights (KiB), closing tag;
    mb_after = index of the piece after which a 4-byte character cut 2|2 is inserted"""
    cells = [cell("st", e, "tag", _OPEN[kind])]
    if kind == "child":
        blob, _ = _children(sum(weights) * KIB)
        pieces = _slices(blob, [w * KIB for w in weights])
    else:
        pieces = [_fill(w * KIB) for w in weights]
    for i, pc in enumerate(pieces):
        cells.append(cell("st", e, kind, pc))
        if mb_after == i:
            cells += [cell("st", e, "mb1", b"\xf0\x9f"), cell("st", e, "mb2", b"\x98\x80")]
    cells.append(cell("st", e, "tag", _CLOSE[kind]))
    return cells


_SMALL1 = "<presence from='juergen@example.org/phone'><status>zurück</status></presence>"
_SMALL2 = "<r xmlns='urn:xmpp:sm:3'/>"


def size_model_variants():
    """byte-exact instances of the model shapes m7..m9 (cells and weights as in spec/Framing.tla)"""
    h = H(1, ("tag", f"<stream:stream {NS} from='example.org' id='big' version='1.0'>"))
    out = []
    out.append(stream("m7a", h + S(1, ("tag", _SMALL1)) + big_stanza(2, "text", [4, 59, 1, 1, 5]) + S(3, ("tag", _SMALL2))
                      + C("</stream:stream>"), "70 KiB of text in one stanza", klass="size"))
    out.append(stream("m8a", h + big_stanza(1, "attr", [64, 64, 172], mb_after=1) + S(2, ("tag", _SMALL2)) + C("</stream:stream>"),
                      "300 KiB in one attribute value, 4-byte character cut 2|2 inside", klass="size"))
    out.append(stream("m9a", h + big_stanza(1, "child", [16, 48, 1, 1061]) + W("\n") + S(2, ("tag", _SMALL1)) + C("</stream:", "stream>"),
                      "1.1 MiB of child elements in one stanza", klass="size"))
    return out


def size_streams(names):
    """header, small stanza, ONE stanza of the size class, small stanza, keep-alive, close; names like '70k-attr'"""
    out = []
    for nm in names:
        size, kind = nm.split("-")
        w = SIZES[size]
        cells = H(1, ("tag", f"<stream:stream {NS} from='example.org' id='z{size}' version='1.0'>")) + S(1, ("xml", _SMALL1))
        cells += [dict(c, p="xml" if c["p"] == "tag" else c["p"]) for c in big_stanza(2, kind, [w])]
        cells += S(3, ("xml", _SMALL2)) + W("\n") + C("</stream:stream>")
        out.append(stream("z" + size + kind[0], cells, f"{w} KiB stanza ({kind})", klass="size"))
    return out


def big_element(st):
    """(first byte offset, end offset) of the largest top-level element"""
    elems, _ = elements(st)
    best, lo = (0, 0), 0
    for el in elems:
        if el["to"] - lo > best[1] - best[0]:
            best = (lo, el["to"])
        lo = el["to"]
    return best


def _units_offset(b, start, units):
    """byte offset at which the text from `start` has `units` UTF-16 code units (None if shorter)"""
    i, u = start, 0
    while i < len(b) and u < units:
        c = b[i]
        ln = 1 if c < 0x80 else 2 if c < 0xE0 else 3 if c < 0xF0 else 4
        u += 2 if ln == 4 else 1
        i += ln
    return i if u >= units else None


def size_partitions(st, thorough=False, max_reads=24):
    """partitions of a stream with a large stanza, positions relative to that stanza:
    2-way splits after k*4 KiB, around k*64 KiB (bytes and UTF-16 units, counted from the start of the
    stanza and of the stream), at its first/last bytes; uniform chunks of 4 KiB, 16 KiB, 64 KiB-1, 64 KiB,
    64 KiB+1 (only those with at most max_reads reads)."""
    b = data(st)
    n = len(b)
    B, E = big_element(st)
    lean = not thorough and n > 512 * KIB      # quick tier, largest class: every parse attempt costs ~0.5 s
    pre_close = E - len(b[:E].rsplit(b"<", 1)[-1]) - 1
    pos = {B + 1, E - 1, pre_close} if lean else {B, B + 1, E - 1, E - 2, E, pre_close}
    ks4 = range(1, 17) if thorough else (1,) if lean else (1, 2, 3)
    pos |= {B + k * 4096 for k in ks4}
    kmax = (E - B) // 65536
    ks64 = range(1, kmax + 1) if thorough else sorted({1, 2, kmax} & set(range(1, kmax + 1)))
    for k in ks64:
        for d in ((-1, 0, 1) if k == 1 or not lean else (1,)):
            if lean and k == 2:
                continue
            pos.add(B + k * 65536 + d)
            if not lean:
                pos.add(k * 65536 + d)
            for start in ((B,) if lean else (0, B)):
                o = _units_offset(b, start, k * 65536 + d)
                if o is not None and (not lean or d >= 0):
                    pos.add(o)
    jobs = [{"cuts": [p], "src": "size2"} for p in sorted(pos) if 0 < p < n]
    for sz in (4096, 16384, 65535, 65536, 65537):
        if not thorough and n > 512 * KIB and sz != 65536:
            continue      # quick tier: one uniform partition of the largest streams (every read re-parses the remainder)
        if sz < n and -(-n // sz) <= max_reads:
            jobs.append({"cuts": list(range(sz, n, sz)), "src": "chunk"})
    return jobs


def describe_coarse(st, cutsets):
    """description with COARSE atoms for large streams: an atom is the run of bytes between two
    consecutive positions of interest (element ends, every cut position any execution of this stream
    uses, begin and end of every character such a position falls into).  Returns (description, ends)
    with ends[i] = byte offset of the end of atom i+1."""
    b = data(st)
    b.decode("utf-8")
    elems, sync = elements(st)
    P = {el["to"] for el in elems} | set(sync)
    cut_chars = {}
    for cs in cutsets:
        for p in cs:
            if not 0 < p < len(b):
                continue
            P.add(p)
            if (b[p] & 0xC0) == 0x80:      # inside a character: its parts are atoms of their own
                a = p
                while (b[a] & 0xC0) == 0x80:
                    a -= 1
                z = p
                while z < len(b) and (b[z] & 0xC0) == 0x80:
                    z += 1
                P |= {a, z}
                cut_chars[a] = z
    P.discard(0)
    ends = sorted(P)
    idx = {p: i + 1 for i, p in enumerate(ends)}
    cw, nb = [], len(ends)
    bnd, held = [0] * nb, [0] * nb
    for j, el in enumerate(elems):
        bnd[idx[el["to"]] - 1] = j + 1
    chars = []
    for a, z in sorted(cut_chars.items()):
        fa, ta = (idx[a] + 1 if a else 1), idx[z]
        chars.append({"from": fa, "to": ta})
        for q in range(fa, ta):
            held[q - 1] = q - fa + 1
    desc = {"n": nb, "elems": [{"k": el["k"], "e": el["e"], "to": idx[el["to"]]} for el in elems], "chars": chars,
            "sync": [idx[p] for p in sync], "bnd": bnd, "held": held, "cw": [p // 1024 for p in ends]}
    return desc, ends


# --------------------------------------------------------------------------- size class of the HEADER
_XNS = " ".join(f"xmlns:x{i}='urn:example:extension:number-{i}'" for i in range(1, 6))


def header_variants():
    """instance of model shape mA: a stream header of ~5 KiB (long from, '>' and multi-byte characters in values)"""
    big = b"from='a>b." + _fill(4300 - 10)
    cells = H(1, ("decl", "<?xml version='1.0' encoding='UTF-8'?>"), ("tag", f"<stream:stream {NS} {_XNS} "),
              ("attr", big), ("mb1", b"\xc3"), ("mb2", b"\xbc"),
              ("attr", "cher.example.org' id='" + "0123456789abcdef" * 20 + ">"), ("tag", "' version='1.0' xml:lang='en'>"))
    cells += S(1, ("tag", FEATURES_POST)) + S(2, ("tag", STANZAS[0])) + C("</stream:stream>")
    return [stream("mAa", cells, "stream header of ~5 KiB (4 KiB attribute value, '>' and multi-byte characters inside)")]


def header_streams():
    """a stream header of ~600 characters: several xmlns:* declarations, long from / to / id, 'ü' and '>' in values"""
    hdr = (f"<stream:stream {NS} {_XNS} from='b\u00fccher.a-rather-long-server-name.example.org' "
           f"to='juergen.m\u00fcller@a-rather-long-client-domain.example.org' id='a>b-{'0123456789abcdef' * 10}' version='1.0' xml:lang='en'>")
    cells = H(1, ("decl", "<?xml version='1.0'?>"), ("tag", hdr)) + _st(1, FEATURES_POST) + _st(2, STANZAS[0]) + W("\n") \
        + _st(3, STANZAS[2]) + C("</stream:stream>")
    return [stream("h1", cells, f"stream header of {len(hdr)} characters")]
