#!/usr/bin/env python3
"""Corrupted-trace demonstration for the extension `clientaux` (rule 10a of docs/BUILDING-A-CHECK.md).

Records one execution of a fixed behaviour with `qxv clientaux` (or, with --stored, takes
lib/ext/clientaux.sample.ndjson), checks that ClientAuxTrace accepts it (no failed predicate, not
diverged), then corrupts one recorded field at a time and shows which predicate the monitor reports.

usage: python3 lib/ext/clientaux_corrupt.py [--stored] [--write-sample]"""
import copy
import json
import os
import sys

sys.path.insert(0, os.path.join(os.path.dirname(os.path.abspath(__file__)), ".."))
import vf  # noqa: E402

HERE = os.path.dirname(os.path.abspath(__file__))
SAMPLE = os.path.join(HERE, "clientaux.sample.ndjson")
F = {"s2": True, "b2": True, "b2csi": True, "b2carb": True, "b2sm": True, "r2": True, "fast": True}
BEHAVIOUR = {"cfg": {"carb": True, "fast": True, "tok0": False}, "steps": [
    {"k": "SetState", "v": "inactive"},
    {"k": "Connect", "f": F},
    {"k": "AuthOk2", "tk": True, "res": "none", "bnd": "sm"},
    {"k": "PostFeatures", "g": {"csi": True, "sm": True}},
    {"k": "SetState", "v": "active"},
    {"k": "Cut"},
    {"k": "SetState", "v": "inactive"},
    {"k": "Connect", "f": F},
    {"k": "AuthOk2", "tk": True, "res": "resumed", "bnd": "none"},
    {"k": "SetState", "v": "active"},
]}


def validate(lines, tag):
    d = os.path.join(vf.OUT, "ext-clientaux-corrupt")
    os.makedirs(d, exist_ok=True)
    p = os.path.join(d, tag + ".ndjson")
    vf.write_ndjson(p, lines)
    return vf.tlc_trace("ClientAuxTrace.tla", "ClientAuxTrace.cfg", p, tag="ClientAuxTrace-corrupt-" + tag)


def find(lines, e, nth=1):
    n = 0
    for i, o in enumerate(lines):
        if o.get("e") == e:
            n += 1
            if n == nth:
                return i
    raise KeyError(e)


def csi(kind):
    return {"k": kind, "mech": "", "bind": False, "inact": False, "carb": False, "sm": False, "res": False,
            "rtok": False, "fast": False, "tok": 0}


def corruptions():
    def drop_resend(t):       # the state re-sent on the resumed session vanishes from the record
        o = t[find(t, "AuthOk2", 2)]
        o["out"] = [x for x in o["out"] if x["k"] != "CsiInactive"]

    def drop_setstate_write(t):   # setActive(true) on the open session wrote nothing
        o = t[find(t, "SetState", 2)]
        o["out"] = [x for x in o["out"] if x["k"] != "CsiActive"]

    def extra_carbons(t):     # a carbons request on the resumed session
        t[find(t, "AuthOk2", 2)]["out"].append(csi("CarbonsIq"))

    def no_inline_carbons(t):  # the bind2 request did not ask for carbons (and no IQ followed)
        for x in t[find(t, "Connect", 1)]["out"]:
            if x["k"] == "Sasl2Authenticate":
                x["carb"] = False

    def token_not_stored(t):  # the token delivered in <success/> did not replace the stored one
        i = find(t, "AuthOk2", 2)
        for o in t[i:]:
            if "post" in o:
                o["post"]["tok"] = 2

    def signal_missing(t):    # credentialsChanged() not fired for the rotated token
        o = t[find(t, "AuthOk2", 2)]
        o["sig"] = [x for x in o["sig"] if x != "credentialsChanged"]

    def signal_spurious(t):   # credentialsChanged() fired although nothing changed
        t[find(t, "SetState", 4)]["sig"].append("credentialsChanged")

    def no_request(t):        # no token requested although FAST is offered and none is stored
        for x in t[find(t, "Connect", 1)]["out"]:
            if x["k"] == "Sasl2Authenticate":
                x["rtok"] = False

    def wrong_mechanism(t):   # password used although a token is stored and FAST is offered
        for x in t[find(t, "Connect", 2)]["out"]:
            if x["k"] == "Sasl2Authenticate":
                x["mech"], x["fast"], x["tok"] = "PLAIN", False, 0

    def csi_unoffered(t):     # the server never offered <csi/>, yet the state was written
        t[find(t, "PostFeatures", 1)]["g"]["csi"] = False

    return [("re-sent state missing on the resumed session", drop_resend, "CsiServerDisagrees"),
            ("setActive(true) wrote nothing", drop_setstate_write, "CsiServerDisagrees"),
            ("carbons requested again on the resumed session", extra_carbons, "CarbonsNotOncePerSession"),
            ("carbons neither inline nor by IQ", no_inline_carbons, "CarbonsNotOncePerSession"),
            ("delivered token not stored", token_not_stored, "TokenNotStored"),
            ("credentialsChanged() missing", signal_missing, "TokenChangeNotReported"),
            ("credentialsChanged() without a change", signal_spurious, "CredentialsChangedUnjustified"),
            ("token not requested", no_request, "TokenRequestWrong"),
            ("stored token not used", wrong_mechanism, "TokenMechanismWrong"),
            ("state written although <csi/> was never offered", csi_unoffered, "CsiSentWhenNotOffered")]


def main():
    stored = "--stored" in sys.argv
    if stored:
        trace = vf.read_ndjson(SAMPLE)
    else:
        d = os.path.join(vf.OUT, "ext-clientaux-corrupt")
        os.makedirs(d, exist_ok=True)
        bp, tp = os.path.join(d, "behaviour.ndjson"), os.path.join(d, "recorded.ndjson")
        vf.write_ndjson(bp, [BEHAVIOUR])
        vf.qxv("clientaux", tp, in_path=bp)
        trace = vf.read_ndjson(tp)
        if "--write-sample" in sys.argv:
            vf.write_ndjson(SAMPLE, trace)
    s = validate(trace, "accepted")
    ok = not s["viol"] and s["ndiv"] == 0
    print(f"recorded trace: {s['lines']} lines, failed predicates {sorted({v['prop'] for v in s['viol']})}, diverged {s['ndiv']}"
          f" -> {'accepted' if ok else 'NOT ACCEPTED'}")
    rc = 0 if ok else 1
    for what, fn, expect in corruptions():
        t = copy.deepcopy(trace)
        fn(t)
        s = validate(t, "c-" + expect + "-" + fn.__name__)
        got = sorted({v["prop"] for v in s["viol"]})
        hit = expect in got
        rc = rc or (0 if hit else 1)
        print(f"{'caught' if hit else 'MISSED'}  {what:58s} -> {', '.join(got) or '-'}")
    return rc


if __name__ == "__main__":
    sys.exit(main())
