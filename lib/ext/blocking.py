"""Extension `blocking` — QXmppBlockingManager / QXmppBlocklist (XEP-0191 Blocking Command).
Spec: spec/Blocking.tla (+BlockingGen, BlockingTrace). Driver: qxv blocking (in-memory client, real receive path,
real session end through the socket). Decides no listed property: records chk.cov["extensions"]["blocking"];
`bin/check-ext blocking` exits 1 iff an execution of the real code contradicts an invariant of the extension spec
in a way that is not listed in lib/ext/blocking_known.json (docs/ext-blocking.md)."""
import json
import os
import random
import re
import sys
import time

sys.path.insert(0, os.path.join(os.path.dirname(os.path.abspath(__file__)), ".."))   # when run as a script
import vf  # noqa: E402

NAME = "blocking"
TLC_WORKERS = 4
KNOWN = os.path.join(os.path.dirname(os.path.abspath(__file__)), "blocking_known.json")

MC_QUICK = ["Blocking.cfg"]
MC_THOROUGH = ["BlockingBig.cfg", "BlockingThree.cfg"]
TOURS = ["BlockingGenTourPush.cfg", "BlockingGenTourCmd.cfg", "BlockingGenTourSess.cfg", "BlockingGenTourRetry.cfg"]
MAX_CRASHES = 2000


def _j(J):
    return "[" + "+".join(J) + "]"


def _step(st):
    """Compact, stable rendering of one event (used in failure signatures and in the evidence)."""
    a = st["a"]
    if a == "Fetch":
        return "Fetch(retry)" if st["re"] else "Fetch"
    if a in ("Block", "Unblock"):
        return f"{a}{_j(st['J'])}"
    if a == "Deliver":
        m = st["m"]
        k = m["k"]
        arg = _j(m["J"]) if k in ("pblock", "punblock", "fres") else ""
        idp = f"#{m['id']}" if k in ("fres", "res", "err") else ""
        return f"Deliver({k}{idp}{arg}{',from=bare' if st.get('fr') == 'bare' else ''})"
    if a == "Srv":
        return f"Srv({st['rq']['k']}#{st['rq']['id']}:{st['mode']})"
    if a == "Other":
        return f"Other({st['k']}{_j(st['J'])}{',to-all' if st['all'] else ''})"
    if a == "Foreign":
        return f"Foreign({st['k']},from={st['fr']})"
    if a == "PushGet":
        return "PushGet"
    if a == "ForeignRes":
        return f"ForeignRes({st['k']}#{st['id']})"
    if a in ("Disconnect", "Connect"):
        return f"{a}({st.get('kd') or st.get('kc')})"
    if a == "Probe":
        return f"Probe({_j(st['L'])}?{st['q']})"
    return a


def _deviation(steps, props):
    """The documented departure of the checked tree (docs/ext-blocking.md) that the first failing step exercises,
    decided from the history and from which predicates fail; anything else is "other"."""
    st, ps = steps[-1], set(props)
    if st["a"] == "Deliver" and st["m"]["k"] == "punblock" and not st["m"]["J"] and ps <= {"Truth", "Cache", "Signals"}:
        return "B1-unblock-all"
    if (st["a"] == "Deliver" and st["m"]["k"] == "err" and ps <= {"Sent", "Tasks"}
            and any(s["a"] == "Fetch" and s["re"] for s in steps)):
        return "B2-fetch-from-continuation"
    return "other"


def _strip(behs):
    for b in behs:
        b.pop("moves", None)
    return behs


def _close(b):
    """Every behaviour ends with the end of the session (plain disconnect, or a new stream if it is down but
    resumable): afterwards no task may be pending (predicate Fresh)."""
    conn = "up"
    for s in b["steps"]:
        if s["a"] == "Disconnect":
            conn = "res" if s["kd"] == "resumable" else "down"
        elif s["a"] == "Connect":
            conn = "up"
        elif s["a"] == "Probe":
            return b
    if conn == "up":
        b["steps"] = b["steps"] + [{"a": "Disconnect", "kd": "plain"}]
    elif conn == "res":
        b["steps"] = b["steps"] + [{"a": "Connect", "kc": "new"}]
    return b


def _generate(chk, quick, gen):
    rng = random.Random(chk.seed)
    behs = []
    for cfg in TOURS:
        tour, st = vf.tlc_gen("BlockingGen.tla", cfg, steps_key=None)
        moving = [b for b in tour if b["moves"]]
        quiet = [b for b in tour if not b["moves"]]
        st["moving"] = len(moving)
        st["quiet"] = len(quiet)
        if quick:
            rng.shuffle(quiet)
            quiet = quiet[:400]
        st["quiet_replayed"] = len(quiet)
        gen[cfg.replace(".cfg", "")] = st
        behs += _strip(moving) + _strip(quiet)
    ntour = len(behs)
    allp, st = vf.tlc_gen("BlockingGen.tla", "BlockingGenAll.cfg" if quick else "BlockingGenAll7.cfg", steps_key=None)
    allp = vf.maximal_behaviours(_strip(allp))
    st["behaviours"] = len(allp)
    cap = 3000 if quick else 25000
    if len(allp) > cap:
        rng.shuffle(allp)
        allp = allp[:cap]
    st["replayed"] = len(allp)
    gen["all_paths"] = st
    behs += allp
    sim, st = vf.tlc_simulate("BlockingGen.tla", "BlockingGenSim.cfg", num=100 if quick else 1500, depth=30 if quick else 50,
                              seed=chk.seed, workers=TLC_WORKERS, steps_key=None)
    sim = vf.maximal_behaviours(_strip(sim))
    st["behaviours"] = len(sim)
    gen["simulate"] = st
    behs += sim
    probes, st = vf.tlc_gen("BlockingGen.tla", "BlockingGenProbe.cfg" if quick else "BlockingGenProbe3.cfg", steps_key=None)
    st["behaviours"] = len(probes)
    gen["probes"] = st
    gen["_samples"] = [max(x, key=lambda b: len(b["steps"])) for x in (behs[:ntour], allp, sim) if x] + probes[-1:]
    behs = vf.maximal_behaviours(behs)
    return [_close(b) for b in behs] + _strip(probes)


def replay(behs, trace, seed=1, tier="quick", symbolize=False):
    """qxv blocking over all behaviours.  The driver runs the executions in a forked child and closes an execution in
    which the library crashes (sanitizer report, assertion, signal) with a "Crash" line; the reports on stderr are in the
    order of those lines.  Returns (crashes, wall)."""
    bp = trace.replace(".ndjson", ".in.ndjson")
    vf.write_ndjson(bp, behs)
    asan = "detect_leaks=0:abort_on_error=0:halt_on_error=1:allocator_may_return_null=1" + ("" if symbolize else ":symbolize=0")
    r = vf.qxv(NAME, trace, in_path=bp, seed=seed, tier=tier, check=False, env={"ASAN_OPTIONS": asan})
    vf.repair_truncated(trace)
    if r["rc"] != 0:
        raise vf.MachineryError(f"qxv {NAME} ended abnormally (rc={r['rc']}):\n{r['stderr'][-2000:]}")
    crashes = []
    chunks = re.split(r"QXV-CRASH case=(\S+)\n", r["stderr"])
    reports = {chunks[i + 1]: chunks[i] for i in range(0, len(chunks) - 1, 2)}
    cur, steps = None, 0
    for ln in vf.read_ndjson(trace):
        if ln.get("e") == "Reset":
            cur, steps = ln["case"], 0
        elif ln.get("e") == "Crash":
            rep = reports.get(ln["case"], "")
            crashes.append({"case": ln["case"], "steps_completed": steps,
                            "signature": vf.san_signature({"sanitizer": vf.sanitizer_reports(rep), "rc": ln.get("status", "?")}),
                            "stderr": rep[-3000:]})
        else:
            steps += 1
    if len(crashes) > MAX_CRASHES:
        vf.log(f"ext {NAME}: {len(crashes)} crashing executions")
    return crashes, r["wall_s"]


def classify(behs_by_id, trace, fails, crashes):
    """Failure classes: key -> {executions, predicates, shortest history, observation}."""
    cases = vf.split_cases(trace, with_lines=True) if fails else {}
    classes = {}

    def add(key, props, upto, obs, srv0):
        c = classes.setdefault(key, {"predicates": props, "executions": 0, "shortest": None})
        c["executions"] += 1
        if c["shortest"] is None or len(upto) < len(c["shortest"]):
            c["shortest"] = upto
            c["srv0"] = srv0
            c["_obs"] = obs
    for f in fails:
        b = behs_by_id[f["case"]]
        lines = cases[f["case"]]
        upto = b["steps"][:max(1, f["line"] - lines[0]["_l"])]
        props = sorted(f["props"])
        obs = [x for x in lines if x["_l"] == f["line"]][0].get("o")
        if f["e"] == "Probe":
            st = upto[-1]
            ref = f["ref"]
            atoms = ([f"Probe:{st['q']}:blocking-missing:{j}" for j in sorted(set(ref["bl"]) - set(obs["bl"]))]
                     + [f"Probe:{st['q']}:blocking-spurious:{j}" for j in sorted(set(obs["bl"]) - set(ref["bl"]))]
                     + [f"Probe:{st['q']}:partial-missing:{j}" for j in sorted(set(ref["pl"]) - set(obs["pl"]))]
                     + [f"Probe:{st['q']}:partial-spurious:{j}" for j in sorted(set(obs["pl"]) - set(ref["pl"]))])
            for at in atoms or [f"Probe:{st['q']}:state:{obs['kind']}"]:
                add(at, props, upto, {"observed": obs, "reference": ref}, [])
            continue
        key = _deviation(upto, props) + ":" + _step(upto[-1]).split("(")[0] + ":" + "+".join(props)
        add(key, props, upto, {"observed": obs, "reference": f.get("ref")}, b.get("srv0", []))
    for cr in crashes:
        b = behs_by_id[cr["case"]]
        upto = b["steps"][:cr["steps_completed"] + 1]
        dev = "B2-fetch-from-continuation" if any(s["a"] == "Fetch" and s["re"] for s in upto) and upto[-1]["a"] == "Deliver" \
            and upto[-1]["m"]["k"] == "err" else "other"
        add(f"{dev}:Crash:{cr['signature']}", ["NoCrash"], upto, {"stderr": cr["stderr"][-1500:]}, b.get("srv0", []))
    return classes


def load_known():
    """QXV_NO_KNOWN=1: nothing is known (for runs on a tree that has the repairs applied)."""
    if os.environ.get("QXV_NO_KNOWN") or not os.path.exists(KNOWN):
        return {}
    return {k["signature"]: k for k in json.load(open(KNOWN)).get("findings", [])}


def validate(trace, tag=None):
    fpath = trace.replace(".ndjson", "-fails.ndjson")
    open(fpath, "w").close()
    s = vf.tlc_trace("BlockingTrace.tla", "BlockingTrace.cfg", trace, tag=tag, env={"QXV_FAILS": fpath})
    fails = vf._decode_gen(fpath)
    if len(fails) != s["nfail"]:
        raise vf.MachineryError(f"trace validation reported {s['nfail']} failing executions but wrote {len(fails)} records")
    return s, fails


def run(chk, replay_path=None):
    quick = chk.tier == "quick"
    t0 = time.time()
    res = {"states": 0, "transitions": 0, "model_runs": []}
    chk.cov.setdefault("extensions", {})[NAME] = res
    # 1. design level: exhaustive model checks (a failing one is a bug of the specification)
    for cfg in MC_QUICK + ([] if quick else MC_THOROUGH):
        r = vf.tlc_mc("Blocking.tla", cfg, workers=TLC_WORKERS)
        if not r["ok"]:
            raise vf.MachineryError(f"design spec Blocking.tla/{cfg} does not satisfy its properties (or TLC failed); see log")
        res["states"] += r["distinct"]
        res["transitions"] += r["states"]
        res["model_runs"].append({"model": cfg, "distinct_states": r["distinct"], "transitions": r["states"],
                                  "depth": r["depth"], "wall_s": r["wall_s"]})
    # 2. behaviours
    if replay_path:
        behs = [b for b in vf.read_ndjson(replay_path) if "steps" in b]
        samples = behs[:3]
    else:
        res["generation"] = {}
        behs = _generate(chk, quick, res["generation"])
        samples = res["generation"].pop("_samples")
    for n, b in enumerate(behs, 1):
        b["id"] = f"b{n}"
        b.setdefault("srv0", [])
    by_id = {b["id"]: b for b in behs}
    vf.write_ndjson(chk.path(f"{NAME}-behaviours.ndjson"), behs)
    # 3. replay on the real client + blocking manager
    trace = chk.path(f"{NAME}-trace.ndjson")
    crashes, wall = replay(behs, trace, seed=chk.seed, tier=chk.tier)
    # 4. trace validation
    s, fails = validate(trace)
    if s["cases"] != len(behs):
        raise vf.MachineryError(f"{len(behs)} behaviours replayed but {s['cases']} executions validated")
    # 5. conformance failures: classes; those listed in blocking_known.json are known findings
    classes = classify(by_id, trace, fails, crashes)
    known = load_known()
    unknown, reported = [], []
    for key, c in sorted(classes.items(), key=lambda kv: (len(kv[1]["shortest"]), kv[0])):
        rec = {"class": key, "executions": c["executions"], "predicates": c["predicates"],
               "minimal_history": [_step(st) for st in c["shortest"]]}
        if key in known:
            rec["known"] = known[key].get("what", "")
            reported.append(rec)
            print(f"KNOWN-FINDING: ext={NAME} {key} ({c['executions']} executions): {known[key].get('what', '')}")
        else:
            unknown.append(rec)
            vf.log(f"ext {NAME}: CONFORMANCE-FAILURE {key} ({c['executions']} executions), shortest: "
                   + ",".join(_step(st) for st in c["shortest"]))
    if classes:
        vf.write_ndjson(chk.path(f"{NAME}-failures.ndjson"),
                        [{"class": k, "steps": c["shortest"], "srv0": c["srv0"], "observed": c["_obs"]} for k, c in classes.items()])
    res.update({
        "executions": s["cases"], "trace_lines": s["lines"], "diverged_executions": s["ndiv"],
        "first_divergences": [{k: d[k] for k in ("case", "line", "e")} for d in s["divs"][:3]],
        "crashed_executions": len(crashes), "failing_executions": s["nfail"] + len(crashes),
        "conformance_failures": unknown, "known_findings": reported,
        "replay_wall_s": wall, "trace_validation_wall_s": s["wall_s"],
        "samples": [[_step(st) for st in b["steps"]] for b in samples],
        "rule": ("behaviours = transition tours of four bounded models (pushes / commands / session / retry) + all event "
                 "sequences of the all-paths depth + seeded random walks over 3 entries and every kind of event, each closed by "
                 "the end of the session, + one execution per blockingState probe (lists of <= 2 (thorough 3) of 8 JIDs x 8 "
                 "queried JIDs); each replayed on a real QXmppClient + QXmppBlockingManager (stanzas injected through "
                 "QXmppOutgoingClient::handlePacketReceived, the session ended through the real socket/closeSession path) "
                 "and validated by BlockingTrace.tla"),
    })
    res["wall_s"] = round(time.time() - t0, 1)
    res["assumptions"] = [
        "the stream delivers in order in both directions; XEP-0198 keeps what is in flight across a resumable loss of the "
        "connection, a session that ends otherwise loses it",
        "the server answers every request exactly once, snapshots the list when it answers the blocklist request, pushes the "
        "items of the command (not the delta) to the resources that asked for the list (or, sloppy, to all)",
        "the application retries a fetch from the continuation only after a stanza error, once",
        "every step is acknowledged (<a h=../>): stream-management resending is outside this extension",
    ]


def main():
    """python3 lib/ext/blocking.py --replay FILE: replay hand-written behaviours (one {"steps":[...]} per line) on the
    built harness and print, per behaviour, the failing predicates and what was observed at the failing step."""
    import argparse
    ap = argparse.ArgumentParser()
    ap.add_argument("--replay", required=True)
    a = ap.parse_args()
    behs = [b for b in vf.read_ndjson(a.replay) if "steps" in b]
    for n, b in enumerate(behs, 1):
        b["id"] = f"b{n}"
        b.setdefault("srv0", [])
    d = os.path.join(vf.OUT, f"ext-{NAME}-replay")
    os.makedirs(d, exist_ok=True)
    tp = os.path.join(d, "trace.ndjson")
    crashes, _ = replay(behs, tp)
    s, fails = validate(tp, tag="BlockingTrace-replay")
    fails = {f["case"]: f for f in fails}
    crashed = {c["case"]: c for c in crashes}
    cases = vf.split_cases(tp, with_lines=True)
    for b in behs:
        cid = b["id"]
        hist = ",".join(_step(st) for st in b["steps"])
        name = b.get("name", cid)
        if cid in crashed:
            print(f"{name}: CRASH after step {crashed[cid]['steps_completed']}: {crashed[cid]['signature']}   {hist}")
            continue
        f = fails.get(cid)
        if not f:
            print(f"{name}: conforms   {hist}")
            continue
        line = [x for x in cases[cid] if x["_l"] == f["line"]][0]
        step = f["line"] - cases[cid][0]["_l"]
        print(f"{name}: FAILS at step {step} {_step(b['steps'][step - 1])}: {', '.join(sorted(f['props']))}   {hist}")
        print("    observed: " + json.dumps(line["o"]))
        if "ref" in f:
            print("    reference: " + json.dumps(f["ref"]))
    return 1 if s["nfail"] or crashes else 0


if __name__ == "__main__":
    sys.exit(main())
