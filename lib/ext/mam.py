"""Extension `mam` — QXmppMamManager (XEP-0313 Message Archive Management), both APIs, with a stub e2ee extension.
Spec: spec/Mam.tla (+MamGen, MamTrace). Driver: qxv mam (in-memory client, real receive path, real session end through
the socket). Decides no listed property: records chk.cov["extensions"]["mam"]; `bin/check-ext mam` exits 1 iff an
execution of the real code contradicts an invariant of the extension spec in a way that is not listed in
lib/ext/mam_known.json (docs/ext-mam.md)."""
import json
import os
import random
import re
import sys
import time

sys.path.insert(0, os.path.join(os.path.dirname(os.path.abspath(__file__)), ".."))   # when run as a script
import vf  # noqa: E402

NAME = "mam"
TLC_WORKERS = 4
MAX_CRASHES = 2000
KNOWN = os.path.join(os.path.dirname(os.path.abspath(__file__)), "mam_known.json")

MC_QUICK = ["Mam.cfg", "MamPaths.cfg"]
MC_THOROUGH = ["MamBig.cfg", "MamPaths6.cfg"]
TOURS = ["MamGenTourTask.cfg", "MamGenTourLegacy.cfg", "MamGenTourMixed.cfg", "MamGenTourE2ee.cfg", "MamGenTourE2ee2.cfg",
         "MamGenTourSess.cfg"]
RIGHT = {"own": ("none", "own"), "muc": ("muc",)}


def _step(st):
    """Compact, stable rendering of one event (used in failure signatures and in the evidence)."""
    a = st["a"]
    if a == "Query":
        return f"Query({st['api']},{st['to']})"
    if a == "Result":
        return f"Result(q{st['q']},from={st['fr']}{',enc' if st['enc'] else ''})#{st['tok']}"
    if a == "Fin":
        return f"Fin(q{st['q']},from={st['fr']}{',complete' if st['c'] else ''})"
    if a == "FinErr":
        return f"FinErr(q{st['q']})"
    if a == "Decrypt":
        return f"Decrypt(#{st['tok']},{'ok' if st['ok'] else 'fails'})"
    if a in ("Disconnect", "Connect"):
        return f"{a}({st.get('kd') or st.get('kc')})"
    return a


def _deviation(steps, props, obs, ref):
    """The documented departure of the checked tree (docs/ext-mam.md) that the first failing step exercises, decided
    from the event, from which predicates fail and from observation vs reference; anything else is "other"."""
    st, ps = steps[-1], set(props)
    tos = [s["to"] for s in steps if s["a"] == "Query"]
    if st["a"] == "Result" and "Sender" in ps:
        return "A1-sender-not-checked"
    if st["a"] in ("Fin", "Decrypt") and ps <= {"Attribution", "Tasks", "Jobs"} and any(s["a"] == "Result" and 1 <= s["q"] <= len(tos) and s["fr"] not in RIGHT[tos[s["q"] - 1]]
                                   for s in steps):
        return "A1-sender-not-checked"
    if st["a"] == "Fin" and ps == {"Signals"} and obs and ref and not ref["sig"] and obs["sig"]:
        return "A2-fin-sender-not-checked"
    if st["a"] == "Result" and ps == {"Signals"} and obs and ref and ref["sig"] and not obs["sig"]:
        return "A3-result-after-fin"
    return "other"


def _strip(behs):
    for b in behs:
        b.pop("moves", None)
    return behs


def _close(b):
    """Every behaviour is closed: running decryption jobs finish, the session ends and a new one begins (every open query
    is cancelled), then one <result/> from our own server per query id used: every query is finished by then, so each must
    come out of the signal API (a query whose state was not released would swallow it)."""
    conn, ntok, nq = "up", 0, 0
    enc = []
    for s in b["steps"]:
        if s["a"] == "Disconnect":
            conn = "res" if s["kd"] == "resumable" else "down"
        elif s["a"] == "Connect":
            conn = "up"
        elif s["a"] == "Result":
            ntok = max(ntok, s["tok"])
            if s["enc"]:
                enc.append(s["tok"])
        elif s["a"] == "Query":
            nq += 1
    tail = [{"a": "Decrypt", "tok": t, "ok": True} for t in enc] if b["e2ee"] else []
    if conn == "up":
        tail.append({"a": "Disconnect", "kd": "plain"})
    tail.append({"a": "Connect", "kc": "new"})
    for n in range(1, nq + 1):
        ntok += 1
        tail.append({"a": "Result", "q": n, "fr": "none", "enc": False, "tok": ntok})
    b["steps"] = b["steps"] + tail
    return b


def _generate(chk, quick, gen):
    rng = random.Random(chk.seed)
    behs = []
    for cfg in TOURS:
        tour, st = vf.tlc_gen("MamGen.tla", cfg, steps_key=None)
        moving = [b for b in tour if b["moves"]]
        quiet = [b for b in tour if not b["moves"]]
        st["moving"] = len(moving)
        st["quiet"] = len(quiet)
        if quick and len(moving) > 1200:
            rng.shuffle(moving)
            moving = moving[:1200]
        if quick:
            rng.shuffle(quiet)
            quiet = quiet[:300]
        st["moving_replayed"] = len(moving)
        st["quiet_replayed"] = len(quiet)
        gen[cfg.replace(".cfg", "")] = st
        behs += _strip(moving) + _strip(quiet)
    ntour = len(behs)
    allp, st = vf.tlc_gen("MamGen.tla", "MamGenAll.cfg" if quick else "MamGenAll6.cfg", steps_key=None)
    allp = vf.maximal_behaviours(_strip(allp))
    st["behaviours"] = len(allp)
    cap = 1500 if quick else 25000
    if len(allp) > cap:
        rng.shuffle(allp)
        allp = allp[:cap]
    st["replayed"] = len(allp)
    gen["all_paths"] = st
    behs += allp
    sims = []
    for cfg in ("MamGenSim.cfg", "MamGenSimPlain.cfg"):
        sim, st = vf.tlc_simulate("MamGen.tla", cfg, num=40 if quick else 800, depth=25 if quick else 50,
                                  seed=chk.seed, workers=TLC_WORKERS, steps_key=None)
        sim = vf.maximal_behaviours(_strip(sim))
        st["behaviours"] = len(sim)
        gen[cfg.replace(".cfg", "")] = st
        sims += sim
    behs += sims
    gen["_samples"] = [max(x, key=lambda b: len(b["steps"])) for x in (behs[:ntour], allp, sims) if x]
    behs = vf.maximal_behaviours(behs)
    return [_close(b) for b in behs]


def replay(behs, trace, seed=1, tier="quick", symbolize=False):
    """qxv mam over all behaviours.  The driver runs the executions in a forked child and closes an execution in
    which the library crashes (sanitizer report, assertion, signal) with a "Crash" line; the reports on stderr are in the
    order of those lines.  Returns (crashes, wall)."""
    bp = trace.replace(".ndjson", ".in.ndjson")
    vf.write_ndjson(bp, behs)
    asan = "detect_leaks=0:abort_on_error=0:halt_on_error=1:allocator_may_return_null=1" + ("" if symbolize else ":symbolize=0")
    r = vf.qxv(NAME, trace, in_path=bp, seed=seed, tier=tier, check=False, env={"ASAN_OPTIONS": asan})
    vf.repair_truncated(trace)
    if r["rc"] != 0:
        raise vf.MachineryError(f"qxv {NAME} ended abnormally (rc={r['rc']}):\n{r['stderr'][-2000:]}")
    crashes = []
    chunks = re.split(r"QXV-CRASH case=(\S+)\n", r["stderr"])
    reports = {chunks[i + 1]: chunks[i] for i in range(0, len(chunks) - 1, 2)}
    cur, steps = None, 0
    for ln in vf.read_ndjson(trace):
        if ln.get("e") == "Reset":
            cur, steps = ln["case"], 0
        elif ln.get("e") == "Crash":
            rep = reports.get(ln["case"], "")
            m = re.search(r'ASSERT[^\n]*: "([^"]*)"', rep)
            crashes.append({"case": ln["case"], "steps_completed": steps,
                            "signature": ("ASSERT " + m.group(1)) if m else
                            vf.san_signature({"sanitizer": vf.sanitizer_reports(rep), "rc": ln.get("status", "?")}),
                            "stderr": rep[-3000:]})
        else:
            steps += 1
    if len(crashes) > MAX_CRASHES:
        vf.log(f"ext {NAME}: {len(crashes)} crashing executions")
    return crashes, r["wall_s"]


def classify(behs_by_id, trace, fails, crashes):
    """Failure classes: key -> {executions, predicates, shortest history, observation}."""
    cases = vf.split_cases(trace, with_lines=True) if fails else {}
    classes = {}

    def add(key, props, upto, obs):
        c = classes.setdefault(key, {"predicates": props, "executions": 0, "shortest": None})
        c["executions"] += 1
        if c["shortest"] is None or len(upto) < len(c["shortest"]):
            c["shortest"] = upto
            c["_obs"] = obs
    for f in fails:
        b = behs_by_id[f["case"]]
        lines = cases[f["case"]]
        upto = b["steps"][:max(1, f["line"] - lines[0]["_l"])]
        props = sorted(f["props"])
        obs = [x for x in lines if x["_l"] == f["line"]][0].get("o")
        key = _deviation(upto, props, obs, f.get("ref")) + ":" + upto[-1]["a"] + ":" + "+".join(props)
        add(key, props, upto, {"observed": obs, "reference": f.get("ref"), "e2ee": b["e2ee"]})
    for cr in crashes:
        b = behs_by_id[cr["case"]]
        upto = b["steps"][:cr["steps_completed"] + 1]
        add(f"other:Crash:{cr['signature']}", ["NoCrash"], upto, {"stderr": cr["stderr"][-1500:], "e2ee": b["e2ee"]})
    return classes


def load_known():
    """QXV_NO_KNOWN=1: nothing is known (for runs on a tree that has the repairs applied)."""
    if os.environ.get("QXV_NO_KNOWN") or not os.path.exists(KNOWN):
        return {}
    return {k["signature"]: k for k in json.load(open(KNOWN)).get("findings", [])}


def validate(trace, e2ee, tag=None):
    fpath = trace.replace(".ndjson", "-fails.ndjson")
    open(fpath, "w").close()
    cfg = "MamTrace.cfg" if e2ee else "MamTracePlain.cfg"
    s = vf.tlc_trace("MamTrace.tla", cfg, trace, tag=tag or cfg.replace(".cfg", ""), env={"QXV_FAILS": fpath})
    fails = vf._decode_gen(fpath)
    if len(fails) != s["nfail"]:
        raise vf.MachineryError(f"trace validation reported {s['nfail']} failing executions but wrote {len(fails)} records")
    return s, fails


def replay_and_validate(behs, outdir, seed=1, tier="quick", tagp=""):
    """The e2ee flag is a constant of the specification: the executions with and without the extension are replayed and
    validated separately.  Returns (summary totals, fails, crashes, trace paths)."""
    tot = {"cases": 0, "lines": 0, "nfail": 0, "ndiv": 0, "aborts": 0, "divs": [], "replay_wall_s": 0, "wall_s": 0}
    fails, crashes, traces = [], [], {}
    for e2ee in (False, True):
        part = [b for b in behs if bool(b["e2ee"]) == e2ee]
        if not part:
            continue
        trace = os.path.join(outdir, f"{NAME}-trace-{'e2ee' if e2ee else 'plain'}.ndjson")
        cr, wall = replay(part, trace, seed=seed, tier=tier)
        s, fl = validate(trace, e2ee, tag=f"{tagp}MamTrace{'E' if e2ee else 'P'}")
        if s["cases"] != len(part):
            raise vf.MachineryError(f"{len(part)} behaviours replayed but {s['cases']} executions validated")
        for k in ("cases", "lines", "nfail", "ndiv", "aborts", "wall_s"):
            tot[k] += s[k]
        tot["divs"] += s["divs"]
        tot["replay_wall_s"] += wall
        for f in fl:
            f["_trace"] = trace
        fails += fl
        crashes += cr
        traces[e2ee] = trace
    return tot, fails, crashes, traces


def run(chk, replay_path=None):
    quick = chk.tier == "quick"
    t0 = time.time()
    res = {"states": 0, "transitions": 0, "model_runs": []}
    chk.cov.setdefault("extensions", {})[NAME] = res
    for cfg in MC_QUICK + ([] if quick else MC_THOROUGH):
        r = vf.tlc_mc("Mam.tla", cfg, workers=TLC_WORKERS)
        if not r["ok"]:
            raise vf.MachineryError(f"design spec Mam.tla/{cfg} does not satisfy its properties (or TLC failed); see log")
        res["states"] += r["distinct"]
        res["transitions"] += r["states"]
        res["model_runs"].append({"model": cfg, "distinct_states": r["distinct"], "transitions": r["states"],
                                  "depth": r["depth"], "wall_s": r["wall_s"]})
    if replay_path:
        behs = [b for b in vf.read_ndjson(replay_path) if "steps" in b]
        samples = behs[:3]
    else:
        res["generation"] = {}
        behs = _generate(chk, quick, res["generation"])
        samples = res["generation"].pop("_samples")
    for n, b in enumerate(behs, 1):
        b["id"] = f"b{n}"
        b.setdefault("e2ee", False)
    by_id = {b["id"]: b for b in behs}
    vf.write_ndjson(chk.path(f"{NAME}-behaviours.ndjson"), behs)
    s, fails, crashes, _ = replay_and_validate(behs, chk.outdir, seed=chk.seed, tier=chk.tier)
    classes = {}
    for tr in sorted({f["_trace"] for f in fails}):
        for k, c in classify(by_id, tr, [f for f in fails if f["_trace"] == tr], []).items():
            d = classes.setdefault(k, c)
            if d is not c:
                d["executions"] += c["executions"]
                if len(c["shortest"]) < len(d["shortest"]):
                    d["shortest"], d["_obs"] = c["shortest"], c["_obs"]
    for k, c in classify(by_id, None, [], crashes).items():
        classes[k] = c
    known = load_known()
    unknown, reported = [], []
    for key, c in sorted(classes.items(), key=lambda kv: (len(kv[1]["shortest"]), kv[0])):
        rec = {"class": key, "executions": c["executions"], "predicates": c["predicates"],
               "minimal_history": [_step(st) for st in c["shortest"]]}
        if key in known:
            rec["known"] = known[key].get("what", "")
            reported.append(rec)
            print(f"KNOWN-FINDING: ext={NAME} {key} ({c['executions']} executions): {known[key].get('what', '')}")
        else:
            unknown.append(rec)
            vf.log(f"ext {NAME}: CONFORMANCE-FAILURE {key} ({c['executions']} executions), shortest: "
                   + ",".join(_step(st) for st in c["shortest"]))
    if classes:
        vf.write_ndjson(chk.path(f"{NAME}-failures.ndjson"),
                        [{"class": k, "steps": c["shortest"], "observed": c["_obs"]} for k, c in classes.items()])
    res.update({
        "executions": s["cases"], "trace_lines": s["lines"], "diverged_executions": s["ndiv"],
        "first_divergences": [{k: d[k] for k in ("case", "line", "e")} for d in s["divs"][:3]],
        "crashed_executions": len(crashes), "failing_executions": s["nfail"] + len(crashes),
        "conformance_failures": unknown, "known_findings": reported,
        "replay_wall_s": round(s["replay_wall_s"], 1), "trace_validation_wall_s": round(s["wall_s"], 1),
        "samples": [[_step(st) for st in b["steps"]] for b in samples],
        "rule": ("behaviours = transition tours of six bounded models (task API with two archives and four senders; signal API; "
                 "both APIs interleaved; e2ee with 1 and 2 queries; session) + all event sequences of the all-paths depth + seeded "
                 "random walks with and without the encryption extension, each closed by finishing the decryption jobs, ending "
                 "the session and one late <result/> per query id; each replayed on a real QXmppClient + QXmppMamManager (+ stub "
                 "QXmppE2eeExtension) and validated by MamTrace.tla"),
    })
    res["wall_s"] = round(time.time() - t0, 1)
    res["assumptions"] = [
        "results and fins arrive on a live session; an archive answers a request once",
        "a <result/> names a query id that was used in this execution or an id nobody used; its sender is absent, the account, "
        "the queried MUC or a foreign entity",
        "the encryption extension recognises an encrypted archived message from its public part and finishes every job, in any "
        "order, with a decrypted message or an error",
        "every step is acknowledged (<a h=../>): stream-management resending is outside this extension",
    ]


def main():
    """python3 lib/ext/mam.py --replay FILE: replay hand-written behaviours (one {"e2ee":..,"steps":[...]} per line) on the
    built harness and print, per behaviour, the failing predicates and what was observed at the failing step."""
    import argparse
    ap = argparse.ArgumentParser()
    ap.add_argument("--replay", required=True)
    a = ap.parse_args()
    behs = [b for b in vf.read_ndjson(a.replay) if "steps" in b]
    for n, b in enumerate(behs, 1):
        b["id"] = f"b{n}"
        b.setdefault("e2ee", False)
    d = os.path.join(vf.OUT, f"ext-{NAME}-replay")
    os.makedirs(d, exist_ok=True)
    s, fails, crashes, traces = replay_and_validate(behs, d, tagp="replay-")
    fails = {f["case"]: f for f in fails}
    crashed = {c["case"]: c for c in crashes}
    cases = {}
    for tr in traces.values():
        cases.update(vf.split_cases(tr, with_lines=True))
    for b in behs:
        cid = b["id"]
        hist = ",".join(_step(st) for st in b["steps"])
        name = b.get("name", cid)
        if cid in crashed:
            print(f"{name}: CRASH after step {crashed[cid]['steps_completed']}: {crashed[cid]['signature']}   {hist}")
            continue
        f = fails.get(cid)
        if not f:
            print(f"{name}: conforms   {hist}")
            continue
        line = [x for x in cases[cid] if x["_l"] == f["line"]][0]
        step = f["line"] - cases[cid][0]["_l"]
        print(f"{name}: FAILS at step {step} {_step(b['steps'][step - 1])}: {', '.join(sorted(f['props']))}   {hist}")
        print("    observed: " + json.dumps(line["o"]))
        print("    reference: " + json.dumps(f.get("ref")))
    return 1 if s["nfail"] or crashes else 0


if __name__ == "__main__":
    sys.exit(main())
