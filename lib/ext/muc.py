"""Extension `muc` — the multi-user-chat room state machine of QXmppMucManager / QXmppMucRoom.
Spec: spec/Muc.tla (+MucGen, MucTrace). Driver: qxv muc (in-memory client, real receive path).
Decides no listed property: records chk.cov["extensions"]["muc"]; `bin/check-ext muc` exits 1 iff an
execution of the real code contradicts an invariant of the extension spec (docs/ext-muc.md)."""
import json
import os
import random
import sys
import time

sys.path.insert(0, os.path.join(os.path.dirname(os.path.abspath(__file__)), ".."))   # when run as a script
import vf  # noqa: E402

TLC_WORKERS = 4

MC_QUICK = ["Muc.cfg", "MucTwo.cfg", "MucPerm.cfg"]
MC_THOROUGH = ["MucBig.cfg", "MucTwoBig.cfg", "MucPermBig.cfg"]
TOURS = ["MucGenTourOcc.cfg", "MucGenTourMsg.cfg", "MucGenTourPerm.cfg"]
PERM_FLUSH = [{"a": "PermRes", "src": "r1", "rq": "r1", "q": q, "idk": "cur", "us": []}
              for q in ("owner", "admin", "member", "outcast")]


def _step(st):
    """Compact, stable rendering of one event (used in failure signatures and in the evidence)."""
    a = st["a"]
    if a in ("PresAv",):
        return f"PresAv({st['src']}/{st['n']}:{st['c']}:{st['it']})"
    if a == "PresUn":
        return f"PresUn({st['src']}/{st['n']}:{st['k']}{'>' + st['m'] if st['m'] else ''}{':110' if st['s110'] else ''})"
    if a == "PresErr":
        return f"PresErr({st['src']}/{st['n']}{':muc' if st['x'] else ''})"
    if a == "Msg":
        return f"Msg({st['src']}/{st['n']}:{st['ty']}{':subject=' + st['s'] if st['s'] else ''}{':body' if st['b'] else ''})"
    if a == "PermRes":
        return f"PermRes(from={st['src']},req={st['rq']}:{st['q']}:{st['idk']}:{'+'.join(st['us'])})"
    if a in ("Disco",):
        return f"Disco({st['src']}:{st['nm']})"
    if a == "ConfRes":
        return f"ConfRes({st['src']}:{'form' if st['f'] else 'empty'})"
    if a == "Invite":
        return f"Invite({st['j']})"
    if a in ("Disconnect", "Connect"):
        return f"{a}({st['k']})"
    if a == "OwnPres":
        return a
    args = [st["r"]] + [str(st[k]) for k in ("n", "u", "s") if k in st]
    return f"{a}({','.join(args)})"


def _deviation(st, props):
    """The documented deviation of the checked tree (docs/ext-muc.md) that a failing step exercises: decided
    from the event and from which predicates fail; anything else is "other"."""
    a, ps = st["a"], set(props)
    if st.get("src") not in ("r1", "r2"):
        return "other"
    if a == "PresAv" and st["c"] == "self210":
        return "D1-assigned-nick"
    if a == "PresErr" and st["x"] and ps == {"JoinLeft"}:
        return "D2-error-while-joined"
    if a in ("PresAv", "PresUn") and st["n"] == "-" and ps <= {"Parts", "PartSigs"}:
        return "D3-bare-jid-occupant"
    if a == "Msg" and st["s"] and (st["ty"] != "groupchat" or st["b"]) and ps <= {"Subject", "OtherSigs"}:
        return "D4-subject-only-groupchat-without-body"
    return "other"


def _strip(behs):
    for b in behs:
        b.pop("moves", None)
    return behs


def _generate(chk, quick, gen):
    rng = random.Random(chk.seed)
    behs = []
    # transition tours: every transition of three bounded models; the transitions on which nothing
    # moves (events that are ignored) are sampled in the quick tier
    for cfg in TOURS:
        tour, st = vf.tlc_gen("MucGen.tla", cfg, steps_key=None)
        moving = [b for b in tour if b["moves"]]
        quiet = [b for b in tour if not b["moves"]]
        st["moving"] = len(moving)
        st["quiet"] = len(quiet)
        if quick:
            rng.shuffle(quiet)
            quiet = quiet[:600 if cfg == "MucGenTourPerm.cfg" else 250]
        st["quiet_replayed"] = len(quiet)
        gen[cfg.replace(".cfg", "")] = st
        if cfg == "MucGenTourPerm.cfg":
            # the permission list under construction is visible only in permissionsReceived(): every behaviour of this
            # tour is followed by the answers still missing, so that a result that was wrongly accepted or dropped shows
            for b in moving + quiet:
                b["steps"] = b["steps"] + PERM_FLUSH
        behs += _strip(moving) + _strip(quiet)
    # all event sequences of length 2 (thorough: 3, seeded sample) from inside the room
    allp, st = vf.tlc_gen("MucGen.tla", "MucGenAll.cfg" if quick else "MucGenAll3.cfg", steps_key=None)
    allp = vf.maximal_behaviours(_strip(allp))
    st["behaviours"] = len(allp)
    if not quick and len(allp) > 15000:
        rng.shuffle(allp)
        allp = allp[:15000]
    st["replayed"] = len(allp)
    gen["all_paths"] = st
    behs += allp
    # seeded random walks over the full universe (2 rooms, 3 nicks, every kind of event)
    sim, st = vf.tlc_simulate("MucGen.tla", "MucGenSim.cfg", num=75 if quick else 1000, depth=24 if quick else 40,
                              seed=chk.seed, workers=TLC_WORKERS, steps_key=None)
    sim = vf.maximal_behaviours(_strip(sim))
    st["behaviours"] = len(sim)
    gen["simulate"] = st
    behs += sim
    # evidence samples: the longest behaviour of the occupancy tour, of the all-paths set and of the random walks
    gen["_samples"] = [max(x, key=lambda b: len(b["steps"])) for x in (behs[:gen["MucGenTourOcc"]["moving"]], allp, sim) if x]
    return vf.maximal_behaviours(behs)


def run(chk, replay=None):
    quick = chk.tier == "quick"
    t0 = time.time()
    res = {"states": 0, "transitions": 0, "model_runs": []}
    chk.cov.setdefault("extensions", {})["muc"] = res
    # 1. design level: exhaustive model checks (a failing one is a bug of the specification)
    for cfg in MC_QUICK + ([] if quick else MC_THOROUGH):
        r = vf.tlc_mc("Muc.tla", cfg, workers=TLC_WORKERS)
        if not r["ok"]:
            raise vf.MachineryError(f"design spec Muc.tla/{cfg} does not satisfy its properties (or TLC failed); see log")
        res["states"] += r["distinct"]
        res["transitions"] += r["states"]
        res["model_runs"].append({"model": cfg, "distinct_states": r["distinct"], "transitions": r["states"],
                                  "depth": r["depth"], "wall_s": r["wall_s"]})
    # 2. behaviours
    if replay:
        behs = [b for b in vf.read_ndjson(replay) if "steps" in b]
        samples = behs[:3]
    else:
        res["generation"] = {}
        behs = _generate(chk, quick, res["generation"])
        samples = res["generation"].pop("_samples")
    bpath = chk.path("muc-behaviours.ndjson")
    vf.write_ndjson(bpath, behs)
    # 3. replay on the real client + MUC manager
    trace = chk.path("muc-trace.ndjson")
    r = vf.qxv("muc", trace, in_path=bpath, seed=chk.seed, tier=chk.tier, check=False)
    vf.repair_truncated(trace)
    if r["rc"] != 0 or r["sanitizer"]:
        raise vf.MachineryError(f"qxv muc ended abnormally (rc={r['rc']}, {vf.san_signature(r)}):\n{r['stderr'][-2000:]}")
    # 4. trace validation
    fpath = chk.path("muc-fails.ndjson")
    open(fpath, "w").close()
    s = vf.tlc_trace("MucTrace.tla", "MucTrace.cfg", trace, env={"QXV_FAILS": fpath})
    fails = vf._decode_gen(fpath)
    if len(fails) != s["nfail"]:
        raise vf.MachineryError(f"trace validation reported {s['nfail']} failing executions but wrote {len(fails)} records")
    if s["cases"] != len(behs):
        raise vf.MachineryError(f"{len(behs)} behaviours replayed but {s['cases']} executions validated")
    res.update({
        "executions": s["cases"], "trace_lines": s["lines"], "diverged_executions": s["ndiv"],
        "first_divergences": [{k: d[k] for k in ("case", "line", "e")} for d in s["divs"][:3]],
        "aborted_executions": s["aborts"], "conformance_failures": s["nfail"],
        "replay_wall_s": r["wall_s"], "trace_validation_wall_s": s["wall_s"],
        "samples": [[_step(st) for st in b["steps"]] for b in samples],
        "rule": ("behaviours = transition tours of three bounded one-room models (occupancy with 3 nicks; messages/subject/"
                 "name/stateless requests; permission requests) + all event sequences of the all-paths depth from inside the "
                 "room + seeded random walks over 2 rooms / 3 nicks / every kind of event; each replayed on a real QXmppClient "
                 "+ QXmppDiscoveryManager + QXmppMucManager (stanzas injected through QXmppOutgoingClient::handlePacketReceived, "
                 "session signals as closeSession/openSession emit them) and validated by MucTrace.tla"),
    })
    # 5. conformance failures: group by (event kind, failing predicates), keep the shortest history of each class
    cases = vf.split_cases(trace, with_lines=True) if fails else {}
    classes = {}
    for f in fails:
        b = behs[int(f["case"][1:]) - 1]
        lines = cases[f["case"]]
        upto = b["steps"][:max(1, f["line"] - lines[0]["_l"])]
        props = sorted({p["prop"] for p in f["props"]})
        key = _deviation(upto[-1], props) + ":" + f["e"] + ":" + "+".join(props)
        c = classes.setdefault(key, {"event": f["e"], "predicates": props, "executions": 0, "shortest": None})
        c["executions"] += 1
        if c["shortest"] is None or len(upto) < len(c["shortest"]):
            c["shortest"] = upto
            c["_obs"] = [x for x in lines if x["_l"] == f["line"]][0].get("o")
    out = []
    for key, c in sorted(classes.items(), key=lambda kv: (len(kv[1]["shortest"]), kv[0])):
        out.append({"class": key, "executions": c["executions"], "predicates": c["predicates"],
                    "minimal_history": [_step(st) for st in c["shortest"]]})
        vf.log(f"ext muc: CONFORMANCE-FAILURE {key} ({c['executions']} executions), shortest: "
               + ",".join(_step(st) for st in c["shortest"]))
    res["failure_classes"] = out
    if classes:
        vf.write_ndjson(chk.path("muc-failures.ndjson"),
                        [{"class": k, "steps": c["shortest"], "observed": c["_obs"]} for k, c in classes.items()])
    res["wall_s"] = round(time.time() - t0, 1)
    res["assumptions"] = [
        "the service sends occupant presences and room messages only while a join is pending or we are an occupant",
        "status 110 on a nick other than the one asked for appears only in the join confirmation (service-assigned nick)",
        "a refused join is refused before any occupant presence is sent",
        "between the two stanzas of an own nick change (303 / new nick) nothing else concerning us happens in that room and "
        "the user does not call setNickName/join/leave; isJoined() is not constrained in that window",
        "the user does not call setNickName while a join is pending",
        "joined() may fire again when an own nick change completes, left() may fire for a refused join (what the code does)",
        "a session that ends clears every room even if the stream could be resumed (XEP-0198): what the code does, not judged",
    ]


def main():
    """python3 lib/ext/muc.py --replay FILE: replay hand-written behaviours (one {"steps":[...]} per line) on the
    built harness and print, per behaviour, the failing predicates and what was observed at the failing step."""
    import argparse
    ap = argparse.ArgumentParser()
    ap.add_argument("--replay", required=True)
    a = ap.parse_args()
    behs = [b for b in vf.read_ndjson(a.replay) if "steps" in b]
    d = os.path.join(vf.OUT, "ext-muc-replay")
    os.makedirs(d, exist_ok=True)
    bp, tp, fp = (os.path.join(d, n) for n in ("behaviours.ndjson", "trace.ndjson", "fails.ndjson"))
    vf.write_ndjson(bp, behs)
    vf.qxv("muc", tp, in_path=bp)
    open(fp, "w").close()
    s = vf.tlc_trace("MucTrace.tla", "MucTrace.cfg", tp, tag="MucTrace-replay", env={"QXV_FAILS": fp})
    fails = {f["case"]: f for f in vf._decode_gen(fp)}
    cases = vf.split_cases(tp, with_lines=True)
    for n, b in enumerate(behs, 1):
        cid = f"m{n}"
        hist = ",".join(_step(st) for st in b["steps"])
        f = fails.get(cid)
        if not f:
            print(f"{b.get('id', cid)}: conforms   {hist}")
            continue
        line = [x for x in cases[cid] if x["_l"] == f["line"]][0]
        step = f["line"] - cases[cid][0]["_l"]
        props = sorted({(p["room"] + ":" if p["room"] else "") + p["prop"] for p in f["props"]})
        print(f"{b.get('id', cid)}: FAILS at step {step} {_step(b['steps'][step - 1])}: {', '.join(props)}   {hist}")
        o = line["o"]
        print("    observed: " + json.dumps({"sent": o["sent"], "msig": o["msig"],
                                             **{r: v for r, v in o["rooms"].items() if r in json.dumps(b["steps"])}}))
    return 1 if s["nfail"] else 0


if __name__ == "__main__":
    sys.exit(main())
