"""Extension `clientaux` — the session-scoped managers inside QXmppOutgoingClient that no listed property
covers: CsiManager (XEP-0352), CarbonManager + QXmppCarbonManagerV2 (XEP-0280 via bind2 or IQ),
FastTokenManager (XEP-0484).  Spec: spec/ClientAux.tla (+ClientAuxMC, ClientAuxGen, ClientAuxTrace).
Driver: qxv clientaux (real QXmppClient over loopback TCP, scripted peer).  See docs/ext-clientaux.md.

run(chk) records chk.cov["extensions"]["clientaux"]; it never calls chk.violation."""
import collections
import json
import os
import random
from concurrent.futures import ThreadPoolExecutor

import vf

NAME = "clientaux"
WORKERS = 4        # TLC workers / parallel replay+validation chunks (shared machine)
SENSITIVITY = [    # configurations that model one deviation of the pinned code (or the other reading of
                   # XEP-0352 on resumption): each must violate an invariant of the design spec
    ("ClientAuxAsCodeA.cfg", "A: stale bind2 result"),
    ("ClientAuxAsCodeB.cfg", "B: CSI state written before the session exists"),
    ("ClientAuxAsCodeC.cfg", "C: token change not reported"),
    ("ClientAuxAsCodeD.cfg", "D: rejected token kept"),
    ("ClientAuxAsCodeE.cfg", "E: never-opened bind2 session resumed"),
    ("ClientAuxResetOnResume.cfg", "server resets CSI to active on resumption"),
]


def _feat(f):
    if not f["s2"]:
        return "sasl"
    on = ["sasl2"]
    if f["b2"]:
        on.append("bind2[" + ",".join(x for x, k in (("csi", "b2csi"), ("carbons", "b2carb"), ("sm", "b2sm")) if f[k]) + "]")
    if f["r2"]:
        on.append("resume")
    if f["fast"]:
        on.append("fast")
    return "+".join(on)


def _step(s):
    k = s["k"]
    if k == "Connect":
        return f"Connect({_feat(s['f'])})"
    if k == "AuthOk2":
        a = [x for x in (("token" if s["tk"] else ""), (s["res"] if s["res"] != "none" else ""),
                         ("bound" + ("+sm" if s["bnd"] == "sm" else "") if s["bnd"] != "none" else "")) if x]
        return "AuthOk2(" + ",".join(a) + ")"
    if k == "PostFeatures":
        g = s["g"]
        return "PostFeatures(" + ",".join(x for x in ("csi", "sm") if g[x]) + ")"
    if k == "Enabled":
        return "Enabled(resume)" if s["resume"] else "Enabled"
    if k == "SetState":
        return f"SetState({s['v']})"
    return k


def sig_of(b, upto=None):
    c = b["cfg"]
    steps = b["steps"] if upto is None else b["steps"][:upto]
    return "carb=%d,fast=%d,tok0=%d:" % (c["carb"], c["fast"], c["tok0"]) + ",".join(_step(s) for s in steps)


def generate(chk, quick):
    tour, st1 = vf.tlc_gen("ClientAuxGen.tla", "ClientAuxGenTour.cfg" if quick else "ClientAuxGenTourFine.cfg",
                           tag="ClientAuxGenTour", heap="6g")
    allp, st2 = vf.tlc_gen("ClientAuxGen.tla", "ClientAuxGenAll3.cfg" if quick else "ClientAuxGenAll4.cfg",
                           tag="ClientAuxGenAll", heap="6g")
    sim, st3 = vf.tlc_simulate("ClientAuxGen.tla", "ClientAuxGenSim.cfg", num=150 if quick else 500, depth=25 if quick else 40,
                               seed=chk.seed, workers=WORKERS, tag="ClientAuxGenSim")
    behs = vf.maximal_behaviours(tour + allp + sim)
    return behs, {"tour": st1, "all_paths": st2, "simulate": st3}


def _run_chunk(chk, ci, behs, tier, seed):
    bp = chk.path(f"{NAME}-behaviours-{ci}.ndjson")
    tp = chk.path(f"{NAME}-trace-{ci}.ndjson")
    vf.write_ndjson(bp, behs)
    r = vf.qxv(NAME, tp, in_path=bp, seed=seed, tier=tier, check=False, timeout=2400)
    vf.repair_truncated(tp)
    s = vf.tlc_trace("ClientAuxTrace.tla", "ClientAuxTrace.cfg", tp, tag=f"ClientAuxTrace-{ci}", heap="3g")
    return {"r": r, "s": s, "trace": tp}


CHUNK = 6000       # executions per replay/validation job (bounds the size of a trace TLC has to load)


def replay_and_validate(chk, behs):
    n = max(1, min(WORKERS, len(behs) // 50), (len(behs) + CHUNK - 1) // CHUNK)
    per = (len(behs) + n - 1) // n
    chunks = [behs[i * per:(i + 1) * per] for i in range(n)]
    chunks = [c for c in chunks if c]
    with ThreadPoolExecutor(max_workers=WORKERS) as ex:
        res = list(ex.map(lambda ci: _run_chunk(chk, ci, chunks[ci], chk.tier, chk.seed), range(len(chunks))))
    return chunks, res


def run(chk):
    quick = chk.tier == "quick"
    ext = chk.cov.setdefault("extensions", {})
    out = ext[NAME] = {}
    # 1. design level: exhaustive model check of the intended behaviour
    mcfg = "ClientAux.cfg" if quick else "ClientAuxFull.cfg"
    mc = vf.tlc_mc("ClientAuxMC.tla", mcfg, workers=WORKERS, heap="8g", timeout=3000)
    if not mc["ok"]:
        raise vf.MachineryError(f"design spec {mcfg} does not satisfy its invariants (or TLC failed); see log")
    out["states"] = mc["distinct"]
    out["transitions"] = mc["states"]
    out["model_runs"] = [{"model": mcfg, "distinct_states": mc["distinct"], "transitions": mc["states"], "depth": mc["depth"],
                          "wall_s": mc["wall_s"]}]
    # 1b. (thorough) the invariants are not vacuous: modelling any one deviation of the pinned code breaks one
    if not quick:
        def sens(item):
            cfg, what = item
            r = vf.tlc_mc("ClientAuxMC.tla", cfg, workers=1, heap="3g", timeout=1200, tag="sens-" + cfg.replace(".cfg", ""))
            inv = None
            for ln in r["out"].splitlines():
                if ln.startswith("Error: Invariant ") and ln.endswith(" is violated."):
                    inv = ln[len("Error: Invariant "):-len(" is violated.")]
            return {"config": cfg, "models": what, "violates": inv, "states": r["distinct"], "wall_s": r["wall_s"]}
        with ThreadPoolExecutor(max_workers=WORKERS) as ex:
            out["spec_sensitivity"] = list(ex.map(sens, SENSITIVITY))
        bad = [x for x in out["spec_sensitivity"] if not x["violates"]]
        if bad:
            raise vf.MachineryError(f"sensitivity configurations expected to violate an invariant did not: {bad}")
    # 2. behaviours
    override = os.environ.get("CLIENTAUX_BEHAVIOURS")
    if override:
        behs = [b for b in vf.read_ndjson(override) if "steps" in b]
        out["generation"] = {"override": override}
    else:
        behs, gen = generate(chk, quick)
        random.Random(chk.seed).shuffle(behs)     # balance the chunks
        out["generation"] = gen
    # 3. replay on the real client, 4. trace validation -- in chunks, side by side
    chunks, res = replay_and_validate(chk, behs)
    out["executions"] = sum(x["s"]["cases"] for x in res)
    out["trace_lines"] = sum(x["s"]["lines"] for x in res)
    out["diverged_executions"] = sum(x["s"]["ndiv"] for x in res)
    out["replay_wall_s"] = max(x["r"]["wall_s"] for x in res)
    out["validation_wall_s"] = max(x["s"]["wall_s"] for x in res)
    out["csi_mismatch_if_server_resets_on_resume"] = sum(x["s"]["nreset"] for x in res)
    out["first_divergences"] = [d for x in res for d in x["s"]["divs"][:1]][:3]
    hangs = 0
    crashed = []
    failing = {}          # (chunk, case) -> list of violation records
    for ci, x in enumerate(res):
        if x["r"]["sanitizer"] or x["r"]["rc"] != 0:
            crashed.append(vf.san_signature(x["r"]) + ": " + "; ".join(x["r"]["sanitizer"][:2]) + x["r"]["stderr"][-300:])
        for v in x["s"]["viol"]:
            failing.setdefault((ci, v["case"]), []).append(v)
    by_pred = collections.Counter()
    shortest = {}
    case_cache = {}
    for (ci, case), vs in failing.items():
        for p in {v["prop"] for v in vs}:
            by_pred[p] += 1
        if ci not in case_cache:
            case_cache[ci] = vf.split_cases(res[ci]["trace"], with_lines=True)
        lines = case_cache[ci][case]
        b = chunks[ci][int(case[1:]) - 1]
        for v in vs:
            nsteps = sum(1 for e in lines if e["_l"] <= v["line"] and e["e"] not in ("Reset", "End", "Impossible"))
            cur = shortest.get(v["prop"])
            if cur is None or nsteps < cur[0] or (nsteps == cur[0] and sig_of(b, nsteps) < cur[1]):
                shortest[v["prop"]] = (nsteps, sig_of(b, nsteps), ci, case, v["line"])
    for ci, x in enumerate(res):
        for o in vf.read_ndjson(x["trace"]):
            if o.get("hang"):
                hangs += 1
    samples = []
    for p in sorted(shortest):
        nsteps, sg, ci, case, line = shortest[p]
        b = chunks[ci][int(case[1:]) - 1]
        lines = [{k: v for k, v in e.items() if k != "_l"} for e in case_cache[ci][case] if e["_l"] <= line]
        path = chk.path(f"{NAME}-failure-{p}.ndjson")
        vf.write_ndjson(path, [{"cfg": b["cfg"], "steps": b["steps"][:nsteps]}] + lines)
        samples.append({"predicate": p, "executions": by_pred[p], "shortest_history": sg, "replay": path})
    out["conformance_failures"] = len(failing) + len(crashed)
    out["failures_by_predicate"] = dict(by_pred)
    out["failure_samples"] = samples
    out["hang_detector_fired"] = hangs
    if crashed:
        out["harness_crashes"] = crashed[:3]
    out["samples"] = [sig_of(b) for b in (behs[:2] + behs[-2:])]
    out["rule"] = ("TLC explores ClientAux exhaustively (8 client configurations x arbitrary protocol-conforming server over the "
                   "representative feature elements, SetState / cut / disconnect anywhere, bounded connections and tokens); "
                   "behaviours = transition tour of the generation quotient + all move sequences up to the all-paths depth + "
                   "seeded random walks; each replayed on a real QXmppClient over loopback TCP against a scripted peer and "
                   "validated by ClientAuxTrace.tla (server/application ghost rebuilt from the elements the client really wrote)")
    out["assumptions"] = [
        "CSI state and carbons belong to a session; elements written on a stream that has no session and no bind/resume request ahead of them are dropped by the server",
        "a resumed session keeps its CSI state (the reading the code is written for); the other reading is counted in csi_mismatch_if_server_resets_on_resume",
        "explicit host, TLS off, auto-reconnect off, PLAIN / HT-SHA-256-NONE only; the peer acknowledges every stanza (no XEP-0198 retransmissions)",
    ]
    return out
