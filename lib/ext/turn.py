"""Extension `turn` — the TURN client of the library (QXmppTurnAllocation, src/base/QXmppStun.cpp) against
RFC 5766 and the long-term credential mechanism of RFC 5389 10.2.
Spec: spec/Turn.tla (+TurnGen, TurnTrace). Driver: qxv turn. Doc: docs/ext-turn.md.

Pipeline: TLC model check of Turn -> behaviours (transition tour with the no-effect steps of each state packed
behind the path to it, all paths to a small depth, random walks beyond the tour's bounds) -> replay on a real
QXmppTurnAllocation against the scripted server in the harness -> every datagram the client sent is decoded
here from its raw bytes (own STUN walk; MESSAGE-INTEGRITY / FINGERPRINT by lib/refstun.py under
MD5(user:realm:password)) -> spec/TurnTrace.tla evaluates the predicates on the annotated trace.
"""
import hashlib
import json
import os
import random
import struct
import sys

sys.path.insert(0, os.path.join(os.path.dirname(os.path.abspath(__file__)), ".."))
import refstun
import tracepar
import vf

MAGIC = 0x2112A442
METHODS = {0x003: "allocate", 0x004: "refresh", 0x009: "bind"}
NOREPLY = {"cls": "", "code": 0, "mi": "", "nonce": 0, "lt": -1, "rel": "", "src": "", "idm": ""}


def long_term_key(user, realm, pw):
    return hashlib.md5(("%s:%s:%s" % (user, realm, pw)).encode("utf-8")).digest()


def walk(b):
    """Attributes of a STUN message as (type, offset, value) in order; None if the framing is broken."""
    if len(b) < 20 or struct.unpack(">H", b[2:4])[0] != len(b) - 20:
        return None
    res, o = [], 20
    while o < len(b):
        if o + 4 > len(b):
            return None
        ty, ln = struct.unpack(">HH", b[o:o + 4])
        if o + 4 + ln > len(b):
            return None
        res.append((ty, o, b[o + 4:o + 4 + ln]))
        o += 4 + ln + ((4 - ln % 4) % 4)
    return res if o == len(b) else None


def decode_request(b, env, peers):
    """Projection of a datagram that claims to be STUN (first two bits 0)."""
    x = {"k": "req", "m": "other", "user": "none", "realm": "none", "cn": 0, "pmi": "none", "smi": "none", "fp": "none",
         "wf": False, "lt": -1, "ch": -1, "p": 0, "dok": True, "lenok": True, "rng": True}
    attrs = walk(b)
    if attrs is None:
        return x
    ty, = struct.unpack(">H", b[0:2])
    cookie, = struct.unpack(">I", b[4:8])
    x["m"] = METHODS.get(ty & 0x3EEF, "other")
    realm = env["realm"]
    seen = []
    rt = None
    peer_attr = False
    for (t, o, v) in attrs:
        seen.append(t)
        if t == 0x0006:
            x["user"] = "ok" if v == env["user"].encode("utf-8") else "bad"
        elif t == 0x0014:
            x["realm"] = "ok" if v == env["realm"].encode("utf-8") else "bad"
            realm = v.decode("utf-8", "replace")
        elif t == 0x0015:
            x["cn"] = int(v[6:]) if v.startswith(b"nonce-") and v[6:].isdigit() else -1
        elif t == 0x000D and len(v) == 4:
            lt, = struct.unpack(">I", v)
            x["lt"] = lt if lt < 2 ** 31 else -2
        elif t == 0x000C and len(v) == 4:
            num, = struct.unpack(">H", v[:2])
            x["ch"] = num - 0x4000 if 0x4000 <= num <= 0x7FFF else -2
        elif t == 0x0012 and len(v) == 8 and v[1] == 1:
            peer_attr = True
            port = struct.unpack(">H", v[2:4])[0] ^ (MAGIC >> 16)
            addr = struct.unpack(">I", v[4:8])[0] ^ MAGIC
            host = ".".join(str((addr >> s) & 0xFF) for s in (24, 16, 8, 0))
            x["p"] = peers.get((host, port), -1)
        elif t == 0x0019 and len(v) == 4:
            rt = v[0]
    st, mi, fp = refstun.frame(b)
    if st == "ok" and mi:
        got = list(b[mi + 4:mi + 24])
        x["pmi"] = "valid" if got == refstun.ref_mi(b, mi, long_term_key(env["user"], realm, env["cpw"])) else "bad"
        x["smi"] = "valid" if got == refstun.ref_mi(b, mi, long_term_key(env["user"], realm, env["spw"])) else "bad"
    if st == "ok" and fp:
        x["fp"] = "ok" if list(b[fp + 4:fp + 8]) == refstun.ref_fp(b, fp) else "bad"
    # well-formed request: request class, magic cookie, MESSAGE-INTEGRITY only followed by FINGERPRINT, which is last,
    # and the attributes the method needs (RFC 5766 6.1, 11.1)
    tail_ok = True
    if 0x0008 in seen:
        tail_ok = seen[seen.index(0x0008) + 1:] in ([], [0x8028])
    if 0x8028 in seen:
        tail_ok = tail_ok and seen[-1] == 0x8028
    need_ok = {"allocate": rt == 17, "bind": x["ch"] >= 0 and peer_attr and x["p"] > 0, "refresh": True}.get(x["m"], False)
    x["wf"] = bool((ty & 0x0110) == 0 and cookie == MAGIC and tail_ok and need_ok)
    return x


def annotate(raw_path, out_path):
    """Raw harness trace -> the lines spec/TurnTrace.tla reads (uniform fields)."""
    out = []
    env, peers = {}, {}
    first = {}
    k = 0
    for o in vf.read_ndjson(raw_path):
        e = o["e"]
        k += 1
        if e == "Reset":
            k = -1
            env = o
            peers = {(p["host"], p["port"]): p["p"] for p in o["peers"]}
            first = {}
            out.append({"e": "Reset", "case": o["case"], "pw": o["pw"]})
            continue
        if e in ("Abort", "Crash"):
            out.append({"e": "Abort", "why": o.get("why", o.get("what", ""))})
            continue
        ob = o["o"]
        rx, rtx = [], []
        data = bytes.fromhex(o["d"]) if "d" in o else b""
        for d in ob["rx"]:
            b = bytes.fromhex(d["hex"])
            if d["ti"]:
                x = decode_request(b, env, peers)
                x["t"] = d["ti"]
                x["sock"] = d["sock"]
                if d["re"]:
                    x["same"] = first.get(d["ti"]) == b
                    rtx.append(x)
                else:
                    first[d["ti"]] = b
                    rx.append(x)
            elif len(b) >= 4 and (b[0] & 0xC0) == 0x40:
                num, ln = struct.unpack(">HH", b[:4])
                body = b[4:]
                rx.append({"k": "cd", "t": 0, "m": "-", "user": "none", "realm": "none", "cn": 0, "pmi": "none", "smi": "none",
                           "fp": "none", "wf": True, "lt": -1, "ch": num - 0x4000, "p": 0, "sock": d["sock"],
                           "dok": body[:ln] == data and ln == len(data),
                           "lenok": ln <= len(body) and len(body) - ln < 4 and all(c == 0 for c in body[ln:]),
                           "rng": 0x4000 <= num <= 0x7FFF})
            else:
                rx.append({"k": "junk", "t": 0, "m": "-", "user": "none", "realm": "none", "cn": 0, "pmi": "none", "smi": "none",
                           "fp": "none", "wf": False, "lt": -1, "ch": -1, "p": 0, "sock": d["sock"], "dok": False, "lenok": False,
                           "rng": False})
        dg = [{"p": peers.get((d["host"], d["port"]), -1), "dok": bytes.fromhex(d["hex"]) == data} for d in ob["dg"]]
        out.append({"e": e, "i": k, "t": o.get("t", 0), "sh": o.get("sh", ""), "r": o.get("r", NOREPLY), "p": o.get("p", 0),
                    "c": o.get("c", -1), "src": o.get("src", ""), "len": o.get("len", ""), "sn": o["sn"], "ret": o.get("ret", "-"),
                    "rto": o.get("rto", 0), "quiet": o["quiet"],
                    "o": {"st": ob["st"], "sig": ob["sig"], "rx": rx, "rtx": rtx, "dg": dg, "relp": ob["relp"], "rt": ob["rt"],
                          "ct": ob["ct"]}})
    vf.write_ndjson(out_path, out)
    return out


# ------------------------------------------------------------------------------------------------ behaviours
def label(s):
    a = s["a"]
    if a == "Reply":
        r = s["r"]
        what = "%d" % r["code"] if r["cls"] == "err" else "ok"
        return "Reply(%d,%s:%s,mi=%s%s%s)" % (s["t"], s["sh"], what, r["mi"], ",oth" if r["src"] == "oth" else "",
                                              "" if r["idm"] == "match" else "," + r["idm"])
    if a in ("Retransmit", "Timeout"):
        return "%s(%d)" % (a, s["t"])
    if a == "Write" or a == "DataInd":
        return "%s(%d)" % (a, s["p"])
    if a == "ChanIn":
        return "ChanIn(%d,%s,%s)" % (s["c"], s["src"], s["len"])
    return a


def pack(behs, rnd, keep):
    """Transition tour -> replayable behaviours: the no-effect steps of one state (forged responses, duplicates,
    inbound data, writes on an existing channel) go into one behaviour behind the shortest path to that state —
    they are self-loops of the model, so the sequence is a behaviour of Turn; the effectful transitions are kept as
    maximal behaviours.  keep < 1 (quick tier): inbound-data loops and duplicates are sampled, the unauthentic
    responses are all kept."""
    loops, eff = {}, []
    for b in behs:
        if b["loop"]:
            loops.setdefault((b["pw"], json.dumps(b["steps"][:-1])), []).append(b["steps"][-1])
        else:
            eff.append({"pw": b["pw"], "steps": b["steps"]})
    packed, nloops = [], 0
    for (pw, path), ls in sorted(loops.items(), key=lambda kv: (len(kv[0][1]), kv[0][1], kv[0][0])):
        pre = json.loads(path)
        k = [s for s in ls if (s["a"] == "Reply" and s["sh"] != "dup") or rnd.random() < keep]
        if not k:
            continue
        nloops += len(k)
        packed.append({"pw": pw, "steps": pre + k, "prefix": len(pre)})
    return packed, vf.maximal_behaviours(eff), nloops


def validate(chk, execs, tag):
    vf.write_ndjson(chk.path("ext-turn-behaviours%s.ndjson" % tag), execs)
    raw = chk.path("ext-turn-raw%s.ndjson" % tag)
    r = vf.qxv("turn", raw, in_path=chk.path("ext-turn-behaviours%s.ndjson" % tag), seed=chk.seed, tier=chk.tier, check=False)
    vf.repair_truncated(raw)
    if r["rc"] != 0 and not r["sanitizer"]:
        raise vf.MachineryError("qxv turn exited %d:\n%s" % (r["rc"], r["stderr"][-2000:]))
    trace = chk.path("ext-turn-trace%s.ndjson" % tag)
    lines = annotate(raw, trace)
    # executions are independent (the monitor is re-initialised at every Reset): validate in up to 4 parallel chunks
    exs = tracepar.split_executions(lines)
    n = max(1, min(4, len(exs) // 200))
    per = (len(exs) + n - 1) // n
    jobs = []
    for ci in range(n):
        part = exs[ci * per:(ci + 1) * per]
        if part:
            path = chk.path("ext-turn-trace%s-%d.ndjson" % (tag, ci))
            vf.write_ndjson(path, [ln for ex in part for ln in ex])
            jobs.append(lambda path=path, ci=ci: vf.tlc_trace("TurnTrace.tla", "TurnTrace.cfg", path, tag="TurnTrace%s-%d" % (tag, ci), heap="3g"))
    sums = tracepar.par(jobs)
    s = {"cases": sum(x["cases"] for x in sums), "lines": sum(x["lines"] for x in sums), "ndiv": sum(x["ndiv"] for x in sums),
         "nviol": sum(x["nviol"] for x in sums), "nfailed": sum(x["nfailed"] for x in sums),
         "viol": [v for x in sums for v in x["viol"]], "divs": [d for x in sums for d in x["divs"]],
         "dcases": [c for x in sums for c in x["dcases"]],
         "stats": {k: sum(x["stats"][k] for x in sums) for k in sums[0]["stats"]},
         "wall_s": max(x["wall_s"] for x in sums), "chunks": len(sums)}
    return r, s, trace


def run(chk):
    quick = chk.tier == "quick"
    rnd = random.Random(chk.seed)
    res = {}
    chk.cov.setdefault("extensions", {})["turn"] = res
    # 1. design level
    runs = []
    for cfg in (["Turn.cfg"] if quick else ["Turn.cfg", "TurnFull.cfg"]):
        m = vf.tlc_mc("Turn.tla", cfg, workers=4)
        if not m["ok"]:
            raise vf.MachineryError("design spec Turn.tla/%s does not satisfy its properties (or TLC failed)" % cfg)
        runs.append({"model": cfg, "distinct_states": m["distinct"], "transitions": m["states"], "depth": m["depth"], "wall_s": m["wall_s"]})
    res["states"] = sum(x["distinct_states"] for x in runs)
    res["transitions"] = sum(x["transitions"] for x in runs)
    res["model_runs"] = runs
    # 2. behaviours (the three generators run side by side, one TLC worker each)
    gst = {}
    jobs = [lambda: vf.tlc_gen("TurnGen.tla", "TurnGenTour.cfg", steps_key=None),
            lambda: vf.tlc_gen("TurnGen.tla", "TurnGenAll.cfg" if quick else "TurnGenAll6.cfg"),
            lambda: vf.tlc_simulate("TurnGen.tla", "TurnGenSim.cfg", num=40 if quick else 400, depth=40, seed=chk.seed, workers=1)]
    if not quick:
        # a deeper tour (whole sessions: allocate, bind, refresh, stale nonce, release, reconnect) with honest scripts only
        jobs.append(lambda: vf.tlc_gen("TurnGen.tla", "TurnGenDeep.cfg"))
    got = tracepar.par(jobs, max_workers=4)
    (tour, gst["tour"]), (allp, gst["all_paths"]), (sim, gst["simulate"]) = got[:3]
    deep = []
    if not quick:
        deep, gst["deep_honest_tour"] = got[3]
    packed, mx, nloops = pack(tour, rnd, 0.12 if quick else 1.0)
    strip = lambda bs: vf.maximal_behaviours([{"pw": b["pw"], "steps": b["steps"]} for b in bs])
    allp, sim, deep = strip(allp), strip(sim), strip(deep)
    gst["available"] = {"packed": len(packed), "maximal_effect": len(mx), "all_paths": len(allp), "simulate": len(sim), "deep": len(deep)}
    if quick:
        # the quick tier replays a seeded sample of the tour (short histories all); the thorough tier the whole tour
        packed = [b for b in packed if b["prefix"] <= 3 or rnd.random() < 0.5]
        mx = [b for b in mx if len(b["steps"]) <= 4 or rnd.random() < 0.15]
    # beyond the tour: seeded samples in both tiers
    allp = [b for b in allp if rnd.random() < (0.25 if quick else 0.4)]
    deep = [b for b in deep if rnd.random() < 0.4]
    sim.sort(key=lambda b: -len(b["steps"]))           # the walks themselves first, then some of their one-step deviations
    nw = 150 if quick else 3000
    sim = sim[:nw] + rnd.sample(sim[nw:], min(nw, max(0, len(sim) - nw)))
    nloops = sum(len(b["steps"]) - b["prefix"] for b in packed)
    rest = allp + deep + sim
    execs = []
    for i, b in enumerate(packed + mx + rest):
        b = dict(b)
        b["case"] = "e%d" % i
        execs.append(b)
    gst.update({"packed_no_effect_behaviours": len(packed), "no_effect_steps": nloops, "maximal_effect_behaviours": len(mx),
                "all_paths_behaviours": len(allp), "deep_behaviours": len(deep), "simulated_behaviours": len(sim)})
    res["generation"] = gst
    res["exhaustive"] = not quick
    by_id = {b["case"]: b for b in execs}
    # 3. replay, 4. validation
    r, s, trace = validate(chk, execs, "")
    res["driver_wall_s"] = r["wall_s"]
    res["executions"] = s["cases"]
    res["trace_lines"] = s["lines"]
    res["diverged_executions"] = s["ndiv"]
    res["first_divergences"] = s["divs"][:3]
    res["stats"] = s["stats"]
    res["predicate_failures"] = s["nviol"]
    fails = []
    if r["sanitizer"] or r["rc"] != 0:
        fails.append({"prop": "sanitizer", "what": "; ".join(r["sanitizer"][:3]) or "exit %d" % r["rc"], "history": []})
    # per predicate and kind of step: the shortest failing history, confirmed on a re-run of that history alone
    # a packed execution that diverged stops being judged (the script no longer fits the client): its no-effect steps
    # are replayed one by one, each behind the path alone
    single = []
    for cid in s["dcases"]:
        b = by_id.get(cid)
        if b and "prefix" in b:
            for st in b["steps"][b["prefix"]:]:
                single.append({"case": "u%d" % len(single), "pw": b["pw"], "steps": b["steps"][:b["prefix"]] + [st], "prefix": b["prefix"]})
    if single:
        single.sort(key=lambda b: len(b["steps"]))       # the shortest histories first; at most 6000 re-runs
        single = single[:6000]
        for i, b in enumerate(single):
            b["case"] = "u%d" % i
        by_id.update({b["case"]: b for b in single})
        r1, s1, _ = validate(chk, single, "-single")
        res["unpacked_executions"] = s1["cases"]
        res["executions"] += s1["cases"]
        res["trace_lines"] += s1["lines"]
        s["viol"] += s1["viol"]
        s["nviol"] += s1["nviol"]
        s["nfailed"] += s1["nfailed"]
    res["predicate_failures"] = s["nviol"]
    best = {}
    for v in s["viol"]:
        b = by_id.get(v["case"])
        if not b:
            continue
        idx = v["i"]
        pre = b["steps"][:min(idx, b.get("prefix", idx))]
        hist = pre + [b["steps"][idx]]
        key = (v["prop"], v["sh"] or v["e"])
        if key not in best or len(hist) < len(best[key][0]):
            best[key] = (hist, b["pw"], v)
    minis = []
    for i, (key, (hist, pw, v)) in enumerate(sorted(best.items(), key=lambda kv: (len(kv[1][0]), kv[0]))):
        minis.append({"case": "confirm%d" % i, "pw": pw, "steps": hist, "_key": key, "_obs": v["obs"]})
    if minis:
        r2, s2, _ = validate(chk, [{k: v for k, v in m.items() if not k.startswith("_")} for m in minis], "-confirm")
        again = {(v["case"], v["prop"]) for v in s2["viol"]}
        shown = []
        for m in minis:
            prop = m["_key"][0]
            # a longer history that only extends a reported one of the same predicate adds nothing
            if any(p == prop and m["steps"][:len(h)] == h for (p, h) in shown):
                continue
            if (m["case"], prop) in again:
                shown.append((prop, m["steps"]))
                fails.append({"prop": prop, "step": m["_key"][1], "pw": m["pw"], "history": [label(x) for x in m["steps"]],
                              "observed": json.loads(m["_obs"]) if isinstance(m["_obs"], str) else m["_obs"], "replay": m["steps"]})
            else:
                chk.note("turn: not confirmed on re-run, not reported: %s after %s" % (prop, [label(x) for x in m["steps"]]))
    res["failing_executions"] = s["nfailed"] if fails else 0
    res["conformance_failures"] = fails
    res["samples"] = [{"pw": b["pw"], "steps": [label(x) for x in b["steps"]][:40]} for b in (execs[:1] + mx[-1:] + rest[-2:])]
    res["rule"] = (
        "behaviours of spec/Turn.tla: transition tour of the bounded model (every transition reached by a shortest path; the "
        "no-effect transitions of a state packed behind the path to it), all step sequences to a small depth, a deeper tour with "
        "honest + stale-nonce scripts only, random walks beyond those bounds; each replayed on a real QXmppTurnAllocation against a "
        "scripted TURN server on loopback UDP (responses built per step: honest, 438, deny, no relayed address, success without / "
        "with wrong MESSAGE-INTEGRITY, unknown transaction id, other method, duplicate, foreign source; inbound ChannelData for "
        "bound / unknown channels from both sockets, Data indications); timers fired through the meta-object system; every datagram "
        "of the client decoded from raw bytes and its MESSAGE-INTEGRITY verified by lib/refstun.py under MD5(user:realm:password); "
        "spec/TurnTrace.tla evaluates Connected, Relayed, Authed, Retry, NoEffect, ChannelData, Deliver, Release, Lifecycle, "
        "RefreshScheduled on logged inputs and observations only.")
    res["assumptions"] = [
        "the server demands long-term credentials: a success response to the first, unauthenticated Allocate is not generated "
        "(the code accepts it; that is how a TURN server without authentication would be used)",
        "one realm; the server's nonces only move forward",
        "timers are fired, not awaited: refresh timer restarted with interval 0, refreshChannels()/retry() invoked by name; the real "
        "intervals are only observed (lifetime - 60 s, 500 s, 500 ms doubling)",
        "responses from a foreign address that are otherwise authentic: RFC 5766 does not oblige the client either way; the "
        "monitor demands nothing after one (counted in stats.foreign)",
    ]


def replay(path):
    """python3 lib/ext/turn.py <behaviours.ndjson>: replay hand-written / recorded behaviours and print what the monitor says."""
    chk = vf.Check("ext-turn-replay", "quick", 1, "model_checking")
    vf.build()
    execs = []
    for i, b in enumerate(vf.read_ndjson(path)):
        b.setdefault("case", "r%d" % i)
        execs.append(b)
    r, s, trace = validate(chk, execs, "")
    by = {}
    for v in sorted(s["viol"], key=lambda v: (v["case"], v["i"])):
        by.setdefault(v["case"], []).append("%s at step %d (%s): %s" % (v["prop"], v["i"], label(next(
            b for b in execs if b["case"] == v["case"])["steps"][v["i"]]), v["obs"]))
    for b in execs:
        print(b["case"], "pw" if b["pw"] else "wrong-pw", " ".join(label(x) for x in b["steps"]))
        for ln in by.get(b["case"], ["  conforms"]):
            print("   ", ln)
    print("executions %d, diverged %d, predicate failures %d, sanitizer %s" % (s["cases"], s["ndiv"], s["nviol"], r["sanitizer"][:1]))
    print("trace:", os.path.relpath(trace, vf.VERIF))
    return 1 if s["nviol"] else 0


if __name__ == "__main__":
    sys.exit(replay(sys.argv[1]))
