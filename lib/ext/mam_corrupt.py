#!/usr/bin/env python3
"""Binding demonstration for the extension `mam` (HOWTO rule 10a): record executions the monitor accepts, change ONE
recorded field, show that spec/MamTrace.tla reports it.
usage: python3 lib/ext/mam_corrupt.py        (needs a built .build/h/qxv: run bin/check-ext mam once)"""
import copy
import os
import sys

sys.path.insert(0, os.path.join(os.path.dirname(os.path.abspath(__file__)), ".."))
import vf  # noqa: E402

# two interleaved queries (task API on the own archive, signal API on a MUC archive) with results in between,
# both <fin/>s, a refused query, a query cancelled by the end of the session
PLAIN = {"id": "c1", "e2ee": False, "steps": [
    {"a": "Query", "api": "task", "to": "own"},
    {"a": "Query", "api": "legacy", "to": "muc"},
    {"a": "Result", "q": 1, "fr": "none", "enc": False, "tok": 1},
    {"a": "Result", "q": 2, "fr": "muc", "enc": False, "tok": 2},
    {"a": "Result", "q": 1, "fr": "own", "enc": False, "tok": 3},
    {"a": "Fin", "q": 2, "fr": "muc", "c": False},
    {"a": "Fin", "q": 1, "fr": "none", "c": True},
    {"a": "Query", "api": "task", "to": "muc"},
    {"a": "FinErr", "q": 3},
    {"a": "Query", "api": "task", "to": "own"},
    {"a": "Result", "q": 4, "fr": "none", "enc": False, "tok": 4},
    {"a": "Disconnect", "kd": "plain"},
    {"a": "Connect", "kc": "new"},
    {"a": "Result", "q": 1, "fr": "none", "enc": False, "tok": 5},
]}
# encrypted results: jobs finish in reverse order, one fails
E2EE = {"id": "c2", "e2ee": True, "steps": [
    {"a": "Query", "api": "task", "to": "own"},
    {"a": "Result", "q": 1, "fr": "none", "enc": True, "tok": 1},
    {"a": "Result", "q": 1, "fr": "none", "enc": False, "tok": 2},
    {"a": "Result", "q": 1, "fr": "none", "enc": True, "tok": 3},
    {"a": "Fin", "q": 1, "fr": "none", "c": True},
    {"a": "Decrypt", "tok": 3, "ok": True},
    {"a": "Decrypt", "tok": 1, "ok": False},
]}


def corruptions(t, e):
    """(description, e2ee, trace) triples; t[i] / e[i] is the line of step i of the plain / e2ee execution."""
    yield "unchanged (plain)", False, t
    yield "unchanged (e2ee)", True, e

    def mod(desc, base, e2ee, i, f):
        c = copy.deepcopy(base)
        f(c[i]["o"])
        return desc, e2ee, c
    yield mod("step 1 (query): request written to another archive", t, False, 1, lambda o: o["sent"][0].__setitem__("to", "muc"))
    yield mod("step 4 (result for the MUC query): reported for query 1", t, False, 4, lambda o: o["sig"][0].__setitem__("q", 1))
    yield mod("step 4 (result for the MUC query): not reported", t, False, 4, lambda o: o["sig"].clear())
    yield mod("step 7 (fin of query 1): a message lost", t, False, 7, lambda o: o["done"][0]["msgs"].pop())
    yield mod("step 7 (fin of query 1): messages in another order", t, False, 7, lambda o: o["done"][0]["msgs"].reverse())
    yield mod("step 7 (fin of query 1): the MUC query's message attributed to it", t, False, 7,
              lambda o: o["done"][0]["msgs"].insert(1, {"tok": 2, "how": "p"}))
    yield mod("step 7 (fin of query 1): a message duplicated", t, False, 7, lambda o: o["done"][0]["msgs"].append({"tok": 3, "how": "p"}))
    yield mod("step 7 (fin of query 1): complete flag dropped", t, False, 7, lambda o: o["done"][0].__setitem__("c", False))
    yield mod("step 7 (fin of query 1): task does not finish", t, False, 7, lambda o: o["done"].clear())
    yield mod("step 6 (fin of the MUC query): resultsRecieved missing", t, False, 6, lambda o: o["sig"].clear())
    yield mod("step 9 (IQ error): task reported as successful", t, False, 9, lambda o: o["done"][0].__setitem__("r", "ok"))
    yield mod("step 12 (session ends): pending task not finished", t, False, 12, lambda o: o["done"].clear())
    yield mod("step 13 (new session): query 1 finishes a second time", t, False, 13,
              lambda o: o["done"].append({"t": 1, "r": "err", "msgs": [], "c": False}))
    yield mod("step 14 (late result for the finished query 1): swallowed (state not released)", t, False, 14, lambda o: o["sig"].clear())
    yield mod("e2ee step 5 (fin): a job missing", e, True, 5, lambda o: o["jobs"].pop())
    yield mod("e2ee step 5 (fin): task finishes before the jobs", e, True, 5,
              lambda o: o["done"].append({"t": 1, "r": "ok", "msgs": [{"tok": 1, "how": "p"}, {"tok": 2, "how": "p"}, {"tok": 3, "how": "p"}], "c": True}))
    yield mod("e2ee step 7 (last job): decrypted message at the wrong position", e, True, 7,
              lambda o: (o["done"][0]["msgs"][0].__setitem__("how", "d"), o["done"][0]["msgs"][2].__setitem__("how", "p")))
    yield mod("e2ee step 7 (last job): failed message dropped", e, True, 7, lambda o: o["done"][0]["msgs"].pop(0))


def main():
    import ext.mam as M
    d = os.path.join(vf.OUT, "ext-mam-corrupt")
    os.makedirs(d, exist_ok=True)
    M.replay([PLAIN], os.path.join(d, "plain.ndjson"))
    M.replay([E2EE], os.path.join(d, "e2ee.ndjson"))
    t, e = vf.read_ndjson(os.path.join(d, "plain.ndjson")), vf.read_ndjson(os.path.join(d, "e2ee.ndjson"))
    rc = 0
    for n, (desc, e2ee, c) in enumerate(corruptions(t, e)):
        p = os.path.join(d, f"corrupt-{n}.ndjson")
        vf.write_ndjson(p, c)
        s, fails = M.validate(p, e2ee, tag=f"MamTrace-corrupt{n}")
        props = sorted({x for f in fails for x in f["props"]})
        at = (fails[0]["line"] - 1) if fails else None
        print(f"{desc:85s} -> failures={s['nfail']} diverged={s['ndiv']}" + (f" at step {at}: {', '.join(props)}" if props else ""))
        if (n < 2) != (s["nfail"] == 0):
            rc = 1
    return rc


if __name__ == "__main__":
    sys.exit(main())
