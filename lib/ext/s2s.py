"""Extension `s2s` — server-to-server streams and Server Dialback (XEP-0220) in the server half of the library:
QXmppIncomingServer, QXmppOutgoingServer, QXmppDialback and the s2s parts of QXmppServer.
Spec: spec/S2s.tla (+S2sGen, S2sTrace). Driver: qxv s2s (a real QXmppServer listening for servers on 127.0.0.1,
scripted remote parties and scripted servers of two remote domains on loopback addresses, port 5269).
Decides no listed property: records chk.cov["extensions"]["s2s"]; `bin/check-ext s2s` exits 1 iff an execution of the
real code contradicts a conformance predicate of the extension spec in a way that is not one of the departures listed
in lib/ext/s2s_known.json (docs/ext-s2s.md describes each of them with a reproduction and a repair)."""
import json
import os
import random
import sys
import time

sys.path.insert(0, os.path.join(os.path.dirname(os.path.abspath(__file__)), ".."))   # when run as a script
import tracepar  # noqa: E402
import vf  # noqa: E402

TLC_WORKERS = 4
KNOWN = os.path.join(os.path.dirname(os.path.abspath(__file__)), "s2s_known.json")

MC_QUICK = ["S2s.cfg", "S2sIn.cfg", "S2sOut.cfg"]
MC_THOROUGH = ["S2sBig.cfg", "S2sInBig.cfg", "S2sOutBig.cfg"]
# tour -> number of behaviours replayed in the quick tier (seeded sample of the moving ones + of the quiet ones)
TOURS = {"S2sGenTourIn.cfg": (1500, 150), "S2sGenTourIn2.cfg": (1200, 50), "S2sGenTourOut.cfg": (1800, 150),
         "S2sGenTourDev.cfg": (700, 50)}
THOROUGH_CAP = 15000     # behaviours per tour in the thorough tier (seeded sample above that)
# departures whose effect is confined to the answer of the step (the stream objects are as the reference has them):
# the execution is judged further.  After the others the rest of the execution is attributed to the departure.
STATELESS = ("D2-", "D3-")


def _step(st):
    """Compact, stable rendering of one event (failure signatures, evidence)."""
    a = st["a"]
    if a == "IOpen":
        return f"IOpen({st['i']})"
    if a == "IResult":
        return f"IResult({st['i']}:{st['d']}:{st['key']}{'' if st['shape'] == 'ok' else ':' + st['shape']})"
    if a == "IVerifyReq":
        return f"IVerifyReq({st['i']}:{st['d']}:id-{st['idk']}:{st['key']})"
    if a == "IStanza":
        return f"IStanza({st['i']}:from-{st['fd']})"
    if a == "IWs":
        return f"IWs({st['i']})"
    if a == "IClose":
        return f"IClose({st['i']}:{st['how']})"
    if a == "Listen":
        return f"Listen({st['d']}:{'up' if st['up'] else 'down'})"
    if a == "Send":
        return f"Send({st['d']}:m{st['n']})"
    if a == "OVerifyAns":
        return f"OVerifyAns({st['k']}:from-{st['from']}:id-{st['idk']}:{st['ty']}:to-{st['to']})"
    if a == "OResult":
        return f"OResult({st['k']}:{st['ty']}:from-{st['from']}:to-{st['to']})"
    return f"{a}({st['k']})"


def _has(rx, t):
    return [r for r in rx if r["t"] == t]


def _deviation(lines, idx, fail):
    """Which documented departure of the checked tree (docs/ext-s2s.md) the failing step `idx` of an execution
    (list of trace lines, lines[0] = Reset) shows; "other" if none.  Decided from the event, the failing predicates,
    the reference observation of the step and the observation itself."""
    ln = lines[idx]
    a, props, ref, o = ln["a"], set(fail["props"]), fail["ref"], ln["o"]
    if a == "IWs" and props <= {"Keepalive", "Counts"}:
        i = ln["i"] - 1
        if ref["ins"][i]["open"] and not o["ins"][i]["open"]:
            return "D1-keepalive-closes-stream"
    if a == "IVerifyReq" and props == {"Authority"}:
        i = ln["i"] - 1
        want, got = _has(ref["ins"][i]["rx"], "ver"), _has(o["ins"][i]["rx"], "ver")
        if len(want) == 1 and want[0]["a"] == "invalid" and not got:
            return "D2-verify-request-unanswered"
        if len(want) == 1 and want[0]["a"] == "invalid" and len(got) == 1 and got[0]["a"] == "valid" \
                and ln["idk"] == "other" and ln["key"] == "good":
            return "D3-key-valid-for-any-stream-id"
    if a in ("OResult", "Send") and props == {"Queue"}:
        # an earlier (or this) <db:result type='valid'/> in the name of another domain on a connection that is still the
        # one carrying the traffic of its domain
        for j in range(1, idx + 1):
            e = lines[j]
            if e["a"] == "OResult" and e["ty"] == "valid" and e["to"] == "L" and e["k"] <= len(lines[j]["o"]["oc"]) \
                    and e["from"] != lines[j]["o"]["oc"][e["k"] - 1]["dom"]:
                k = e["k"]
                if (a == "OResult" and ln["k"] == k) or (a == "Send" and ln["d"] == lines[j]["o"]["oc"][k - 1]["dom"]):
                    return "D4-result-from-not-checked"
    return "other"


def _strip(behs):
    for b in behs:
        b.pop("moves", None)
    return behs


def _generate(chk, quick, gen):
    rng = random.Random(chk.seed)
    behs, samples = [], []
    for cfg, (nmove, nquiet) in TOURS.items():
        tour, st = vf.tlc_gen("S2sGen.tla", cfg, steps_key=None)
        moving = [b for b in tour if b["moves"]]
        quiet = [b for b in tour if not b["moves"]]
        st["moving"], st["quiet"] = len(moving), len(quiet)
        # a behaviour that is a prefix of another moving one is replayed as part of it
        moving = vf.maximal_behaviours(_strip(moving))
        st["moving_maximal"] = len(moving)
        rng.shuffle(moving)
        rng.shuffle(quiet)
        if quick:
            moving, quiet = moving[:nmove], quiet[:nquiet]
        else:
            moving, quiet = moving[:THOROUGH_CAP], quiet[:THOROUGH_CAP // 10]
        st["replayed"] = len(moving) + len(quiet)
        gen[cfg.replace(".cfg", "")] = st
        samples.append(max(moving, key=lambda b: len(b["steps"])))
        behs += moving + _strip(quiet)
    for cfg, num, depth in (("S2sGenSim.cfg", 60 if quick else 600, 24 if quick else 40),
                            ("S2sGenSimDev.cfg", 15 if quick else 150, 24 if quick else 40)):
        sim, st = vf.tlc_simulate("S2sGen.tla", cfg, num=num, depth=depth, seed=chk.seed, workers=TLC_WORKERS, steps_key=None)
        sim = vf.maximal_behaviours(_strip(sim))
        st["behaviours"] = len(sim)
        gen[cfg.replace(".cfg", "")] = st
        if sim:
            samples.append(max(sim, key=lambda b: len(b["steps"])))
        behs += sim
    gen["_samples"] = samples[:4]
    return vf.maximal_behaviours(behs)


def _validate(chk, trace, nexec, cfg="S2sTrace.cfg"):
    """Trace validation in up to 4 chunks of whole executions; returns (summary, failing steps by case id)."""
    lines = vf.read_ndjson(trace)
    execs = tracepar.split_executions(lines)
    n = max(1, min(4, len(execs) // 400))
    per = (len(execs) + n - 1) // n
    jobs, start = [], {}
    for ci in range(n):
        part = execs[ci * per:(ci + 1) * per]
        path, fpath = chk.path(f"s2s-trace-{ci}.ndjson"), chk.path(f"s2s-fails-{ci}.ndjson")
        at = 1
        for ex in part:
            start[ex[0]["case"]] = at      # line of the Reset record in the chunk (the monitor counts lines from 1)
            at += len(ex)
        vf.write_ndjson(path, [ln for ex in part for ln in ex])
        open(fpath, "w").close()
        jobs.append(lambda path=path, fpath=fpath, ci=ci: (
            vf.tlc_trace("S2sTrace.tla", cfg, path, tag=f"{cfg[:-4]}-{ci}", heap="3g", env={"QXV_FAILS": fpath}), fpath))
    res = tracepar.par(jobs)
    fails = {}
    for s, fpath in res:
        for f in vf._decode_gen(fpath):
            f["_idx"] = f["line"] - start[f["case"]]     # index of the failing step in its execution (0 = Reset)
            fails.setdefault(f["case"], []).append(f)
    summ = {"cases": sum(s["cases"] for s, _ in res), "lines": sum(s["lines"] for s, _ in res),
            "nfail": sum(s["nfail"] for s, _ in res), "ndiv": sum(s["ndiv"] for s, _ in res),
            "aborts": sum(s["aborts"] for s, _ in res), "wall_s": max(s["wall_s"] for s, _ in res),
            "divs": [d for s, _ in res for d in s["divs"]]}
    if summ["nfail"] != len(fails):
        raise vf.MachineryError(f"trace validation counted {summ['nfail']} failing executions but wrote records for {len(fails)}")
    if summ["cases"] != nexec:
        raise vf.MachineryError(f"{nexec} behaviours replayed but {summ['cases']} executions validated")
    return summ, fails, {ex[0]["case"]: ex for ex in execs}


def _judge(fails, execs, known):
    """Per failing execution: walk its failing steps in order; a step showing a departure listed in s2s_known.json is
    counted there (and ends the judgement of the execution unless the departure leaves the stream objects as the
    reference has them); anything else is a new conformance failure."""
    classes, new = {}, {}
    for cid, fl in fails.items():
        lines = execs[cid]
        for f in sorted(fl, key=lambda f: f["_idx"]):
            idx = f["_idx"]
            dev = _deviation(lines, idx, f)
            sig = dev + ":" + lines[idx]["a"] + ":" + "+".join(sorted(f["props"]))
            hist = [ln for ln in lines[1:idx + 1]]
            tgt = classes if sig in known else new
            c = tgt.setdefault(sig, {"executions": 0, "shortest": None, "obs": None, "ref": None})
            c["executions"] += 1
            if c["shortest"] is None or len(hist) < len(c["shortest"]):
                c["shortest"] = [{k: v for k, v in ln.items() if k not in ("o", "e")} for ln in hist]
                c["obs"], c["ref"] = lines[idx]["o"], f["ref"]
            if sig not in known or not dev.startswith(STATELESS):
                break
    return classes, new


def run(chk, replay=None):
    quick = chk.tier == "quick"
    t0 = time.time()
    known = {k["signature"]: k for k in json.load(open(KNOWN))["known"]}
    res = {"states": 0, "transitions": 0, "model_runs": []}
    chk.cov.setdefault("extensions", {})["s2s"] = res
    # 1. design level: exhaustive model checks (a failing one is a bug of the specification)
    def mc(cfg):
        return cfg, vf.tlc_mc("S2s.tla", cfg, workers=TLC_WORKERS if quick else 3)
    runs = [mc(c) for c in MC_QUICK] if quick else tracepar.par([lambda c=c: mc(c) for c in MC_QUICK + MC_THOROUGH], max_workers=3)
    for cfg, r in runs:
        if not r["ok"]:
            raise vf.MachineryError(f"design spec S2s.tla/{cfg} does not satisfy its properties (or TLC failed); see log")
        res["states"] += r["distinct"]
        res["transitions"] += r["states"]
        res["model_runs"].append({"model": cfg, "distinct_states": r["distinct"], "transitions": r["states"],
                                  "depth": r["depth"], "wall_s": r["wall_s"]})
    # 2. behaviours
    if replay:
        behs = [b for b in vf.read_ndjson(replay) if "steps" in b]
        samples = behs[:3]
    else:
        res["generation"] = {}
        behs = _generate(chk, quick, res["generation"])
        samples = res["generation"].pop("_samples")
    bpath = chk.path("s2s-behaviours.ndjson")
    vf.write_ndjson(bpath, behs)
    # 3. replay on the real server
    trace = chk.path("s2s-trace.ndjson")
    r = vf.qxv("s2s", trace, in_path=bpath, seed=chk.seed, tier=chk.tier, check=False)
    vf.repair_truncated(trace)
    if r["rc"] != 0 or r["sanitizer"]:
        # a crash / sanitizer report of the library under a generated behaviour is a conformance failure ("no crash on
        # any sequence"); anything else that ends the harness is machinery
        if r["sanitizer"]:
            res["conformance_failures"] = [{"class": "sanitizer:" + vf.san_signature(r), "executions": 1}]
            res["sanitizer"] = r["sanitizer"][:3]
            vf.log("ext s2s: SANITIZER " + vf.san_signature(r))
            return
        raise vf.MachineryError(f"qxv s2s ended abnormally (rc={r['rc']}):\n{r['stderr'][-2000:]}")
    # 4. trace validation
    s, fails, execs = _validate(chk, trace, len(behs))
    classes, new = _judge(fails, execs, known)
    res.update({
        "executions": s["cases"], "trace_lines": s["lines"], "diverged_executions": s["ndiv"],
        "aborted_executions": s["aborts"], "failing_executions": s["nfail"],
        "replay_wall_s": r["wall_s"], "trace_validation_wall_s": s["wall_s"],
        "samples": [[_step(st) for st in b["steps"]] for b in samples],
        "rule": ("behaviours = transition tours of four bounded models (receiving side with one and with two remote parties, "
                 "originating + authoritative side, a small model with the triggers of the known departures) + seeded random "
                 "walks over the full alphabet; each replayed on a real QXmppServer with s2s enabled (remote parties and the "
                 "servers of two remote domains are scripted sockets on loopback addresses) and validated by S2sTrace.tla"),
    })
    if s["aborts"]:
        raise vf.MachineryError(f"{s['aborts']} executions aborted by the harness (no quiescence / listener): see the trace")

    def render(sig, c):
        return {"class": sig, "executions": c["executions"], "minimal_history": [_step(st) for st in c["shortest"]]}
    res["known_departures"] = [dict(render(sig, c), what=known[sig]["what"]) for sig, c in sorted(classes.items())]
    for sig, c in sorted(classes.items()):
        vf.log(f"ext s2s: KNOWN-DEPARTURE {sig} ({c['executions']} executions; {known[sig]['what']}), shortest: "
               + ",".join(_step(st) for st in c["shortest"]))
    res["conformance_failures"] = [render(sig, c) for sig, c in sorted(new.items(), key=lambda kv: (len(kv[1]["shortest"]), kv[0]))]
    for sig, c in sorted(new.items()):
        vf.log(f"ext s2s: CONFORMANCE-FAILURE {sig} ({c['executions']} executions), shortest: "
               + ",".join(_step(st) for st in c["shortest"]))
    if new or classes:
        vf.write_ndjson(chk.path("s2s-failures.ndjson"),
                        [{"class": k, "known": k in known, "steps": c["shortest"], "observed": c["obs"], "reference": c["ref"]}
                         for k, c in list(new.items()) + list(classes.items())])
    res["first_divergences"] = [{k: d[k] for k in ("case", "e")} for d in s["divs"][:3]]
    res["wall_s"] = round(time.time() - t0, 1)
    res["assumptions"] = [
        "the server of the honest remote domain R answers verification requests only, truthfully, with its own name, the "
        "id it was asked about and our name; the attacker's server A answers anything on any connection",
        "a claimant's key is `good` only if it is the key the claimed domain generated for this very stream",
        "remote servers offer no TLS on the connections L makes (features without <starttls/>); no wall-clock time passes "
        "(the 5 s dialback timer of QXmppOutgoingServer never fires)",
        "SRV lookups fail (offline) and the library falls back to <domain>:5269; the remote domains are named by loopback "
        "addresses so that this fallback reaches the scripted servers",
    ]


def main():
    """python3 lib/ext/s2s.py --replay FILE [--as-code]: replay hand-written behaviours (one {"steps":[...]} per line) on
    the built harness and print, per behaviour, the failing predicates and what was observed at the failing steps."""
    import argparse
    ap = argparse.ArgumentParser()
    ap.add_argument("--replay", required=True)
    ap.add_argument("--as-code", action="store_true", help="judge against the reaction with every known departure switched on")
    a = ap.parse_args()
    behs = [b for b in vf.read_ndjson(a.replay) if "steps" in b]
    chk = vf.Check("ext-s2s-replay", "quick", 1, "model_checking")
    bp, tp = chk.path("behaviours.ndjson"), chk.path("trace.ndjson")
    vf.write_ndjson(bp, behs)
    vf.qxv("s2s", tp, in_path=bp)
    s, fails, execs = _validate(chk, tp, len(behs), cfg="S2sTraceAsCode.cfg" if a.as_code else "S2sTrace.cfg")
    for n, b in enumerate(behs, 1):
        cid = f"m{n}"
        hist = ",".join(_step(st) for st in b["steps"])
        if cid not in fails:
            print(f"{b.get('id', cid)}: conforms   {hist}")
            continue
        print(f"{b.get('id', cid)}: FAILS   {hist}")
        for f in sorted(fails[cid], key=lambda f: f["_idx"]):
            ln = execs[cid][f["_idx"]]
            print(f"    step {f['_idx']} {_step(f['e'])}: {', '.join(sorted(f['props']))}  [{_deviation(execs[cid], f['_idx'], f)}]")
            print("      observed:  " + json.dumps(ln["o"], sort_keys=True))
            print("      reference: " + json.dumps(f["ref"], sort_keys=True))
    print(f"{s['cases']} executions, {s['nfail']} failing, {s['ndiv']} diverged")
    return 1 if s["nfail"] else 0


if __name__ == "__main__":
    sys.exit(main())
