#!/usr/bin/env python3
"""Binding demonstration for the extension `blocking` (HOWTO rule 10a): record an execution the monitor
accepts, change ONE recorded field, show that spec/BlockingTrace.tla reports it.
usage: python3 lib/ext/blocking_corrupt.py        (needs a built .build/h/qxv: run bin/check-ext blocking once)"""
import copy
import os
import sys

sys.path.insert(0, os.path.join(os.path.dirname(os.path.abspath(__file__)), ".."))
import vf  # noqa: E402

# two callers share one blocklist request; another resource blocks j2 (push); we unblock j1 (push + result);
# a foreign entity forges a push; the session ends and a new one begins
BEHAVIOUR = {"id": "c1", "srv0": ["j1"], "steps": [
    {"a": "Fetch", "re": False},
    {"a": "Fetch", "re": False},
    {"a": "Srv", "rq": {"k": "fetch", "id": 1, "J": []}, "mode": "pf"},
    {"a": "Deliver", "m": {"k": "fres", "id": 1, "J": ["j1"]}, "fr": "none"},
    {"a": "Other", "k": "pblock", "J": ["j2"], "all": False},
    {"a": "Deliver", "m": {"k": "pblock", "id": 0, "J": ["j2"]}, "fr": "bare"},
    {"a": "Unblock", "J": ["j1"]},
    {"a": "Srv", "rq": {"k": "unblock", "id": 2, "J": ["j1"]}, "mode": "pf"},
    {"a": "Deliver", "m": {"k": "punblock", "id": 0, "J": ["j1"]}, "fr": "none"},
    {"a": "Deliver", "m": {"k": "res", "id": 2, "J": []}, "fr": "none"},
    {"a": "Foreign", "k": "pblock", "J": ["j1", "j2", "j3"], "fr": "other"},
    {"a": "Block", "J": ["j3"]},
    {"a": "Disconnect", "kd": "plain"},
    {"a": "Connect", "kc": "new"},
]}
PROBE = {"id": "c2", "srv0": [], "steps": [{"a": "Probe", "L": ["a@x.org", "x.org/1"], "q": "a@x.org/1"}]}


def corruptions(t):
    """(description, trace) pairs; t[0] is the Reset line, t[i] the line of step i."""
    yield "unchanged", t

    def mod(desc, i, f):
        c = copy.deepcopy(t)
        f(c[i]["o"])
        return desc, c
    yield mod("step 2 (second caller): a second blocklist request written", 2,
              lambda o: o["sent"].append({"k": "fetch", "id": 2, "J": [], "c": ""}))
    yield mod("step 4 (blocklist arrives): only one of the two tasks finishes", 4, lambda o: o["done"].pop())
    yield mod("step 4 (blocklist arrives): a task finishes twice", 4, lambda o: o["done"].append(o["done"][0]))
    yield mod("step 4 (blocklist arrives): a task gets another list", 4, lambda o: o["done"][1].__setitem__("J", ["j2"]))
    yield mod("step 4 (blocklist arrives): subscribedChanged missing", 4, lambda o: o["sig"].clear())
    yield mod("step 6 (push block j2): cache not updated", 6, lambda o: o["list"].remove("j2"))
    yield mod("step 6 (push block j2): blocked() reports j1", 6, lambda o: o["sig"][0].__setitem__("J", ["j1"]))
    yield mod("step 6 (push block j2): push not answered", 6, lambda o: o["sent"].clear())
    yield mod("step 9 (push unblock j1): unblocked() missing", 9, lambda o: o["sig"].clear())
    yield mod("step 9 (push unblock j1): j1 still cached", 9, lambda o: o["list"].insert(0, "j1"))
    yield mod("step 10 (result of unblock): task reported as failed", 10, lambda o: o["done"][0].__setitem__("r", "err"))
    yield mod("step 11 (forged push): accepted", 11,
              lambda o: (o.__setitem__("list", ["j1", "j2", "j3"]), o["sig"].append({"s": "blocked", "J": ["j1", "j2", "j3"]}),
                         o.__setitem__("sent", [{"k": "ack", "id": 0, "J": [], "c": ""}])))
    yield mod("step 11 (forged push): refused with another condition", 11, lambda o: o["sent"][0].__setitem__("c", "unexpected-request"))
    yield mod("step 13 (session ends): the pending block() task is not finished", 13, lambda o: o["done"].clear())
    yield mod("step 14 (new session): still subscribed, old list kept", 14,
              lambda o: (o.__setitem__("sub", True), o.__setitem__("list", ["j2"]), o["sig"].clear()))
    yield mod("probe (a@x.org/1 against [a@x.org, x.org/1]): x.org/1 not reported as blocking", 16, lambda o: o["bl"].remove("x.org/1"))
    yield mod("probe: state reported as partial", 16, lambda o: o.__setitem__("kind", "partial"))


def main():
    import ext.blocking as B
    d = os.path.join(vf.OUT, "ext-blocking-corrupt")
    os.makedirs(d, exist_ok=True)
    tp = os.path.join(d, "trace.ndjson")
    B.replay([BEHAVIOUR, PROBE], tp)
    t = vf.read_ndjson(tp)
    rc = 0
    for n, (desc, c) in enumerate(corruptions(t)):
        p = os.path.join(d, f"corrupt-{n}.ndjson")
        vf.write_ndjson(p, c)
        s, fails = B.validate(p, tag=f"BlockingTrace-corrupt{n}")
        props = sorted({x for f in fails for x in f["props"]})
        at = (fails[0]["line"] - 1) if fails else None
        print(f"{desc:85s} -> failures={s['nfail']} diverged={s['ndiv']}" + (f" at line {at}: {', '.join(props)}" if props else ""))
        if (n == 0) != (s["nfail"] == 0):
            rc = 1
    return rc


if __name__ == "__main__":
    sys.exit(main())
