#!/usr/bin/env python3
"""Binding demonstration for the extension `muc` (HOWTO rule 10a): record an execution the monitor
accepts, change ONE recorded field, show that spec/MucTrace.tla reports it.
usage: python3 lib/ext/muc_corrupt.py        (needs a built .build/h/qxv: run bin/check-ext muc once)"""
import copy
import json
import os
import sys

sys.path.insert(0, os.path.join(os.path.dirname(os.path.abspath(__file__)), ".."))
import vf  # noqa: E402

# join r1 as n1 next to n2, receive the subject, a presence of another room arrives, n2 changes
# its nick, we get kicked; r2 stays idle
BEHAVIOUR = {"steps": [
    {"a": "SetNick", "r": "r1", "n": "n1"},
    {"a": "Join", "r": "r1"},
    {"a": "PresAv", "src": "r1", "n": "n2", "c": "none", "it": "plain"},
    {"a": "PresAv", "src": "r1", "n": "n1", "c": "self", "it": "mod"},
    {"a": "Msg", "src": "r1", "n": "-", "ty": "groupchat", "s": "s1", "b": False},
    {"a": "PresAv", "src": "rx", "n": "n1", "c": "self", "it": "ownermod"},
    {"a": "PresUn", "src": "r1", "n": "n2", "k": "nick", "m": "n3", "s110": False},
    {"a": "PresAv", "src": "r1", "n": "n3", "c": "none", "it": "plain"},
    {"a": "PresUn", "src": "r1", "n": "n1", "k": "kick", "m": "", "s110": True},
]}


def corruptions(t):
    """(description, trace) pairs; t[0] is the Reset line, t[i] the line of step i."""
    yield "unchanged", t

    def mod(desc, i, f):
        c = copy.deepcopy(t)
        f(c[i]["o"])
        return desc, c
    yield mod("step 4 (self-presence): isJoined() false", 4, lambda o: o["rooms"]["r1"].__setitem__("joined", False))
    yield mod("step 4 (self-presence): joined() signal missing", 4, lambda o: o["rooms"]["r1"]["sig"].remove("joined"))
    yield mod("step 4 (self-presence): joined() signal twice", 4, lambda o: o["rooms"]["r1"]["sig"].append("joined"))
    yield mod("step 3 (n2 arrives): participants() lacks n2", 3, lambda o: o["rooms"]["r1"]["parts"].remove("n2"))
    yield mod("step 5 (subject): subject() unchanged", 5, lambda o: o["rooms"]["r1"].__setitem__("subj", ""))
    yield mod("step 6 (own presence in another room rx arrives): r1 gains an occupant", 6,
              lambda o: (o["rooms"]["r1"]["parts"].append("n3"), o["rooms"]["r1"]["sig"].extend(["added:n3", "pchg"])))
    yield mod("step 7 (n2 -> n3, first half): n2 still listed", 7, lambda o: o["rooms"]["r1"]["parts"].append("n2"))
    yield mod("step 9 (kicked): kicked() signal missing", 9, lambda o: o["rooms"]["r1"]["sig"].remove("kicked"))
    yield mod("step 9 (kicked): occupants kept", 9, lambda o: o["rooms"]["r1"]["parts"].append("n3"))
    yield mod("step 2 (join): presence sent to another nick", 2, lambda o: o.__setitem__("sent", ["pres:r1/n2:join"]))
    yield mod("step 4 (self-presence): allowedActions() 0 for a moderator", 4, lambda o: o["rooms"]["r1"].__setitem__("acts", 0))


def main():
    d = os.path.join(vf.OUT, "ext-muc-corrupt")
    os.makedirs(d, exist_ok=True)
    bp = os.path.join(d, "behaviour.ndjson")
    vf.write_ndjson(bp, [BEHAVIOUR])
    tp = os.path.join(d, "trace.ndjson")
    vf.qxv("muc", tp, in_path=bp)
    t = vf.read_ndjson(tp)
    rc = 0
    for n, (desc, c) in enumerate(corruptions(t)):
        p = os.path.join(d, f"corrupt-{n}.ndjson")
        vf.write_ndjson(p, c)
        fp = os.path.join(d, f"fails-{n}.ndjson")
        open(fp, "w").close()
        s = vf.tlc_trace("MucTrace.tla", "MucTrace.cfg", p, tag=f"MucTrace-corrupt{n}", env={"QXV_FAILS": fp})
        props = sorted({f"{x['room']}:{x['prop']}" for f in s["fails"] for x in f["props"]})
        at = s["fails"][0]["line"] - 1 if s["fails"] else None
        print(f"{desc:85s} -> failures={s['nfail']} diverged={s['ndiv']}" + (f" at step {at}: {', '.join(props)}" if props else ""))
        if (n == 0) != (s["nfail"] == 0):
            rc = 1
    return rc


if __name__ == "__main__":
    sys.exit(main())
