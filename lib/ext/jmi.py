"""Extension `jmi` — the Jingle Message Initiation state machine (XEP-0353) of QXmppJingleMessageInitiationManager /
QXmppJingleMessageInitiation.
Spec: spec/Jmi.tla (+JmiGen, JmiTrace). Driver: qxv jmi (in-memory client, real receive path, real carbon manager).
Decides no listed property: records chk.cov["extensions"]["jmi"]; `bin/check-ext jmi` exits 1 iff an execution of the
real code contradicts an invariant of the extension spec in a way that is not listed in lib/ext/jmi_known.json
(docs/ext-jmi.md)."""
import json
import os
import random
import sys
import time

sys.path.insert(0, os.path.join(os.path.dirname(os.path.abspath(__file__)), ".."))   # when run as a script
import tracepar  # noqa: E402
import vf  # noqa: E402

TLC_WORKERS = 4
HERE = os.path.dirname(os.path.abspath(__file__))
KNOWN = os.path.join(HERE, "jmi_known.json")

MC_QUICK = ["Jmi.cfg", "JmiTwo.cfg", "JmiVar.cfg"]
MC_THOROUGH = ["JmiBig.cfg", "JmiTwoBig.cfg", "JmiVarBig.cfg"]
# (cfg, quick: sample of the moving transitions / of the quiet ones; thorough: everything that moves + quiet sample)
TOURS = [("JmiGenTour.cfg", 4000, 0, 1500), ("JmiGenTourSync.cfg", None, 300, 1500),
         ("JmiGenTourVar.cfg", None, 500, 4000), ("JmiGenTourTwo.cfg", 2000, 0, 1500)]
ALLP = {"quick": ["JmiGenAllOut.cfg", "JmiGenAllIn.cfg"], "thorough": ["JmiGenAllOut4.cfg", "JmiGenAllIn4.cfg"]}


def _step(st):
    """Compact, stable rendering of one event (used in the evidence and in the printed histories)."""
    a = st["a"]
    if a == "Propose":
        return f"Propose({st['p']})"
    if a == "Recv":
        x = f"{st['from']}/{st['res']}:{st['t']}:{st['id']}"
        if st.get("v", "plain") != "plain":
            x += ":" + st["v"]
        if st.get("wf", "ok") != "ok":
            x += ":" + st["wf"]
        return f"Recv({x})"
    if a == "Carbon":
        return f"Carbon(to {st['p']}:{st['t']}:{st['id']})"
    if a in ("Ack", "FailAll"):
        return a
    return f"{a}({st['k']})"


def _hist(b):
    return f"[{b.get('mode', 'sm')}] " + ",".join(_step(s) for s in b["steps"])


def _deviation(f, obs, before):
    """The documented deviation of the checked tree (docs/ext-jmi.md) that a failing step exercises, decided from the
    event, the reference's reaction, the observation of the step, the manager's list before it (observed and in the
    reference) and the failing predicates; anything else is "other".  The first matching rule names the class."""
    e, ref, ps = f["e"], f["ref"], set(f["props"])
    a, t = e["a"], e.get("t", "")
    osent, osig, olist = obs["sent"], obs["sig"], obs["list"]
    rsent, rsig = ref["sent"], ref["sig"]
    if a == "Carbon":
        return "D9-carbon-copy-taken-for-the-partner"
    if a == "Propose" and "Members" in ps and len(olist) < len(ref["list"]):
        return "D10-own-proposal-unknown-until-acknowledged"
    # a JMI stands (when the step begins) under another id than in the reference: our own proposal under an id of the
    # partner (the tie-break winner took the loser's id), or a session that has moved on still under its old id
    ref_id = {x["k"]: x["id"] for x in f.get("refb", [])}
    for x in before:
        r = ref_id.get(x["k"], "")
        if r and x["id"] and r != x["id"]:
            return "D4-tie-break-winner-takes-the-losers-id" if r.startswith("o") and not x["id"].startswith("o") \
                else "D8-continuation-on-an-ended-or-replaced-jmi"
    # ... or is missing although it is a session of ours in the reference (our proposal before the acknowledgement)
    if any(r.startswith("o") and k not in {x["k"] for x in before} for k, r in ref_id.items()) and not any(x["id"] == "" for x in before):
        return "D10-own-proposal-unknown-until-acknowledged"
    new_session = any(x["s"] == "proposed" for x in rsig)
    if a == "Recv" and t == "propose" and new_session and (osent or not any(x["s"] == "proposed" for x in osig)):
        return "D3-tie-break-against-the-partners-own-proposal"
    # a JMI without id is (or was, when the step began) in the list, or an element without id was written
    if any(x["id"] == "" for x in osent) or any(x["id"] == "" for x in olist) or any(x["id"] == "" for x in before):
        return "D1-jmi-id-never-set"
    if a == "Recv" and t == "propose" and rsent and "TieBreak" in ps:      # the reference handles a collision
        rt, ot = [x["t"] for x in rsent], [x["t"] for x in osent]
        if rt[0] == "finish" and (not ot or ot[0] != "finish"):
            return "D7-proceed-does-not-mark-proceeded"
        if e["id"] in ("nlo", "nhi") and rt[0] != (ot[0] if ot else ""):
            return "D5-ids-compared-as-uuids"
    if any(x["s"] == "proceeded" and "@" in x["b"] for x in osig):
        return "D6-proceeded-carries-the-bare-jid"
    if "Gone" in ps or ps == {"Members"}:
        return "D2-ended-jmi-stays-in-the-list"
    if ps & {"Once", "Quiet"}:
        return "D8-continuation-on-an-ended-or-replaced-jmi"
    return "other"


def _strip(behs):
    for b in behs:
        b.pop("moves", None)
    return behs


def _generate(chk, quick, gen):
    rng = random.Random(chk.seed)
    # QXV_QUIET=0: the generator does not export the transitions on which nothing moves
    jobs = [lambda cfg=cfg, q=(qq if quick else tq): vf.tlc_gen("JmiGen.tla", cfg, steps_key=None, env={"QXV_QUIET": "1" if q else "0"})
            for cfg, _, qq, tq in TOURS]
    jobs += [lambda cfg=cfg: vf.tlc_gen("JmiGen.tla", cfg, steps_key=None, env={"QXV_QUIET": "1"}) for cfg in ALLP["quick" if quick else "thorough"]]
    got = tracepar.par(jobs, max_workers=4)
    behs = []
    # transition tours: every transition of the bounded models; the transitions on which nothing moves (messages
    # that are ignored) are sampled, and in the quick tier the two biggest tours are sampled as well
    for (cfg, qsample, qquiet, tquiet), (tour, st) in zip(TOURS, got[:len(TOURS)]):
        moving = vf.maximal_behaviours(_strip([b for b in tour if b["moves"]]))
        quiet = _strip([b for b in tour if not b.get("moves", True)])
        st["moving_maximal"] = len(moving)
        st["quiet"] = len(quiet)
        rng.shuffle(quiet)
        quiet = quiet[:qquiet if quick else tquiet]
        if quick and qsample and len(moving) > qsample:
            rng.shuffle(moving)
            moving = moving[:qsample]
        st["moving_replayed"] = len(moving)
        st["quiet_replayed"] = len(quiet)
        gen[cfg.replace(".cfg", "")] = st
        behs += moving + quiet
    first_tour = behs[:gen["JmiGenTour"]["moving_replayed"]]
    # all event sequences of length 3 (thorough: 4) from inside a call: our proposal is out / the partner's is accepted
    allp = []
    for cfg, (ap, st) in zip(ALLP["quick" if quick else "thorough"], got[len(TOURS):]):
        ap = vf.maximal_behaviours(_strip(ap))
        st["behaviours"] = len(ap)
        gen[cfg.replace(".cfg", "")] = st
        allp += ap
    if not quick and len(allp) > 40000:
        rng.shuffle(allp)
        allp = allp[:40000]
    gen["all_paths_replayed"] = len(allp)
    behs += allp
    # seeded random walks over the full universe (2 partners, every id / payload / envelope, the three send modes)
    sim, st = vf.tlc_simulate("JmiGen.tla", "JmiGenSim.cfg", num=100 if quick else 1500, depth=30 if quick else 45,
                              seed=chk.seed, workers=TLC_WORKERS, steps_key=None, env={"QXV_QUIET": "1"})
    sim = vf.maximal_behaviours(_strip(sim))
    st["behaviours"] = len(sim)
    gen["simulate"] = st
    behs += sim
    gen["_samples"] = [max(x, key=lambda b: len(b["steps"])) for x in (first_tour, allp, sim) if x]
    return vf.maximal_behaviours(behs)


def _replay_and_validate(chk, behs, tag="jmi"):
    """Replay in up to 4 harness processes side by side, validate in as many TLC runs (executions are independent)."""
    n = max(1, min(4, len(behs) // 300))
    per = (len(behs) + n - 1) // n
    jobs = []
    for ci in range(n):
        part = behs[ci * per:(ci + 1) * per]
        if not part:
            continue

        def job(part=part, ci=ci):
            bp, tp, fp = (chk.path(f"{tag}-{x}-{ci}.ndjson") for x in ("behaviours", "trace", "fails"))
            vf.write_ndjson(bp, part)
            r = vf.qxv("jmi", tp, in_path=bp, seed=chk.seed, tier=chk.tier, opts={"base": ci * per}, check=False)
            vf.repair_truncated(tp)
            if r["rc"] != 0 or r["sanitizer"]:
                return {"crash": r, "trace": tp}
            open(fp, "w").close()
            s = vf.tlc_trace("JmiTrace.tla", "JmiTrace.cfg", tp, tag=f"JmiTrace-{tag}-{ci}", heap="3g", env={"QXV_FAILS": fp})
            fails = vf._decode_gen(fp)
            if len(fails) != s["nfail"]:
                raise vf.MachineryError(f"trace validation reported {s['nfail']} failing executions but wrote {len(fails)} records")
            return {"r": r, "s": s, "fails": fails, "trace": tp}
        jobs.append(job)
    return tracepar.par(jobs, max_workers=4)


PAIR = [{"scn": scn, "acks": acks} for scn in ("call", "glare") for acks in ("early", "late")]


def _closed_loop(chk):
    """Two real managers talking to each other (qxv jmipair): a call that is set up and finished, and two proposals
    crossing each other.  Judged on the outcome: the exchange ends, both sides agree on ONE session (for crossing
    proposals: the one with the lower id), both lists are empty after the finish."""
    bp, tp = chk.path("jmi-pair-behaviours.ndjson"), chk.path("jmi-pair-trace.ndjson")
    vf.write_ndjson(bp, PAIR)
    r = vf.qxv("jmipair", tp, in_path=bp, seed=chk.seed, tier=chk.tier, check=False)
    if r["rc"] != 0 or r["sanitizer"]:
        raise vf.MachineryError(f"qxv jmipair ended abnormally (rc={r['rc']}, {vf.san_signature(r)}):\n{r['stderr'][-2000:]}")
    out = []
    for ln in vf.read_ndjson(tp):
        if ln.get("e") != "Pair":
            continue
        bad = []
        ids = [w.split()[2] for w in ln["wire"] if w.split()[1] == "propose"]
        mid, end = ln["mid"], {"a": ln["a"], "b": ln["b"]}
        if not ln["quiescent"]:
            bad.append(f"the exchange does not end ({ln['delivered']} stanzas delivered)")
        for side in ("a", "b"):
            lst = mid[side].get("list", [])
            if len(lst) != 1 or not lst[0]["proc"] or not ids or not lst[0]["id"].startswith(min(ids)):
                bad.append(f"{side.upper()} before the finish: " + (", ".join(f"{x['id'][:8] or '(no id)'}{'*' if x['proc'] else ''}" for x in lst) or "no session")
                           + f" (expected one proceeded session {min(ids) if ids else '?'})")
            if end[side]["list"]:
                bad.append(f"{side.upper()} after the finish: {len(end[side]['list'])} JMI(s) left in the list")
        out.append({"scenario": ln["scn"], "acks": ln["acks"], "delivered": ln["delivered"], "wire": ln["wire"][:14], "failed": bad,
                    "signature": f"closed-loop-{ln['scn']}" if bad else None})
    return out


def load_known():
    """Findings of the unchanged tree that are printed, not counted.  QXV_JMI_KNOWN=none switches the list off (used
    for the mutation experiments on the repaired tree, where a re-introduced defect must count), or names another file."""
    path = os.environ.get("QXV_JMI_KNOWN", KNOWN)
    if path == "none" or not os.path.exists(path):
        return {}
    return {k["signature"]: k for k in json.load(open(path)).get("findings", [])}


def run(chk, replay=None):
    quick = chk.tier == "quick"
    t0 = time.time()
    res = {"states": 0, "transitions": 0, "model_runs": []}
    chk.cov.setdefault("extensions", {})["jmi"] = res
    # 1. design level: exhaustive model checks (a failing one is a bug of the specification), side by side
    cfgs = MC_QUICK + ([] if quick else MC_THOROUGH)
    mcs = tracepar.par([lambda cfg=cfg: vf.tlc_mc("Jmi.tla", cfg, workers=2 if quick else TLC_WORKERS) for cfg in cfgs],
                       max_workers=3 if quick else 1)
    for cfg, r in zip(cfgs, mcs):
        if not r["ok"]:
            raise vf.MachineryError(f"design spec Jmi.tla/{cfg} does not satisfy its properties (or TLC failed); see log")
        res["states"] += r["distinct"]
        res["transitions"] += r["states"]
        res["model_runs"].append({"model": cfg, "distinct_states": r["distinct"], "transitions": r["states"],
                                  "depth": r["depth"], "wall_s": r["wall_s"]})
    res["mc_wall_s"] = round(time.time() - t0, 1)
    # 2. behaviours
    t1 = time.time()
    if replay:
        behs = [b for b in vf.read_ndjson(replay) if "steps" in b]
        samples = behs[:3]
    else:
        res["generation"] = {}
        behs = _generate(chk, quick, res["generation"])
        samples = res["generation"].pop("_samples")
    res["generation_wall_s"] = round(time.time() - t1, 1)
    # 3. replay on the real client + manager, 4. trace validation
    t2 = time.time()
    parts = _replay_and_validate(chk, behs)
    for p in parts:
        if "crash" in p:
            r = p["crash"]
            raise vf.MachineryError(f"qxv jmi ended abnormally (rc={r['rc']}, {vf.san_signature(r)}), trace {p['trace']}:\n{r['stderr'][-2500:]}")
    sums = [p["s"] for p in parts]
    fails = [f for p in parts for f in p["fails"]]
    cases = sum(s["cases"] for s in sums)
    if cases != len(behs):
        raise vf.MachineryError(f"{len(behs)} behaviours replayed but {cases} executions validated")
    res.update({
        "executions": cases, "trace_lines": sum(s["lines"] for s in sums), "diverged_executions": sum(s["ndiv"] for s in sums),
        "first_divergences": [{k: d[k] for k in ("case", "step", "e")} for s in sums for d in s["divs"][:1]][:3],
        "aborted_executions": sum(s["aborts"] for s in sums), "steps_outside_the_assumptions": sum(s["stuttered"] for s in sums),
        "replay_and_validation_wall_s": round(time.time() - t2, 1),
        "samples": [_hist(b) for b in samples],
        "rule": ("behaviours = transition tours of four bounded models (one partner under stream management; the synchronous "
                 "send modes; payload / envelope / carbon variants; two partners) + all event sequences of the all-paths depth "
                 "from inside a call + seeded random walks over 2 partners / every id, payload, envelope and send mode; each "
                 "replayed on a real QXmppClient + QXmppCarbonManagerV2 + QXmppJingleMessageInitiationManager (messages injected "
                 "through QXmppOutgoingClient::handlePacketReceived, sends completed by <a/> or StreamAckManager::resetCache()) "
                 "and validated by JmiTrace.tla"),
    })
    # 5. conformance failures: first failing step of each execution, classified; known classes are printed, not counted
    known = load_known()
    obs_of = {}
    if fails:
        want = {(f["case"], f["step"]) for f in fails}
        for p in parts:
            for cid, lines in vf.split_cases(p["trace"]).items():
                for i, ln in enumerate(lines[1:], 1):
                    if (cid, i) in want:
                        obs_of[(cid, i)] = (ln.get("o"), lines[i - 1].get("o", {}).get("list", []) if i > 1 else [])
    classes = {}
    for f in fails:
        b = behs[int(f["case"][1:]) - 1]
        upto = {"mode": b.get("mode", "sm"), "steps": b["steps"][:f["step"]]}
        obs, before = obs_of.get((f["case"], f["step"])) or ({"sent": [], "sig": [], "list": [], "handled": False}, [])
        dev = _deviation(f, obs, before)
        c = classes.setdefault(dev, {"executions": 0, "shortest": None, "kinds": {}})
        c["executions"] += 1
        kind = f["e"]["a"] + (":" + f["e"]["t"] if "t" in f["e"] else "") + ":" + "+".join(sorted(f["props"]))
        c["kinds"][kind] = c["kinds"].get(kind, 0) + 1
        if c["shortest"] is None or len(upto["steps"]) < len(c["shortest"]["steps"]):
            c["shortest"] = upto
            c["_obs"], c["_ref"], c["_props"] = obs, f["ref"], sorted(f["props"])
    new, old = [], []
    for dev, c in sorted(classes.items(), key=lambda kv: (len(kv[1]["shortest"]["steps"]), kv[0])):
        rec = {"signature": dev, "executions": c["executions"], "predicates_at_shortest": c["_props"],
               "minimal_history": _hist(c["shortest"]),
               "kinds": dict(sorted(c["kinds"].items(), key=lambda kv: -kv[1])[:6])}
        if dev in known:
            old.append(rec)
            vf.log(f"ext jmi: KNOWN-FINDING {dev} ({c['executions']} executions; {known[dev].get('what', '')}), shortest: {_hist(c['shortest'])}")
        else:
            new.append(rec)
            vf.log(f"ext jmi: CONFORMANCE-FAILURE {dev} ({c['executions']} executions), shortest: {_hist(c['shortest'])} "
                   f"-> {','.join(c['_props'])}")
    # 6. closed loop: two real managers against each other
    res["closed_loop"] = _closed_loop(chk)
    for c in res["closed_loop"]:
        if c["failed"]:
            rec = {"signature": c["signature"], "executions": 1, "closed_loop": f"{c['scenario']}/{c['acks']}", "failed": c["failed"],
                   "wire": c["wire"]}
            (old if c["signature"] in known else new).append(rec)
            vf.log(f"ext jmi: {'KNOWN-FINDING' if c['signature'] in known else 'CONFORMANCE-FAILURE'} {c['signature']} "
                   f"(closed loop {c['scenario']}/{c['acks']}): {'; '.join(c['failed'])}")
    res["failing_executions"] = len(fails)
    res["known_findings"] = old
    res["conformance_failures"] = new          # bin/check-ext exits 1 iff this list is not empty
    if classes:
        vf.write_ndjson(chk.path("jmi-failures.ndjson"),
                        [{"class": k, **c["shortest"], "observed": c["_obs"], "reference": c["_ref"], "predicates": c["_props"]}
                         for k, c in classes.items()])
    res["wall_s"] = round(time.time() - t0, 1)
    res["assumptions"] = [
        "the user calls ring/proceed/reject only on a live JMI that was proposed to us and is not yet accepted, retract only on "
        "our own unanswered proposal, finish only on a proceeded session, and nothing on a JMI whose automatic accept (lost tie "
        "break / device switch) is still in flight",
        "partners propose with ids of their own (never with an id we generated); an id of ours appears in a message only after we used it",
        "our ids (random UUIDs) lie between the partners' 'lo' and 'hi' ids; the harness aborts an execution whose generated id does not",
        "FinishEcho, AutoProceed and MigrationNotice (spec/Jmi.tla) are modelled as the code does them, not judged",
    ]


def main():
    """python3 lib/ext/jmi.py --replay FILE: replay hand-written behaviours (one {"mode":..,"steps":[...]} per line) on the
    built harness and print, per behaviour, the failing predicates and what was observed at the failing step."""
    import argparse
    ap = argparse.ArgumentParser()
    ap.add_argument("--replay", required=True)
    a = ap.parse_args()
    behs = [b for b in vf.read_ndjson(a.replay) if "steps" in b]
    d = os.path.join(vf.OUT, "ext-jmi-replay")
    os.makedirs(d, exist_ok=True)
    bp, tp, fp = (os.path.join(d, n) for n in ("behaviours.ndjson", "trace.ndjson", "fails.ndjson"))
    vf.write_ndjson(bp, behs)
    r = vf.qxv("jmi", tp, in_path=bp, check=False)
    if r["sanitizer"]:
        print("SANITIZER: " + vf.san_signature(r))
    open(fp, "w").close()
    s = vf.tlc_trace("JmiTrace.tla", "JmiTrace.cfg", tp, tag="JmiTrace-replay", env={"QXV_FAILS": fp})
    fails = {f["case"]: f for f in vf._decode_gen(fp)}
    cases = vf.split_cases(tp)
    for n, b in enumerate(behs, 1):
        cid = f"j{n}"
        f = fails.get(cid)
        if not f:
            print(f"{b.get('id', cid)}: conforms   {_hist(b)}")
            continue
        obs = cases[cid][f["step"]]["o"]
        before = cases[cid][f["step"] - 1].get("o", {}).get("list", []) if f["step"] > 1 else []
        print(f"{b.get('id', cid)}: FAILS at step {f['step']} {_step(b['steps'][f['step'] - 1])}: {', '.join(sorted(f['props']))}"
              f"   [{_deviation(f, obs, before)}]   {_hist(b)}")
        print("    observed:  " + json.dumps({k: obs[k] for k in ("sent", "sig", "handled", "list")}))
        print("    reference: " + json.dumps({k: f["ref"][k] for k in ("sent", "sig", "handled", "list")}))
    return 1 if s["nfail"] else 0


if __name__ == "__main__":
    sys.exit(main())
