#!/usr/bin/env python3
"""Binding demonstration for the extension `turn` (HOWTO rule 10a): corrupt one recorded field of an ACCEPTED raw
trace (what `qxv turn` wrote for a conforming implementation) and show that the monitor reports it.

usage: lib/ext/turn_corrupt.py [raw trace]      (default: the demo behaviour below, replayed with qxv turn)

The corruption is applied to the RAW trace, before lib/ext/turn.py decodes the client's datagrams: a flipped byte
in a recorded request goes through the reference MESSAGE-INTEGRITY computation of lib/refstun.py like any other.
"""
import copy
import json
import os
import sys

sys.path.insert(0, os.path.join(os.path.dirname(os.path.abspath(__file__)), ".."))
import vf  # noqa: E402
from ext import turn  # noqa: E402


def R(cls, code, mi, n, lt, rel, src="srv", idm="match"):
    return {"cls": cls, "code": code, "mi": mi, "nonce": n, "lt": lt, "rel": rel, "src": src, "idm": idm}


DEMO = {"case": "demo", "pw": True, "steps": [
    {"a": "Connect"},
    {"a": "Reply", "t": 1, "sh": "honest", "r": R("err", 401, "none", 1, -1, "none")},
    {"a": "Reply", "t": 2, "sh": "oknomi", "r": R("ok", 0, "none", 0, 600, "ok")},
    {"a": "Reply", "t": 2, "sh": "honest", "r": R("ok", 0, "valid", 0, 600, "ok")},
    {"a": "Write", "p": 1},
    {"a": "Reply", "t": 3, "sh": "honest", "r": R("ok", 0, "valid", 0, -1, "none")},
    {"a": "ChanIn", "c": 0, "src": "srv", "len": "ok"},
    {"a": "ChanIn", "c": 1, "src": "srv", "len": "ok"},
    {"a": "RefreshTimer"},
    {"a": "Reply", "t": 4, "sh": "stale", "r": R("err", 438, "none", 2, -1, "none")},
    {"a": "Reply", "t": 5, "sh": "honest", "r": R("ok", 0, "valid", 0, 1200, "none")},
    {"a": "Disconnect"},
    {"a": "Reply", "t": 6, "sh": "honest", "r": R("ok", 0, "valid", 0, 0, "none")},
]}


def step(lines, pred, nth=0):
    return [i for i, o in enumerate(lines) if pred(o)][nth]


def flip(hexs, pos):
    b = bytearray(bytes.fromhex(hexs))
    b[pos] ^= 0x01
    return b.hex()


def corruptions(lines):
    yield "unchanged", lines
    t = copy.deepcopy(lines)
    i = step(t, lambda o: o.get("sh") == "oknomi")
    t[i]["o"]["st"] = "connected"
    t[i]["o"]["sig"] = ["connected"]
    yield "forged success (no integrity): state logged as connected + signal", t
    t = copy.deepcopy(lines)
    i = step(t, lambda o: o.get("sh") == "oknomi")
    t[i]["o"]["relp"] = 49002
    yield "forged success: relayed port logged as stored", t
    t = copy.deepcopy(lines)
    i = step(t, lambda o: o["e"] == "Reply" and o["t"] == 1)
    t[i]["o"]["rx"][0]["hex"] = flip(t[i]["o"]["rx"][0]["hex"], 30)      # one bit of an attribute of the authenticated Allocate
    yield "one bit of the authenticated Allocate request flipped (integrity no longer verifies)", t
    t = copy.deepcopy(lines)
    i = step(t, lambda o: o["e"] == "Reply" and o["t"] == 1)
    t[i]["o"]["rx"] = []
    yield "the retry after 401 removed from the log", t
    t = copy.deepcopy(lines)
    i = step(t, lambda o: o.get("sh") == "stale")
    t[i]["o"]["rx"] = []
    t[i]["o"]["st"] = "unconnected"
    t[i]["o"]["sig"] = ["disconnected"]
    yield "438: no retry, allocation dropped (what the unchanged tree does)", t
    t = copy.deepcopy(lines)
    i = step(t, lambda o: o["e"] == "Write")
    h = t[i]["o"]["rx"][0]["hex"]
    t[i]["o"]["rx"][0]["hex"] = h[:8] + flip(h[8:], 0)
    yield "one bit of the ChannelData payload flipped", t
    t = copy.deepcopy(lines)
    i = step(t, lambda o: o["e"] == "Write")
    t[i]["o"]["rx"][0]["hex"] = "4007" + t[i]["o"]["rx"][0]["hex"][4:]
    yield "ChannelData on a channel number that was never bound (0x4007)", t
    t = copy.deepcopy(lines)
    i = step(t, lambda o: o["e"] == "ChanIn" and o["c"] == 1)
    j = step(t, lambda o: o["e"] == "ChanIn" and o["c"] == 0)
    t[i]["o"]["dg"] = [dict(t[j]["o"]["dg"][0], hex=t[i]["d"])]
    yield "inbound ChannelData for an unknown channel logged as delivered", t
    t = copy.deepcopy(lines)
    i = step(t, lambda o: o["e"] == "ChanIn" and o["c"] == 0)
    t[i]["o"]["dg"][0]["port"] += 1
    yield "delivered datagram labelled with another peer port", t
    t = copy.deepcopy(lines)
    i = step(t, lambda o: o["e"] == "Disconnect")
    b = bytearray(bytes.fromhex(t[i]["o"]["rx"][0]["hex"]))
    k = b.find(bytes([0x00, 0x0D, 0x00, 0x04]))
    b[k + 7] = 10                                                         # LIFETIME 0 -> 10 (integrity then fails too)
    t[i]["o"]["rx"][0]["hex"] = b.hex()
    yield "Refresh on disconnect carries LIFETIME 10 instead of 0", t
    t = copy.deepcopy(lines)
    i = step(t, lambda o: o["e"] == "Disconnect")
    t[i + 1]["o"]["st"] = "closing"
    t[i + 1]["o"]["sig"] = []
    yield "still closing after the server confirmed the release", t
    t = copy.deepcopy(lines)
    i = step(t, lambda o: o["e"] == "Reply" and o["t"] == 5)
    t[i]["o"]["rt"] = 0
    yield "no refresh scheduled after a Refresh success (divergence + RefreshScheduled)", t
    t = copy.deepcopy(lines)
    i = step(t, lambda o: o["e"] == "Write")
    t[i]["o"]["ct"] = False
    yield "channel timer logged as not running (conformance only)", t


def main():
    out = os.path.join(vf.OUT, "ext-turn-corrupt")
    os.makedirs(out, exist_ok=True)
    if len(sys.argv) > 1:
        raw = vf.read_ndjson(sys.argv[1])
    else:
        vf.write_ndjson(os.path.join(out, "demo.ndjson"), [DEMO])
        vf.qxv("turn", os.path.join(out, "raw.ndjson"), in_path=os.path.join(out, "demo.ndjson"))
        raw = vf.read_ndjson(os.path.join(out, "raw.ndjson"))
    rows = []
    for k, (what, lines) in enumerate(corruptions(raw)):
        rp, tp = os.path.join(out, "raw-%d.ndjson" % k), os.path.join(out, "trace-%d.ndjson" % k)
        vf.write_ndjson(rp, lines)
        turn.annotate(rp, tp)
        s = vf.tlc_trace("TurnTrace.tla", "TurnTrace.cfg", tp, tag="TurnTrace-corrupt-%d" % k)
        props = sorted({v["prop"] for v in s["viol"]})
        rows.append((what, ", ".join(props) or "-", "diverged" if s["ndiv"] else "-"))
        print("| %s | %s | %s |" % rows[-1], flush=True)
    ok = rows[0][1] == "-" and rows[0][2] == "-" and all(r[1] != "-" or r[2] != "-" for r in rows[1:])
    print("accepted trace clean and every corruption noticed:", ok)
    return 0 if ok else 1


if __name__ == "__main__":
    sys.exit(main())
