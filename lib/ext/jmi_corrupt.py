#!/usr/bin/env python3
"""Binding demonstration for the extension `jmi` (HOWTO rule 10a): take an execution the monitor accepts,
change ONE recorded field, show that spec/JmiTrace.tla reports it.
The accepted execution is docs/ext-jmi-demo.ndjson, recorded by `qxv jmi` on the repaired tree (all
fixes/ext-jmi-*.patch applied): our proposal, ringing, the partner's colliding proposal with the lower id (lost tie
break: retract, automatic proceed, proceeded()), a proposal of a second partner, ring(), its retract with
<tie-break/>, the first partner's finish with <migrated/> (echo, closed(Finished)), the late acknowledgements.
On the unchanged tree nothing beyond a proposal is accepted (docs/ext-jmi.md, D1), hence the recorded file;
`--record` records it anew with the built harness.
usage: python3 lib/ext/jmi_corrupt.py [--record]"""
import copy
import os
import sys

sys.path.insert(0, os.path.join(os.path.dirname(os.path.abspath(__file__)), ".."))
import vf  # noqa: E402

DEMO = os.path.join(vf.VERIF, "docs", "ext-jmi-demo.ndjson")
BEHAVIOUR = {"mode": "sm", "steps": [
    {"a": "Propose", "p": "p1"},
    {"a": "Ack"},
    {"a": "Recv", "from": "p1", "res": "r1", "t": "ringing", "id": "o1", "wf": "ok", "v": "plain"},
    {"a": "Recv", "from": "p1", "res": "r2", "t": "propose", "id": "lo1", "wf": "ok", "v": "plain"},
    {"a": "Ack"},
    {"a": "Ack"},
    {"a": "Recv", "from": "p2", "res": "r1", "t": "propose", "id": "hi1", "wf": "ok", "v": "plain"},
    {"a": "Ring", "k": 2},
    {"a": "Recv", "from": "p2", "res": "r1", "t": "retract", "id": "hi1", "wf": "ok", "v": "tb"},
    {"a": "Recv", "from": "p1", "res": "r1", "t": "finish", "id": "lo1", "wf": "ok", "v": "mig"},
    {"a": "Ack"},
    {"a": "Ack"},
]}


def corruptions(t):
    """(description, trace) pairs; t[0] is the Reset line, t[i] the line of step i."""
    yield "unchanged", t

    def mod(desc, i, f):
        c = copy.deepcopy(t)
        f(c[i]["o"])
        return desc, c
    yield mod("step 2 (propose acknowledged): the JMI is not in the list", 2, lambda o: o.__setitem__("list", []))
    yield mod("step 2 (propose acknowledged): result of propose() missing", 2, lambda o: o.__setitem__("sig", []))
    yield mod("step 3 (ringing): ringing() missing, message not consumed", 3,
              lambda o: (o.__setitem__("sig", []), o.__setitem__("handled", False)))
    yield mod("step 4 (lost tie break): reject of the partner's proposal instead of retract of ours", 4,
              lambda o: o["sent"].__setitem__(0, {"t": "reject", "to": "p1", "id": "lo1", "rs": "expired", "ex": "tb"}))
    yield mod("step 4 (lost tie break): retract carries the partner's id", 4, lambda o: o["sent"][0].__setitem__("id", "lo1"))
    yield mod("step 4 (lost tie break): retract without <tie-break/>", 4, lambda o: o["sent"][0].__setitem__("ex", ""))
    yield mod("step 5 (retract acknowledged): proceed carries our retracted id", 5, lambda o: o["sent"][0].__setitem__("id", "o1"))
    yield mod("step 6 (proceed acknowledged): proceeded() carries the bare JID", 6, lambda o: o["sig"][0].__setitem__("b", "p1@example.org"))
    yield mod("step 7 (second partner proposes): proposed() missing", 7, lambda o: o.__setitem__("sig", []))
    yield mod("step 8 (ring): ringing sent to the other partner", 8, lambda o: o["sent"][0].__setitem__("to", "p1"))
    yield mod("step 9 (retract received): closed() twice", 9, lambda o: o["sig"].append(dict(o["sig"][0])))
    yield mod("step 9 (retract received): containsTieBreak lost", 9, lambda o: o["sig"][0].__setitem__("c", ""))
    yield mod("step 9 (retract received): the JMI stays in the list", 9,
              lambda o: o["list"].append({"k": 2, "peer": "p2", "id": "hi1", "proc": False}))
    yield mod("step 10 (finish received): no echo", 10, lambda o: o.__setitem__("sent", []))
    yield mod("step 10 (finish received): closed(Finished) without migratedTo", 10, lambda o: o["sig"][0].__setitem__("c", ""))
    yield mod("step 11 (late ack): a proceed is written for the finished session", 11,
              lambda o: o["sent"].append({"t": "proceed", "to": "p1", "id": "lo1", "rs": "-", "ex": ""}))
    yield mod("step 12 (late ack): ringing() on the JMI that ended", 12,
              lambda o: o["sig"].append({"s": "ringing", "k": 2, "a": "", "b": "", "c": ""}))


def main():
    d = os.path.join(vf.OUT, "ext-jmi-corrupt")
    os.makedirs(d, exist_ok=True)
    if "--record" in sys.argv:
        bp = os.path.join(d, "behaviour.ndjson")
        vf.write_ndjson(bp, [BEHAVIOUR])
        vf.qxv("jmi", DEMO, in_path=bp)
    t = vf.read_ndjson(DEMO)
    rc = 0
    for n, (desc, c) in enumerate(corruptions(t)):
        p = os.path.join(d, f"corrupt-{n}.ndjson")
        vf.write_ndjson(p, c)
        fp = os.path.join(d, f"fails-{n}.ndjson")
        open(fp, "w").close()
        s = vf.tlc_trace("JmiTrace.tla", "JmiTrace.cfg", p, tag=f"JmiTrace-corrupt{n}", env={"QXV_FAILS": fp})
        props = sorted({x for f in s["fails"] for x in f["props"]})
        at = s["fails"][0]["step"] if s["fails"] else None
        print(f"{desc:95s} -> failures={s['nfail']} diverged={s['ndiv']}" + (f" at step {at}: {', '.join(props)}" if props else ""))
        if (n == 0) != (s["nfail"] == 0):
            rc = 1
    return rc


if __name__ == "__main__":
    sys.exit(main())
