"""Binding demonstration (a) for the extension `s2s`: record one accepted execution on the built harness, change one
recorded field at a time and show what spec/S2sTrace.tla reports.   python3 lib/ext/s2s_corrupt.py"""
import copy
import json
import os
import sys

sys.path.insert(0, os.path.join(os.path.dirname(os.path.abspath(__file__)), ".."))
import vf  # noqa: E402

# receiving side: R claims its domain with its good key, L asks R's server, relays `valid`, accepts R's stanza;
# originating side: a message to bob@R is queued, L presents its key, R's server has it verified by L, declares the
# stream valid, the queue is flushed; a later message is written at once; finally a stanza from a domain that was
# never validated on the stream closes it.
STEPS = [
    {"a": "IOpen", "i": 1},
    {"a": "IResult", "i": 1, "d": "R", "key": "good", "shape": "ok"},
    {"a": "OHeader", "k": 1},
    {"a": "OVerifyAns", "k": 1, "from": "R", "idk": "right", "ty": "valid", "to": "L"},
    {"a": "IStanza", "i": 1, "fd": "R", "n": 1},
    {"a": "Send", "d": "R", "n": 1},
    {"a": "Send", "d": "R", "n": 2},
    {"a": "OHeader", "k": 2},
    {"a": "IVerifyReq", "i": 1, "d": "R", "idk": "right", "key": "good"},
    {"a": "OResult", "k": 2, "ty": "valid", "from": "R", "to": "L"},
    {"a": "Send", "d": "R", "n": 3},
    {"a": "IStanza", "i": 1, "fd": "A", "n": 1},
    {"a": "OClose", "k": 2},
]


def el(t, a="", b="", c=""):
    return {"t": t, "a": a, "b": b, "c": c}


def corruptions():
    """(description, step number (1-based), function editing the observation of that step)"""
    def acc_drop(o): o["acc"] = []
    def acc_forge(o): o["acc"] = ["A:s1"]
    def res_drop(o): o["ins"][0]["rx"] = []
    def res_invalid(o): o["ins"][0]["rx"][0]["a"] = "invalid"
    def res_other_domain(o): o["ins"][0]["rx"][0]["b"] = "A"
    def ver_other_stream(o): o["oc"][0]["rx"][0]["a"] = "?"
    def ver_other_key(o): o["oc"][0]["rx"][0]["c"] = "bad"
    def conn_other_server(o): o["oc"][0]["dom"] = "A"
    def early_write(o): o["oc"][1]["rx"] = [el("msg", "m2")]
    def flush_reversed(o): o["oc"][1]["rx"].reverse()
    def flush_twice(o): o["oc"][1]["rx"] += o["oc"][1]["rx"]
    def flush_lost(o): o["oc"][1]["rx"] = o["oc"][1]["rx"][:1]
    def auth_invalid(o): o["ins"][0]["rx"][0]["a"] = "invalid"
    def auth_silent(o): o["ins"][0]["rx"] = []
    def leak(o): o["cnt"]["out"] = 1
    def second_conn(o): o["oc"].append({"dom": "R", "open": True, "rx": [el("hdr", "R")]})
    def hdr_missing(o): o["ins"][0]["rx"] = o["ins"][0]["rx"][1:]
    def zombie(o): o["cnt"]["ver"] = 1
    return [
        ("unchanged", 0, None),
        ("(compare only) stream header to the remote party missing", 1, hdr_missing),
        ("(compare only) a verification stream object left behind", 5, zombie),
        ("accepted stanza of R not handed to the server", 5, acc_drop),
        ("stanza from the never-validated domain A accepted", 12, acc_forge),
        ("verify answer `valid` not relayed to the claimant", 4, res_drop),
        ("verify answer `valid` relayed as `invalid`", 4, res_invalid),
        ("result relayed for another domain than the one verified", 4, res_other_domain),
        ("verification request carries the id of another stream", 3, ver_other_stream),
        ("verification request carries another key than the claim's", 3, ver_other_key),
        ("verification stream goes to the attacker's server", 2, conn_other_server),
        ("message written before the stream is validated", 7, early_write),
        ("queue flushed in reverse order", 10, flush_reversed),
        ("queue flushed twice", 10, flush_twice),
        ("queued message lost", 10, flush_lost),
        ("our own key answered `invalid`", 9, auth_invalid),
        ("verification request about our key not answered", 9, auth_silent),
        ("outgoing stream object survives its connection", 13, leak),
        ("a second connection to R for the second message", 7, second_conn),
    ]


def main():
    chk = vf.Check("ext-s2s-corrupt", "quick", 1, "model_checking")
    bp, tp = chk.path("behaviours.ndjson"), chk.path("trace.ndjson")
    vf.write_ndjson(bp, [{"steps": STEPS}])
    vf.qxv("s2s", tp, in_path=bp)
    rec = vf.read_ndjson(tp)
    assert rec[0]["e"] == "Reset" and len(rec) == len(STEPS) + 1, "the harness did not complete the execution"
    cs = corruptions()
    lines = []
    for n, (what, step, fn) in enumerate(cs):
        ex = copy.deepcopy(rec)
        ex[0]["case"] = f"c{n}"
        if fn:
            fn(ex[step]["o"])
        lines += ex
    vp, fp = chk.path("variants.ndjson"), chk.path("fails.ndjson")
    vf.write_ndjson(vp, lines)
    open(fp, "w").close()
    s = vf.tlc_trace("S2sTrace.tla", "S2sTrace.cfg", vp, tag="S2sTrace-corrupt", env={"QXV_FAILS": fp})
    first = {}
    for f in vf._decode_gen(fp):
        first.setdefault(f["case"], f)
    div = {d["case"] for d in s["divs"]}
    print(f"{'corruption':72} step  reported")
    bad = 0
    for n, (what, step, fn) in enumerate(cs):
        f = first.get(f"c{n}")
        rep = ("+".join(sorted(f["props"])) + f" at step {(f['line'] - 1) % (len(STEPS) + 1)}") if f else \
              ("diverged only" if f"c{n}" in div else "0 failures, not diverged")
        print(f"{what:72} {step or '-':>4}  {rep}")
        expect_fail = fn is not None and not what.startswith("(compare only)")
        if bool(f) != expect_fail:
            bad += 1
    print(f"{len(cs)} variants, {s['nfail']} reported as conformance failures, {s['ndiv']} diverged" + (f"; {bad} UNEXPECTED" if bad else ""))
    return 1 if bad else 0


if __name__ == "__main__":
    sys.exit(main())
