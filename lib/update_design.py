#!/usr/bin/env python3
"""Regenerate the generated parts of DESIGN.md (between marker comments)."""
import os
import subprocess
import sys

V = os.path.dirname(os.path.dirname(os.path.abspath(__file__)))
p = os.path.join(V, "DESIGN.md")
s = open(p).read()
table = subprocess.run([sys.executable, os.path.join(V, "lib", "seeded_table.py")], capture_output=True, text=True).stdout
b, e = "<!-- SEEDED-TABLE-BEGIN -->", "<!-- SEEDED-TABLE-END -->"
i, j = s.index(b) + len(b), s.index(e)
s = s[:i] + "\n" + table + s[j:]
open(p, "w").write(s)
print("DESIGN.md updated")
