#!/usr/bin/env python3
"""Binding demonstration (a) for C18: corrupt one recorded field of an accepted `qxv atm` trace
and show that spec/AtmTrace.tla reports it.

usage: lib/atm_corrupt.py <accepted trace.ndjson> [outdir]

For each corruption the first applicable line of the trace is modified, the trace is validated
again and the violations reported by the monitor are printed. Exit 0 iff the unmodified trace is
accepted and every corruption is reported under the expected predicate."""
import copy
import json
import os
import sys

sys.path.insert(0, os.path.dirname(os.path.abspath(__file__)))
import vf  # noqa: E402

ACCTS = ["own", "a", "b"]
KEYS = ["o1", "o2", "a1", "b1", "k"]  # key ids; a key is an (account, id) pair
OWNER = {"o1": "own", "o2": "own", "a1": "a", "b1": "b"}  # sender ids


def idx(o, k):
    return ACCTS.index(o) * len(KEYS) + KEYS.index(k)


def decisions(ln):
    return [(o["o"], k, True) for o in ln["owners"] for k in o["t"]] + [(o["o"], k, False) for o in ln["owners"] for k in o["d"]]


def scoped(ln):
    return [d for d in decisions(ln) if ln["from"] == "own" or ln["from"] == d[0]]


def c_unauth_applied(prev, ln):
    """a decision of a sender whose key is not authenticated is reported as applied"""
    if ln["e"] != "TrustMsg" or prev["lv"][idx(ln["from"], ln["sk"])] == "Auth":
        return None
    for (o, k, t) in scoped(ln):
        if t and prev["lv"][idx(o, k)] != "Auth":
            ln["lv"][idx(o, k)] = "Auth"
            return "Justified"
    return None


def c_out_of_scope(prev, ln):
    """an authenticated contact's decision on a key of another account is reported as applied"""
    if ln["e"] != "TrustMsg" or ln["from"] == "own" or prev["lv"][idx(ln["from"], ln["sk"])] != "Auth":
        return None
    for (o, k, t) in decisions(ln):
        if o != ln["from"] and t and prev["lv"][idx(o, k)] != "Auth":
            ln["lv"][idx(o, k)] = "Auth"
            return "Justified"
    return None


def c_not_held(prev, ln):
    """a decision of a not yet authenticated sender is missing from the reported postponed set"""
    if ln["e"] != "TrustMsg" or prev["lv"][idx(ln["from"], ln["sk"])] == "Auth" or not scoped(ln):
        return None
    (o, k, t) = scoped(ln)[0]
    n = len(ln["pp"])
    ln["pp"] = [h for h in ln["pp"] if not (h["sk"] == ln["sk"] and h["o"] == o and h["k"] == k)]
    return "Held" if len(ln["pp"]) < n else None


def c_same_id_merged(prev, ln):
    """two decisions of one sender on the same key id under two owners are reported as one entry (seeded mutant C18-4)"""
    if ln["e"] != "TrustMsg" or prev["lv"][idx(ln["from"], ln["sk"])] == "Auth":
        return None
    for (o2, k, t2) in scoped(ln):
        first = [h for h in ln["pp"] if h["sk"] == ln["sk"] and h["k"] == k and h["o"] != o2]
        if first:
            ln["pp"] = [h for h in ln["pp"] if not (h["sk"] == ln["sk"] and h["k"] == k and h["o"] == o2)]
            first[0]["t"] = t2
            return "Held"
    return None


def c_held_foreign(prev, ln):
    """an out-of-scope decision shows up in the reported postponed set"""
    if ln["e"] != "TrustMsg" or ln["from"] == "own":
        return None
    for (o, k, t) in decisions(ln):
        if o != ln["from"]:
            ln["pp"].append({"sk": ln["sk"], "o": o, "k": k, "t": t})
            return "HeldOnlyScoped"
    return None


def c_not_fired(prev, ln):
    """the sender key became authenticated but a held decision is reported as not applied"""
    for h in prev["pp"]:
        sp = idx(OWNER[h["sk"]], h["sk"])
        tgt = idx(h["o"], h["k"])
        if prev["lv"][sp] != "Auth" and ln["lv"][sp] == "Auth" and prev["lv"][tgt] != ln["lv"][tgt] and tgt != sp:
            ln["lv"][tgt] = prev["lv"][tgt]
            return "Applied"
    return None


def c_fired_on_distrust(prev, ln):
    """the sender key was distrusted but a held decision is reported as applied"""
    for h in prev["pp"]:
        sp = idx(OWNER[h["sk"]], h["sk"])
        tgt = idx(h["o"], h["k"])
        if prev["lv"][sp] != "MDis" and ln["lv"][sp] == "MDis" and h["t"] and ln["lv"][tgt] not in ("Auth",) and tgt != sp:
            ln["lv"][tgt] = "Auth"
            return "Justified"
    return None


def c_kept_after_distrust(prev, ln):
    """the sender key was distrusted but its held decision is still reported as held"""
    for h in prev["pp"]:
        sp = idx(OWNER[h["sk"]], h["sk"])
        if prev["lv"][sp] != "MDis" and ln["lv"][sp] == "MDis" and h not in ln["pp"]:
            ln["pp"].append(h)
            return "Discarded"
    return None


def c_echo(prev, ln):
    """a message from the device's own full JID is reported as having changed a level"""
    if ln["e"] != "OwnEcho":
        return None
    for (o, k, t) in decisions(ln):
        want = "Auth" if t else "MDis"
        if ln["lv"][idx(o, k)] != want:
            ln["lv"][idx(o, k)] = want
            return "Echo"
    return None


def c_vanished(prev, ln):
    """a held decision disappears although nothing happened to its sender or subject"""
    if ln["e"] != "OwnEcho" or not ln["pp"]:
        return None
    ln["pp"] = ln["pp"][1:]
    return "Kept"


CORRUPTIONS = [c_unauth_applied, c_out_of_scope, c_not_held, c_same_id_merged, c_held_foreign, c_not_fired, c_fired_on_distrust,
               c_kept_after_distrust, c_echo, c_vanished]


def main():
    src = sys.argv[1]
    outdir = sys.argv[2] if len(sys.argv) > 2 else os.path.join(vf.OUT, "C18-corrupt")
    os.makedirs(outdir, exist_ok=True)
    lines = vf.read_ndjson(src)
    base = vf.tlc_trace("AtmTrace.tla", "AtmTrace.cfg", src, tag="AtmTrace-corrupt-base")
    print(f"unmodified trace: {base['cases']} executions, {base['lines']} lines, violations: {len(base['viol'])}")
    ok = not base["viol"]
    for c in CORRUPTIONS:
        hit = None
        for i in range(1, len(lines)):
            if lines[i]["e"] == "Reset":
                continue
            ln = copy.deepcopy(lines[i])
            exp = c(lines[i - 1], ln)
            if exp:
                hit = (i, ln, exp)
                break
        if not hit:
            print(f"{c.__name__}: no applicable line in this trace")
            ok = False
            continue
        i, ln, exp = hit
        # keep the corruption local: the trace is cut after the modified line
        k = i
        while lines[k]["e"] != "Reset":
            k -= 1
        mod = lines[:k] + lines[k:i] + [ln]
        path = os.path.join(outdir, c.__name__ + ".ndjson")
        vf.write_ndjson(path, mod)
        s = vf.tlc_trace("AtmTrace.tla", "AtmTrace.cfg", path, tag="AtmTrace-corrupt")
        props = sorted({v["prop"] for v in s["viol"] if v["line"] == i + 1})
        good = exp in props
        ok = ok and good
        print(f"{c.__name__}: line {i + 1} ({ln['e']}): {c.__doc__} -> monitor reports {props} "
              f"{'(expected ' + exp + ': caught)' if good else '(expected ' + exp + ': MISSED)'}")
    return 0 if ok else 1


if __name__ == "__main__":
    sys.exit(main())
