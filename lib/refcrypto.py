"""refcrypto — independent reference implementations (Python hashlib/hmac only) of the SASL mechanisms
qxmpp implements as a client, written from the specifications:

  SCRAM      RFC 5802 (SCRAM-SHA-1), RFC 7677 (SCRAM-SHA-256); -SHA-512 / -SHA3-512 are the same construction
             with another hash.  No channel binding ("n,,"), no authzid.
  DIGEST-MD5 RFC 2831 (qop=auth, charset=utf-8, no authzid), including the quoted-string grammar.
  PLAIN      RFC 4616.
  HT-*-NONE  XEP-0484 (FAST): initial response = authcid NUL HMAC(token, "Initiator" || cb-data), cb-data empty.

This is the interpretation of the uninterpreted constructors of spec/SaslExchange.tla (Hi, HMAC, H, ...): the
byte-level half of C06 is a differential check against this module, not model checking.
Nothing here imports or mirrors code of /repo.
"""
import base64
import hashlib
import hmac as _hmac

SCRAM_HASHES = {
    "SCRAM-SHA-1": "sha1",
    "SCRAM-SHA-256": "sha256",
    "SCRAM-SHA-512": "sha512",
    "SCRAM-SHA3-512": "sha3_512",
}
HT_HASHES = {
    "SHA-256": "sha256", "SHA-384": "sha384", "SHA-512": "sha512",
    "SHA3-224": "sha3_224", "SHA3-256": "sha3_256", "SHA3-384": "sha3_384", "SHA3-512": "sha3_512",
}


def b64(b):
    return base64.b64encode(b).decode("ascii")


def H(alg, data):
    return hashlib.new(alg, data).digest()


def HMAC(alg, key, msg):
    return _hmac.new(key, msg, alg).digest()


def Hi(alg, password, salt, i):
    """RFC 5802 section 2.2: Hi(str, salt, i) = PBKDF2-HMAC with dkLen = hash length; written out, not pbkdf2_hmac."""
    u = HMAC(alg, password, salt + b"\x00\x00\x00\x01")
    acc = int.from_bytes(u, "big")
    for _ in range(i - 1):
        u = HMAC(alg, password, u)
        acc ^= int.from_bytes(u, "big")
    return acc.to_bytes(hashlib.new(alg).digest_size, "big")


def Hi_fast(alg, password, salt, i):
    return hashlib.pbkdf2_hmac(alg, password, salt, i)


def xor(a, b):
    return bytes(x ^ y for x, y in zip(a, b))


# ------------------------------------------------------------------------------------------ SCRAM
def saslname(user):
    """RFC 5802 section 5.1: ',' and '=' in the user name are sent as =2C and =3D."""
    return user.replace("=", "=3D").replace(",", "=2C")


class Scram:
    """One SCRAM exchange seen from a conforming server that knows (user, password)."""

    def __init__(self, mech, user, password, cnonce, snonce, salt, iterations):
        self.alg = SCRAM_HASHES[mech]
        self.user, self.password = user, password
        self.cnonce, self.snonce, self.salt, self.i = cnonce, snonce, salt, iterations

    # messages (bytes)
    def client_first_bare(self):
        return b"n=" + saslname(self.user).encode("utf-8") + b",r=" + self.cnonce.encode("utf-8")

    def client_first(self):
        return b"n,," + self.client_first_bare()

    def server_first(self, nonce=None, salt_field=None, iter_field=None):
        """honest server-first unless a field is overridden (None = honest, False = field absent, str = literal value)"""
        n = (self.cnonce + self.snonce) if nonce is None else nonce
        s = b64(self.salt) if salt_field is None else salt_field
        i = str(self.i) if iter_field is None else iter_field
        parts = []
        if n is not False:
            parts.append("r=" + n)
        if s is not False:
            parts.append("s=" + s)
        if i is not False:
            parts.append("i=" + i)
        return ",".join(parts).encode("utf-8")

    def client_final_without_proof(self, server_first):
        nonce = dict(p.split("=", 1) for p in server_first.decode("utf-8").split(",") if "=" in p).get("r", "")
        return b"c=" + base64.b64encode(b"n,,") + b",r=" + nonce.encode("utf-8")

    def auth_message(self, server_first):
        return self.client_first_bare() + b"," + server_first + b"," + self.client_final_without_proof(server_first)

    def salted_password(self, password=None, salt=None, i=None):
        return Hi_fast(self.alg, (self.password if password is None else password).encode("utf-8"),
                       self.salt if salt is None else salt, self.i if i is None else i)

    def client_proof(self, server_first, password=None):
        sp = self.salted_password(password)
        ck = HMAC(self.alg, sp, b"Client Key")
        sk = H(self.alg, ck)
        return xor(ck, HMAC(self.alg, sk, self.auth_message(server_first)))

    def client_final(self, server_first):
        return self.client_final_without_proof(server_first) + b",p=" + base64.b64encode(self.client_proof(server_first))

    def server_signature(self, server_first, password=None, auth_message=None):
        sp = self.salted_password(password)
        return HMAC(self.alg, HMAC(self.alg, sp, b"Server Key"), self.auth_message(server_first) if auth_message is None else auth_message)

    def server_final(self, server_first, password=None, auth_message=None):
        return b"v=" + base64.b64encode(self.server_signature(server_first, password, auth_message))

    def server_accepts(self, server_first, client_final, password=None):
        """RFC 5802 section 3: would a server holding `password` accept this client-final message?"""
        try:
            fields = dict(p.split(b"=", 1) for p in client_final.split(b","))
            proof = base64.b64decode(fields[b"p"], validate=True)
        except Exception:
            return False
        if client_final.rsplit(b",p=", 1)[0] != self.client_final_without_proof(server_first):
            return False
        sp = self.salted_password(password)
        stored = H(self.alg, HMAC(self.alg, sp, b"Client Key"))
        sig = HMAC(self.alg, stored, self.auth_message(server_first))
        if len(proof) != len(sig):
            return False
        return _hmac.compare_digest(H(self.alg, xor(proof, sig)), stored)


# ------------------------------------------------------------------------------------- DIGEST-MD5
def _md5(b):
    return hashlib.md5(b).digest()


def _hex(b):
    return b.hex().encode("ascii")


def digest_response_value(user, realm, password, nonce, cnonce, nc, digest_uri, a2_prefix=b"AUTHENTICATE"):
    """RFC 2831 section 2.1.2.1 (qop=auth, no authzid); all arguments bytes."""
    a1 = _md5(user + b":" + realm + b":" + password) + b":" + nonce + b":" + cnonce
    a2 = a2_prefix + b":" + digest_uri
    return _hex(_md5(_hex(_md5(a1)) + b":" + nonce + b":" + nc + b":" + cnonce + b":auth:" + _hex(_md5(a2))))


def digest_rspauth_value(user, realm, password, nonce, cnonce, nc, digest_uri):
    """RFC 2831 section 2.1.3: same with A2 = ":" digest-uri"""
    return digest_response_value(user, realm, password, nonce, cnonce, nc, digest_uri, a2_prefix=b"")


_TOKEN_SPECIALS = b'()<>@,;:\\"/[]?={} \t'


def digest_quote(value):
    return b'"' + value.replace(b"\\", b"\\\\").replace(b'"', b'\\"') + b'"'


def digest_serialize(pairs, always_quote=("username", "realm", "nonce", "cnonce", "digest-uri", "rspauth-never")):
    """directives as RFC 2831 writes them: the string-valued ones are quoted-strings"""
    out = []
    for k, v in pairs:
        out.append(k.encode() + b"=" + (digest_quote(v) if k in always_quote or any(ch in _TOKEN_SPECIALS for ch in v) else v))
    return b",".join(out)


def digest_parse(msg):
    """RFC 2831 section 7.1 / RFC 2616 section 2.2: #( token "=" ( token | quoted-string ) ), with quoted-pair.
    Returns a list of (key, value, was_quoted); raises ValueError on malformed input."""
    res = []
    i, n = 0, len(msg)
    while i < n:
        while i < n and msg[i:i + 1] in (b" ", b"\t", b","):
            i += 1
        if i >= n:
            break
        j = msg.find(b"=", i)
        if j < 0:
            raise ValueError("directive without '='")
        key = msg[i:j].strip().decode("ascii")
        i = j + 1
        if msg[i:i + 1] == b'"':
            i += 1
            val = bytearray()
            while True:
                if i >= n:
                    raise ValueError("unterminated quoted-string")
                ch = msg[i:i + 1]
                if ch == b"\\":
                    if i + 1 >= n:
                        raise ValueError("dangling backslash")
                    val += msg[i + 1:i + 2]
                    i += 2
                elif ch == b'"':
                    i += 1
                    break
                else:
                    val += ch
                    i += 1
            res.append((key, bytes(val), True))
        else:
            j = msg.find(b",", i)
            if j < 0:
                j = n
            res.append((key, msg[i:j].strip(), False))
            i = j
    return res


class DigestMd5:
    """One DIGEST-MD5 exchange seen from a conforming server that knows (user, password)."""

    def __init__(self, user, password, realm, nonce, cnonce, host, service="xmpp"):
        self.user, self.password = user.encode("utf-8"), password.encode("utf-8")
        self.realm, self.nonce, self.cnonce = realm.encode("utf-8"), nonce.encode("utf-8"), cnonce.encode("utf-8")
        self.digest_uri = (service + "/" + host).encode("utf-8")

    def challenge(self, with_nonce=True, qop="auth", with_realm=True):
        pairs = []
        if with_realm and self.realm:
            pairs.append(("realm", self.realm))
        if with_nonce:
            pairs.append(("nonce", self.nonce))
        if qop is not None:
            pairs.append(("qop", qop.encode()))
        pairs += [("charset", b"utf-8"), ("algorithm", b"md5-sess")]
        return digest_serialize(pairs)

    def expected_response_fields(self, password=None):
        pw = self.password if password is None else password.encode("utf-8")
        f = {"username": self.user, "nonce": self.nonce, "cnonce": self.cnonce, "nc": b"00000001", "qop": b"auth",
             "digest-uri": self.digest_uri, "charset": b"utf-8",
             "response": digest_response_value(self.user, self.realm, pw, self.nonce, self.cnonce, b"00000001", self.digest_uri)}
        if self.realm:
            f["realm"] = self.realm
        return f

    def check_response(self, msg, password=None):
        """What a conforming server does with the client's response: list of problems (empty = accepted)."""
        try:
            got = digest_parse(msg)
        except ValueError as e:
            return [f"malformed: {e}"], []
        keys = [k for k, _, _ in got]
        probs = [f"directive {k} repeated" for k in set(keys) if keys.count(k) > 1]
        d = {k: v for k, v, _ in got}
        exp = self.expected_response_fields(password)
        for k, v in exp.items():
            if k not in d:
                # qop defaults to auth, charset is needed because the reference offers utf-8 and the data may be non-Latin-1
                if k == "qop" or (k == "realm" and not v):
                    continue
                probs.append(f"{k} missing")
            elif d[k] != v:
                probs.append(f"{k}: got {d[k]!r} expected {v!r}")
        for k in d:
            if k not in exp and k not in ("realm", "maxbuf", "authzid", "cipher"):
                probs.append(f"unexpected directive {k}")
        if "authzid" in d:
            probs.append("authzid sent (none configured)")
        # RFC 2831 writes these as quoted-strings; an unquoted token of the same value is accepted by the
        # generic #(token "=" (token | quoted-string)) grammar, so it is reported as a note only
        notes = [f"{k} not sent as quoted-string" for k, v, q in got if k in ("username", "realm", "nonce", "cnonce", "digest-uri") and not q]
        return probs, notes

    def rspauth(self, password=None):
        pw = self.password if password is None else password.encode("utf-8")
        return b"rspauth=" + digest_rspauth_value(self.user, self.realm, pw, self.nonce, self.cnonce, b"00000001", self.digest_uri)


# ------------------------------------------------------------------------------------- PLAIN / HT
def plain_message(user, password, authzid=""):
    return authzid.encode("utf-8") + b"\0" + user.encode("utf-8") + b"\0" + password.encode("utf-8")


def ht_message(hash_name, user, token, cb_data=b""):
    return user.encode("utf-8") + b"\0" + HMAC(HT_HASHES[hash_name], token.encode("utf-8"), b"Initiator" + cb_data)


def ht_responder(hash_name, token, cb_data=b""):
    return HMAC(HT_HASHES[hash_name], token.encode("utf-8"), b"Responder" + cb_data)


# ------------------------------------------------------------------------------------- self test
def selftest():
    """RFC test vectors: 5802 section 5, 7677 section 3, 2831 section 4, and Hi against hashlib.pbkdf2_hmac."""
    s = Scram("SCRAM-SHA-1", "user", "pencil", "fyko+d2lbbFgONRv9qkxdawL", "3rfcNHYJY1ZVvWVs7j",
              base64.b64decode("QSXCR+Q6sek8bf92"), 4096)
    sf = s.server_first()
    assert s.client_first() == b"n,,n=user,r=fyko+d2lbbFgONRv9qkxdawL"
    assert sf == b"r=fyko+d2lbbFgONRv9qkxdawL3rfcNHYJY1ZVvWVs7j,s=QSXCR+Q6sek8bf92,i=4096"
    assert s.client_final(sf) == b"c=biws,r=fyko+d2lbbFgONRv9qkxdawL3rfcNHYJY1ZVvWVs7j,p=v0X8v3Bz2T0CJGbJQyF0X+HI4Ts="
    assert s.server_final(sf) == b"v=rmF9pqV8S7suAoZWja4dJRkFsKQ="
    assert s.server_accepts(sf, s.client_final(sf)) and not s.server_accepts(sf, s.client_final(sf), password="pencil2")
    s = Scram("SCRAM-SHA-256", "user", "pencil", "rOprNGfwEbeRWgbNEkqO", "%hvYDpWUa2RaTCAfuxFIlj)hNlF$k0",
              base64.b64decode("W22ZaJ0SNY7soEsUEjb6gQ=="), 4096)
    sf = s.server_first()
    assert s.client_final(sf) == (b"c=biws,r=rOprNGfwEbeRWgbNEkqO%hvYDpWUa2RaTCAfuxFIlj)hNlF$k0,"
                                  b"p=dHzbZapWIk4jUhN+Ute9ytag9zjfMHgsqmmiz7AndVQ=")
    assert s.server_final(sf) == b"v=6rriTRBi23WpRR/wtup+mMhUZUn/dB5nLTJRsjl95G4="
    for alg in ("sha1", "sha256", "sha512", "sha3_512"):
        assert Hi(alg, b"pw", b"salt", 37) == Hi_fast(alg, b"pw", b"salt", 37)
    d = DigestMd5("chris", "secret", "elwood.innosoft.com", "OA6MG9tEQGm2hh", "OA6MHXh6VqTrRk", "elwood.innosoft.com", "imap")
    assert d.expected_response_fields()["response"] == b"d388dad90d4bbd760a152321f2143af7"
    assert d.rspauth() == b"rspauth=ea40f60335c427b5527b84dbabcdfffd"
    assert digest_parse(b'a="x\\"y\\\\",b=c, d="e,f"') == [("a", b'x"y\\', True), ("b", b"c", False), ("d", b"e,f", True)]
    assert saslname("a=b,c") == "a=3Db=2Cc"
    assert plain_message("u", "p") == b"\0u\0p"
    return True


if __name__ == "__main__":
    print("refcrypto selftest", selftest())
