#!/usr/bin/env python3
"""Binding demonstration (HOWTO rule 10a) for C17 / C20: corrupt one recorded field of an ACCEPTED trace and show
that the trace monitor reports it.   usage: lib/corrupt_trace_demo.py C17|C17client|C20 <accepted trace chunk .ndjson>"""
import copy
import json
import os
import sys

sys.path.insert(0, os.path.dirname(os.path.abspath(__file__)))
import vf  # noqa: E402


def first(lines, pred):
    return next(i for i, o in enumerate(lines) if pred(o))


def c17(lines):
    yield "unchanged", lines
    t = copy.deepcopy(lines)
    i = first(t, lambda o: o["e"] == "Split" and "body" in o["o"]["sens"])
    t[i]["o"]["pub"].append("body")          # the body element shows up in the public part too
    yield "Split.pub += body", t
    t = copy.deepcopy(lines)
    i = first(t, lambda o: o["e"] == "Split" and "subject" in o["o"]["sens"])
    t[i]["o"]["ptok"].append("subject")      # only the distinctive value of the subject is found in the public text
    yield "Split.ptok += subject", t
    t = copy.deepcopy(lines)
    i = first(t, lambda o: o["e"] == "Split" and "thread" in o["o"]["sens"])
    t[i]["o"]["sens"].remove("thread")       # an element of the unsplit message is in neither part
    yield "Split.sens -= thread", t
    t = copy.deepcopy(lines)
    i = first(t, lambda o: o["e"] == "Recover" and "reply" in o["o"]["rec"])
    t[i]["o"]["rec"].remove("reply")         # a field is not recovered
    yield "Recover.rec -= reply", t
    t = copy.deepcopy(lines)
    i = first(t, lambda o: o["e"] == "Split" and "body" in o["o"]["stok"])
    t[i]["o"]["ptok"].append("body")         # the body's value is found in the raw text of both parts
    yield "Split.ptok += body (value in both parts)", t
    t = copy.deepcopy(lines)
    i = first(t, lambda o: o["e"] == "Split")
    t[i]["o"]["pub"].append("?secret|urn:x")  # an element nobody knows in the public part
    yield "Split.pub += unknown element", t


def c17_client(lines):
    """corruptions of a client-path (Send) line; needs a chunk that holds such executions"""
    yield "unchanged", lines
    t = copy.deepcopy(lines)
    i = first(t, lambda o: o["e"] == "Send" and "subject" in o["o"]["call"])
    t[i]["o"]["wire"].append("subject")      # the subject element is on the wire next to the payload
    yield "Send.wire += subject", t
    t = copy.deepcopy(lines)
    i = first(t, lambda o: o["e"] == "Send" and "body" in o["o"]["call"])
    t[i]["o"]["wtok"].append("body")         # only the body's distinctive value is found in the raw stanza
    yield "Send.wtok += body", t
    t = copy.deepcopy(lines)
    i = first(t, lambda o: o["e"] == "Send" and "stanzaId" in o["o"]["wire"])
    t[i]["o"]["wire"].remove("stanzaId")     # a public element of the message did not make it to the wire
    yield "Send.wire -= stanzaId", t
    t = copy.deepcopy(lines)
    i = first(t, lambda o: o["e"] == "SendPlain" and "body" in o["o"]["wire"])
    t[i]["o"]["wire"].append("subject")      # the control is never judged
    yield "SendPlain.wire += subject (control, not judged)", t


def c20(lines):
    yield "unchanged", lines
    t = copy.deepcopy(lines)
    i = first(t, lambda o: o.get("t") == "change")
    t[i]["o"]["ver"] = "AAAAAAAAAAAAAAAAAAAAAAAAAAA="      # a different hash than the reference
    yield "edit.ver altered", t
    t = copy.deepcopy(lines)
    i = first(t, lambda o: o.get("t") == "neutral")
    t[i]["o"]["ver"] = t[i]["o"]["exp"] = t[i]["o"]["refwire"] = "AAAAAAAAAAAAAAAAAAAAAAAAAAA="   # consistent, but a reordering changed it
    yield "neutral step changes the hash (reference altered alike)", t
    t = copy.deepcopy(lines)
    i = first(t, lambda o: o.get("t") == "change" and t[t.index(o) - 1]["e"] != "Reset")
    for k in ("ver", "exp", "refwire"):
        t[i]["o"][k] = t[i - 1]["o"]["ver"]                 # an alteration left the hash as it was
    yield "change step keeps the hash", t
    t = copy.deepcopy(lines)
    i = first(t, lambda o: o.get("t") == "emit")
    t[i]["o"]["adv"] = "AAAAAAAAAAAAAAAAAAAAAAAAAAA="
    yield "emit.adv altered", t


def main():
    prop, path = sys.argv[1], sys.argv[2]
    lines = vf.read_ndjson(path)
    spec = {"C17": ("SceTrace.tla", "SceTrace.cfg", c17), "C17client": ("SceTrace.tla", "SceTrace.cfg", c17_client),
            "C20": ("CapsTrace.tla", "CapsTrace.cfg", c20)}[prop]
    os.makedirs(os.path.join(vf.OUT, "demo"), exist_ok=True)
    for name, t in spec[2](lines):
        p = os.path.join(vf.OUT, "demo", f"{prop}-corrupt.ndjson")
        vf.write_ndjson(p, t)
        s = vf.tlc_trace(spec[0], spec[1], p, tag=f"demo-{prop}")
        print(f"{prop} [{name}]: violations reported = "
              + (json.dumps(sorted({(v['prop'], v['case']) for v in s['viol']})) if s["viol"] else "none"))


if __name__ == "__main__":
    main()
