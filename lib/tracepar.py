"""Helpers shared by the C17 / C20 checks: run independent TLC jobs side by side (at most 4 JVMs) and
validate a trace in chunks of whole executions (the trace specifications are total monitors whose state is
re-initialised at every Reset line, so executions are independent)."""
from concurrent.futures import ThreadPoolExecutor

import vf


def par(jobs, max_workers=4):
    with ThreadPoolExecutor(max_workers=max_workers) as ex:
        futs = [ex.submit(j) for j in jobs]
        return [f.result() for f in futs]


def split_executions(lines):
    """list of trace lines -> list of executions (each starts with its Reset line)"""
    out = []
    for o in lines:
        if o.get("e") == "Reset":
            out.append([])
        if out:
            out[-1].append(o)
    return out


def tlc_trace_chunks(chk, spec, cfg, executions, nchunks=4, min_per_chunk=100, heap="3g"):
    """Validate `executions` with `spec`/`cfg` in up to nchunks parallel TLC runs; returns the merged summary
    (cases, lines, ndiv, viol, divs). `line` fields of the summaries are chunk-relative."""
    n = max(1, min(nchunks, len(executions) // min_per_chunk))
    per = (len(executions) + n - 1) // n
    jobs = []
    for ci in range(n):
        part = executions[ci * per:(ci + 1) * per]
        if not part:
            continue
        path = chk.path(f"trace-{ci}.ndjson")
        vf.write_ndjson(path, [ln for ex in part for ln in ex])
        tag = cfg.replace(".cfg", "") + f"-{ci}"
        jobs.append(lambda path=path, tag=tag: vf.tlc_trace(spec, cfg, path, tag=tag, heap=heap))
    sums = par(jobs)
    return {"cases": sum(x["cases"] for x in sums), "lines": sum(x["lines"] for x in sums),
            "ndiv": sum(x["ndiv"] for x in sums), "viol": [v for x in sums for v in x["viol"]],
            "divs": [d for x in sums for d in x["divs"]], "wall_s": max(x["wall_s"] for x in sums), "chunks": len(sums)}
