#include "QXmppPubSubEvent.h"
#include "QXmppPubSubBaseItem.h"
#include <QDomDocument>
#include <QXmlStreamWriter>
#include <cstdio>
static QString pass(const QString &xml)
{
    QDomDocument d;
    d.setContent(xml, true);
    QXmppPubSubEvent<QXmppPubSubBaseItem> ev;
    ev.parse(d.documentElement());
    QString out;
    QXmlStreamWriter w(&out);
    ev.toXml(&w);
    return out;
}
int main()
{
    QString in = "<message xmlns='jabber:client' from='pubsub.example.org' to='me@example.org'>"
                 "<event xmlns='http://jabber.org/protocol/pubsub#event'><items node='n'><item id='2'/></items></event>"
                 "<event xmlns='http://jabber.org/protocol/pubsub#event'><delete node='n'/></event></message>";
    auto p1 = pass(in), p2 = pass(p1);
    printf("pass 1: %s\npass 2: %s\n%s\n", qPrintable(p1), qPrintable(p2), p1 == p2 ? "FIXPOINT" : "NOT A FIXPOINT");
    return p1 == p2 ? 0 : 1;
}
