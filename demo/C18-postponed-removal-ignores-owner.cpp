// Stand-alone demonstration for fixes/C18-postponed-removal-ignores-owner.patch (property C18).
//
// Two contacts, alice and bob, each have a device whose key is not authenticated yet
// (alice's phone A1, bob's phone B1).  Each of them sends a trust message about a key of its
// OWN account that happens to carry the same key id K: "alice: distrust K", "bob: distrust K".
// Both decisions are held back.  Then the user authenticates bob's phone B1.
//   expected (C18): bob's held decision takes effect -> (bob,K) ManuallyDistrusted;
//                   alice's decision stays held (A1 is still unauthenticated) and takes effect
//                   when A1 is authenticated later -> (alice,K) ManuallyDistrusted.
//   unchanged tree: firing bob's decision removes EVERY held "distrust K", whoever the owner:
//                   alice's decision is lost and (alice,K) is never distrusted.
//
// build: g++ -std=c++20 -fPIC demo.cpp -I<repo>/src/base -I<repo>/src/client -I<build>/src
//        $(pkg-config --cflags --libs Qt5Core Qt5Network Qt5Xml) -L<build>/src -lQXmppQt5 -Wl,-rpath,<build>/src
#include "QXmppAtmManager.h"
#include "QXmppAtmTrustMemoryStorage.h"
#include "QXmppClient.h"
#include "QXmppConfiguration.h"
#include "QXmppE2eeMetadata.h"
#include "QXmppMessage.h"
#include "QXmppTask.h"
#include "QXmppTrustMessageElement.h"
#include "QXmppTrustMessageKeyOwner.h"

#include <QCoreApplication>
#include <cstdio>

using namespace QXmpp;

static const QString ENC = QStringLiteral("eu.siacs.conversations.axolotl");
static const QString ME = QStringLiteral("me@example.org");
static const QString ALICE = QStringLiteral("alice@example.org");
static const QString BOB = QStringLiteral("bob@example.com");
static int failures = 0;

#define CHECK(cond, msg)                                  \
    do {                                                  \
        if (!(cond)) {                                    \
            std::printf("FAIL: %s\n", msg);               \
            ++failures;                                   \
        } else {                                          \
            std::printf("ok:   %s\n", msg);               \
        }                                                 \
    } while (0)

template<typename T>
static T wait(QXmppTask<T> task)
{
    while (!task.isFinished()) {
        QCoreApplication::processEvents();
    }
    return task.result();
}
static void waitVoid(QXmppTask<void> task)
{
    while (!task.isFinished()) {
        QCoreApplication::processEvents();
    }
}

static QXmppMessage trustMessage(const QString &fromFull, const QByteArray &senderKey, const QString &owner, const QList<QByteArray> &distrusted)
{
    QXmppTrustMessageKeyOwner keyOwner;
    keyOwner.setJid(owner);
    keyOwner.setDistrustedKeys(distrusted);
    QXmppTrustMessageElement element;
    element.setUsage(QStringLiteral("urn:xmpp:atm:1"));
    element.setEncryption(ENC);
    element.setKeyOwners({ keyOwner });
    QXmppE2eeMetadata metadata;
    metadata.setSenderKey(senderKey);
    QXmppMessage message;
    message.setFrom(fromFull);
    message.setE2eeMetadata(metadata);
    message.setTrustMessageElement(element);
    return message;
}

int main(int argc, char **argv)
{
    QCoreApplication app(argc, argv);
    QXmppClient client;
    QXmppAtmTrustMemoryStorage storage;
    QXmppAtmManager manager(&storage);
    client.addExtension(&manager);
    client.configuration().setJid(ME + QStringLiteral("/phone"));

    const QByteArray A1 = QByteArrayLiteral("alice-phone-key");
    const QByteArray B1 = QByteArrayLiteral("bob-phone-key");
    const QByteArray K = QByteArrayLiteral("tablet-key");

    Q_EMIT client.messageReceived(trustMessage(ALICE + QStringLiteral("/phone"), A1, ALICE, { K }));
    Q_EMIT client.messageReceived(trustMessage(BOB + QStringLiteral("/phone"), B1, BOB, { K }));
    QCoreApplication::processEvents();

    CHECK(wait(storage.keysForPostponedTrustDecisions(ENC, { A1 })).value(false).contains(ALICE, K), "held for alice's phone: distrust (alice, K)");
    CHECK(wait(storage.keysForPostponedTrustDecisions(ENC, { B1 })).value(false).contains(BOB, K), "held for bob's phone: distrust (bob, K)");

    // the user authenticates bob's phone
    waitVoid(manager.makeTrustDecisions(ENC, BOB, { B1 }, {}));
    QCoreApplication::processEvents();

    CHECK(wait(manager.trustLevel(ENC, BOB, K)) == TrustLevel::ManuallyDistrusted, "(bob, K) is distrusted, as decided by bob's now authenticated phone");
    CHECK(wait(manager.trustLevel(ENC, ALICE, K)) == TrustLevel::Undecided, "(alice, K) is untouched: alice's phone is not authenticated");
    CHECK(wait(storage.keysForPostponedTrustDecisions(ENC, { A1 })).value(false).contains(ALICE, K), "alice's decision on (alice, K) is still held back after (bob, K) was decided");

    // later the user authenticates alice's phone as well
    waitVoid(manager.makeTrustDecisions(ENC, ALICE, { A1 }, {}));
    QCoreApplication::processEvents();

    CHECK(wait(manager.trustLevel(ENC, ALICE, K)) == TrustLevel::ManuallyDistrusted, "(alice, K) is distrusted once alice's phone is authenticated");

    if (failures) {
        std::printf("\nDEMO FAILED: %d check(s) violated property C18\n", failures);
        return 1;
    }
    std::printf("\nDEMO PASSED\n");
    return 0;
}
