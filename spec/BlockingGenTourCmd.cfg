SPECIFICATION Spec
CONSTANTS
  Jids = {"j1", "j2"}
  InitSrv = {"j1"}
  Kinds = {"Fetch", "Block", "Unblock", "Deliver", "Srv"}
  Retries = {FALSE}
  CmdSets = {{}, {"j2"}, {"j1", "j2"}}
  OthSets = {}
  Froms = {"none"}
  MaxT = 3
  MaxO = 0
  MaxD = 0
  MaxQ = 3
  ProbeMax = 0
  MaxHist = 99
VIEW View
ACTION_CONSTRAINT EmitBehaviour
CHECK_DEADLOCK FALSE
