SPECIFICATION Spec
CONSTANTS
  Doms = {"R", "A"}
  NI = 1
  MaxOC = 3
  MaxMsg = 1
  Kinds = {"IOpen", "IResult", "IVerifyReq", "IStanza", "IWs", "IClose", "OHeader", "OVerifyAns", "OResult", "OStanza", "OClose", "XFrom", "Listen", "Send"}
  Shapes = {"ok", "typed", "wrongto", "nokey"}
  FromDoms = {"R", "A", "L", "none"}
  Tos = {"L", "X"}
  Dev = {}
  MaxHist = 99
INVARIANTS TypeOK NoSpoof OneLiveOrig ExactlyOnceInOrder NoLeak
PROPERTIES AuthBeforeData ValidOnlyRelayed AcceptOnlyValidated
VIEW View
CHECK_DEADLOCK FALSE
