SPECIFICATION Spec
CONSTANTS
  Apis = {"task"}
  Archives = {"own"}
  Froms = {"none"}
  E2ee = TRUE
  Encs = {TRUE}
  Kinds = {"Query", "Result", "Fin", "Decrypt"}
  MaxQ = 2
  MaxM = 3
  MaxD = 0
  MaxDepth = 99
  MaxHist = 99
VIEW View
ACTION_CONSTRAINT EmitBehaviour
CHECK_DEADLOCK FALSE
