SPECIFICATION Spec
CONSTANTS
  MaxRefs = 2
  Kinds = {"void", "copy", "move"}
  Bodies = {"none", "destroyCtx", "dropOthers", "refinish", "reThen"}
  MaxHist = 6
CONSTRAINT Bound
ACTION_CONSTRAINT EmitBehaviour
CHECK_DEADLOCK FALSE
