SPECIFICATION Spec
CONSTANTS
  Types = {"get", "result", "garbage"}
  Payloads = {"version", "unknown"}
  Froms = {"Contact"}
  ExtSets = {"all"}
  IdKinds = {"fresh"}
  Peers = {}
  Deferred = TRUE
  MaxHosts = 2
  MaxHist = 99
INVARIANTS TypeOK RequestAnswered ResponseNotAnswered NoReplyLoop DeferredAnswered NothingLeftPending
VIEW View
CHECK_DEADLOCK FALSE
