SPECIFICATION Spec
CONSTANTS
  Classes = {"OwnBare", "OwnBareCase", "OwnFullSelf", "OwnFullOther", "OwnBareSlash", "OwnBareSpace", "Domain", "SuffixLookalike", "PrefixLookalike", "Truncated", "Empty", "Contact", "ContactFull", "OwnAsResource", "Homoglyph", "PreviousOwnBare", "OwnFullPrefix"}
  Wrappers = {"none", "sent", "received", "sentBody", "recvBody", "privSent", "both", "nestedSent", "nestedRecv", "emptyCarbon", "fwdWrongNs", "msgWrongNs", "fwdOnly", "wrongNs"}
  Inners = {"chatIn", "chatOut", "spoof", "noBody", "error", "rich", "private", "noCopy", "delay", "headline", "groupchat", "fwdInside"}
  Gens = {"v1", "v2"}
  JidCfgs = {"plain", "nores", "mixed"}
  Estabs = {"configured", "boundPlain", "boundSlash", "boundAt", "boundUnicode", "boundLong"}
  Hows = {"setJid", "setUserDomain", "assign", "copySetJid"}
  MaxHist = 99
INVARIANTS TypeOK OnlyOwnBare ExactInner OuterPlain
PROPERTIES NeverFromOthers
VIEW View
CHECK_DEADLOCK FALSE
