SPECIFICATION Spec
CONSTANTS
  Vers = {"sasl", "sasl2"}
  Mechs = {"PLAIN"}
  Creds = {"right"}
  BindRes = {"ra", "rv"}
  Kinds = {"message", "presence", "iq"}
  Froms = {"absent", "own", "ownBare", "victim", "other", "ownOtherRes", "ownSibling", "ownCase", "ownSlash", "ownPrefix", "ownDomain", "ownLookalike"}
  Tos = {"victimBare", "victimFull", "domain", "absent"}
  Stanzas <- FromStanzas
  MaxPending = 1
  MaxRetry = 0
  MaxHist = 99
VIEW GenView
ACTION_CONSTRAINT EmitNoReauth
CHECK_DEADLOCK FALSE
