SPECIFICATION Spec
CONSTANTS
  Apis <- MamApis
  StrangerPayloads = {"empty", "error", "foreign", "fin"}
  Payloads = {"empty", "error", "foreign", "fin"}
  MaxMsgs = 2
  MaxPend = 1
  MaxHist = 99
VIEW GenView
ACTION_CONSTRAINT EmitBehaviour
CHECK_DEADLOCK FALSE
