---------------------------- MODULE SaslExchange ----------------------------
(***************************************************************************)
(* The SASL exchange after the mechanism has been chosen (property C06):   *)
(* the client mechanism objects (QXmppSaslClientScram / DigestMd5 / Plain /*)
(* Ht ::respond, src/base/QXmppSasl.cpp) driven by SaslManager /           *)
(* Sasl2Manager::handleElement (src/client/QXmppSaslManager.cpp), against  *)
(* a server that may send anything at any time.                            *)
(*                                                                         *)
(* Messages are symbolic (Dolev-Yao style) terms.  TLC cannot hash, so the *)
(* cryptographic functions are uninterpreted constructors, equal iff their *)
(* arguments are equal:                                                    *)
(*    Hi(pw, salt, i)         salted password                              *)
(*    AM(sf)                  auth message of the exchange whose accepted  *)
(*                            server-first is sf (client-first is fixed)   *)
(*    SSig(sp, am)            server signature                             *)
(*    Rsp(pw, nonce)          DIGEST-MD5 rspauth value                     *)
(* A server that does not hold the password can only build such terms from *)
(* another password ("other"), or replay one made for another exchange     *)
(* ("stale").  lib/refcrypto.py interprets the constructors when a         *)
(* behaviour is replayed on the implementation.                            *)
(*                                                                         *)
(* One action per server element (Challenge / Success / Failure /          *)
(* Continue) = one call of handleElement; the client's reaction is part of *)
(* the action (single-threaded, synchronous).  The specification models    *)
(* the *intended* client: a <success/> is accepted for SCRAM only if the   *)
(* server signature has been verified (in an earlier challenge or in the   *)
(* data carried by the success element itself).                            *)
(***************************************************************************)
EXTENDS Naturals, Sequences, FiniteSets, TLC

CONSTANTS Mechs,     \* subset of {"SCRAM", "DIGEST", "PLAIN", "HT"}
          Versions,  \* subset of {1, 2}: RFC 6120 SASL, XEP-0388 SASL 2
          MaxHist,   \* bound on the number of server elements of a behaviour
          MaxPost,   \* server elements explored after the exchange has ended
          PostAll    \* TRUE: every payload is tried after the end; FALSE: a representative subset (quick export)

VARIABLES mech, ver,
          step,      \* the mechanism object's step counter (1 = initial response sent)
          result,    \* "Pending" | "Success" | "Error": what the caller of authenticate() has been told
          err,       \* AuthenticationError type when result = "Error"
          sent,      \* elements sent so far (the <auth/> / <authenticate/> is the first)
          lastOut,   \* abstract elements sent by the last handler call
          lastRet,   \* HandleElementResult of the last handler call
          sf,        \* server-first message the SCRAM client accepted / DIGEST challenge it answered
          verified,  \* the mechanism has verified the server signature / rspauth
          aborted,   \* SASL 2: a <continue/> was answered with <abort/>
          proved,    \* ghost: the server has presented SSig(Hi(Pw, ..), AM(this exchange))
          badProof,  \* ghost: a wrong proof was presented while the client could check it
          post,      \* server elements after the end of the exchange
          hist

mvars == <<mech, ver, step, result, err, sent, lastOut, lastRet, sf, verified, aborted, proved, badProof, post>>
vars  == <<mvars, hist>>

Pw == "pw"              \* the password the client holds
NoSF == [t |-> "-", x |-> "-", y |-> "-", z |-> "-"]

(* --- terms ------------------------------------------------------------------ *)
Hi(p, s, i)  == <<"Hi", p, s, i>>
AM(m)        == <<"AM", "client-first", m>>
SSig(sp, am) == <<"SSig", sp, am>>
Rsp(p, n)    == <<"Rsp", p, n>>

(* --- payloads: [t, x, y, z] --------------------------------------------------*)
\*  NONE    no data at all (only in <success/>)
\*  EMPTY   zero-length data           GARBAGE  data that is no message of the mechanism
\*  SF      SCRAM server-first:  x = nonce ("ext" extends the client nonce | "foreign" | "none"),
\*                               y = salt ("ok" | "empty" | "none"), z = iterations ("ok" | "zero" | "neg" | "nan" | "none")
\*  FIN     SCRAM server-final:  x = "right" (v = SSig of the password over this exchange) | "wrongpw" | "stale" | "none" (no v)
\*  DC      DIGEST challenge:    x = nonce ("ok" | "none"), y = qop ("auth" | "none" | "multi" | "authint")
\*  RSP     DIGEST rspauth:      x = "right" | "wrong"
P(t, x, y, z) == [t |-> t, x |-> x, y |-> y, z |-> z]
SFHonest == P("SF", "ext", "ok", "ok")
SFVariants ==
    {SFHonest} \cup {P("SF", n, "ok", "ok") : n \in {"foreign", "none"}}
               \cup {P("SF", "ext", s, "ok") : s \in {"empty", "none"}}
               \cup {P("SF", "ext", "ok", i) : i \in {"zero", "neg", "nan", "none"}}
FINVariants == {P("FIN", k, "", "") : k \in {"right", "wrongpw", "stale", "none"}}
DCVariants  == {P("DC", "ok", q, "") : q \in {"auth", "none", "multi", "authint"}} \cup {P("DC", "none", "auth", "")}
RSPVariants == {P("RSP", k, "", "") : k \in {"right", "wrong"}}
Empty   == P("EMPTY", "", "", "")
Garbage == P("GARBAGE", "", "", "")
NoData  == P("NONE", "", "", "")

ChallengePayloads(m) ==
    CASE m = "SCRAM"  -> SFVariants \cup FINVariants \cup {Empty}
      [] m = "DIGEST" -> DCVariants \cup RSPVariants \cup {Empty}
      [] OTHER        -> {Empty, Garbage}
\* the data carried by <success/> (SASL 1: its text, SASL 2: <additional-data/>) ranges over the whole term
\* universe of the mechanism at every step: a server may put a server-first, a challenge, a proof, nothing
\* or garbage there (a well-formed server-first in an early success must not be mistaken for a proof)
SuccessPayloads(m) == ChallengePayloads(m) \cup {NoData, Garbage}

\* after the end nothing depends on the payload any more (handleElement returns Rejected): the quick export
\* tries the honest messages, no data and empty data only
PostPayloads == {NoData, Empty, SFHonest, P("FIN", "right", "", ""), P("DC", "ok", "auth", ""), P("RSP", "right", "", "")}
PostOK(p) == result = "Pending" \/ PostAll \/ p \in PostPayloads

ValidSF(p) == p.t = "SF" /\ p.x = "ext" /\ p.y = "ok" /\ p.z = "ok"
ValidDC(p) == p.t = "DC" /\ p.x = "ok" /\ p.y \in {"auth", "none", "multi"}

\* the term a FIN / RSP payload carries, given the exchange it is sent into
SigTerm(p, cur) ==
    CASE p.x = "right"   -> SSig(Hi(Pw, cur.y, cur.z), AM(cur))
      [] p.x = "wrongpw" -> SSig(Hi("other", cur.y, cur.z), AM(cur))
      [] p.x = "stale"   -> SSig(Hi(Pw, cur.y, cur.z), AM(P("SF", "another-exchange", cur.y, cur.z)))
      [] OTHER           -> <<"no-v">>
RspTerm(p, cur) == IF p.x = "right" THEN Rsp(Pw, cur) ELSE Rsp("other", cur)

\* what the client expects (computed from what it accepted)
ExpectedSig == SSig(Hi(Pw, sf.y, sf.z), AM(sf))
ExpectedRsp == Rsp(Pw, sf)

Init ==
    /\ mech \in Mechs /\ ver \in Versions
    /\ step = 1 /\ result = "Pending" /\ err = "" /\ sent = 1
    /\ lastOut = <<"initial">> /\ lastRet = "" /\ sf = NoSF
    /\ verified = FALSE /\ aborted = FALSE /\ proved = FALSE /\ badProof = FALSE /\ post = 0
    /\ hist = <<>>

Log(a, p) == hist' = Append(hist, [a |-> a, t |-> p.t, x |-> p.x, y |-> p.y, z |-> p.z])
Enabled == Len(hist) < MaxHist /\ (result = "Pending" \/ post < MaxPost)

\* handleElement when no exchange is in progress: Rejected, nothing happens
Ignored == /\ lastOut' = <<>> /\ lastRet' = "Rejected" /\ post' = post + 1
           /\ UNCHANGED <<mech, ver, step, result, err, sent, sf, verified, aborted, proved, badProof>>

Refuse(e) == /\ result' = "Error" /\ err' = e /\ lastOut' = <<>> /\ lastRet' = "Finished"
             /\ UNCHANGED <<sent, step, sf, verified>>
Respond(kind) == /\ lastOut' = <<kind>> /\ sent' = sent + 1 /\ lastRet' = "Accepted" /\ UNCHANGED <<result, err>>

(* --- ghosts: decided by what the server presented, not by what the client did --- *)
Presents(p) ==      \* the server proves knowledge of the password for this exchange
    mech = "SCRAM" /\ p.t = "FIN" /\ sf # NoSF /\ SigTerm(p, sf) = SSig(Hi(Pw, sf.y, sf.z), AM(sf))
PresentsBad(p) ==   \* a proof the client is able to recognise as wrong
    \/ mech = "SCRAM" /\ p.t = "FIN" /\ p.x \in {"wrongpw", "stale"} /\ ~verified
    \/ mech = "DIGEST" /\ p.t = "RSP" /\ p.x = "wrong" /\ sf # NoSF /\ ~verified
Ghosts(p) == /\ proved' = (proved \/ Presents(p))
             /\ badProof' = (badProof \/ PresentsBad(p))

(* --- <challenge/> ---------------------------------------------------------------- *)
Challenge(p) ==
    /\ Enabled /\ p \in ChallengePayloads(mech) /\ PostOK(p)
    /\ Log("Challenge", p)
    /\ IF result # "Pending" THEN Ignored
       ELSE /\ Ghosts(p)
            /\ UNCHANGED <<mech, ver, aborted, post>>
            /\ CASE mech = "SCRAM" /\ step = 1 /\ ValidSF(p) ->
                        sf' = p /\ step' = 2 /\ Respond("client-final") /\ UNCHANGED verified
                 [] mech = "SCRAM" /\ step = 2 /\ p.t = "FIN" /\ SigTerm(p, sf) = ExpectedSig ->
                        verified' = TRUE /\ step' = 3 /\ Respond("empty") /\ UNCHANGED sf
                 [] mech = "DIGEST" /\ step = 1 /\ ValidDC(p) ->
                        sf' = p /\ step' = 2 /\ Respond("digest-response") /\ UNCHANGED verified
                 [] mech = "DIGEST" /\ step = 2 /\ p.t = "RSP" /\ RspTerm(p, sf) = ExpectedRsp ->
                        verified' = TRUE /\ step' = 3 /\ Respond("empty") /\ UNCHANGED sf
                 [] OTHER -> Refuse("ProcessingError")

(* --- <success/> ------------------------------------------------------------------ *)
\* SCRAM: only after the server signature has been verified, which may happen right here
\* (RFC 6120 6.3.10 / XEP-0388 <additional-data/>: the server-final message travels in the success element).
\* DIGEST-MD5: non-empty data carried by the success element after the response must be the right rspauth;
\* PLAIN / HT: nothing to check.
Accepts(p) ==
    CASE mech = "SCRAM"  -> verified \/ (step = 2 /\ p.t = "FIN" /\ SigTerm(p, sf) = ExpectedSig)
      [] mech = "DIGEST" -> ~(step = 2 /\ p.t \notin {"NONE", "EMPTY"} /\ ~(p.t = "RSP" /\ RspTerm(p, sf) = ExpectedRsp))
      [] OTHER           -> TRUE

Success(p) ==
    /\ Enabled /\ p \in SuccessPayloads(mech) /\ PostOK(p)
    /\ Log("Success", p)
    /\ IF result # "Pending" THEN Ignored
       ELSE /\ Ghosts(p)
            /\ UNCHANGED <<mech, ver, aborted, post, sent, step, sf>>
            /\ lastOut' = <<>> /\ lastRet' = "Finished"
            /\ IF Accepts(p)
               THEN result' = "Success" /\ err' = "" /\ verified' = (verified \/ (mech \in {"SCRAM", "DIGEST"} /\ step = 2 /\ p.t \in {"FIN", "RSP"}))
               ELSE result' = "Error" /\ err' = "ProcessingError" /\ UNCHANGED verified

(* --- <failure/> ------------------------------------------------------------------ *)
Failure ==
    /\ Enabled
    /\ Log("Failure", NoData)
    /\ IF result # "Pending" THEN Ignored
       ELSE /\ result' = "Error" /\ err' = (IF aborted THEN "RequiredTasks" ELSE "NotAuthorized")
            /\ lastOut' = <<>> /\ lastRet' = "Finished"
            /\ UNCHANGED <<mech, ver, step, sent, sf, verified, aborted, proved, badProof, post>>

(* --- SASL 2 <continue/>: no task is supported, the client aborts and waits for the failure --- *)
\* (explored at most once per exchange: a second <continue/> is answered the same way)
Continue ==
    /\ Enabled /\ ver = 2 /\ ~aborted
    /\ Log("Continue", NoData)
    /\ IF result # "Pending" THEN Ignored
       ELSE /\ aborted' = TRUE /\ lastOut' = <<"abort">> /\ sent' = sent + 1 /\ lastRet' = "Accepted"
            /\ UNCHANGED <<mech, ver, step, result, err, sf, verified, proved, badProof, post>>

Next ==
    \/ \E p \in ChallengePayloads(mech) : Challenge(p)
    \/ \E p \in SuccessPayloads(mech) : Success(p)
    \/ Failure
    \/ Continue

Spec == Init /\ [][Next]_vars

(* --- properties (C06, message-sequence half) ---------------------------------------- *)
\* written over observable quantities + input-derived ghosts so that SaslExchangeTrace can evaluate them
P_ScramProved(m, res, prv)        == (m = "SCRAM" /\ res = "Success") => prv
P_NoSuccessAfterBadProof(res, bad) == res = "Success" => ~bad
P_RefusedSilent(res0, res1, out)  == (res0 = "Pending" /\ res1 = "Error") => out = <<>>
P_Final(res0, res1, out)          == res0 # "Pending" => (res1 = res0 /\ out = <<>>)
\* a refusable input ends the exchange with an error at once
BadInput(m, a, p) ==
    \/ m = "SCRAM" /\ a = "Challenge" /\ p.t = "SF" /\ ~ValidSF(p)
    \/ m = "SCRAM" /\ a \in {"Challenge", "Success"} /\ p.t = "FIN" /\ p.x \in {"wrongpw", "stale"}
    \/ m = "DIGEST" /\ a \in {"Challenge", "Success"} /\ p.t = "RSP" /\ p.x = "wrong"
P_Rejects(res0, res1, refusable)  == (res0 = "Pending" /\ refusable) => res1 = "Error"

TypeOK ==
    /\ result \in {"Pending", "Success", "Error"} /\ step \in 1..3 /\ sent \in Nat
    /\ (verified => step >= 2) /\ (result = "Success" => err = "")

ScramProved           == P_ScramProved(mech, result, proved)
NoSuccessAfterBadProof == P_NoSuccessAfterBadProof(result, badProof)
VerifiedMeansProved   == (mech = "SCRAM" /\ verified) => proved

Last == hist'[Len(hist')]
LastP == P(Last.t, Last.x, Last.y, Last.z)
\* which wrong proofs the client is in a position to refuse: SCRAM always (it knows no valid one yet);
\* DIGEST only after it has answered a challenge and before it has verified the rspauth
Refusable == BadInput(mech, Last.a, LastP) /\ ~verified /\ (mech = "DIGEST" => sf # NoSF)

RefusedSilent == [][P_RefusedSilent(result, result', lastOut')]_vars
Final         == [][P_Final(result, result', lastOut') /\ (result # "Pending" => sent' = sent)]_vars
Rejects       == [][P_Rejects(result, result', Refusable)]_vars

Bound == Len(hist) <= MaxHist
View  == mvars
=============================================================================
