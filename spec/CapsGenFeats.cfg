SPECIFICATION Spec
CONSTANTS
  Cats = {1}
  Types = {1}
  Langs = {0}
  Names = {1}
  Feats = {0, 2, 3}
  FTypes = {1}
  Vars = {1}
  Vals = {1}
  MaxIds = 0
  MaxFeats = 4
  MaxFields = 0
  MaxVals = 1
  EmitMin = 0
  MaxHist = 99
INVARIANTS TypeOK
PROPERTIES NeutralKeeps ChangeChanges SetsFollow
VIEW View
ACTION_CONSTRAINT EmitBehaviour
CHECK_DEADLOCK FALSE
