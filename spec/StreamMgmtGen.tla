--------------------------- MODULE StreamMgmtGen ---------------------------
(* Behaviour export for StreamMgmt: every transition TLC generates writes   *)
(* the action sequence that leads to it (lib/vf.py keeps the maximal ones). *)
(* With VIEW View (StreamMgmtGenTour*.cfg) hist is the BFS-shortest path to *)
(* the source state plus the step: a transition tour of the bounded model.  *)
(* Without a VIEW (StreamMgmtGenAll*.cfg) every path up to MaxHist is a     *)
(* distinct state: all action sequences up to that depth.                   *)
EXTENDS StreamMgmt, Json, CSV, IOUtils

EmitBehaviour ==
    CSVWrite("%1$s", <<ToJson([steps |-> hist'])>>, IOEnv.QXV_GEN)

\* Labelled state graph of the bounded model (StreamMgmtGenEdges*.cfg, with VIEW TourView): one
\* line per transition (source state, action record, target state).  lib/props/C09.py
\* computes from it a set of paths from the initial state that covers every transition
\* (Destroy, which is terminal and enabled everywhere, only where a path ends).
EmitEdge ==
    CSVWrite("%1$s", <<ToJson([s |-> ToString(TourView), a |-> hist'[Len(hist')], t |-> ToString(TourView'),
                               d |-> Len(hist')])>>, IOEnv.QXV_GEN)

\* Random walks (-simulate, StreamMgmtGenSim.cfg): TLC picks uniformly among successor states, so
\* with h \in 0..MaxH most steps would be acknowledgements.  Here h is chosen relative to what has
\* been sent: 0, stale, exact, beyond.
SimH == {0, out, out + 1, out + 3} \cup (IF out >= 1 THEN {out - 1} ELSE {}) \cup (IF out >= 3 THEN {out - 3} ELSE {})
SimNext ==
    \/ SendStanza \/ SendIqRequest \/ SendNonza \/ Req \/ RecvStanza \/ RecvIqGet \/ RecvNonza \/ Loss
    \/ \E i \in pend : RecvIqResponse(i)
    \/ \E h \in SimH : Ack(h)
    \/ \E sm \in BOOLEAN : Reconnect(sm)
    \/ \E h \in SimH : ResumeOk(h)
    \/ ResumeFail \/ EnableOk \/ EnableFail
SimSpec == Init /\ [][SimNext]_vars
=============================================================================
