SPECIFICATION Spec
CONSTANTS
  MaxSet = 1
  Bases <- BasesEme
  SendModes <- NoSends
  PlainApis <- NoSends
  Ordered = TRUE
INVARIANTS TypeOK NoLeak Partition Recovered
ACTION_CONSTRAINT EmitBehaviour
CHECK_DEADLOCK FALSE
