SPECIFICATION TSpec
CONSTANTS
  MaxId = 400
  MaxH = 400
  MaxConn = 400
  MaxRecv = 400
  MaxHist = 999
INVARIANT Done
CHECK_DEADLOCK FALSE
