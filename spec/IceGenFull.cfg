SPECIFICATION Spec
CONSTANTS
  Roles = {TRUE, FALSE}
  RequireMI = TRUE
  ForgedAuth = {"none", "wrong", "trunc"}
  Usernames = {"ok", "other"}
  MaxTx = 3
  MaxTicks = 1
  Timers = FALSE
  MaxHist = 99
CONSTRAINT Bound
VIEW View
ACTION_CONSTRAINT EmitBehaviour
CHECK_DEADLOCK FALSE
