SPECIFICATION Spec
CONSTANTS
  Jids = {"c1"}
  Items <- ItemsFields
  Ress = {}
  Froms = {"absent"}
  ConnKinds = {"plain"}
  MaxReqs = 1
  MaxItems = 1
  MaxHist = 99
CONSTRAINT ReqBound
VIEW GenView
ACTION_CONSTRAINT EmitBehaviour
CHECK_DEADLOCK FALSE
