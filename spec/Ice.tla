--------------------------------- MODULE Ice ---------------------------------
(***************************************************************************)
(* One ICE component (QXmppIceComponent, src/base/QXmppStun.cpp:1810-2320)  *)
(* and its environment: the local API (credentials and candidate of the     *)
(* peer arrive by signalling, connectToHost), its own timers, and datagrams *)
(* arriving on its UDP socket -- from the peer, who knows the session's     *)
(* credentials, and from anyone else, who does not.                         *)
(*                                                                          *)
(* Transport addresses: "cand" is the candidate the peer signalled, "unk"   *)
(* any other address.  A datagram is described by what matters to the       *)
(* component:                                                               *)
(*   cls   request | indication | response | error   (STUN message class)  *)
(*   meth  binding | other     (other: a TURN method, sent as Allocate)     *)
(*   auth  valid  : carries MESSAGE-INTEGRITY that verifies under the key   *)
(*                  the component uses for that class (requests: its own    *)
(*                  password, responses: the peer's password)               *)
(*         none   : no MESSAGE-INTEGRITY attribute                          *)
(*         wrong  : MESSAGE-INTEGRITY under another key                     *)
(*         trunc  : a MESSAGE-INTEGRITY attribute of the wrong length       *)
(*   uc    USE-CANDIDATE present                                            *)
(*   src   "cand" | "unk"    source address                                 *)
(*   tx    "cand" | "unk" | "fresh": the transaction id is that of the      *)
(*         outstanding check on that pair / an id the component never used  *)
(*   ra    role attribute: none | controlling | controlled                  *)
(*   un    USERNAME as expected / something else (the implementation does   *)
(*         not look at it and C15 does not ask it to; carried to the wire)  *)
(*   pr    PRIORITY attribute present (carried to the wire)                 *)
(* The alphabet is the full product: whoever does not know the credentials  *)
(* can still choose every other field.  Indications (RFC 5245 keep-alives)  *)
(* need no integrity code and are never acted upon; other methods are not   *)
(* for the component.                                                       *)
(*                                                                          *)
(* One action per handler: SetRemote (setRemoteUser/Password +              *)
(* addRemoteCandidate), Start (connectToHost -> checkCandidates), Tick      *)
(* (checkCandidates on the 500 ms timer), Retransmit / TxTimeout            *)
(* (QXmppStunTransaction::retry), Recv (handleDatagram + transactionFinished*)
(* + the completion block).  RequireMI = TRUE is the intended behaviour: a  *)
(* datagram is processed only if its integrity code is present and valid.   *)
(* (RequireMI = FALSE is what the tree did before the fix -- IceBug.cfg.    *)
(* Dispatch = "highbyte" sends everything whose type has an empty high byte *)
(* -- requests and indications -- to the request handler: IceIndication.cfg)*)
(***************************************************************************)
EXTENDS Naturals, Sequences, FiniteSets, TLC

CONSTANTS Roles,        \* subset of BOOLEAN: is the component controlling
          RequireMI,    \* TRUE: intended behaviour
          Dispatch,     \* "class": requests are what has message class Request (intended); "highbyte": see above
          Methods,      \* subset of {"binding", "other"}
          Priorities,   \* subset of BOOLEAN: PRIORITY attribute present
          ForgedAuth,   \* subset of {"none", "wrong", "trunc"}: what the model's attacker sends
          Usernames,    \* subset of {"ok", "other"}
          MaxTx,        \* bound on connectivity checks started
          MaxTicks,     \* bound on timer ticks per behaviour (each costs real time in the replay)
          Timers,       \* TRUE: Retransmit/TxTimeout actions enabled
          MaxHist

VARIABLES ctl,        \* role
          remoteSet,  \* remote credentials and candidate known
          started,    \* check timer running
          rc,         \* known remote candidates (addresses)
          pairs,      \* Addrs -> [st, nom, ning, tx, hi]  (hi: the remote candidate is the signalled host candidate,
                      \*          not a peer-reflexive one: the pair has the higher pair priority, RFC 5245 5.7.2)
          ord,        \* addresses in the order their pairs were created (check-list order among equal priorities)
          active,     \* selected pair ("none" | address); connected = active # "none"
          ntx, nticks,
          out,        \* datagrams emitted by the last step (observation)
          hist

core  == <<rc, pairs, active>>
mvars == <<ctl, remoteSet, started, rc, pairs, ord, active, ntx, nticks>>
vars  == <<mvars, out, hist>>

Addrs  == {"cand", "unk"}
NoPair == [st |-> "none", nom |-> FALSE, ning |-> FALSE, tx |-> 0, hi |-> FALSE]
Prio(ps, a) == IF ps[a].hi THEN 2 ELSE 1    \* host candidate (126) before peer-reflexive (110): RFC 5245 4.1.2

\* (USE-CANDIDATE, PRIORITY, role attribute and USERNAME are attributes of requests -- and of indications
\* built like requests; a request or indication carries its sender's own transaction id, a response may
\* carry the id of an outstanding check)
Datagrams ==
    [cls : {"request", "indication"}, meth : Methods, auth : {"valid"} \cup ForgedAuth, uc : BOOLEAN, src : Addrs,
     tx : {"fresh"}, ra : {"none", "controlling", "controlled"}, un : Usernames, pr : Priorities]
    \cup
    [cls : {"response", "error"}, meth : Methods, auth : {"valid"} \cup ForgedAuth, uc : {FALSE}, src : Addrs,
     tx : Addrs \cup {"fresh"}, ra : {"none"}, un : {"ok"}, pr : {FALSE}]

Init ==
    /\ ctl \in Roles /\ remoteSet = FALSE /\ started = FALSE
    /\ rc = {} /\ pairs = [a \in Addrs |-> NoPair] /\ ord = <<>> /\ active = "none"
    /\ ntx = 0 /\ nticks = 0 /\ out = <<>> /\ hist = <<>>

Log(r) == hist' = Append(hist, r)

(* --- emitted datagrams ---------------------------------------------------------------------------- *)
Req(to, uc)  == [to |-> to, cls |-> "request", tx |-> "new", uc |-> uc]
Resp(to)     == [to |-> to, cls |-> "response", tx |-> "echo", uc |-> FALSE]

(* --- performCheck: a new transaction on the pair; controlling agents nominate aggressively ---------- *)
Checked(ps, a, nominate, n) == [ps EXCEPT ![a] = [st |-> "inprogress", nom |-> @.nom, ning |-> nominate, tx |-> n, hi |-> @.hi]]

(* --- completion block at the end of handleDatagram ------------------------------------------------- *)
Select(ps, a, cur) ==
    IF ps[a].nom /\ (cur = "none" \/ Prio(ps, a) > Prio(ps, cur)) THEN a ELSE cur

(* --- local API -------------------------------------------------------------------------------------- *)
SetRemote ==
    /\ ~remoteSet
    /\ remoteSet' = TRUE
    /\ rc' = rc \cup {"cand"}
    /\ pairs' = IF "cand" \in rc THEN pairs       \* already learnt as peer-reflexive: addRemoteCandidate refuses duplicates
                ELSE [pairs EXCEPT !["cand"] = [NoPair EXCEPT !.st = "waiting", !.hi = TRUE]]
    /\ ord' = IF "cand" \in rc THEN ord ELSE Append(ord, "cand")
    /\ out' = <<>>
    /\ Log([a |-> "SetRemote"])
    /\ UNCHANGED <<ctl, started, active, ntx, nticks>>

\* the check list is sorted by pair priority; pairs of equal priority stay in creation order
FirstWaitingOf(ps, od) ==
    IF \E a \in Addrs : ps[a].st = "waiting" /\ ps[a].hi
    THEN CHOOSE a \in Addrs : ps[a].st = "waiting" /\ ps[a].hi
    ELSE IF \E i \in 1..Len(od) : ps[od[i]].st = "waiting"
         THEN od[CHOOSE i \in 1..Len(od) : ps[od[i]].st = "waiting" /\ \A j \in 1..(i-1) : ps[od[j]].st # "waiting"]
         ELSE "none"
FirstWaiting == FirstWaitingOf(pairs, ord)

\* checkCandidates(): one check on the first waiting pair
CheckCandidates ==
    IF remoteSet /\ FirstWaiting # "none"
    THEN /\ pairs' = Checked(pairs, FirstWaiting, ctl, ntx + 1)
         /\ ntx' = ntx + 1
         /\ out' = <<Req(FirstWaiting, ctl)>>
    ELSE /\ out' = <<>> /\ UNCHANGED <<pairs, ntx>>

Start ==
    /\ ~started /\ active = "none"
    /\ started' = TRUE
    /\ CheckCandidates
    /\ Log([a |-> "Start"])
    /\ UNCHANGED <<ctl, remoteSet, rc, ord, active, nticks>>

Tick ==
    /\ started /\ active = "none" /\ nticks < MaxTicks     \* the timer stops with the first nominated pair
    /\ remoteSet /\ FirstWaiting # "none"         \* otherwise the tick is not observable
    /\ nticks' = nticks + 1
    /\ CheckCandidates
    /\ Log([a |-> "Tick"])
    /\ UNCHANGED <<ctl, remoteSet, started, rc, ord, active>>

Retransmit(a) ==
    /\ Timers /\ pairs[a].st = "inprogress"
    /\ out' = <<[to |-> a, cls |-> "request", tx |-> "re", uc |-> ctl]>>
    /\ Log([a |-> "Retransmit", p |-> a])
    /\ UNCHANGED mvars

TxTimeout(a) ==
    /\ Timers /\ pairs[a].st = "inprogress"
    /\ pairs' = [pairs EXCEPT ![a] = [@ EXCEPT !.st = "failed", !.tx = 0]]
    /\ out' = <<>>
    /\ Log([a |-> "TxTimeout", p |-> a])
    /\ UNCHANGED <<ctl, remoteSet, started, rc, ord, active, ntx, nticks>>

(* --- handleDatagram --------------------------------------------------------------------------------- *)
\* the key exists: requests and indications are checked with the local password, responses with the remote one
HasKey(d) == d.cls \in {"request", "indication"} \/ remoteSet
\* QXmppStunMessage::decode: an integrity code that is present must verify; an absent one is not its business
Decodes(d) == HasKey(d) /\ d.auth \in {"valid", "none"}
\* the receiver's guard: everything but an indication must have carried one (RequireMI)
Authenticated(d) == d.auth = "valid" \/ d.cls = "indication" \/ ~RequireMI
\* which handler: by message class -- or, wrongly, by the high byte of the type
ToRequestHandler(d)  == d.cls = "request" \/ (Dispatch = "highbyte" /\ d.cls = "indication")
ToResponseHandler(d) == d.cls \in {"response", "error"}
RoleConflict(d) ==
    \/ ctl /\ (d.ra = "controlling" \/ d.uc)
    \/ ~ctl /\ d.ra = "controlled"

NoEffect == out' = <<>> /\ UNCHANGED <<rc, pairs, ord, active, ntx>>

HandleRequest(d) ==
    LET a  == d.src
        p0 == IF pairs[a].st = "none" THEN [NoPair EXCEPT !.st = "waiting"] ELSE pairs[a]
        trig == p0.st \in {"waiting", "failed"} /\ remoteSet
        ps == CASE trig                  -> Checked([pairs EXCEPT ![a] = p0], a, p0.ning \/ ctl \/ d.uc, ntx + 1)
                [] p0.st = "inprogress"  -> [pairs EXCEPT ![a] = [p0 EXCEPT !.ning = p0.ning \/ d.uc]]
                [] p0.st = "succeeded"   -> [pairs EXCEPT ![a] = [p0 EXCEPT !.nom = p0.nom \/ d.uc]]
                [] OTHER                 -> [pairs EXCEPT ![a] = p0]
    IN /\ rc' = rc \cup {a}
       /\ ord' = IF pairs[a].st = "none" THEN Append(ord, a) ELSE ord
       /\ pairs' = ps
       /\ ntx' = IF trig THEN ntx + 1 ELSE ntx
       /\ out' = <<Resp(a)>> \o (IF trig THEN <<Req(a, ctl)>> ELSE <<>>)
       /\ active' = Select(ps, a, active)

HandleResponse(d) ==
    LET p == d.tx IN
    IF p = "fresh" \/ pairs[p].tx = 0 THEN NoEffect           \* no transaction with that id
    ELSE IF d.src # p
         THEN \* answer from an unexpected address: the check fails
              /\ pairs' = [pairs EXCEPT ![p] = [@ EXCEPT !.st = "failed", !.tx = 0]]
              /\ out' = <<>> /\ UNCHANGED <<rc, ord, active, ntx>>
         ELSE LET ps == IF d.cls = "response"
                        THEN [pairs EXCEPT ![p] = [@ EXCEPT !.st = "succeeded", !.nom = @ \/ pairs[p].ning, !.tx = 0]]
                        ELSE [pairs EXCEPT ![p] = [@ EXCEPT !.st = "failed", !.tx = 0]]
              IN /\ pairs' = ps
                 /\ active' = Select(ps, p, active)
                 /\ out' = <<>> /\ UNCHANGED <<rc, ord, ntx>>

Recv(d) ==
    /\ IF ~Decodes(d) \/ d.meth # "binding" \/ ~Authenticated(d) THEN NoEffect
       ELSE IF ToRequestHandler(d)
            THEN IF RoleConflict(d) THEN NoEffect ELSE HandleRequest(d)
            ELSE IF ToResponseHandler(d) THEN HandleResponse(d)
            ELSE NoEffect                      \* a binding indication: a keep-alive, nothing to do
    /\ Log([a |-> "Recv", d |-> d])
    /\ UNCHANGED <<ctl, remoteSet, started, nticks>>

Next ==
    \/ SetRemote \/ Start \/ Tick
    \/ \E a \in Addrs : Retransmit(a) \/ TxTimeout(a)
    \/ \E d \in Datagrams : Recv(d)

Spec == Init /\ [][Next]_vars

(* --- C15, safety half ------------------------------------------------------------------------------- *)
\* written over observables so that IceTrace can evaluate the same predicate on a recorded step:
\* `changed` = the step altered remote candidates, pairs or the selected pair, or made the component emit
P_AuthOnly(isRecv, auth, changed) == (isRecv /\ auth # "valid") => ~changed

Last == hist'[Len(hist')]
AuthOnly ==
    [][P_AuthOnly(Last.a = "Recv", IF Last.a = "Recv" THEN Last.d.auth ELSE "valid",
                  core' # core \/ out' # <<>> \/ ntx' # ntx)]_vars

\* the selected pair was validated by an authenticated response and nominated
SelectedIsValid == active # "none" => (pairs[active].st = "succeeded" /\ pairs[active].nom)
\* a pair is checked only towards a known remote candidate
PairsKnown == \A a \in Addrs : pairs[a].st # "none" => a \in rc

TypeOK ==
    /\ ctl \in BOOLEAN /\ remoteSet \in BOOLEAN /\ started \in BOOLEAN
    /\ rc \subseteq Addrs /\ active \in Addrs \cup {"none"}
    /\ \A a \in Addrs : pairs[a].st \in {"none", "waiting", "inprogress", "succeeded", "failed"}
    /\ \A a \in Addrs : (pairs[a].tx # 0) <=> (pairs[a].st = "inprogress")

Reinit(role) ==
    /\ ctl' = role /\ remoteSet' = FALSE /\ started' = FALSE
    /\ rc' = {} /\ pairs' = [a \in Addrs |-> NoPair] /\ ord' = <<>> /\ active' = "none"
    /\ ntx' = 0 /\ nticks' = 0 /\ out' = <<>> /\ hist' = <<>>

Bound == Len(hist) <= MaxHist /\ ntx <= MaxTx

\* The check timer of the real component runs on wall-clock time: once a tick would start a check, a replay
\* must let it happen before anything else (IceGen restricts exported behaviours to such schedules).
TickPendingOf(s, ac, rs, ps, od) == s /\ ac = "none" /\ rs /\ FirstWaitingOf(ps, od) # "none"
TickPending == TickPendingOf(started, active, remoteSet, pairs, ord)
View == mvars
=============================================================================
