SPECIFICATION Spec
CONSTANTS
  Jids = {"j1", "j2"}
  InitSrv = {"j1"}
  Kinds = {"Fetch", "Deliver", "Srv", "Other", "Foreign", "PushGet", "ForeignRes"}
  Retries = {FALSE}
  CmdSets = {}
  OthSets = {{}, {"j1"}, {"j2"}, {"j1", "j2"}}
  Froms = {"none", "bare"}
  MaxT = 2
  MaxO = 2
  MaxD = 0
  MaxQ = 2
  ProbeMax = 0
  MaxHist = 99
VIEW View
ACTION_CONSTRAINT EmitBehaviour
CHECK_DEADLOCK FALSE
