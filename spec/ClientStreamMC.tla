--------------------------- MODULE ClientStreamMC ---------------------------
(* constants of the exhaustive / generation configurations of ClientStream *)
EXTENDS ClientStream

PlainCfgs == [tls : TlsModes, sasl2 : BOOLEAN, sasl : BOOLEAN, legacy : BOOLEAN, reg : {"none"}]
\* in-band registration on connect (QXmppRegistrationManager): the authentication settings play no
\* role (the features never reach the stream's authentication), so one setting is enough
RegCfgs == [tls : TlsModes, sasl2 : {FALSE}, sasl : {TRUE}, legacy : {FALSE}, reg : {"form", "noform"}]
AllCfgs == PlainCfgs \cup RegCfgs

Feat(t, m, s2, l, b, sm) == [tls |-> t, mechs |-> m, s2 |-> s2, b2 |-> "none", r2 |-> FALSE, legacy |-> l, bind |-> b, sm |-> sm, register |-> FALSE]
FeatReg(t, m) == [Feat(t, m, "none", FALSE, FALSE, FALSE) EXCEPT !.register = TRUE]
\* SASL 2 with inline features: bind2 ("plain": no inline feature, "sm": stream management inline) and resumption
Feat2(s2, b2, r2) == [tls |-> "absent", mechs |-> "none", s2 |-> s2, b2 |-> b2, r2 |-> r2, legacy |-> FALSE, bind |-> FALSE, sm |-> FALSE, register |-> FALSE]

\* The thorough generation runs in shards (one TLC process each): every emitted behaviour is a
\* distinct JSON string that TLC interns for the life-time of the process, several gigabytes per
\* million transitions.
ShardCfgs(t, s2) == {cf \in PlainCfgs : cf.tls = t /\ cf.sasl2 = s2}
ShardDF == ShardCfgs("Disabled", FALSE)
ShardDT == ShardCfgs("Disabled", TRUE)
ShardEF == ShardCfgs("Enabled", FALSE)
ShardET == ShardCfgs("Enabled", TRUE)
ShardRF == ShardCfgs("Required", FALSE)
ShardRT == ShardCfgs("Required", TRUE)

\* every combination: 3*4*3*3*2*2*2*2*2 = 3456 feature elements
AllFeatureSets ==
    {[tls |-> t, mechs |-> m, s2 |-> s2, b2 |-> b2, r2 |-> r2, legacy |-> l, bind |-> b, sm |-> sm, register |-> rg] :
        t \in {"absent", "optional", "required"}, m \in {"none", "plain", "scram", "unknown"},
        s2 \in {"none", "plain", "scram"}, b2 \in {"none", "plain", "sm"}, r2 \in BOOLEAN,
        l \in BOOLEAN, b \in BOOLEAN, sm \in BOOLEAN, rg \in BOOLEAN}

\* representative subset used for replay in the quick tier
CoreFeatureSets ==
    { Feat("absent", "none", "none", FALSE, FALSE, FALSE),     \* nothing
      Feat("optional", "plain", "none", FALSE, FALSE, FALSE),  \* starttls offered + PLAIN
      Feat("required", "scram", "scram", TRUE, FALSE, FALSE),  \* starttls required + everything
      Feat("absent", "plain", "none", FALSE, FALSE, FALSE),    \* PLAIN only, no TLS
      Feat("absent", "scram", "none", FALSE, FALSE, FALSE),    \* SCRAM, no TLS
      Feat("absent", "unknown", "none", FALSE, FALSE, FALSE),  \* only unknown mechanisms
      Feat("absent", "none", "plain", FALSE, FALSE, FALSE),    \* SASL 2 PLAIN
      Feat("absent", "plain", "scram", FALSE, FALSE, FALSE),   \* SASL 2 SCRAM + SASL PLAIN
      Feat("absent", "none", "none", TRUE, FALSE, FALSE),      \* legacy auth
      Feat("absent", "none", "none", FALSE, TRUE, FALSE),      \* bind
      Feat("absent", "none", "none", FALSE, TRUE, TRUE),       \* bind + sm
      Feat("absent", "none", "none", FALSE, FALSE, TRUE),      \* sm only
      Feat2("plain", "plain", FALSE),                          \* SASL 2 PLAIN + bind2
      Feat2("plain", "sm", TRUE),                              \* SASL 2 PLAIN + bind2 with sm + resumption
      FeatReg("absent", "plain"),                              \* in-band registration, no TLS offered
      FeatReg("optional", "plain") }                           \* in-band registration + starttls

\* quick-tier configurations: every TLS mode x {SASL only, SASL 2 only, legacy only, everything}
QuickCfgs == {cf \in AllCfgs : \/ cf.reg = "form" \/ (cf.reg = "noform" /\ cf.tls = "Required")
                               \/ (cf.sasl /\ ~cf.sasl2 /\ ~cf.legacy)
                               \/ (~cf.sasl /\ cf.sasl2 /\ ~cf.legacy)
                               \/ (~cf.sasl /\ ~cf.sasl2 /\ cf.legacy)
                               \/ (cf.sasl /\ cf.sasl2 /\ cf.legacy)}

\* exhaustive check of the quick tier: every TLS mode with every authentication method enabled
\* (the richest machine; ClientStreamFull.cfg, thorough tier, checks all 24 configurations)
McQuickCfgs == {cf \in AllCfgs : (cf.sasl /\ cf.sasl2 /\ cf.legacy) \/ cf.reg = "form"}
=============================================================================
