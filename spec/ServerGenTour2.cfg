SPECIFICATION Spec
CONSTANTS
  Vers = {"sasl"}
  Mechs = {"PLAIN", "DIGEST-MD5"}
  Creds = {"right", "otherUser", "victimOwnSecret"}
  BindRes = {"ra"}
  Kinds = {"message", "presence", "iq"}
  Froms = {"absent", "own", "ownBare", "victim", "other", "ownOtherRes", "ownSibling", "ownCase", "ownSlash", "ownPrefix", "ownDomain", "ownLookalike"}
  Tos = {"victimBare", "victimFull", "domain", "absent"}
  Stanzas <- CoreStanzas
  MaxPending = 2
  MaxRetry = 0
  MaxHist = 99
VIEW GenView
ACTION_CONSTRAINT EmitNoReauth
CHECK_DEADLOCK FALSE
