SPECIFICATION Spec
CONSTANTS
  Mechs = {"SCRAM", "DIGEST", "PLAIN", "HT"}
  Versions = {1, 2}
  MaxHist = 5
  MaxPost = 1
  PostAll = FALSE
CONSTRAINT Bound
ACTION_CONSTRAINT EmitBehaviour
CHECK_DEADLOCK FALSE
