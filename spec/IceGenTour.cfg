SPECIFICATION Spec
CONSTANTS
  Roles = {TRUE, FALSE}
  RequireMI = TRUE
  Dispatch = "class"
  Methods = {"binding", "other"}
  Priorities = {TRUE, FALSE}
  ForgedAuth = {"none", "wrong", "trunc"}
  Usernames = {"ok"}
  MaxTx = 2
  MaxTicks = 0
  Timers = FALSE
  MaxHist = 99
VIEW View
ACTION_CONSTRAINT EmitBehaviour
CHECK_DEADLOCK FALSE
