SPECIFICATION Spec
CONSTANTS
  Roles = {TRUE, FALSE}
  RequireMI = TRUE
  ForgedAuth = {"none", "wrong", "trunc"}
  Usernames = {"ok"}
  MaxTx = 2
  MaxTicks = 0
  Timers = FALSE
  MaxHist = 99
CONSTRAINT Bound
VIEW View
ACTION_CONSTRAINT EmitBehaviour
CHECK_DEADLOCK FALSE
