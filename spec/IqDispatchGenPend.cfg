SPECIFICATION Spec
CONSTANTS
  Types = {"get", "set", "result", "error", "absent", "garbage"}
  Payloads = {"none", "unknown", "version", "vcard", "discoInfo", "roster", "ibbData", "errorOnly"}
  Froms = {"Empty", "OwnBare", "OwnFullSelf", "OwnFullOther", "Domain", "Contact", "ContactBare"}
  ExtSets = {"none", "all"}
  IdKinds = {"fresh", "pending"}
  Peers = {"OwnBare", "Domain", "Contact", "ContactBare"}
  Deferred = FALSE
  MaxHosts = 2
  MaxHist = 99
VIEW PendView
ACTION_CONSTRAINT EmitBehaviour
CHECK_DEADLOCK FALSE
