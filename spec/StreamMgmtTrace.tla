-------------------------- MODULE StreamMgmtTrace --------------------------
(***************************************************************************)
(* Trace validation for StreamMgmt.  The trace (ndjson, written by         *)
(* `qxv sm`) holds per step the action with its arguments and what the     *)
(* real client did:                                                        *)
(*   {"e":"ResumeOk","h":2,"ok":true,                                      *)
(*    "o":{"out":[{"k":"s","v":3}],"nr":1,"rep":[{"id":2,"r":"Acked"}],     *)
(*         "nz":"None","en":true,"inH":1,"ph":"Up","wire":true}}           *)
(* out  = what was handed to the socket during the step (k = "s" stanza    *)
(*        number v, "n" user nonza, "a"/"resume" with h = v, "o" other);   *)
(*        <r/> is only counted (nr) -- the property does not talk about it;*)
(* rep  = send-task continuations that ran, in order; nz = nonza report;    *)
(* en / inH / ph = StreamAckManager::enabled(), lastIncomingSequenceNumber(),*)
(*        phase as the script observed it; pend = numbers of the sendIq      *)
(*        requests whose task has not finished; iq = IQ tasks that finished  *)
(*        during the step (informative).  SendIqRequest carries the stanza   *)
(*        number "id" like SendStanza; RecvIqResponse the request number "i".*)
(*                                                                          *)
(* Three layers per line:                                                   *)
(*  - model:   StreamMgmt's own action for the logged step (stutters when   *)
(*             it is not enabled);                                          *)
(*  - monitor: `mon`, built only from the logged inputs (which step, h, ids *)
(*             of the sends) and observations (out, rep); the C09           *)
(*             predicates of StreamMgmt are evaluated on it.  The property  *)
(*             prescribes these outputs exactly, so a mismatch is a         *)
(*             violation;                                                   *)
(*  - compare: the model's projection vs the logged observation; a mismatch *)
(*             only marks the execution as diverged (conformance warning).  *)
(***************************************************************************)
EXTENDS StreamMgmt, Integers, Json, CSV, IOUtils

TraceLog == ndJsonDeserialize(IOEnv.QXV_TRACE)

VARIABLES l,        \* next line
          cid,      \* current execution id
          mon,      \* monitor record
          viol,     \* set of property violations found
          ndiv, divs, dflag,  \* diverged executions: count, first few, current flag
          ncases, nfail       \* executions; steps the harness could not complete (hang detector)

tvars == <<vars, l, cid, mon, viol, ndiv, divs, dflag, ncases, nfail>>

Mon0 == [act |-> FALSE,     \* stream management active on the current session (script: <enabled/>/<resumed/> delivered, no cut since)
         order |-> <<>>,    \* stanzas first sent with SM active, in order of first sending
         tracked |-> {},
         ever |-> {},       \* every stanza number issued or seen so far
         user |-> {},       \* numbers of the user's sends (their reports are observed)
         sess |-> <<>>,     \* stanzas in the order the server has been sent them on this SM session
         covered |-> {},
         recv |-> 0,        \* message/presence/iq sent by the script on the current SM session
         reported |-> {},   \* stanzas whose send task has reported
         dead |-> FALSE]    \* a step could not be completed: nothing is judged afterwards

TInit ==
    /\ Init
    /\ l = 1 /\ cid = "" /\ mon = Mon0 /\ viol = {} /\ ndiv = 0 /\ divs = <<>> /\ dflag = FALSE
    /\ ncases = 0 /\ nfail = 0

Dedup(s) == SelectSeq([i \in 1..Len(s) |-> IF \E j \in 1..(i - 1) : s[j] = s[i] THEN -1 ELSE s[i]], LAMBDA x : x # -1)

(* model projection, in the shape of the logged observation *)
ModelReports == {[id |-> i, r |-> report'[i]] : i \in {j \in Ids : reportCount'[j] > reportCount[j]}}
ProjEq(o, users) ==
    /\ o.out = outp'
    /\ Range(o.rep) = {x \in ModelReports : x.id \in users}
    /\ Len(o.rep) = Cardinality(Range(o.rep))
    /\ o.nz = nzrep'
    /\ o.en = enabled'
    /\ o.inH = inH'
    /\ Range(o.pend) = pend'
    /\ o.ph = phase'
Proj == [out |-> outp', nz |-> nzrep', en |-> enabled', inH |-> inH', ph |-> phase', pend |-> pend',
         rep |-> ModelReports]

ModelAct(ev) ==
    CASE ev.e = "SendStanza" -> SendStanza
      [] ev.e = "SendNonza"  -> SendNonza
      [] ev.e = "Ack"        -> Ack(ev.h)
      [] ev.e = "Req"        -> Req
      [] ev.e = "RecvStanza" -> RecvStanza
      [] ev.e = "SendIqRequest" -> SendIqRequest
      [] ev.e = "RecvIqResponse" -> RecvIqResponse(ev.i)
      [] ev.e = "RecvIqGet"  -> RecvIqGet
      [] ev.e = "RecvNonza"  -> RecvNonza
      [] ev.e = "Loss"       -> Loss
      [] ev.e = "Reconnect"  -> Reconnect(ev.sm)
      [] ev.e = "ResumeOk"   -> ResumeOk(ev.h)
      [] ev.e = "ResumeFail" -> ResumeFail
      [] ev.e = "EnableOk"   -> EnableOk
      [] ev.e = "EnableFail" -> EnableFail
      [] ev.e = "Destroy"    -> Destroy
      [] OTHER               -> FALSE

(* monitor: everything is decided by the script's moves and what was seen on the wire *)
MonNext(m, ev) ==
    LET o == ev.o
        W == StanzaIds(o.out)
        isSend == ev.e \in {"SendStanza", "SendIqRequest"}     \* the user hands over stanza number ev.id
        sid == IF isSend THEN {ev.id} ELSE {}
        uid == IF ev.e = "SendStanza" THEN {ev.id} ELSE {}     \* only QXmppClient::send exposes the send report
        act2 == CASE ev.e \in {"EnableOk", "ResumeOk"} -> TRUE
                  [] ev.e \in {"Loss", "Reconnect", "EnableFail", "ResumeFail", "Destroy"} -> FALSE
                  [] OTHER -> m.act
        fresh == Dedup(SelectSeq(W, LAMBDA i : i \notin m.ever)
                       \o (IF isSend /\ ev.id \notin Range(W) THEN <<ev.id>> ELSE <<>>))
        cov2 == IF (ev.e = "Ack" /\ m.act) \/ ev.e = "ResumeOk"
                THEN m.covered \cup CoveredBy(m.sess, ev.h) ELSE m.covered
    IN [act |-> act2,
        order |-> IF act2 THEN m.order \o fresh ELSE m.order,
        tracked |-> IF act2 THEN m.tracked \cup Range(fresh) ELSE m.tracked,
        ever |-> m.ever \cup Range(W) \cup sid,
        user |-> m.user \cup uid,
        sess |-> IF ev.e = "EnableOk" THEN W
                 ELSE IF act2 THEN m.sess \o Dedup(SelectSeq(W, LAMBDA i : i \notin Range(m.sess)))
                 ELSE m.sess,
        covered |-> cov2,
        recv |-> IF ev.e = "EnableOk" THEN 0
                 ELSE IF ev.e \in {"RecvStanza", "RecvIqResponse", "RecvIqGet"} /\ m.act THEN m.recv + 1 ELSE m.recv,
        reported |-> m.reported \cup {o.rep[k].id : k \in 1..Len(o.rep)},
        dead |-> m.dead]

Failed(m, n, ev) ==
    LET o == ev.o
        W == StanzaIds(o.out)
        rep == o.rep
    IN {p \in {"AckedOnlyCovered", "SuccessBeforeCovered", "AtMostOnce", "ResendExact", "NoCoveredResent", "HandledCount"} :
        CASE p = "AckedOnlyCovered" ->
                \E k \in 1..Len(rep) : rep[k].r = "Acked" /\ ~P_Report("Acked", rep[k].id, n.covered, n.tracked)
          [] p = "SuccessBeforeCovered" ->
                \E k \in 1..Len(rep) : rep[k].r = "Plain" /\ ~P_Report("Plain", rep[k].id, n.covered, n.tracked)
          [] p = "AtMostOnce" ->
                \E k \in 1..Len(rep) : ~P_AtMostOnce(1 + (IF rep[k].id \in m.reported THEN 1 ELSE 0)
                                                        + Cardinality({j \in 1..(k - 1) : rep[j].id = rep[k].id}))
          [] p = "ResendExact" ->
                /\ ev.e \in {"ResumeOk", "EnableOk"}
                /\ ~P_Resend(W, Expected(m.order, n.covered), LAMBDA i : i \in m.ever)
          [] p = "NoCoveredResent" -> ~P_NoCoveredResent(W, n.covered)
          [] p = "HandledCount" ->
                ~P_H({o.out[i].v : i \in {j \in 1..Len(o.out) : o.out[j].k = "resume" \/ (o.out[j].k = "a" /\ n.act)}}, n.recv)}

ResetStep(ev) ==
    /\ Reinit
    /\ cid' = ev.case /\ mon' = Mon0 /\ dflag' = FALSE /\ ncases' = ncases + 1
    /\ UNCHANGED <<viol, ndiv, divs, nfail>>

OpStep(ev) ==
    /\ \/ ModelAct(ev)
       \/ (~ENABLED ModelAct(ev)) /\ UNCHANGED vars
    /\ IF mon.dead \/ ~ev.ok
       THEN /\ mon' = [mon EXCEPT !.dead = TRUE]
            /\ nfail' = IF ~mon.dead THEN nfail + 1 ELSE nfail
            /\ UNCHANGED <<viol, ndiv, divs, dflag>>
       ELSE /\ mon' = MonNext(mon, ev)
            /\ viol' = viol \cup {[case |-> cid, line |-> l, prop |-> p, e |-> ev.e] : p \in Failed(mon, mon', ev)}
            /\ nfail' = nfail
            /\ LET d == ~ProjEq(ev.o, mon'.user) IN
                /\ dflag' = (dflag \/ d)
                /\ ndiv' = IF d /\ ~dflag THEN ndiv + 1 ELSE ndiv
                /\ divs' = IF d /\ ~dflag /\ Len(divs) < 10
                           THEN Append(divs, [case |-> cid, line |-> l, e |-> ev.e, model |-> Proj, impl |-> ev.o]) ELSE divs
    /\ UNCHANGED <<cid, ncases>>

OtherStep ==   \* HarnessFailure / Crash markers: no model step, nothing judged
    /\ UNCHANGED <<vars, cid, mon, viol, ndiv, divs, dflag, ncases, nfail>>

TNext ==
    /\ l <= Len(TraceLog)
    /\ l' = l + 1
    /\ LET ev == TraceLog[l] IN
        IF ev.e = "Reset" THEN ResetStep(ev)
        ELSE IF ev.e \in {"HarnessFailure", "Crash"} THEN OtherStep
        ELSE OpStep(ev)

TSpec == TInit /\ [][TNext]_tvars

Summary == [cases |-> ncases, lines |-> l - 1, viol |-> viol, ndiv |-> ndiv, divs |-> divs, nfail |-> nfail]
Done == l <= Len(TraceLog) \/ CSVWrite("%1$s", <<ToJson(Summary)>>, IOEnv.QXV_SUMMARY)
=============================================================================
