SPECIFICATION Spec
CONSTANTS
  Peers = {"p1"}
  Ress = {"r1"}
  PeerIds = {"lo1", "hi1"}
  Types = {"propose", "proceed", "reject", "retract", "finish"}
  Variants = {"plain"}
  Wfs = {"ok"}
  Modes = {"sm"}
  Kinds = {"Propose", "Proceed", "Reject", "Retract", "Finish", "Recv", "Ack", "FailAll"}
  MaxJ = 3
  MaxP = 2
  MaxQ = 2
  MaxHist = 99
INVARIANTS TypeOK Conforms ListOK IdsOK QueueOK
VIEW View
CHECK_DEADLOCK FALSE
