------------------------------ MODULE XmlMutate ------------------------------
(***************************************************************************)
(* The input space of C02: well-formed XML elements obtained from a valid  *)
(* stanza by structural mutations a remote peer is free to apply.          *)
(*                                                                         *)
(* An element is a record [tag, ns, attrs, kids]: attrs a function from a  *)
(* set of attribute names to a value kind, kids a sequence of elements.    *)
(* The mutation alphabet is the one of the property's quantifier:          *)
(*   children  deleted / duplicated / reordered / re-namespaced / renamed  *)
(*             / nested under the wrong parent (a sibling) / added with an *)
(*             unknown name in a namespace the parser knows / added as a   *)
(*             sibling of another known kind / text moved to a sibling,    *)
(*   attributes missing / empty / huge / negative / non-numeric,           *)
(*   unknown enum strings, deep nesting.                                   *)
(* Every action is addressed by a path (child indices from the root) and,  *)
(* where it applies, a child index or an attribute name.  WellFormed is    *)
(* invariant: whatever sequence of mutations is applied the result is      *)
(* still a well-formed element (a tree, unique attribute names, bounded),  *)
(* i.e. inside the quantifier of C02.  Behaviours = mutation sequences up  *)
(* to MaxMut; XmlMutateGen exports them as plans which `qxv codec` applies *)
(* to every concrete seed document by mapping paths and attribute kinds    *)
(* onto the seed (see docs/C02.md).                                        *)
(***************************************************************************)
EXTENDS Naturals, Sequences, FiniteSets, TLC

CONSTANTS MaxMut,     \* longest mutation sequence
          Depths,     \* nesting depths offered to Nest (abstract: 1 = a few, 2 = tens, 3 = hundreds of levels)
          MaxNodes,   \* bound on the size of the abstract tree (duplications/nesting are cut there)
          Alphabet    \* the moves used by Next (all of AllOps, except in XmlMutateGen3.cfg, see there)

VARIABLES tree, nmut, hist
mvars == <<tree, nmut>>
vars  == <<tree, nmut, hist>>

Kinds == {"text", "num", "enum", "empty", "huge", "neg", "nonnum", "unknown"}

Leaf(t, n, a)    == [tag |-> t, ns |-> n, attrs |-> a, kids |-> <<>>]
Node(t, n, a, k) == [tag |-> t, ns |-> n, attrs |-> a, kids |-> k]

\* the abstract seed: a stanza-like root with an id (text), a type (enum) and a
\* number, a payload child with a numeric attribute and a grandchild carrying
\* text, and a second child with an enum attribute.
A1 == [a \in {"id", "type", "n"} |-> CASE a = "id" -> "text" [] a = "type" -> "enum" [] a = "n" -> "num"]
A2 == [a \in {"k"} |-> "num"]
A3 == [a \in {"e"} |-> "enum"]
A4 == [a \in {"v"} |-> "text"]
Seed == Node("stanza", "client", A1,
             << Node("payload", "ext1", A2, << Leaf("item", "ext1", A4) >>),
                Leaf("other", "ext2", A3) >>)

(* --- generic tree helpers -------------------------------------------------- *)
RECURSIVE Size(_), SumSizes(_)
Size(t) == 1 + SumSizes(t.kids)
SumSizes(s) == IF s = <<>> THEN 0 ELSE Size(Head(s)) + SumSizes(Tail(s))

RECURSIVE Paths(_)
\* all paths (sequences of child indices) of t, the root being <<>>
Paths(t) == {<<>>} \cup UNION {{<<i>> \o p : p \in Paths(t.kids[i])} : i \in 1..Len(t.kids)}

RECURSIVE At(_, _)
At(t, p) == IF p = <<>> THEN t ELSE At(t.kids[Head(p)], Tail(p))

RemoveAt(s, i)    == SubSeq(s, 1, i - 1) \o SubSeq(s, i + 1, Len(s))
InsertAfter(s, i, x) == SubSeq(s, 1, i) \o <<x>> \o SubSeq(s, i + 1, Len(s))
Swap(s, i)        == [j \in 1..Len(s) |-> IF j = i THEN s[i + 1] ELSE IF j = i + 1 THEN s[i] ELSE s[j]]

RECURSIVE Wrap(_, _)
\* d further copies of the element's own shell around it: <x><x><x>...</x></x></x>
Wrap(t, d) == IF d = 0 THEN t ELSE [t EXCEPT !.kids = <<Wrap(t, d - 1)>>]

\* the namespaces the parsers branch on (abstract: those of the seed; concrete: for a parent element
\* (namespace, name) every namespace a child of such an element has anywhere in the corpus)
KnownNs == {"client", "ext1", "ext2"}
\* the element kinds <<name, namespace>> a parser knows as children (abstract: the child kinds of the
\* seed; concrete: for a parent kind every child kind that occurs under it anywhere in the corpus)
KnownKinds == << <<"payload", "ext1">>, <<"item", "ext1">>, <<"other", "ext2">> >>

\* the local effect of a mutation m on the element it addresses
Here(t, m) ==
    CASE m.op = "DeleteChild"      -> [t EXCEPT !.kids = RemoveAt(@, m.i)]
      [] m.op = "DuplicateChild"   -> [t EXCEPT !.kids = InsertAfter(@, m.i, @[m.i])]
      [] m.op = "SwapSiblings"     -> [t EXCEPT !.kids = Swap(@, m.i)]
      [] m.op = "MoveUnderSibling" ->
            \* child i becomes the last child of its neighbour j (wrong parent)
            LET j == IF m.i < Len(t.kids) THEN m.i + 1 ELSE m.i - 1
                moved == t.kids[m.i]
                k2 == [t.kids EXCEPT ![j] = [@ EXCEPT !.kids = Append(@, moved)]]
            IN [t EXCEPT !.kids = RemoveAt(k2, m.i)]
      [] m.op = "Renamespace"      -> [t EXCEPT !.ns = "foreign"]
      [] m.op = "Rename"           -> [t EXCEPT !.tag = "unknown"]    \* a child name the parent does not know
      \* next to child i a sibling of ANOTHER known kind (a name/namespace that occurs under this kind of
      \* parent), empty or carrying the text of the child it is placed next to
      [] m.op = "AddKnownSibling"  ->
            LET k == KnownKinds[m.kind]
                txt == IF m.txt /\ "v" \in DOMAIN t.kids[m.i].attrs THEN [a \in {"v"} |-> t.kids[m.i].attrs["v"]] ELSE [a \in {} |-> "text"]
            IN [t EXCEPT !.kids = InsertAfter(@, IF m.after THEN m.i ELSE m.i - 1, Leaf(k[1], k[2], txt))]
      \* child i is duplicated and the copy's children are replaced by ONE child of another known kind
      \* (two containers of the same kind with different known content, e.g. two pubsub <event/>s)
      [] m.op = "DuplicateWithOtherChild" ->
            LET k == KnownKinds[m.kind]
            IN [t EXCEPT !.kids = InsertAfter(@, m.i, [@[m.i] EXCEPT !.kids = <<Leaf(k[1], k[2], [a \in {} |-> "text"])>>])]
      \* the character data of child i moves to its right neighbour
      [] m.op = "MoveText"         ->
            LET src == t.kids[m.i] dst == t.kids[m.i + 1]
            IN [t EXCEPT !.kids[m.i] = [src EXCEPT !.attrs = [a \in (DOMAIN @) \ {"v"} |-> @[a]]],
                         !.kids[m.i + 1] = [dst EXCEPT !.attrs = [a \in (DOMAIN @) \cup {"v"} |-> IF a = "v" THEN src.attrs["v"] ELSE @[a]]]]
      \* a new first child with an unknown name in a namespace the parser knows
      [] m.op = "AddUnknownChild"  -> [t EXCEPT !.kids = <<Leaf("unknown", m.ns, [a \in {} |-> "text"])>> \o @]
      [] m.op = "DropAttr"         -> [t EXCEPT !.attrs = [a \in (DOMAIN @) \ {m.a} |-> @[a]]]
      [] m.op = "EmptyAttr"        -> [t EXCEPT !.attrs[m.a] = "empty"]
      [] m.op = "HugeAttr"         -> [t EXCEPT !.attrs[m.a] = "huge"]
      [] m.op = "NegativeAttr"     -> [t EXCEPT !.attrs[m.a] = "neg"]
      [] m.op = "NonNumericAttr"   -> [t EXCEPT !.attrs[m.a] = "nonnum"]
      [] m.op = "UnknownEnum"      -> [t EXCEPT !.attrs[m.a] = "unknown"]
      [] m.op = "Nest"             -> Wrap(t, m.d)

RECURSIVE Apply(_, _, _)
Apply(t, p, m) == IF p = <<>> THEN Here(t, m)
                  ELSE [t EXCEPT !.kids[Head(p)] = Apply(@, Tail(p), m)]

(* --- which mutations are possible on a tree -------------------------------- *)
ChildOps == {"DeleteChild", "DuplicateChild", "SwapSiblings", "MoveUnderSibling"}
AttrOps  == {"DropAttr", "EmptyAttr", "HugeAttr", "NegativeAttr", "NonNumericAttr", "UnknownEnum"}

Enabled(t, m) ==
    /\ m.p \in Paths(t)
    /\ LET e == At(t, m.p) IN
        CASE m.op \in {"DeleteChild"}    -> m.i \in 1..Len(e.kids)
          [] m.op = "DuplicateChild"     -> m.i \in 1..Len(e.kids) /\ Size(t) + Size(e.kids[m.i]) <= MaxNodes
          [] m.op = "SwapSiblings"       -> m.i \in 1..(Len(e.kids) - 1)
          [] m.op = "MoveUnderSibling"   -> m.i \in 1..Len(e.kids) /\ Len(e.kids) >= 2
          [] m.op = "Renamespace"        -> e.ns # "foreign"
          [] m.op = "Rename"             -> m.p # <<>> /\ e.tag # "unknown"   \* the root keeps its identity (OneRoot)
          [] m.op = "AddUnknownChild"    -> m.ns \in KnownNs /\ Size(t) + 1 <= MaxNodes
          [] m.op = "AddKnownSibling"    -> /\ m.i \in 1..Len(e.kids) /\ Size(t) + 1 <= MaxNodes
                                            /\ KnownKinds[m.kind] # <<e.kids[m.i].tag, e.kids[m.i].ns>>
          [] m.op = "DuplicateWithOtherChild" ->
                /\ m.i \in 1..Len(e.kids) /\ Len(e.kids[m.i].kids) >= 1 /\ Size(t) + 2 <= MaxNodes
                /\ \A j \in 1..Len(e.kids[m.i].kids) : KnownKinds[m.kind] # <<e.kids[m.i].kids[j].tag, e.kids[m.i].kids[j].ns>>
          [] m.op = "MoveText"           -> m.i \in 1..(Len(e.kids) - 1) /\ "v" \in DOMAIN e.kids[m.i].attrs
          [] m.op \in {"DropAttr", "EmptyAttr", "HugeAttr"} -> m.a \in DOMAIN e.attrs /\ e.attrs[m.a] # m.to
          \* a negative or non-numeric value is interesting where a number is expected,
          \* an unknown word where one of a fixed set is expected
          [] m.op \in {"NegativeAttr", "NonNumericAttr"} -> m.a \in DOMAIN e.attrs /\ e.attrs[m.a] = "num"
          [] m.op = "UnknownEnum"        -> m.a \in DOMAIN e.attrs /\ e.attrs[m.a] = "enum"
          [] m.op = "Nest"               -> m.d \in Depths /\ Size(t) + m.d * 1 <= MaxNodes

AttrNames == {"id", "type", "n", "k", "e", "v"}
Target(op) == CASE op = "EmptyAttr" -> "empty" [] op = "HugeAttr" -> "huge" [] OTHER -> "none"

\* Moves is defined for ANY tree: besides the plans TLC enumerates from the abstract Seed, the
\* driver enumerates {m \in Moves(s) : Enabled(s, m)} for every concrete seed document s -- every
\* one-step mutation at every element, attribute and character-data position of every seed
\* (character data of a leaf is modelled as an attribute).  AllOps is the alphabet.
AllOps == {"DeleteChild", "DuplicateChild", "SwapSiblings", "MoveUnderSibling", "Renamespace", "Rename", "AddUnknownChild",
           "AddKnownSibling", "MoveText", "DuplicateWithOtherChild",
           "DropAttr", "EmptyAttr", "HugeAttr", "NegativeAttr", "NonNumericAttr", "UnknownEnum", "Nest"}

Moves(t) ==
    LET P == Paths(t) IN
      {[op |-> o, p |-> p, i |-> i] : o \in ChildOps, p \in P, i \in 1..3}
      \cup {[op |-> "Renamespace", p |-> p] : p \in P}
      \cup {[op |-> "Rename", p |-> p] : p \in P}
      \cup {[op |-> "AddUnknownChild", p |-> p, ns |-> n] : p \in P, n \in KnownNs}
      \cup {[op |-> "AddKnownSibling", p |-> p, i |-> i, kind |-> k, after |-> af, txt |-> tx] :
                p \in P, i \in 1..3, k \in DOMAIN KnownKinds, af \in {TRUE}, tx \in BOOLEAN}   \* "before" is a variant of the concrete binding only
      \cup {[op |-> "MoveText", p |-> p, i |-> i] : p \in P, i \in 1..2}
      \cup {[op |-> "DuplicateWithOtherChild", p |-> p, i |-> i, kind |-> k] : p \in P, i \in 1..3, k \in DOMAIN KnownKinds}
      \cup {[op |-> o, p |-> p, a |-> a, to |-> Target(o)] : o \in AttrOps, p \in P, a \in AttrNames}
      \cup {[op |-> "Nest", p |-> p, d |-> d] : p \in P, d \in Depths}

Init == tree = Seed /\ nmut = 0 /\ hist = <<>>

\* the exported step drops the bookkeeping field `to`
Rec(m) == IF "to" \in DOMAIN m THEN [op |-> m.op, p |-> m.p, a |-> m.a] ELSE m

Mutate(m) ==
    /\ nmut < MaxMut
    /\ Enabled(tree, m)
    /\ tree' = Apply(tree, m.p, m)
    /\ nmut' = nmut + 1
    /\ hist' = Append(hist, Rec(m))

Next == \E m \in Moves(tree) : m.op \in Alphabet /\ Mutate(m)

Spec == Init /\ [][Next]_vars

(* --- invariants -------------------------------------------------------------- *)
RECURSIVE WF(_)
WF(t) ==
    /\ DOMAIN t = {"tag", "ns", "attrs", "kids"}
    /\ t.tag \in {"stanza", "payload", "item", "other", "unknown"}
    /\ t.ns \in {"client", "ext1", "ext2", "foreign"}
    /\ DOMAIN t.attrs \subseteq AttrNames              \* a function: attribute names are unique
    /\ \A a \in DOMAIN t.attrs : t.attrs[a] \in Kinds
    /\ \A i \in 1..Len(t.kids) : WF(t.kids[i])

WellFormed == WF(tree) /\ Size(tree) <= MaxNodes + 3
\* mutations never touch the root's identity: what is handed to a parser is one element
OneRoot == tree.tag = "stanza"

(* --- C02 predicates over what the implementation reported (used by the trace spec) *)
P_Terminated(done)        == done
P_WellFormedOut(wf)       == wf
P_Fixpoint(x1EqualsX2)    == x1EqualsX2

Reinit == tree' = Seed /\ nmut' = 0 /\ hist' = <<>>

View == mvars
=============================================================================
