--------------------------- MODULE IqTrackerGen ---------------------------
(* Behaviour export for IqTracker (see lib/vf.py: tlc_gen / tlc_simulate).  *)
(* VIEW GenView: transition tour; no VIEW + CONSTRAINT Bound: all paths.    *)
(* SimSpec (-simulate): one disjunct per kind of step, arguments drawn at   *)
(* random, so that walks are not dominated by the many Recv variants.       *)
EXTENDS IqTracker, Json, CSV, IOUtils

EmitBehaviour ==
    CSVWrite("%1$s", <<ToJson([steps |-> hist'])>>, IOEnv.QXV_GEN)

\* mentions a variable so that TLC does not evaluate the draw once as a constant expression
Rnd(S) == RandomElement({x \in S : Len(hist) >= 0})
SimNext ==
    \/ \E i \in Ids : Send(i, Rnd(Tos), Rnd({c \in CidChoices(i) : IsDup(c) => req[DupOf(c)].st = "Out"}),
                           Rnd({x \in Bodies : x # "none" => Child(i) \in Ids}))
    \/ \E i \in Ids : \E j \in Pending \ {i} : ("dup" \in Cids /\ Send(i, Rnd(Tos), "dup-" \o j, "none"))
    \/ \E w \in 1..4 : \E i \in Ids : Recv(i, Rnd(Types), Rnd(RFroms))
    \/ \E w \in 1..2 : \E i \in Pending : Recv(i, Rnd({"result", "error"}), Rnd({"exact", "absent"}))
    \/ \E k \in OpenKinds : Open(k)
    \/ \E k \in {"cut", "user"} : Close(k)
    \/ \E r \in Attempts : Attempt(r)
    \/ (Len(hist) > 6 /\ Destroy)
SimSpec == Init /\ [][SimNext]_vars

\* session histories (IqTrackerGenSess.cfg): every sequence of session openings / closings with one
\* request sent at any position; no replies, no destruction
SessBound == Bound /\ \A k \in 1..Len(hist) : hist[k].a \in {"Open", "Close", "Send", "Attempt"}

\* all-paths set for the id rule (IqTrackerGenIds.cfg): one session, sends and replies only
IdsBound == /\ Bound
            /\ \A k \in 1..Len(hist) : hist[k].a \in {"Open", "Send", "Recv"}
            /\ (Len(hist) >= 1 => hist[1].a = "Open")
=============================================================================
