SPECIFICATION Spec
CONSTANTS
  Rooms = {"r1"}
  Foreign = {"rx", "lk"}
  Nicks = {"n1", "n2"}
  Items = {"plain", "mod"}
  Codes = {"none", "self", "self210"}
  UnKinds = {"leave", "nick", "kick", "ban", "remove"}
  MsgNicks = {"-", "n2"}
  MsgTypes = {"groupchat", "chat", "error"}
  Subjects = {"s1"}
  Names = {"N1"}
  Users = {"u1"}
  Kinds = {"SetNick", "Join", "Leave", "SendMsg", "ReqConf", "Kick", "Ban", "SetSubj",
           "PresAv", "PresUn", "PresErr", "Msg", "Invite", "Disco", "ConfRes",
           "Disconnect", "Connect", "OwnPres"}
  MaxHist = 99
VIEW View
ACTION_CONSTRAINT EmitBehaviour
CHECK_DEADLOCK FALSE
