SPECIFICATION Spec
CONSTANTS
  Ids = {"i1"}
  Tos = {"server"}
  RFroms = {}
  Types = {}
  OpenKinds = {"plain", "sm", "smr", "resumed"}
  Cids = {"fresh"}
  Bodies = {"none"}
  Attempts = {"authfail", "bindfail", "userabort", "precut", "abandon"}
  IdRule = "replace"
  MaxHist = 4
CONSTRAINT SessBound
ACTION_CONSTRAINT EmitBehaviour
CHECK_DEADLOCK FALSE
