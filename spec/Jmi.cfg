SPECIFICATION Spec
CONSTANTS
  Peers = {"p1"}
  Ress = {"r1"}
  PeerIds = {"lo1", "hi1"}
  Types = {"propose", "ringing", "proceed", "reject", "retract", "finish"}
  Variants = {"plain"}
  Wfs = {"ok"}
  Modes = {"sm", "up", "down"}
  Kinds = {"Propose", "Ring", "Proceed", "Reject", "Retract", "Finish", "Recv", "Ack", "FailAll"}
  MaxJ = 2
  MaxP = 1
  MaxQ = 3
  MaxHist = 99
INVARIANTS TypeOK Conforms ListOK IdsOK QueueOK
VIEW View
CHECK_DEADLOCK FALSE
