SPECIFICATION Spec
CONSTANTS
  Cfgs <- McQuickCfgs
  FeatureSets <- CoreFeatureSets
  MaxConn = 2
  MaxQ = 1
  MaxHist = 99
INVARIANTS TypeOK C04_NoLeak C04_NoAuthPlain C10_DownMeansDown C10_OneSessionPerConnection C10_SessionOnlyWhenDone C10_RequestsSettled
PROPERTIES C04_GivesUp C10_FreshStart
VIEW View
CONSTRAINT QBound
CHECK_DEADLOCK FALSE
