------------------------------- MODULE Server -------------------------------
(***************************************************************************)
(* The bundled XMPP server seen from one client connection (the attacker's)*)
(* while a second client (the victim) is logged in and bound:              *)
(* src/server/QXmppIncomingClient.cpp (handleStream, handleStanza,         *)
(* onPasswordReply, onDigestReply, onSasl2Authenticated), the SASL server  *)
(* objects of src/base/QXmppSasl.cpp, the password checker interface       *)
(* (src/server/QXmppPasswordChecker.h: replies arrive asynchronously) and  *)
(* routing by destination (src/server/QXmppServer.cpp: routeData,          *)
(* handleStanza, _q_clientConnected).                                      *)
(*                                                                         *)
(* One action per handler / environment move.  The client may do anything  *)
(* in any order: Open (stream header, right or wrong domain), Auth (SASL   *)
(* or SASL 2, any mechanism, any credentials, optionally with an inline    *)
(* Bind 2 request), Response, Abort, Bind, Session, Stanza (any kind, any  *)
(* from, any to).  The environment's other move is Reply: the password     *)
(* checker finishes one of its pending replies.                            *)
(*                                                                         *)
(* The specification is the INTENDED behaviour: a connection that has not  *)
(* completed an approved exchange gets a not-authorized stream error for   *)
(* any stanza (including bind and session); a checker reply belongs to the *)
(* exchange that asked for it and is ignored once that exchange has been   *)
(* superseded.  Where the code knowingly does something harmless and odd   *)
(* (SASL <abort/> is ignored, SASL 2 <abort/> does not cancel, ANONYMOUS is *)
(* created but never succeeds, the namespace of a <response/> is not        *)
(* compared with its exchange, re-authentication and re-binding are         *)
(* accepted) the model does the same.                                       *)
(***************************************************************************)
EXTENDS Naturals, Sequences, FiniteSets, TLC

CONSTANTS Vers,        \* subset of {"sasl","sasl2"}
          Mechs,       \* subset of {"PLAIN","DIGEST-MD5","ANONYMOUS","X-UNKNOWN"}
          Creds,       \* subset of {"right","wrongPw","otherUser","malformed","empty"}
          BindRes,     \* resources the client asks for
          Kinds, Froms, Tos,   \* stanza alphabet ...
          Stanzas,     \* ... and the <<kind, from, to>> triples a configuration uses (AllStanzas = all of them)
          MaxPending,  \* bound on outstanding checker replies
          MaxRetry,    \* refused authentication attempts the server tolerates on one stream before it
                       \* closes it (RFC 6120, 6.4.5).  0 = the bundled server: the first refusal closes.
          MaxHist      \* bound on behaviour length (generator configurations only)

VARIABLES c,          \* the connection: [phase, authed, res, st, ver, xuser, b2]
          pending,    \* checker requests not yet answered: [op, user, ok, cr, stale, ver]; cr = the credential
                      \* class that asked: classes the model treats alike (same user, same verdict) may
                      \* differ in the implementation, so the generators must not merge their states
          routes,     \* full JIDs registered for routing (QXmppServerPrivate::incomingClientsByJid)
          approved,   \* ghost: users for whom the checker/digest verification approved an exchange on this connection
          proved,     \* ghost: users whose right password the client has presented so far
          out,        \* what the server wrote to this connection in the last step
          dlv,        \* what it delivered to the victim in the last step
          sig,        \* clientConnected / clientDisconnected signals of the last step
          hist        \* behaviour export

mvars == <<c, pending, routes, approved, proved>>
ovars == <<out, dlv, sig>>   \* dlv is the per-step increment of the design's deliveredTo ghost
vars  == <<mvars, ovars, hist>>

Domain == "example.org"
Att    == "attacker"          \* the account whose password the scripted client knows
Vic    == "victim"
VicRes == "rv"
B2Res  == "t.#"               \* Bind 2 resource: tag "t" + random suffix (normalised by the harness)

J(u, r) == [u |-> u, d |-> Domain, r |-> r]
NoJ     == [u |-> "", d |-> "", r |-> ""]
El(k, t, j) == [k |-> k, t |-> t, j |-> j]
E(k)        == El(k, "", NoJ)
Sfx(v)      == IF v = "sasl2" THEN "2" ELSE ""
Fail(v)      == E(IF v = "sasl2" THEN "failure2" ELSE "failure")
Challenge(v) == E(IF v = "sasl2" THEN "challenge2" ELSE "challenge")

\* Credential classes = WHO is named x WHAT secret the payload / the digest response is computed
\* with (the attacker knows the password of its own accounts only):
\*   right, wrongPw, ownEmpty            the own account: its password, a wrong one, the empty one
\*   otherUser, victimEmpty              the victim: the attacker's password, the empty one
\*   victimOwnSecret                     the victim's NAME, the response computed from the attacker's own
\*                                       secret hash MD5(attacker:realm:attacker-password) (DIGEST-MD5; for
\*                                       PLAIN the same payload as otherUser)
\*   victimReplay, ownOtherNonce, ownNoNonce   DIGEST-MD5 responses that are well-formed for the right secret
\*                                       but NOT for the challenge issued on this stream: the victim's, recorded
\*                                       from an honest exchange elsewhere (another nonce); the attacker's own for
\*                                       another nonce; the same without a nonce.  Nothing is presented for THIS
\*                                       challenge: refused like a wrong secret (Right = FALSE)
\*   unknownPw, unknownEmpty             no such account ("nobody"): some password, the empty one
\*   embedEmpty, embedBareEmpty, embedSlashEmpty   no such account, the NAME embeds the victim's address
\*                                       ("victim@example.org/y", "victim@example.org", "victim/y"), empty password
\*   embedKnown                          an account that exists under the name "victim@example.org/x" and
\*                                       belongs to the attacker, its password
\*   malformed, empty                    payload shapes without credentials
\* The SASL user name becomes the localpart of d->jid.  Intended: a name that is not a valid
\* localpart (RFC 7622: no '@', no '/', ...) is refused before the checker is asked -- otherwise the
\* address parses as somebody else's (d->jid = "victim@example.org/x@example.org", bind rebuilds it
\* as bare(d->jid)/resource = victim@example.org/resource).
ShapeCreds == {"malformed", "empty"}
EmbedCreds == {"embedEmpty", "embedBareEmpty", "embedSlashEmpty", "embedKnown"}
Asks(cr)   == cr \notin ShapeCreds \cup EmbedCreds      \* credentials that reach the password checker
Nobody     == "nobody"
\* caseKnown: an account of the attacker's own named like the victim in another letter case, with its own
\* (right) password.  The checker approves exactly that name: the connection is "Victim@domain", never
\* "victim@domain" (addresses are compared byte-wise by the monitor)
CaseUser   == "Victim"
UserOf(cr) == CASE cr \in {"otherUser", "victimEmpty", "victimOwnSecret", "victimReplay"} -> Vic      \* whose name the credentials carry
                [] cr \in {"unknownPw", "unknownEmpty"} -> Nobody
                [] cr = "caseKnown" -> CaseUser
                [] OTHER -> Att
Right(cr)  == cr \in {"right", "caseKnown"}                              \* ... and whether the secret is that user's password

AllStanzas == Kinds \X Froms \X Tos
\* reduced alphabets for generator configurations (a .cfg cannot write tuples)
CoreStanzas == {<<"message", "absent", "victimFull">>, <<"iq", "absent", "domain">>, <<"message", "victim", "victimFull">>}
\* from classes naming the own account but not this connection's address, and near-misses of it
\* (a resource nobody bound, the resource of another live session of the account, the own resource
\* in another case, a trailing slash, the own full JID as a proper prefix, the served domain only,
\* the own localpart at a domain that starts like the served one): never legitimate
NearOwnFroms == {"ownOtherRes", "ownSibling", "ownCase", "ownSlash", "ownPrefix", "ownDomain", "ownLookalike"}
\* (the near-own from classes are toured against every identity state by ServerGenTourF.cfg)
MidStanzas  == ({"message"} \X {"absent", "own", "victim"} \X {"victimFull", "domain"})
               \cup {<<"iq", "absent", "domain">>, <<"iq", "own", "victimFull">>, <<"message", "ownOtherRes", "victimFull">>}
OneStanza   == {<<"message", "absent", "victimFull">>}
NoStanzas   == {}
\* exhaustive configuration: everything for the five basic classes, the near-own classes (which the
\* model treats alike: dropped) towards the victim's full JID
McStanzas   == (Kinds \X (Froms \ NearOwnFroms) \X Tos) \cup (Kinds \X NearOwnFroms \X {"victimFull"})
\* every from class against every identity state of the connection (ServerGenTourF.cfg)
FromStanzas == {"message", "iq"} \X Froms \X {"victimFull"}

\* no exchange in progress: the fields describing one are back to their defaults
Idle(c0) == [c0 EXCEPT !.st = "none", !.ver = "sasl", !.xuser = "", !.b2 = FALSE]

C0 == [phase |-> "init", authed |-> "", res |-> "", st |-> "none", ver |-> "sasl", xuser |-> "", b2 |-> FALSE, nfail |-> 0]

Init ==
    /\ c = C0 /\ pending = <<>> /\ routes = {J(Vic, VicRes)} /\ approved = {} /\ proved = {}
    /\ out = <<>> /\ dlv = <<>> /\ sig = <<>> /\ hist = <<>>

StaleAll(p) == [i \in 1..Len(p) |-> [p[i] EXCEPT !.stale = TRUE]]
Without(p, i) == [k \in 1..(Len(p) - 1) |-> IF k < i THEN p[k] ELSE p[k + 1]]

Step(h, c2, p2, r2, a2, o, d, s) ==
    /\ c' = c2 /\ pending' = p2 /\ routes' = r2 /\ approved' = a2
    /\ out' = o /\ dlv' = d /\ sig' = s
    /\ proved' = IF h.a \in {"Auth", "Response"} /\ Right(h.cred) THEN proved \cup {UserOf(h.cred)} ELSE proved
    /\ hist' = Append(hist, h)

\* the server ends the stream: XmppSocket::disconnectFromHost, then _q_clientDisconnected
CloseWith(h, o) ==
    Step(h, [Idle(c) EXCEPT !.phase = "closed"], pending,
         routes \ {J(c.authed, c.res)}, approved, o \o <<E("close")>>, <<>>,
         IF c.authed # "" THEN <<[s |-> "disconnected", j |-> J(c.authed, c.res)]>> ELSE <<>>)

\* A SASL failure (refused or malformed credentials, unknown mechanism, response out of order).
\* With retries allowed the stream stays open, but the exchange is OVER: the SASL server object and
\* whatever it has learnt (user name, fetched digest) and every outstanding checker reply are
\* discarded; the client has to start again with <auth/>.
SaslFail(h, o, p) ==
    IF c.nfail < MaxRetry
    THEN Step(h, [Idle(c) EXCEPT !.nfail = c.nfail + 1], StaleAll(p), routes, approved, o, <<>>, <<>>)
    ELSE Step(h, [Idle(c) EXCEPT !.phase = "closed"], p, routes \ {J(c.authed, c.res)}, approved,
              o \o <<E("close")>>, <<>>,
              IF c.authed # "" THEN <<[s |-> "disconnected", j |-> J(c.authed, c.res)]>> ELSE <<>>)

\* intended: a stanza (bind and session included) from a connection that is not authenticated
NotAuthorized(h) == CloseWith(h, <<E("streamerror")>>)

\* an approved exchange completes: d->jid = user@domain.  fmt is the SASL version that answers:
\* SASL: <success/>; SASL 2 (onSasl2Authenticated): <success/> with the address, an inline Bind 2
\* request of the <authenticate/> that started the exchange binds a resource at once, then the
\* stream features
Accept(h, u, p2, fmt) ==
    LET bind == fmt = "sasl2" /\ c.ver = "sasl2" /\ c.b2
        r2   == IF bind THEN B2Res ELSE ""
        c2   == [Idle(c) EXCEPT !.authed = u, !.res = r2]
    IN Step(h, c2, p2, IF bind THEN routes \cup {J(u, r2)} ELSE routes, approved \cup {u},
            IF fmt = "sasl2"
            THEN <<El("success2", IF bind THEN "bound" ELSE "", J(u, r2)), El("features", "post", NoJ)>>
            ELSE <<E("success")>>,
            <<>>,
            IF bind THEN <<[s |-> "connected", j |-> J(u, r2)]>> ELSE <<>>)

(* --- handleStream -------------------------------------------------------- *)
Open(dom) ==
    LET h == [a |-> "Open", dom |-> dom] IN
    /\ c.phase \in {"init", "open"}
    /\ IF dom = "wrong"
       THEN CloseWith(h, <<E("header"), E("streamerror")>>)
       ELSE Step(h, [Idle(c) EXCEPT !.phase = "open"], StaleAll(pending), routes, approved,
                 <<E("header"), El("features", IF c.authed = "" THEN "mechs" ELSE "post", NoJ)>>, <<>>, <<>>)

(* --- <auth/> / <authenticate/> ------------------------------------------- *)
Auth(v, m, cr, b) ==
    LET h == [a |-> "Auth", ver |-> v, mech |-> m, cred |-> cr, b2 |-> b]
        ask == Append(StaleAll(pending), [op |-> "check", user |-> UserOf(cr), ok |-> Right(cr), cr |-> cr, stale |-> FALSE, ver |-> v])
    IN
    /\ c.phase = "open"
    /\ (b => v = "sasl2") /\ (m # "PLAIN" => cr = "empty")
    /\ CASE m \in {"X-UNKNOWN", "ANONYMOUS"} -> SaslFail(h, <<Fail(v)>>, pending)
         [] m = "PLAIN" /\ cr = "malformed" -> SaslFail(h, <<Fail(v)>>, pending)
         [] m = "PLAIN" /\ cr = "empty" ->
                Step(h, [c EXCEPT !.st = "plainWait", !.ver = v, !.b2 = b, !.xuser = ""], StaleAll(pending),
                     routes, approved, <<Challenge(v)>>, <<>>, <<>>)
         [] m = "PLAIN" /\ cr \in EmbedCreds -> SaslFail(h, <<Fail(v)>>, pending)     \* not a localpart: refused unasked
         [] m = "PLAIN" /\ Asks(cr) ->
                /\ Len(pending) < MaxPending
                /\ Step(h, [c EXCEPT !.st = "check", !.ver = v, !.b2 = b, !.xuser = UserOf(cr)], ask,
                        routes, approved, <<>>, <<>>, <<>>)
         [] m = "DIGEST-MD5" ->
                Step(h, [c EXCEPT !.st = "digestWait", !.ver = v, !.b2 = b, !.xuser = ""], StaleAll(pending),
                     routes, approved, <<Challenge(v)>>, <<>>, <<>>)

(* --- <response/> ----------------------------------------------------------- *)
Response(v, cr) ==
    LET h == [a |-> "Response", ver |-> v, cred |-> cr]
        \* as built the namespace of a <response/> is not compared with that of the exchange it
        \* continues; it only selects the format of an immediate answer
        mine == c.st # "none"
    IN
    /\ c.phase = "open"
    /\ CASE ~mine -> SaslFail(h, <<Fail(v)>>, pending)                 \* response without an exchange
         \* (an empty response makes the PLAIN object ask again, which the response branch treats as a failure)
         [] mine /\ c.st = "plainWait" /\ cr \in {"empty", "malformed"} -> SaslFail(h, <<Fail(v)>>, pending)
         [] mine /\ c.st = "plainWait" /\ cr \in EmbedCreds -> SaslFail(h, <<Fail(c.ver)>>, pending)
         [] mine /\ c.st = "plainWait" /\ Asks(cr) ->
                /\ Len(pending) < MaxPending
                /\ Step(h, [c EXCEPT !.st = "check", !.xuser = UserOf(cr)],
                        Append(pending, [op |-> "check", user |-> UserOf(cr), ok |-> Right(cr), cr |-> cr, stale |-> FALSE, ver |-> c.ver]),
                        routes, approved, <<>>, <<>>, <<>>)
         [] mine /\ c.st = "check" -> SaslFail(h, <<Fail(v)>>, pending)   \* PLAIN server object is past its only step
         [] mine /\ c.st \in {"digestWait", "digestCheck"} /\ cr \in {"empty", "malformed"} -> SaslFail(h, <<Fail(v)>>, pending)
         [] mine /\ c.st \in {"digestWait", "digestCheck"} /\ cr \in EmbedCreds -> SaslFail(h, <<Fail(c.ver)>>, pending)
         [] mine /\ c.st \in {"digestWait", "digestCheck"} /\ Asks(cr) ->
                \* the digest of the named user is requested; verification happens when it arrives
                /\ Len(pending) < MaxPending
                /\ Step(h, [c EXCEPT !.st = "digestCheck"],
                        Append(pending, [op |-> "digest", user |-> UserOf(cr), ok |-> Right(cr), cr |-> cr, stale |-> FALSE, ver |-> c.ver]),
                        routes, approved, <<>>, <<>>, <<>>)
         [] mine /\ c.st = "digestFinal" -> Accept(h, c.xuser, pending, v)   \* client acknowledges rspauth

(* --- QXmppPasswordReply::finished ------------------------------------------ *)
Reply(i) ==
    LET h == [a |-> "Reply", i |-> i]
        e == pending[i]
        p2 == Without(pending, i)
    IN
    /\ c.phase = "open"
    /\ i \in 1..Len(pending)
    /\ CASE e.stale -> Step(h, c, p2, routes, approved, <<>>, <<>>, <<>>)     \* intended: not this exchange's reply
         [] ~e.stale /\ e.op = "check" /\ e.ok  -> Accept(h, e.user, p2, c.ver)
         [] ~e.stale /\ e.op = "check" /\ ~e.ok ->
                SaslFail(h, <<Fail(e.ver)>>, p2)
         [] ~e.stale /\ e.op = "digest" /\ e.ok /\ c.st = "digestCheck" ->
                \* response verified against the digest: rspauth challenge
                Step(h, [c EXCEPT !.st = "digestFinal", !.xuser = e.user], p2, routes, approved \cup {e.user},
                     <<Challenge(c.ver)>>, <<>>, <<>>)
         [] ~e.stale /\ e.op = "digest" /\ ~(e.ok /\ c.st = "digestCheck") ->
                SaslFail(h, <<Fail(e.ver)>>, p2)

(* --- <abort/> --------------------------------------------------------------- *)
\* As built: the SASL namespace has no abort handler at all; the SASL 2 handler answers
\* <failure><aborted/></failure> and forgets the <authenticate/> request (with its inline bind
\* request) but neither the SASL server object nor a pending checker reply: the exchange can
\* still complete.  Harmless for C16 (the verdict still decides), so modelled as it is.
Abort(v) ==
    LET h == [a |-> "Abort", ver |-> v] IN
    /\ c.phase = "open"
    /\ IF v = "sasl"
       THEN Step(h, c, pending, routes, approved, <<>>, <<>>, <<>>)
       ELSE Step(h, [c EXCEPT !.b2 = FALSE], pending, routes, approved, <<Fail(v)>>, <<>>, <<>>)

(* --- resource binding, session --------------------------------------------- *)
Bind(r) ==
    LET h == [a |-> "Bind", r |-> r] IN
    /\ c.phase = "open"
    /\ IF c.authed = ""
       THEN NotAuthorized(h)
       ELSE Step(h, [c EXCEPT !.res = r], pending, routes \cup {J(c.authed, r)}, approved,
                 <<El("iq", "result", J(c.authed, r))>>, <<>>, <<[s |-> "connected", j |-> J(c.authed, r)]>>)

Session ==
    LET h == [a |-> "Session"] IN
    /\ c.phase = "open"
    /\ IF c.authed = "" THEN NotAuthorized(h)
       ELSE Step(h, c, pending, routes, approved, <<El("iq", "result", NoJ)>>, <<>>, <<>>)

(* --- any other stanza: legitimacy check, from stamping, routing -------------- *)
\* "own" is the full address the server reported (or would report for resource "ra"); it equals
\* d->jid only once a resource is bound.  Every other explicit from (another user's, and the
\* NearOwnFroms) differs from both d->jid and its bare form: the stanza is dropped
Legit(f) == f \in {"absent", "ownBare"} \/ (f = "own" /\ c.res # "")
Stamp(f) == IF f = "ownBare" THEN J(c.authed, "") ELSE J(c.authed, c.res)
ToJ(t)   == IF t = "victimBare" THEN J(Vic, "") ELSE J(Vic, VicRes)

Stanza(k, f, t) ==
    LET h == [a |-> "Stanza", k |-> k, f |-> f, t |-> t] IN
    /\ c.phase = "open"
    /\ CASE c.authed = "" -> NotAuthorized(h)
         [] c.authed # "" /\ ~Legit(f) -> Step(h, c, pending, routes, approved, <<>>, <<>>, <<>>)   \* dropped
         [] c.authed # "" /\ Legit(f) /\ t \in {"victimBare", "victimFull"} ->
                Step(h, c, pending, routes, approved, <<>>, <<[k |-> k, f |-> Stamp(f), to |-> ToJ(t)]>>, <<>>)
         [] c.authed # "" /\ Legit(f) /\ t \in {"domain", "absent"} ->
                \* the server's own answer (iq error) is routed to the stamped from: it arrives if that is registered
                Step(h, c, pending, routes, approved,
                     IF k = "iq" /\ (\E j \in routes : j.u = c.authed) THEN <<El("iq", "error", NoJ)>> ELSE <<>>, <<>>, <<>>)

Next ==
    \/ \E dom \in {"ok", "wrong"} : Open(dom)
    \/ \E v \in Vers, m \in Mechs, b \in BOOLEAN :
          \E cr \in (IF m = "PLAIN" THEN Creds ELSE {"empty"}) : Auth(v, m, cr, b)   \* only PLAIN has an initial response
    \/ \E v \in Vers, cr \in Creds : Response(v, cr)
    \/ \E i \in 1..MaxPending : Reply(i)
    \/ \E v \in Vers : Abort(v)
    \/ \E r \in BindRes : Bind(r)
    \/ Session
    \/ \E z \in Stanzas : Stanza(z[1], z[2], z[3])

Spec == Init /\ [][Next]_vars

(* --- properties (C16) --------------------------------------------------------- *)
StanzaKinds == {"iq", "message", "presence"}
Range(s) == {s[i] : i \in 1..Len(s)}

\* predicates over observable quantities, shared with ServerTrace
P_Identity(j, appr)   == j.u \in appr /\ j.d = Domain           \* an address the server assigns / announces
P_From(f, appr, res)  == f.u \in appr /\ f.d = Domain /\ f.r \in {"", res}

TypeOK ==
    /\ c.phase \in {"init", "open", "closed"} /\ c.authed \in {"", Att, Vic, CaseUser}
    /\ c.st \in {"none", "plainWait", "check", "digestWait", "digestCheck", "digestFinal"}
    /\ Len(pending) <= MaxPending
\* a resource is bound only for an authenticated connection
BindOnlyAuthed     == c.res # "" => c.authed # ""
\* accepted as u only after an exchange approved for u ...
AuthedOnlyApproved == c.authed # "" => c.authed \in approved
\* ... and approval means the right password of exactly that user was presented in this behaviour
ApprovedSound      == approved \subseteq proved
NeverTheVictim     == c.authed # Vic
\* nothing is routed for, or answered to, an unauthenticated connection; what is routed is stamped
P_Answers(o, authed) == (\E e \in Range(o) : e.k \in StanzaKinds) => authed # ""
P_Routed(d, authed, res) == \A x \in Range(d) : authed # "" /\ P_From(x.f, {authed}, res)
\* (action properties: out/dlv describe the last step and are not part of the state identity)
AnswersOnlyAuthed  == [][P_Answers(out', c.authed) /\ P_Answers(out', c'.authed)]_vars
RoutedStamped      == [][P_Routed(dlv', c.authed, c.res)]_vars
RoutesOwn          == \A j \in routes : j = J(Vic, VicRes) \/ (j.u \in approved /\ j.d = Domain)
\* the identity changes only by completing an approved exchange
IdentityByApproval == [][c'.authed # c.authed => (c'.authed \in approved' /\ hist'[Len(hist')].a \in {"Reply", "Response"})]_vars

\* re-initialisation used by the trace specification at an execution boundary
Reinit ==
    /\ c' = C0 /\ pending' = <<>> /\ routes' = {J(Vic, VicRes)} /\ approved' = {} /\ proved' = {}
    /\ out' = <<>> /\ dlv' = <<>> /\ sig' = <<>> /\ hist' = <<>>

Bound == Len(hist) <= MaxHist
GenView == <<c, pending, routes>>   \* generator configurations: the mechanism state without the ghosts
View  == mvars      \* hist and the outputs of the last step are observation variables: hidden from state identity
=============================================================================
