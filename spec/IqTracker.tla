----------------------------- MODULE IqTracker -----------------------------
(***************************************************************************)
(* Outstanding-request tracking of the client stream (OutgoingIqManager in *)
(* src/client/QXmppOutgoingClient.cpp) as seen through                      *)
(* QXmppClient::sendIq / sendGenericIq: each request returns a task; the   *)
(* specification counts how often and by what every task is completed.     *)
(*                                                                         *)
(* One action per handler / move of the environment:                       *)
(*   Send(i, to, c)  QXmppOutgoingClient::sendIq -> OutgoingIqManager::sendIq*)
(*                   (an empty id or one already in use is replaced by a    *)
(*                   fresh one, in the stanza too) -> start, StreamAckManager*)
(*                   ::send (send error -> finish).  c is the id the caller  *)
(*                   put into the IQ: "fresh", "empty", or "dup-j" = the id  *)
(*                   that request j, still outstanding, went out with        *)
(*   Recv(i, ty, f)  OutgoingIqManager::handleStanza for an element that    *)
(*                   carries the id request i went on the wire with, type   *)
(*                   ty, sender class f relative to i's addressee (the       *)
(*                   driver gives every such element a distinct marker)     *)
(*   Close(k)        closeSession -> OutgoingIqManager::onSessionClosed     *)
(*   Open(k)         openSession  -> OutgoingIqManager::onSessionOpened     *)
(*   Attempt(r)      something that happens while no session is up and ends  *)
(*                   without one: a connection attempt that fails before the *)
(*                   session is established -- "authfail" (SASL <failure/>), *)
(*                   "bindfail" (bind error), "userabort" (the application    *)
(*                   calls disconnectFromServer() during the negotiation):    *)
(*                   each goes through disconnectFromHost(), which abandons   *)
(*                   resumption, then the socket closes -> closeSession ->    *)
(*                   onSessionClosed(canResume = false); "precut" (the        *)
(*                   connection drops before authentication: resumption is    *)
(*                   still possible); and "abandon": disconnectFromServer()   *)
(*                   while no connection exists at all.                       *)
(*   Destroy         ~QXmppOutgoingClient -> resetCache, cancelAll          *)
(*                                                                         *)
(* The specification is the *intended* behaviour (property C07): a request *)
(* is cancelled exactly when the session it was sent on has ended and      *)
(* cannot be resumed (`resumable`, a fact about the server-side session:   *)
(* the stream had stream management with resumption and was cut, not       *)
(* closed), or when a session that is not a resumption of it is opened.    *)
(*                                                                         *)
(* Sender classes of a reply, relative to the addressee `to` of the request *)
(* (to = "none": no `to`, i.e. the user's own account):                     *)
(*   must  "exact" (the addressed JID; the own bare JID when to = none),    *)
(*         "absent" when to = none                                          *)
(*   may   "absent" otherwise (the user's own server speaking, RFC 6120     *)
(*         8.1.2.1: accepted by design); "ownBare"/"server" for a remote    *)
(*         addressee (the own server, explicitly); "ownFull", "ownOther",   *)
(*         "server" when to = none ("own server/account" in the statement)  *)
(*   not   everything else: stranger, bare JID of a full addressee, another *)
(*         resource of the addressee, look-alikes ("look": the addressee's   *)
(*         domain is a prefix of the sender's; "look2": the whole addressee  *)
(*         JID is a prefix of the sender's)                                  *)
(* The design accepts what the code is written to accept: exact or absent.  *)
(***************************************************************************)
EXTENDS Naturals, Sequences, FiniteSets, TLC

CONSTANTS Ids, Tos, RFroms, Types, OpenKinds, MaxHist,
          Cids,       \* subset of {"fresh", "empty", "dup"}: what the caller may put into the id of a request
          Bodies,     \* what the continuation of a request does besides recording: subset of {"none", "sendNew"}
          Attempts,   \* subset of {"authfail", "bindfail", "userabort", "precut", "abandon"}
          IdRule      \* "replace": the intended rule (and the code's); "keep": the rule left out -- only to
                      \* show that WireUnique / RightSender depend on it (IqTrackerKeep.cfg must fail)

VARIABLES up,         \* a session is established
          smOn,       \* stream management enabled on the current / last stream
          canRes,     \* the server granted resumption for it
          resumable,  \* the session that just ended may be resumed by the next Open
          dead,       \* the client object has been destroyed
          req,        \* [Ids -> [st, to, n, by, c, wire]]
          out,        \* what the last step did: [a, id, cls, passed]
          hist

mvars == <<up, smOn, canRes, resumable, dead, req, out>>
vars  == <<mvars, hist>>

\* wire: the id the stanza of the request carries on the wire, as a token: "w-i" = an id nobody else
\* uses (the caller's fresh id, or the fresh one the library substituted), "" = no id at all.
\* It is the wire id that the addressee answers, so it is the wire id a request is matched by.
None == [st |-> "None", to |-> "none", n |-> 0, by |-> "none", c |-> "", wire |-> "", b |-> "none"]

\* Continuation bodies that re-enter the API (like the bodies of Task.tla): "sendNew" = the continuation of
\* request i issues another request, Child(i), to the same addressee, the moment it runs -- whatever made
\* it run (response, error, cancellation by a session end / a new session / a failed attempt, send failure).
\* Requests "k*" are only ever issued that way.
Child(i) == IF i = "i1" THEN "k1" ELSE IF i = "i2" THEN "k2" ELSE ""
Kids == {"k1", "k2"}
\* r0 -> r1 is the effect of a step on the request table; writable: a stanza can be written (a session is
\* up or is just being opened).  The children of the requests that completed in the step are issued:
\* pending if writable, else failed at once with a send error (which would in turn run their bodies: they have none).
Spawn(r0, r1, writable) ==
    [k \in Ids |->
        IF \E i \in Ids : Child(i) = k /\ r1[i].b = "sendNew" /\ r0[i].st # "Done" /\ r1[i].st = "Done" /\ r1[k].st = "None"
        THEN LET i == CHOOSE x \in Ids : Child(x) = k IN
             IF writable THEN [None EXCEPT !.st = "Out", !.to = r1[i].to, !.c = "fresh", !.wire = "w-" \o k]
                         ELSE [None EXCEPT !.st = "Done", !.to = r1[i].to, !.n = 1, !.by = "local", !.c = "fresh", !.wire = "w-" \o k]
        ELSE r1[k]]
FreshWire(i) == "w-" \o i
CidChoices(i) == (Cids \ {"dup"}) \cup (IF "dup" \in Cids THEN {"dup-" \o j : j \in Ids \ {i}} ELSE {})
DupOf(c) == CHOOSE j \in Ids : c = "dup-" \o j
IsDup(c) == \E j \in Ids : c = "dup-" \o j
Out0 == [a |-> "Init", id |-> "", cls |-> "", passed |-> 0]

Responses == {"result", "error", "errorBare"}      \* iq types that are responses; "set" and "get" are not

(* sender class of a reply from f to a request addressed to t *)
Cls(t, f) ==
    IF f = "exact" THEN "must"
    ELSE IF f = "absent" THEN (IF t = "none" THEN "must" ELSE "may")
    ELSE IF t = "none" /\ f \in {"ownFull", "ownOther", "server"} THEN "may"
    ELSE IF t # "none" /\ f \in {"ownBare", "server"} THEN "may"
    ELSE "not"
\* combinations that denote a sender different from "exact"
ValidFrom(t, f) ==
    /\ f = "bareOf" => t = "full"
    /\ f = "otherRes" => t # "none"
    /\ f = "ownOther" => t = "none"
    /\ f = "ownBare" => t # "none"
    /\ f = "server" => t # "server"
CodeAccepts(f) == f \in {"exact", "absent"}
ByOf(ty) == IF ty = "result" THEN "result" ELSE "error"

Init ==
    /\ up = FALSE /\ smOn = FALSE /\ canRes = FALSE /\ resumable = FALSE /\ dead = FALSE
    /\ req = [i \in Ids |-> None]
    /\ out = Out0
    /\ hist = <<>>

Log(r) == hist' = Append(hist, r)

CancelAll(r) == [i \in Ids |-> IF r[i].st = "Out" THEN [r[i] EXCEPT !.st = "Done", !.n = @ + 1, !.by = "local"] ELSE r[i]]

\* Request "i2" is issued through sendGenericIq: its task is chained to the raw one with the client
\* object as context.  When the client is destroyed that context is dead, so (C13) the chained
\* continuation must not run: the task is abandoned, not completed.  Raw tasks are cancelled.
ApiOf(i) == IF i = "i2" THEN "chained" ELSE "raw"
CancelRawAbandonChained(r) ==
    [i \in Ids |-> IF r[i].st # "Out" THEN r[i]
                   ELSE IF ApiOf(i) = "raw" THEN [r[i] EXCEPT !.st = "Done", !.n = @ + 1, !.by = "local"]
                   ELSE [r[i] EXCEPT !.st = "Abandoned"]]

\* the id the stanza goes out with: an empty id or the id of an outstanding request is replaced
WireFor(i, c) ==
    IF IdRule = "replace" \/ c = "fresh" THEN FreshWire(i)
    ELSE IF c = "empty" THEN "" ELSE req[DupOf(c)].wire

Send(i, t, c, b) ==
    /\ ~dead /\ req[i].st = "None" /\ i \notin Kids
    /\ b \in Bodies /\ (b # "none" => Child(i) \in Ids)
    /\ c \in CidChoices(i)
    /\ IsDup(c) => req[DupOf(c)].st = "Out"        \* the id of a request that is still outstanding
    /\ IF up
       THEN req' = [req EXCEPT ![i] = [None EXCEPT !.st = "Out", !.to = t, !.c = c, !.wire = WireFor(i, c), !.b = b]]
       ELSE \* no session: the stanza cannot be written, the request fails at once with a send error
            req' = Spawn(req, [req EXCEPT ![i] = [None EXCEPT !.st = "Done", !.to = t, !.n = 1, !.by = "local", !.c = c, !.b = b,
                                                   !.wire = WireFor(i, c)]], FALSE)
    /\ out' = [a |-> "Send", id |-> i, cls |-> "", passed |-> 0]
    /\ Log([a |-> "Send", id |-> i, to |-> t, c |-> c, b |-> b])
    /\ UNCHANGED <<up, smOn, canRes, resumable, dead>>

\* The element carries req[i].wire and comes from f relative to req[i].to.  The tracker looks the id up:
\* it finds the outstanding request registered under that id -- request i itself as long as wire ids
\* are unique (WireUnique), which is what replacing empty / duplicate ids is for.
Recv(i, ty, f) ==
    /\ ~dead /\ up
    /\ ValidFrom(req[i].to, f)
    /\ LET found == {k \in Ids : req[k].st = "Out" /\ req[k].wire = req[i].wire /\ req[i].wire # ""}
           k     == IF i \in found THEN i ELSE CHOOSE x \in found : TRUE
           \* the sender is judged against the addressee of the request that was found
           hit   == found # {} /\ ty \in Responses
                    /\ (f = "absent" \/ (f = "exact" /\ req[k].to = req[i].to))
       IN
       /\ req' = IF hit THEN Spawn(req, [req EXCEPT ![k] = [@ EXCEPT !.st = "Done", !.n = @ + 1, !.by = ByOf(ty)]], TRUE)
                        ELSE req
       /\ out' = [a |-> "Recv", id |-> i,
                  cls |-> IF ty \in Responses THEN Cls(req[i].to, f) ELSE "not",
                  passed |-> IF hit \/ ty \notin Responses THEN 0 ELSE 1]
    /\ Log([a |-> "Recv", id |-> i, ty |-> ty, from |-> f])
    /\ UNCHANGED <<up, smOn, canRes, resumable, dead>>

Open(k) ==
    /\ ~dead /\ ~up
    /\ k = "resumed" => resumable
    /\ up' = TRUE /\ resumable' = FALSE
    /\ IF k = "resumed"
       THEN smOn' = TRUE /\ UNCHANGED <<canRes, req>>
       ELSE /\ smOn' = (k # "plain")
            /\ canRes' = (k = "smr")
            \* the requests of the old session are cancelled; what their continuations send goes out on the new one
            /\ req' = Spawn(req, CancelAll(req), TRUE)
    /\ out' = [a |-> "Open", id |-> "", cls |-> k, passed |-> 0]
    /\ Log([a |-> "Open", k |-> k, refused |-> (resumable /\ k # "resumed")])   \* refused: new session although the last one was resumable
    /\ UNCHANGED dead

Close(k) ==
    /\ ~dead /\ up
    /\ up' = FALSE
    /\ LET rs == (k = "cut") /\ smOn /\ canRes IN
       /\ resumable' = rs
       /\ canRes' = (canRes /\ k = "cut")
       /\ req' = IF rs THEN req ELSE Spawn(req, CancelAll(req), FALSE)
    /\ out' = [a |-> "Close", id |-> "", cls |-> k, passed |-> 0]
    /\ Log([a |-> "Close", k |-> k])
    /\ UNCHANGED <<smOn, dead>>

\* Once resumption of the suspended session has been given up, its requests have nothing to wait for.
Attempt(r) ==
    /\ ~dead /\ ~up
    /\ IF r = "precut"
       THEN UNCHANGED <<resumable, canRes, req>>
       ELSE resumable' = FALSE /\ canRes' = FALSE /\ req' = Spawn(req, CancelAll(req), FALSE)
    /\ out' = [a |-> "Attempt", id |-> "", cls |-> r, passed |-> 0]
    /\ Log([a |-> "Attempt", r |-> r])
    /\ UNCHANGED <<up, smOn, dead>>

Destroy ==
    /\ ~dead
    /\ dead' = TRUE /\ up' = FALSE /\ resumable' = FALSE
    /\ req' = CancelRawAbandonChained(req)
    /\ out' = [a |-> "Destroy", id |-> "", cls |-> "", passed |-> 0]
    /\ Log([a |-> "Destroy"])
    /\ UNCHANGED <<smOn, canRes>>

Next ==
    \/ \E i \in Ids : \E t \in Tos : \E c \in CidChoices(i) : \E b \in Bodies : Send(i, t, c, b)
    \/ \E i \in Ids : \E ty \in Types : \E f \in RFroms : Recv(i, ty, f)
    \/ \E k \in OpenKinds : Open(k)
    \/ \E k \in {"cut", "user"} : Close(k)
    \/ \E r \in Attempts : Attempt(r)
    \/ Destroy

Spec == Init /\ [][Next]_vars

(* --- properties (C07) ---------------------------------------------------- *)
\* over plain values, so that IqTrackerTrace evaluates the same predicates on observations
P_AtMostOnce(n) == n <= 1
\* a session that ended for good (or a destroyed client) leaves nothing pending
P_NonePending(deadOrGone, pending) == deadOrGone => pending = {}
\* what may complete a request in a step, and with what
P_Justified(a, cls, ty, by, m, gotMark, sessionUp) ==
    CASE a = "Recv"    -> cls \in {"must", "may"} /\ ty \in Responses /\ by = ByOf(ty)
                          /\ (ty = "errorBare" \/ gotMark = m \/ gotMark = 0)   \* 0: the API does not hand the payload out
      [] a = "Send"    -> ~sessionUp /\ by = "local"
      [] a \in {"Open", "Close", "Destroy", "Attempt"} -> by = "local"
      [] OTHER         -> FALSE

Pending == {i \in Ids : req[i].st = "Out"}
AtMostOnce   == \A i \in Ids : P_AtMostOnce(req[i].n)
DoneOnce     == \A i \in Ids : (req[i].st = "Done" <=> req[i].n = 1) /\ (req[i].st # "Done" => req[i].n = 0)
NonePending  == P_NonePending(dead \/ (~up /\ ~resumable), Pending)
\* requests that are outstanding at the same time went out with distinct, non-empty ids
\* ("reject empty/duplicate ids up front")
WireUnique   == \A i \in Pending : req[i].wire # "" /\ \A j \in Pending \ {i} : req[j].wire # req[i].wire
\* a stanza from any other sender (or one that is not a response) never completes or cancels anything
WrongSender  == [][out'.a = "Recv" /\ out'.cls = "not" => req' = req]_vars
\* a reply from the addressed entity completes the request there and then
RightSender  == [][out'.a = "Recv" /\ out'.cls = "must" /\ req[out'.id].st = "Out" => req'[out'.id].st = "Done"]_vars
\* an attempt that ends with resumption given up leaves nothing outstanding; one that does not, changes nothing
GivenUp      == [][out'.a = "Attempt" => IF out'.cls = "precut" THEN req' = req ELSE Pending' = {}]_vars
\* a new session that is not a resumption starts with nothing outstanding (never pending forever)
\* (what the continuations of the cancelled requests send goes out on the new session and is pending there)
FreshOpen    == [][out'.a = "Open" /\ out'.cls # "resumed" => \A i \in Pending' : req[i].st = "None"]_vars
TypeOK ==
    /\ up \in BOOLEAN /\ smOn \in BOOLEAN /\ canRes \in BOOLEAN /\ resumable \in BOOLEAN /\ dead \in BOOLEAN
    /\ \A i \in Ids : req[i].st \in {"None", "Out", "Done", "Abandoned"} /\ req[i].by \in {"none", "result", "error", "local"}
    /\ IdRule \in {"replace", "keep"}
    /\ (resumable => ~up /\ smOn /\ canRes)

Reinit ==
    /\ up' = FALSE /\ smOn' = FALSE /\ canRes' = FALSE /\ resumable' = FALSE /\ dead' = FALSE
    /\ req' = [i \in Ids |-> None]
    /\ out' = Out0 /\ hist' = <<>>

Bound == Len(hist) <= MaxHist
\* what the caller put into the id is an input, not state of the intended system (the wire id is)
View  == <<up, smOn, canRes, resumable, dead, [i \in Ids |-> [req[i] EXCEPT !.c = ""]], out>>
\* the caller's id choice is part of the state for generation: an implementation that mishandles it
\* has state the specification does not have, and only then do tours continue *after* such a send
CidKind(c) == IF IsDup(c) THEN "dup" ELSE c
\* What kinds of session this client object has already had.  The intended system does not depend on
\* it, an implementation may (flags that survive from one connection to the next: "a resumption has
\* succeeded before", "a session without stream management has been had", "a resumption was refused",
\* "the user closed a session").  Part of the state for generation only (IqTrackerGenTourSess.cfg), so that
\* the tour takes every transition again after each such history.
SessEver ==
    {x \in {"resumed", "plain", "refused", "user"} :
        \E p \in 1..Len(hist) :
            \/ x = "resumed" /\ hist[p].a = "Open" /\ hist[p].k = "resumed"
            \/ x = "plain"   /\ hist[p].a = "Open" /\ hist[p].k = "plain"
            \/ x = "refused" /\ hist[p].a = "Open" /\ hist[p].refused
            \/ x = "user"    /\ hist[p].a = "Close" /\ hist[p].k = "user"}
GenViewSess == <<up, smOn, canRes, resumable, dead,
                 [i \in Ids |-> [st |-> req[i].st, by |-> req[i].by, b |-> IF req[i].st = "Out" THEN req[i].b ELSE ""]], SessEver>>
GenViewNoCid == <<up, smOn, canRes, resumable, dead, [i \in Ids |-> [st |-> req[i].st, to |-> req[i].to, by |-> req[i].by]]>>
GenView == <<up, smOn, canRes, resumable, dead,
             [i \in Ids |-> [st |-> req[i].st, to |-> req[i].to, by |-> req[i].by,
                             c |-> IF req[i].st = "Out" THEN CidKind(req[i].c) ELSE "",
                             b |-> IF req[i].st = "Out" THEN req[i].b ELSE ""]]>>
=============================================================================
