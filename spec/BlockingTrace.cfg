SPECIFICATION TSpec
CONSTANTS
  Jids = {"j1", "j2", "j3"}
  InitSrv = {}
  Kinds = {"Fetch", "Block", "Unblock", "Deliver", "Srv", "Other", "Foreign", "PushGet", "ForeignRes", "Disconnect", "Connect"}
  Retries = {FALSE, TRUE}
  CmdSets = {}
  OthSets = {}
  Froms = {"none", "bare"}
  MaxT = 99
  MaxO = 99
  MaxD = 99
  MaxQ = 99
  ProbeMax = 0
INVARIANT Done
CHECK_DEADLOCK FALSE
