---------------------------- MODULE FramingTrace ----------------------------
(***************************************************************************)
(* Trace validation for Framing.  The trace (ndjson, written by            *)
(* `qxv framing`) is a sequence of executions of the real                  *)
(* QXmpp::Private::XmppSocket, fed through a loopback TCP connection:      *)
(*                                                                         *)
(*  {"e":"Stream","sid":"c2","s":{"n":412,"elems":[{"k":"hdr","e":1,       *)
(*        "to":120},...],"chars":[{"from":130,"to":131},...],"sync":[]}}   *)
(*      a corpus stream, atoms = bytes (description computed from the      *)
(*      corpus table by lib/props/C03.py; an INPUT of the executions)      *)
(*  {"e":"Reset","case":"c2/ref","sid":"c2","ref":true,"src":"ref",...}    *)
(*      a new connection (new socket, new XmppSocket); ref = this is the   *)
(*      one-read execution whose deliveries define Reference for the sid   *)
(*  {"e":"Read","n":17,"dl":[{"k":"open","d":"3fa9.."},...],               *)
(*        "o":{"nd":1,"nulls":0,"rr":1}}                                   *)
(*      the peer wrote the next n bytes and the socket consumed them;      *)
(*      dl = what the socket's signals delivered meanwhile (k: open |      *)
(*      stanza | close | null, d: digest of the canonical XML), nd = non-  *)
(*      null deliveries so far, rr = readyRead invocations of this step    *)
(*  {"e":"End","o":{"pos":412,"nd":7}}                                      *)
(*      everything written and consumed, socket quiescent                  *)
(*                                                                         *)
(* Three layers per line:                                                  *)
(*  - model:   Framing!Read(n) on the logged stream description;           *)
(*  - monitor: `mon`, built only from logged inputs and deliveries; the    *)
(*             C03 predicates P_Prefix / P_Complete / P_Grow of Framing    *)
(*             are evaluated on it against the logged one-read reference   *)
(*             delivery of the same stream; null elements (whitespace      *)
(*             keep-alives) are projected away and counted;                *)
(*  - compare: kinds of the model's deliveries vs the logged ones; a       *)
(*             mismatch only marks the execution as diverged.              *)
(***************************************************************************)
EXTENDS Framing, Integers, Json, CSV, IOUtils

TraceLog == ndJsonDeserialize(IOEnv.QXV_TRACE)

VARIABLES l,        \* next line
          cid,      \* current execution id
          cur,      \* current corpus stream: [sid, at (line of its Stream record), ref (deliveries of its
                    \* one-read run), has (reference recorded), nv (violating executions so far)]
          mon,      \* monitor record
          viol,     \* property violations found (first of an execution; at most MaxViolPerStream per stream)
          nviol, vflag,
          ndiv, divs, dflag,
          ncases, nnull, ninexact, nrefs, norphan

cvars == <<ndiv, divs, dflag>>
tvars == <<vars, l, cid, cur, mon, viol, nviol, vflag, cvars, ncases, nnull, ninexact, nrefs, norphan>>

MaxViolPerStream == 40

NoStream == [n |-> 0, elems |-> <<>>, chars |-> <<>>, sync |-> <<>>, bnd |-> <<>>, held |-> <<>>, cw |-> <<>>]
Cur0 == [sid |-> "", at |-> 0, ref |-> <<>>, has |-> FALSE, nv |-> 0]
Mon0 == [sid |-> "", isRef |-> FALSE, known |-> FALSE, d |-> <<>>, pos |-> 0]

TInit ==
    /\ sid = ""
    /\ pos = 0 /\ carry = 0 /\ buf = [lo |-> 0, hi |-> 0] /\ hdr = 0
    /\ garbled = {} /\ delivered = <<>> /\ hist = <<>>
    /\ l = 1 /\ cid = "" /\ cur = Cur0 /\ mon = Mon0 /\ viol = <<>> /\ nviol = 0 /\ vflag = FALSE
    /\ ndiv = 0 /\ divs = <<>> /\ dflag = FALSE
    /\ ncases = 0 /\ nnull = 0 /\ ninexact = 0 /\ nrefs = 0 /\ norphan = 0

\* the stream description is read from the log where it was defined (kept out of the state)
CurStream == IF cur.at = 0 THEN NoStream ELSE TraceLog[cur.at].s
\* ... the one the model runs on in the current execution
MS == IF mon.known THEN CurStream ELSE NoStream

\* observed deliveries of one line, null elements projected away; content = kind + digest
Real(dl)  == SelectSeq(dl, LAMBDA x : x.k # "null")
Obs(dl)   == [i \in 1..Len(Real(dl)) |-> Real(dl)[i].k \o ":" \o Real(dl)[i].d]
Kinds(dl) == [i \in 1..Len(Real(dl)) |-> Real(dl)[i].k]
Nulls(dl) == Len(dl) - Len(Real(dl))

\* first index at which a is not a prefix of b (0 = is a prefix)
FirstBad(a, b) ==
    IF IsPrefix(a, b) THEN 0
    ELSE LET bad == {i \in 1..Len(a) : i > Len(b) \/ a[i] # b[i]} IN CHOOSE i \in bad : \A j \in bad : i <= j

StreamStep(ev) ==
    /\ cur' = [Cur0 EXCEPT !.sid = ev.sid, !.at = l]
    /\ UNCHANGED <<vars, cid, mon, viol, nviol, vflag, cvars, ncases, nnull, ninexact, nrefs, norphan>>

ResetStep(ev) ==
    LET known == ev.sid = cur.sid /\ cur.at # 0 IN
    /\ Reinit(ev.sid)
    /\ cid' = ev.case /\ dflag' = FALSE /\ vflag' = FALSE /\ ncases' = ncases + 1
    /\ mon' = [Mon0 EXCEPT !.sid = ev.sid, !.isRef = ev.ref, !.known = known]
    /\ norphan' = IF known THEN norphan ELSE norphan + 1
    /\ UNCHANGED <<cur, viol, nviol, ndiv, divs, nnull, ninexact, nrefs>>

Diverge(d, what) ==
    /\ dflag' = (dflag \/ d)
    /\ ndiv' = IF d /\ ~dflag THEN ndiv + 1 ELSE ndiv
    /\ divs' = IF d /\ ~dflag /\ Len(divs) < 10 THEN Append(divs, what) ELSE divs

\* record the first violation of an execution
Violate(bad, rec) ==
    /\ vflag' = (vflag \/ bad)
    /\ nviol' = IF bad /\ ~vflag THEN nviol + 1 ELSE nviol
    /\ viol' = IF bad /\ ~vflag /\ cur.nv < MaxViolPerStream THEN Append(viol, rec) ELSE viol
    /\ cur' = IF bad /\ ~vflag THEN [cur EXCEPT !.nv = cur.nv + 1] ELSE cur

ReadStep(ev) ==
    /\ IF CanRead(MS, ev.n) THEN Read(MS, ev.n) ELSE UNCHANGED vars
    /\ LET nd  == mon.d \o Obs(ev.dl)
           chk == mon.known /\ ~mon.isRef /\ cur.has
           p   == IF ~P_Grow(mon.d, nd) THEN "Grow"
                  ELSE IF chk /\ ~P_Prefix(nd, cur.ref) THEN "Prefix" ELSE ""
       IN /\ mon' = [mon EXCEPT !.d = nd, !.pos = mon.pos + ev.n]
          /\ Violate(p # "", [case |-> cid, line |-> l, prop |-> p, at |-> FirstBad(nd, cur.ref),
                              pos |-> mon.pos + ev.n, nd |-> Len(nd)])
          \* compare: what the model delivered in this step vs what the code delivered
          /\ LET mk == [i \in 1..(Len(delivered') - Len(delivered)) |-> delivered'[Len(delivered) + i].k]
             IN Diverge(mk # Kinds(ev.dl) \/ ~CanRead(MS, ev.n),
                        [case |-> cid, line |-> l, model |-> mk, impl |-> Kinds(ev.dl)])
    /\ nnull' = nnull + Nulls(ev.dl)
    /\ ninexact' = IF ev.o.rr # 1 THEN ninexact + 1 ELSE ninexact
    /\ UNCHANGED <<cid, ncases, nrefs, norphan>>

EndStep(ev) ==
    /\ UNCHANGED <<vars, mon>>
    /\ IF mon.isRef
       THEN \* the one-read run defines Reference for this stream
            /\ cur' = IF mon.known THEN [cur EXCEPT !.ref = mon.d, !.has = TRUE] ELSE cur
            /\ nrefs' = nrefs + 1
            /\ UNCHANGED <<viol, nviol, vflag>>
            \* compare: the one-read run against the model's Reference (kinds)
            /\ LET rk == [i \in 1..Len(Reference(MS)) |-> Reference(MS)[i].k]
                   ik == [i \in 1..Len(delivered) |-> delivered[i].k]
               IN Diverge(Len(mon.d) # Len(rk) \/ ik # rk \/ pos # ev.o.pos,
                          [case |-> cid, line |-> l, model |-> rk, impl |-> <<"delivered", Len(mon.d), "pos", ev.o.pos>>])
       ELSE /\ LET chk == mon.known /\ cur.has
                   bad == chk /\ ~P_Complete(ev.o.pos, CurStream.n, mon.d, cur.ref)
               IN Violate(bad, [case |-> cid, line |-> l, prop |-> "Complete", at |-> Len(mon.d) + 1,
                                pos |-> ev.o.pos, nd |-> Len(mon.d)])
            /\ Diverge(pos # ev.o.pos, [case |-> cid, line |-> l, model |-> <<"pos", pos>>, impl |-> <<"pos", ev.o.pos>>])
            /\ UNCHANGED nrefs
    /\ UNCHANGED <<cid, ncases, nnull, ninexact, norphan>>

TNext ==
    /\ l <= Len(TraceLog)
    /\ l' = l + 1
    /\ LET ev == TraceLog[l] IN
        CASE ev.e = "Stream" -> StreamStep(ev)
          [] ev.e = "Reset"  -> ResetStep(ev)
          [] ev.e = "Read"   -> ReadStep(ev)
          [] ev.e = "End"    -> EndStep(ev)
          [] OTHER           -> UNCHANGED <<vars, cid, cur, mon, viol, nviol, vflag, cvars, ncases, nnull, ninexact, nrefs, norphan>>

TSpec == TInit /\ [][TNext]_tvars

Summary == [cases |-> ncases, lines |-> l - 1, viol |-> viol, nviol |-> nviol, ndiv |-> ndiv, divs |-> divs,
            nulls |-> nnull, inexact |-> ninexact, refs |-> nrefs, orphans |-> norphan]
Done == l <= Len(TraceLog) \/ CSVWrite("%1$s", <<ToJson(Summary)>>, IOEnv.QXV_SUMMARY)
=============================================================================
