----------------------------- MODULE ServerGen -----------------------------
(* Behaviour export for Server (see lib/vf.py: tlc_gen).  With VIEW View     *)
(* (ServerGenTour*.cfg) hist is the BFS-shortest path to the source state    *)
(* plus the step: a transition tour of the bounded model.  Without a VIEW    *)
(* (ServerGenAll*.cfg) every path up to MaxHist is a distinct state.         *)
EXTENDS Server, Json, CSV, IOUtils

EmitBehaviour ==
    CSVWrite("%1$s", <<ToJson([steps |-> hist'])>>, IOEnv.QXV_GEN)

\* quick-tier bound: no second authentication on a connection that is already authenticated
\* (accepted by the server; explored by the thorough tour and the random walks)
NoReauth == c.authed # "" => hist'[Len(hist')].a # "Auth"
EmitNoReauth == NoReauth /\ EmitBehaviour

\* credential tour (ServerGenTourC.cfg): one SASL exchange per connection -- every credential class
\* against every state of that one exchange
OneAuth == hist'[Len(hist')].a = "Auth" => \A i \in 1..Len(hist) : hist[i].a # "Auth"
EmitOneAuth == OneAuth /\ EmitBehaviour

\* retry sequences (ServerGenAllRetry*.cfg): all orders of SASL elements and checker replies on one
\* stream that is opened once -- several attempts, responses without / after / between exchanges
SaslOnly == LET a == hist'[Len(hist')].a IN
              \/ a \in {"Auth", "Response", "Reply"}
              \/ a = "Open" /\ hist = <<>> /\ hist'[1].dom = "ok"
EmitSaslOnly == SaslOnly /\ EmitBehaviour
=============================================================================
