----------------------------- MODULE TaskTrace -----------------------------
(***************************************************************************)
(* Trace validation for Task.  The trace (ndjson, written by `qxv task`)   *)
(* holds, per operation, the operation with its arguments and what the real *)
(* QXmppPromise/QXmppTask objects reported afterwards:                      *)
(*   {"e":"Then","b":"none","o":{"runs":0,"got":0,"fin":0,"has":0,"lv":0,   *)
(*                              "lc":1,"p":1,"t":1,"refin":0,"ctx":"alive"}}*)
(* o.p / o.t / o.ctx are the harness's own ground truth (how many handles   *)
(* it holds, whether its context QObject is alive); runs/got/fin/has/lv/lc  *)
(* are observations of the implementation.                                  *)
(*                                                                          *)
(* Three layers per line:                                                   *)
(*  - model:   Task's own action for the logged operation (model variables  *)
(*             follow the specification, not the implementation);           *)
(*  - monitor: `mon`, built only from the logged operations and             *)
(*             observations; the C13 predicates of Task are evaluated on it;*)
(*  - compare: the model's projection vs the logged observation; a mismatch *)
(*             marks the execution as diverged (conformance warning).       *)
(***************************************************************************)
EXTENDS Task, Integers, Json, CSV, IOUtils, FiniteSets

TraceLog == ndJsonDeserialize(IOEnv.QXV_TRACE)

VARIABLES l,        \* next line
          cid,      \* current execution id
          mon,      \* monitor record (observed + input-derived ghosts)
          viol,     \* set of property violations found
          ndiv, divs, dflag,  \* diverged executions: count, first few, current flag
          ncases

tvars == <<vars, l, cid, mon, viol, ndiv, divs, dflag, ncases>>

Mon0 == [runs |-> 0, got |-> 0, refs |-> 1, lv |-> 0, lc |-> 0,
         thenDone |-> FALSE, finDone |-> FALSE, finVal |-> 0, due |-> FALSE, ctx |-> "alive", selfReg |-> FALSE, r2 |-> 0]

TInit ==
    /\ Init /\ kind = "void"
    /\ l = 1 /\ cid = "" /\ mon = Mon0 /\ viol = {} /\ ndiv = 0 /\ divs = <<>> /\ dflag = FALSE /\ ncases = 0

(* model projection, in the shape of the logged observation *)
Proj == [runs |-> runs, got |-> got,
         fin |-> IF Refs = 0 THEN -1 ELSE B2N(fin),
         has |-> IF Refs = 0 THEN -1 ELSE B2N(stored),
         lv |-> B2N(valLive), lc |-> B2N(capLive), p |-> pRefs, t |-> tRefs, ctx |-> ctx,
         refin |-> 0]    \* the body's guarded second completion never goes through

ModelAct(ev) ==
    CASE ev.e = "CopyPromise" -> CopyPromise
      [] ev.e = "MakeTask"    -> MakeTask
      [] ev.e = "DropPromise" -> DropPromise
      [] ev.e = "DropTask"    -> DropTask
      [] ev.e = "DestroyCtx"  -> DestroyCtx
      [] ev.e = "DropAll"     -> DropAll
      [] ev.e = "Then"        -> Then(ev.b, ev.sc)
      [] ev.e = "ThenLate"    -> ThenLate(ev.sc)
      [] ev.e = "ThenReplace" -> ThenReplace(ev.sc, ev.old)
      [] ev.e = "Finish"      -> Finish(ev.v, ev.b)
      [] OTHER                -> FALSE

(* monitor: `due` is decided by the operations and the harness's context    *)
(* object only -- the later of then()/finish() happened while it was alive. *)
MonNext(m, ev) ==
    LET o == ev.o
        isThen == ev.e = "Then"
        isFin  == ev.e = "Finish"
        td == m.thenDone \/ isThen
        fd == m.finDone \/ isFin
        later == (isThen /\ m.finDone) \/ (isFin /\ m.thenDone)
    IN [runs |-> o.runs, got |-> o.got, refs |-> o.p + o.t, lv |-> o.lv, lc |-> o.lc,
        thenDone |-> td, finDone |-> fd,
        finVal |-> IF isFin THEN ev.v ELSE m.finVal,
        due |-> m.due \/ (later /\ m.ctx = "alive"),
        ctx |-> o.ctx,
        \* a self-capturing continuation was registered (then() before finish())
        selfReg |-> IF ev.e = "ThenReplace" THEN ev.sc      \* the replaced closure is gone
                    ELSE m.selfReg \/ (isThen /\ ev.sc /\ ~m.finDone),
        r2 |-> ev.r2]          \* runs of continuations attached when no value was left

Failed(m, n) ==
    {p \in {"AtMostOnce", "ValueSeen", "ExactlyOnce", "Released", "NoRunAfterDeath", "NoValueNoRun"} :
        CASE p = "AtMostOnce"  -> ~P_AtMostOnce(n.runs)
          [] p = "ValueSeen"   -> ~P_Value(n.runs, n.got, n.finVal)
          [] p = "ExactlyOnce" -> ~P_ExactlyOnce(n.runs, n.due)
          [] p = "Released"    -> ~P_Released(n.refs, n.selfReg /\ n.runs = 0, n.lv, n.lc)
          [] p = "NoValueNoRun" -> ~P_NoValueNoRun(kind, n.r2)
          [] p = "NoRunAfterDeath" -> m.ctx = "dead" /\ n.runs # m.runs}

ResetStep(ev) ==
    /\ Reinit(ev.kind)
    /\ cid' = ev.case /\ mon' = Mon0 /\ dflag' = FALSE /\ ncases' = ncases + 1
    /\ UNCHANGED <<viol, ndiv, divs>>

OpStep(ev) ==
    /\ \/ ModelAct(ev)
       \/ (~ENABLED ModelAct(ev)) /\ UNCHANGED vars
    /\ mon' = MonNext(mon, ev)
    \* (bounded: a broken implementation fails in thousands of executions; the first ones identify it)
    /\ viol' = IF Cardinality(viol) >= 200 THEN viol
               ELSE viol \cup {[case |-> cid, line |-> l, prop |-> p, e |-> ev.e] : p \in Failed(mon, mon')}
    /\ LET d == Proj' # ev.o IN
        /\ dflag' = (dflag \/ d)
        /\ ndiv' = IF d /\ ~dflag THEN ndiv + 1 ELSE ndiv
        /\ divs' = IF d /\ ~dflag /\ Len(divs) < 10
                   THEN Append(divs, [case |-> cid, line |-> l, model |-> Proj', impl |-> ev.o]) ELSE divs
    /\ UNCHANGED <<cid, ncases>>

TNext ==
    /\ l <= Len(TraceLog)
    /\ l' = l + 1
    /\ LET ev == TraceLog[l] IN
        IF ev.e = "Reset" THEN ResetStep(ev) ELSE OpStep(ev)

TSpec == TInit /\ [][TNext]_tvars

Summary == [cases |-> ncases, lines |-> l - 1, viol |-> viol, ndiv |-> ndiv, divs |-> divs]
Done == l <= Len(TraceLog) \/ CSVWrite("%1$s", <<ToJson(Summary)>>, IOEnv.QXV_SUMMARY)
=============================================================================
