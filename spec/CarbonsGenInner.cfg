SPECIFICATION Spec
CONSTANTS
  Classes = {"OwnBare", "OwnFullOther", "Contact", "Empty"}
  Wrappers = {"sent", "received", "sentBody", "both", "nestedSent", "privSent"}
  Inners = {"private", "noCopy", "delay", "headline", "groupchat", "fwdInside"}
  Gens = {"v1", "v2"}
  JidCfgs = {"plain", "mixed"}
  Estabs = {"configured"}
  Hows = {}
  MaxHist = 99
VIEW TourView
ACTION_CONSTRAINT EmitBehaviour
CHECK_DEADLOCK FALSE
