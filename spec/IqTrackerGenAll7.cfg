SPECIFICATION Spec
CONSTANTS
  Ids = {"i1"}
  Tos = {"server"}
  RFroms = {"exact", "stranger"}
  Types = {"result"}
  OpenKinds = {"plain", "smr", "resumed"}
  Cids = {"fresh", "empty", "dup"}
  Bodies = {"none"}
  Attempts = {}
  IdRule = "replace"
  MaxHist = 7
CONSTRAINT Bound
ACTION_CONSTRAINT EmitBehaviour
CHECK_DEADLOCK FALSE
