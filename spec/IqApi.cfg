SPECIFICATION Spec
CONSTANTS
  Apis <- McApis
  StrangerPayloads = {"empty", "error", "foreign", "fin"}
  Payloads = {"empty", "error", "foreign", "fin"}
  MaxMsgs = 2
  MaxPend = 2
  MaxHist = 99
INVARIANTS TypeOK AtMostOnce Settled
PROPERTIES Stranger
VIEW View
CHECK_DEADLOCK FALSE
