--------------------------------- MODULE S2s ---------------------------------
(***************************************************************************)
(* Extension `s2s`: server-to-server streams and Server Dialback (XEP-0220) *)
(* in the server half of qxmpp:                                             *)
(*   src/server/QXmppIncomingServer.cpp   streams other servers open to us   *)
(*   src/server/QXmppOutgoingServer.cpp   streams we open (to deliver, or    *)
(*                                        only to have a key verified)       *)
(*   src/server/QXmppDialback.cpp         <db:result/>, <db:verify/>         *)
(*   src/server/QXmppServer.cpp           routeData (lookup / creation of    *)
(*        the outgoing stream, queueData), _q_dialbackRequestReceived (we    *)
(*        are the authoritative server), _q_outgoingServerDisconnected,      *)
(*        _q_serverConnection/_q_serverDisconnected, handleElement           *)
(*                                                                         *)
(* Domains: "L" the local server (the code under specification), "R" an     *)
(* honest remote domain whose server answers verification requests          *)
(* truthfully, "A" the attacker's domain whose server answers whatever it   *)
(* likes.  Anybody (R itself, the attacker) may connect to L and claim any  *)
(* domain; what a claimant cannot do is make R's server confirm a key R did *)
(* not generate for that stream: the claim's key is "good" only if it is    *)
(* R's own key for this very stream (a wrong key, a key replayed from       *)
(* another stream id, a key of another domain pair are all "bad").          *)
(*                                                                         *)
(* The specification is event driven (shape of spec/Muc.tla): `Events` is   *)
(* the alphabet (one event per element a remote party writes, per socket    *)
(* event, per API call), `Enabled` the assumption about the environment,    *)
(* `React(w, e)` the reaction of L as a pure function -> [w, o]: the world  *)
(* afterwards and what L wrote / accepted during the step.  S2sTrace        *)
(* applies the same function to the logged events to obtain the reference   *)
(* the implementation is compared with.                                     *)
(*                                                                         *)
(* World record w                                                           *)
(*   ins[i]  the i-th remote party's stream to L (QXmppIncomingServer):     *)
(*       st    "none" | "open" | "closed"                                   *)
(*       auth  d->authenticated: domains validated on this stream           *)
(*       zv    verification streams of it that never got a connection       *)
(*       good  ghost: domains claimed on it with the claimant's good key    *)
(*   oc      the connections L made, in creation order (QXmppOutgoingServer)*)
(*       dom   remoteDomain()           role  "orig" (created by routeData, *)
(*             carries our key and the queue) | "verify" (child of ins[own],*)
(*             asks dom's server about `key`)                               *)
(*       ph    "tcp" (our header written) -> "asked" (peer's header and     *)
(*             features seen, our <db:result/> / <db:verify/> written)      *)
(*       rdy   d->ready: a <db:result type='valid'/> was received           *)
(*       open  the TCP connection is up     alive  the object exists        *)
(*       q     d->dataQueue (numbers of the queued messages)                *)
(*   lis[d]  the server of remote domain d accepts connections              *)
(*   dst     destination domain of message n (ghost), wr: <<k, n>> written  *)
(*                                                                         *)
(* React is the INTENDED reaction (XEP-0220, RFC 6120).  Where qxmpp departs*)
(* the text says so and `Dev` (a set of deviation names) switches the       *)
(* reaction to what the code does (S2sAsCode.cfg; docs/ext-s2s.md):         *)
(*   [D1] a whitespace keepalive (RFC 6120 4.6.1) is not a stanza from an   *)
(*        unverified domain: it does not close the stream                   *)
(*   [D2] a <db:verify/> request is always answered; `invalid` if we have   *)
(*        no stream to that domain (XEP-0220 2.2, authoritative server)     *)
(*   [D3] the key we hand out is valid for one stream id only: a request    *)
(*        with another id is answered `invalid` (XEP-0220 / XEP-0185)       *)
(*   [D4] only a <db:result type='valid'/> whose `from` is the domain we    *)
(*        asked validates the outgoing stream (XEP-0220 2.1: a result is    *)
(*        about one pair of domains)                                        *)
(* Everything else follows the code, including what the RFCs would want     *)
(* differently (listed in docs/ext-s2s.md: the queue of a stream that fails *)
(* is dropped without a bounce, a verification stream that fails leaves the *)
(* claim unanswered, an unverified stanza closes the stream without a       *)
(* stream error).                                                          *)
(***************************************************************************)
EXTENDS Naturals, Sequences, FiniteSets, TLC

CONSTANTS Doms,       \* remote domains: {"R", "A"}
          NI,         \* remote parties that may connect to L
          MaxOC,      \* connections L may make in one behaviour
          MaxMsg,     \* messages the local users send
          Kinds,      \* event kinds switched on
          Shapes,     \* shapes of <db:result/> claims: "ok","typed","wrongto","nokey"
          FromDoms,   \* from-domains of stanzas on incoming streams: subset of {"R","A","L","none"}
          Tos,        \* `to` of dialback answers written by remote servers: subset of {"L","X"}
          Dev,        \* deviations of the code switched on: subset of {"D1","D2","D3","D4"}
          MaxHist

VARIABLES w, out, hist
vars == <<w, out, hist>>

Range(s) == {s[i] : i \in DOMAIN s}
Str(n) == ToString(n)

(* ------------------------------------------------------------------ records L writes *)
\* one element written by L, as the harness logs it: [t, a, b, c]
El(t, a, b, c) == [t |-> t, a |-> a, b |-> b, c |-> c]
Hdr == El("hdr", "", "", "")                            \* to a connecting party: our stream header
Feat == El("feat", "", "", "")
EndEl == El("end", "", "", "")                          \* </stream:stream>
ResIn(ty, d) == El("res", ty, d, "")                    \* <db:result from=L to=d type=ty/> on an incoming stream
VerIn(ty, d) == El("ver", ty, "same", d)                \* <db:verify from=L to=d id=(the request's) type=ty/>
HdrOut(d) == El("hdr", d, "", "")                       \* our header on a connection we made: from=L to=d
ResOut(d) == El("res", d, "key", "")                    \* <db:result from=L to=d>(non-empty key)</db:result>
VerOut(i, d, key) == El("ver", "s" \o Str(i), d, key)   \* <db:verify from=L to=d id=(stream id of ins[i])>key</>
MsgOut(n) == El("msg", "m" \o Str(n), "", "")           \* the n-th message of the local users

(* ------------------------------------------------------------------ world *)
In0 == [st |-> "none", auth |-> {}, zv |-> 0, good |-> {}]
W0 == [ins |-> [i \in 1..NI |-> In0], oc |-> <<>>, lis |-> [d \in Doms |-> TRUE], dst |-> <<>>, wr |-> <<>>]

Conn(d, role, own, key, q) == [dom |-> d, role |-> role, own |-> own, ph |-> "tcp", rdy |-> FALSE, open |-> TRUE, alive |-> TRUE, key |-> key, q |-> q]

Ks(x) == DOMAIN x.oc
LiveOrig(x, d) == {k \in Ks(x) : x.oc[k].role = "orig" /\ x.oc[k].dom = d /\ x.oc[k].alive}
\* connections to d on which we presented a key (the harness knows the key and the stream id of the latest)
Keyed(x, d) == {k \in Ks(x) : x.oc[k].role = "orig" /\ x.oc[k].dom = d /\ x.oc[k].ph # "tcp"}
Max(S) == CHOOSE m \in S : \A n \in S : n <= m

(* what L wrote during a step: per incoming stream, per connection it made, what it accepted *)
NoOut(x) == [ins |-> [i \in 1..NI |-> <<>>], oc |-> [k \in Ks(x) |-> <<>>], acc |-> <<>>, ret |-> "-"]
Res(x, o) == [w |-> x, o |-> o]
Quiet(x) == Res(x, NoOut(x))

\* the incoming stream i goes away (closed by either side): its verification streams die with it
CloseIn(x, i) ==
    [x EXCEPT !.ins[i].st = "closed", !.ins[i].zv = 0,
              !.oc = [k \in Ks(x) |-> IF x.oc[k].role = "verify" /\ x.oc[k].own = i /\ x.oc[k].alive
                                      THEN [x.oc[k] EXCEPT !.alive = FALSE, !.open = FALSE] ELSE x.oc[k]]]

(* ------------------------------------------------------------------ alphabet *)
EvIn ==  [a : {"IOpen"}, i : 1..NI]
    \cup [a : {"IResult"}, i : 1..NI, d : Doms, key : {"good", "bad"}, shape : Shapes]
    \cup [a : {"IVerifyReq"}, i : 1..NI, d : Doms, idk : {"right", "other"}, key : {"good", "bad"}]
    \cup [a : {"IStanza"}, i : 1..NI, fd : FromDoms, n : {1}]
    \cup [a : {"IWs"}, i : 1..NI]
    \cup [a : {"IClose"}, i : 1..NI, how : {"end", "cut"}]
EvOut == [a : {"OHeader", "OStanza", "OClose"}, k : 1..MaxOC]
    \cup [a : {"OVerifyAns"}, k : 1..MaxOC, from : Doms, idk : {"right", "other"}, ty : {"valid", "invalid"}, to : Tos]
    \cup [a : {"OResult"}, k : 1..MaxOC, ty : {"valid", "invalid"}, from : Doms, to : Tos]
EvLoc == [a : {"Send"}, d : Doms, n : 1..MaxMsg]
    \cup [a : {"Listen"}, d : Doms, up : BOOLEAN]
Events == {e \in EvIn \cup EvOut \cup EvLoc : e.a \in Kinds}

(* -------------------------------------------- reaction of L to one event *)
\* QXmppIncomingServer::handleStanza: an element whose from-domain is not validated on this stream
Unverified(x, i) == Res(CloseIn(x, i), [NoOut(x) EXCEPT !.ins[i] = <<EndEl>>])

ReactIn(x, e) ==
    LET i == e.i
        s == x.ins[i]
    IN
    IF e.a = "IOpen" THEN
        IF s.st = "none" THEN Res([x EXCEPT !.ins[i].st = "open"], [NoOut(x) EXCEPT !.ins[i] = <<Hdr, Feat>>]) ELSE Quiet(x)
    ELSE IF s.st # "open" THEN Quiet(x)
    ELSE
    CASE e.a = "IResult" ->
            \* only <db:result from=d to=L>key</db:result> without a type is a claim
            IF e.shape # "ok" THEN Quiet(x)
            ELSE LET x1 == [x EXCEPT !.ins[i].good = IF e.key = "good" THEN @ \cup {e.d} ELSE @] IN
                 IF x.lis[e.d]
                 THEN LET x2 == [x1 EXCEPT !.oc = Append(@, Conn(e.d, "verify", i, e.key, <<>>))] IN
                      Res(x2, [NoOut(x2) EXCEPT !.oc[Len(x2.oc)] = <<HdrOut(e.d)>>])
                 ELSE \* the authoritative server cannot be reached: the claim stays unanswered (as the code)
                      Res([x1 EXCEPT !.ins[i].zv = @ + 1], NoOut(x))
      [] e.a = "IVerifyReq" ->
            \* we are the authoritative server for the key of our stream to e.d
            LET ks == Keyed(x, e.d)
                g == IF ks = {} THEN 0 ELSE Max(ks)
                live == LiveOrig(x, e.d) # {}
                ok == /\ g # 0 /\ x.oc[g].alive /\ e.key = "good"
                      /\ e.idk = "right" \/ "D3" \in Dev                          \* [D3]
            IN IF ~live /\ "D2" \in Dev THEN Quiet(x)                              \* [D2]
               ELSE Res(x, [NoOut(x) EXCEPT !.ins[i] = <<VerIn(IF ok THEN "valid" ELSE "invalid", e.d)>>])
      [] e.a = "IStanza" ->
            IF e.fd \in s.auth THEN Res(x, [NoOut(x) EXCEPT !.acc = <<e.fd \o ":s" \o Str(e.n)>>])
            ELSE Unverified(x, i)
      [] e.a = "IWs" -> IF "D1" \in Dev THEN Unverified(x, i) ELSE Quiet(x)         \* [D1]
      [] e.a = "IClose" ->
            Res(CloseIn(x, i), IF e.how = "end" THEN [NoOut(x) EXCEPT !.ins[i] = <<EndEl>>] ELSE NoOut(x))
      [] OTHER -> Quiet(x)

ReactOut(x, e) ==
    IF e.k \notin Ks(x) \/ ~x.oc[e.k].open THEN Quiet(x)
    ELSE
    LET k == e.k
        c == x.oc[k]
    IN
    CASE e.a = "OHeader" ->
            \* header + features (no TLS offered): QXmppOutgoingServer::sendDialback
            Res([x EXCEPT !.oc[k].ph = "asked"],
                [NoOut(x) EXCEPT !.oc[k] = <<IF c.role = "orig" THEN ResOut(c.dom) ELSE VerOut(c.own, c.dom, c.key)>>])
      [] e.a = "OVerifyAns" ->
            \* QXmppIncomingServer::slotDialbackResponseReceived
            IF e.to # "L" \/ c.role # "verify" \/ c.ph = "tcp" \/ e.idk # "right" \/ e.from # c.dom THEN Quiet(x)
            ELSE IF e.ty = "valid"
            THEN Res([x EXCEPT !.ins[c.own].auth = @ \cup {c.dom}, !.oc[k].open = FALSE, !.oc[k].alive = FALSE],
                     [NoOut(x) EXCEPT !.ins[c.own] = <<ResIn("valid", c.dom)>>, !.oc[k] = <<EndEl>>])
            ELSE Res(CloseIn(x, c.own),
                     [NoOut(x) EXCEPT !.ins[c.own] = <<ResIn(e.ty, c.dom), EndEl>>, !.oc[k] = <<EndEl>>])
      [] e.a = "OResult" ->
            IF c.ph = "tcp" \/ e.to # "L" \/ e.ty # "valid" \/ (e.from # c.dom /\ "D4" \notin Dev) THEN Quiet(x)     \* [D4]
            ELSE Res([x EXCEPT !.oc[k].rdy = TRUE, !.oc[k].q = <<>>,
                               !.wr = @ \o [j \in DOMAIN c.q |-> <<k, c.q[j]>>]],
                     [NoOut(x) EXCEPT !.oc[k] = [j \in DOMAIN c.q |-> MsgOut(c.q[j])]])
      [] e.a = "OClose" ->
            \* the remote server closes: an originating stream is forgotten together with its queue
            \* (_q_outgoingServerDisconnected); nobody listens to a verification stream's disconnected()
            Res([x EXCEPT !.oc[k].open = FALSE, !.oc[k].alive = IF c.role = "orig" THEN FALSE ELSE @, !.oc[k].q = <<>>], NoOut(x))
      [] OTHER -> Quiet(x)                                                        \* OStanza: s2s streams are one-way

ReactLoc(x, e) ==
    IF e.a = "Listen" THEN Quiet([x EXCEPT !.lis[e.d] = e.up])
    ELSE \* Send: QXmppServer::sendPacket -> routeData
    LET lv == LiveOrig(x, e.d)
        x0 == [x EXCEPT !.dst = Append(@, e.d)]
        t(o) == [o EXCEPT !.ret = "t"]
    IN IF lv # {}
       THEN LET k == Max(lv) IN
            IF x.oc[k].rdy
            THEN Res([x0 EXCEPT !.wr = Append(@, <<k, e.n>>)], t([NoOut(x) EXCEPT !.oc[k] = <<MsgOut(e.n)>>]))
            ELSE Res([x0 EXCEPT !.oc[k].q = Append(@, e.n)], t(NoOut(x)))
       ELSE IF x.lis[e.d]
            THEN LET x2 == [x0 EXCEPT !.oc = Append(@, Conn(e.d, "orig", 0, "", <<e.n>>))] IN
                 Res(x2, t([NoOut(x2) EXCEPT !.oc[Len(x2.oc)] = <<HdrOut(e.d)>>]))
            ELSE Res(x0, t(NoOut(x)))          \* connection refused: the stream and its queue are dropped

React(x, e) ==
    IF e.a \in {"IOpen", "IResult", "IVerifyReq", "IStanza", "IWs", "IClose"} THEN ReactIn(x, e)
    ELSE IF e.a \in {"OHeader", "OVerifyAns", "OResult", "OStanza", "OClose"} THEN ReactOut(x, e)
    ELSE ReactLoc(x, e)

RECURSIVE SumZv(_, _)
SumZv(x, i) == IF i = 0 THEN 0 ELSE x.ins[i].zv + SumZv(x, i - 1)

(* -------------------------------------------- assumptions about the environment *)
Enabled(e) ==
    CASE e.a = "IOpen" -> w.ins[e.i].st = "none" /\ (e.i > 1 => w.ins[e.i - 1].st # "none")
      [] e.a = "IResult" -> w.ins[e.i].st = "open" /\ Len(w.oc) + SumZv(w, NI) < MaxOC
      [] e.a \in {"IStanza", "IVerifyReq", "IWs", "IClose"} -> w.ins[e.i].st = "open"
      [] e.a = "Listen" -> e.up # w.lis[e.d]
      [] e.a = "Send" -> e.n = Len(w.dst) + 1 /\ (LiveOrig(w, e.d) = {} => Len(w.oc) < MaxOC)
      [] e.a = "OHeader" -> e.k \in Ks(w) /\ w.oc[e.k].open /\ w.oc[e.k].ph = "tcp"
      [] e.a = "OClose" -> e.k \in Ks(w) /\ w.oc[e.k].open
      \* a remote server writes elements only inside its stream, i.e. after its header
      [] e.a = "OStanza" -> e.k \in Ks(w) /\ w.oc[e.k].open /\ w.oc[e.k].ph # "tcp"
      [] e.a = "OVerifyAns" ->
            /\ e.k \in Ks(w) /\ w.oc[e.k].open /\ w.oc[e.k].ph # "tcp"
            \* R's server answers only verification requests, truthfully
            /\ w.oc[e.k].dom = "R" => /\ w.oc[e.k].role = "verify" /\ e.from = "R" /\ e.idk = "right" /\ e.to = "L"
                                      /\ (e.ty = "valid") <=> (w.oc[e.k].key = "good")
      [] e.a = "OResult" ->
            /\ e.k \in Ks(w) /\ w.oc[e.k].open /\ w.oc[e.k].ph # "tcp"
            /\ w.oc[e.k].dom = "R" => w.oc[e.k].role = "orig" /\ e.from = "R" /\ e.to = "L"
            \* an answer in the name of another domain is generated only where "XFrom" is switched on
            /\ e.from # w.oc[e.k].dom => "XFrom" \in Kinds
      [] OTHER -> FALSE

Out0 == NoOut(W0)
Init == w = W0 /\ out = Out0 /\ hist = <<>>

Apply(e) ==
    LET r == React(w, e) IN
    /\ w' = r.w
    /\ out' = r.o
    /\ hist' = Append(hist, e)

Next == \E e \in Events : Enabled(e) /\ Apply(e)
Spec == Init /\ [][Next]_vars

(* ------------------------------------------------------------------ projection *)
\* what the harness observes after a step: the remote views of every connection, the object counts
Cnt(x) == [inc |-> Cardinality({i \in 1..NI : x.ins[i].st = "open"}),
           out |-> Cardinality({k \in Ks(x) : x.oc[k].role = "orig" /\ x.oc[k].alive}),
           ver |-> Cardinality({k \in Ks(x) : x.oc[k].role = "verify" /\ x.oc[k].alive})]
Obs(x, o) == [ins |-> [i \in 1..NI |-> [open |-> x.ins[i].st = "open", rx |-> o.ins[i]]],
              oc  |-> [k \in Ks(x) |-> [dom |-> x.oc[k].dom, open |-> x.oc[k].open, rx |-> o.oc[k]]],
              acc |-> o.acc, ret |-> o.ret,
              cnt |-> [Cnt(x) EXCEPT !.ver = @ + SumZv(x, NI)]]

(* ------------------------------------------------------------------ invariants *)
\* Conformance predicates: stated over plain values -- ob is an observation of the shape of Obs, ref the
\* reference observation -- so that S2sTrace evaluates them on what the implementation reported.
Sel(s, T) == SelectSeq(s, LAMBDA r : r.t \in T)

\* a stanza that arrives on an incoming stream is handed to the server iff the stream has validated its
\* from-domain (and then exactly once)
P_Accept(ref, ob) == ob.acc = ref.acc
\* <db:result type=.../> goes to a claimant only as the relay of the authoritative server's answer for this
\* stream id and this domain, received on the stream we opened to that domain
P_Result(ref, ob) == \A i \in 1..NI : Sel(ob.ins[i].rx, {"res"}) = Sel(ref.ins[i].rx, {"res"})
\* as authoritative server we confirm exactly the key we sent, for the stream we sent it on, and we answer
P_Authority(ref, ob) == \A i \in 1..NI : Sel(ob.ins[i].rx, {"ver"}) = Sel(ref.ins[i].rx, {"ver"})
\* the connections we make go to the server of the claimed / addressed domain and carry the claim's key with the
\* id of the stream it was made on (verification) or our key (originating)
P_Dialback(ref, ob) == /\ Len(ob.oc) = Len(ref.oc)
                       /\ \A k \in DOMAIN ref.oc : /\ ob.oc[k].dom = ref.oc[k].dom
                                                   /\ Sel(ob.oc[k].rx, {"res", "ver"}) = Sel(ref.oc[k].rx, {"res", "ver"})
\* queued stanzas leave only on the validated stream to their domain, in order, exactly once
P_Queue(ref, ob) == \A k \in DOMAIN ref.oc : k \in DOMAIN ob.oc => Sel(ob.oc[k].rx, {"msg"}) = Sel(ref.oc[k].rx, {"msg"})
\* whitespace between elements is not an element (RFC 6120 4.6.1): nothing is written, closed or released
P_Keepalive(e, prev, ob) ==
    e.a = "IWs" => /\ \A i \in 1..NI : ob.ins[i].open = prev.ins[i].open /\ ob.ins[i].rx = <<>>
                   /\ ob.cnt = prev.cnt
\* stream objects exist exactly for the streams that are up (nothing leaks, nothing is dropped early)
P_Counts(ref, ob) == ob.cnt.inc = ref.cnt.inc /\ ob.cnt.out = ref.cnt.out

\* Design level: the mechanism satisfies what the predicates are there for.
TypeOK ==
    /\ \A i \in 1..NI : /\ w.ins[i].st \in {"none", "open", "closed"} /\ w.ins[i].auth \subseteq Doms
                        /\ (w.ins[i].st # "open" => w.ins[i].zv = 0)
    /\ Len(w.oc) <= MaxOC
    /\ \A k \in Ks(w) : LET c == w.oc[k] IN
            /\ c.dom \in Doms /\ c.role \in {"orig", "verify"} /\ c.ph \in {"tcp", "asked"} /\ c.rdy \in BOOLEAN
            /\ (c.open => c.alive)
            /\ (c.role = "verify" => c.own \in 1..NI /\ c.q = <<>> /\ (c.alive => w.ins[c.own].st = "open"))
            /\ (c.role = "orig" => (c.alive => c.open) /\ (c.rdy \/ ~c.alive => c.q = <<>>))
\* nobody but the holder of R's good key for this stream gets R validated on it (R's server is truthful)
NoSpoof == \A i \in 1..NI : "R" \in w.ins[i].auth => "R" \in w.ins[i].good
\* one stream per remote domain carries our traffic
OneLiveOrig == \A d \in Doms : Cardinality(LiveOrig(w, d)) <= 1
\* every message is written at most once, on a stream to its own domain, in sending order per stream
ExactlyOnceInOrder ==
    /\ \A a, b \in DOMAIN w.wr : a < b => /\ w.wr[a][2] # w.wr[b][2]
                                          /\ w.wr[a][1] = w.wr[b][1] => w.wr[a][2] < w.wr[b][2]
    /\ \A a \in DOMAIN w.wr : w.oc[w.wr[a][1]].dom = w.dst[w.wr[a][2]] /\ w.oc[w.wr[a][1]].role = "orig"
\* a message is written only on a stream that the remote domain has declared valid, and never queued there afterwards
AuthBeforeData == [][\A k \in DOMAIN out'.oc : Sel(out'.oc[k], {"msg"}) # <<>> => w'.oc[k].rdy /\ w'.oc[k].role = "orig"]_vars
\* <db:result type='valid'/> to a claimant only in the step in which the claimed domain's server confirmed
ValidOnlyRelayed ==
    [][\A i \in 1..NI : \A j \in DOMAIN out'.ins[i] :
            (out'.ins[i][j].t = "res" /\ out'.ins[i][j].a = "valid") =>
                LET e == hist'[Len(hist')] IN
                /\ e.a = "OVerifyAns" /\ e.ty = "valid" /\ e.idk = "right" /\ e.to = "L"
                /\ w.oc[e.k].role = "verify" /\ w.oc[e.k].own = i /\ w.oc[e.k].dom = e.from /\ out'.ins[i][j].b = e.from]_vars
\* an element is accepted only from a validated domain of the stream it arrived on
AcceptOnlyValidated ==
    [][out'.acc # <<>> => LET e == hist'[Len(hist')] IN e.a = "IStanza" /\ e.fd \in w.ins[e.i].auth]_vars
\* nothing survives its stream
NoLeak == \A k \in Ks(w) : w.oc[k].role = "verify" /\ w.ins[w.oc[k].own].st = "closed" => ~w.oc[k].alive

Reinit == w' = W0 /\ out' = Out0 /\ hist' = <<>>
Bound == Len(hist) <= MaxHist
\* `out` is a function of the previous state and the event, `hist` grows: hidden from state identity
View == w
=============================================================================
