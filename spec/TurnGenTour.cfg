SPECIFICATION Spec
CONSTANTS
  Peers = {1, 2}
  MaxTx = 5
  MaxNonce = 2
  Lifetimes = {600}
  PwOk = {TRUE, FALSE}
  Shapes = {"honest", "othsrc", "stale", "deny", "norelay", "errnomi", "oknomi", "okbadmi", "errbadmi", "stalebadmi", "unkid", "wrongm", "dup"}
  InSrc = {"srv", "oth"}
  InLens = {"ok", "pad", "over"}
  Timers = TRUE
  MaxTries = 2
  Reconnect = TRUE
  MaxHist = 99
VIEW View
ACTION_CONSTRAINT EmitBehaviour
CHECK_DEADLOCK FALSE
