SPECIFICATION Spec
CONSTANTS
  MaxId = 3
  MaxH = 3
  MaxConn = 3
  MaxRecv = 1
  MaxHist = 99
VIEW TourView
ACTION_CONSTRAINT EmitEdge
CHECK_DEADLOCK FALSE
