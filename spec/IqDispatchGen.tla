--------------------------- MODULE IqDispatchGen ---------------------------
(* Behaviour export for IqDispatch (see lib/vf.py: tlc_gen).  With VIEW TourView *)
(* every Recv(t, p, f, k) of every extension set is emitted once as a one-step   *)
(* behaviour from the initial state (transition tour).  Without a VIEW           *)
(* (IqDispatchGenAll.cfg) every sequence up to MaxHist over a reduced vocabulary *)
(* is a distinct state: all paths (sequences end at a Reject, which closes the   *)
(* stream).  -simulate gives long random sequences over the full vocabulary.     *)
EXTENDS IqDispatch, Json, CSV, IOUtils

EmitBehaviour ==
    CSVWrite("%1$s", <<ToJson([ext |-> ext', steps |-> hist'])>>, IOEnv.QXV_GEN)

\* random sequences in which every IQ arrives while a tracked request of the client is outstanding
EmitPendingBehaviour == KeepPending /\ EmitBehaviour
=============================================================================
