SPECIFICATION Spec
CONSTANTS
  Shapes <- ModelShapes
  Decoder = "stateful"
  Cache = "stale"
  Limit = 0
INVARIANTS TypeOK PrefixOK CompleteOK Quiescent
PROPERTIES AppendOnly
VIEW View
CHECK_DEADLOCK FALSE
