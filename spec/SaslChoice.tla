----------------------------- MODULE SaslChoice -----------------------------
(***************************************************************************)
(* Choice of the SASL mechanism (property C05).                            *)
(*                                                                         *)
(* Code: chooseMechanism / initSaslAuthentication / SaslManager::          *)
(* authenticate / Sasl2Manager::authenticate (src/client/                  *)
(* QXmppSaslManager.cpp), SaslMechanism::fromString and the variant order  *)
(* (src/base/QXmppSasl_p.h, QXmppSasl.cpp), isMechanismAvailable.          *)
(*                                                                         *)
(* A *case* `c` is everything the choice depends on:                       *)
(*   v           1 (RFC 6120 SASL) | 2 (XEP-0388)                          *)
(*   offered     set of mechanism names in <mechanisms/> / <authentication/>*)
(*   fastFeature the SASL 2 feature carries a XEP-0484 <fast/> element     *)
(*   fastMechs   the names listed in it                                    *)
(*   useFast, userAgent   configuration: FAST enabled, SASL 2 user agent set*)
(*   disabled    QXmppConfiguration::disabledSaslMechanisms                *)
(*   preferred   QXmppConfiguration::saslAuthMechanism ("" = none)         *)
(*   creds       which secrets are stored                                  *)
(* The machine has one environment move (Init: user configuration + the    *)
(* server's offer) and one handler (Authenticate).  The property is a set  *)
(* of predicates P_* over (case, observation); they are invariants of the  *)
(* specification's own Choose here and are evaluated on what the real      *)
(* managers did in SaslChoiceTrace.                                        *)
(***************************************************************************)
EXTENDS Naturals, Sequences, FiniteSets, TLC

CONSTANTS OfferNames,    \* names the server may list (any strings)
          FastSets,      \* possible contents of the <fast/> element (set of sets of names)
          VFKinds,       \* subset of {"v1","v2","v2fast","v2fastoff","v2fastnoua"}
          DisabledNames, \* names that may be disabled
          PreferredSet,  \* possible preferred mechanisms ("" = none)
          PwSet, TokenSet, GoogleSet, WliveSet, FbSet   \* credential availability

VARIABLES c, phase, out, sent, hist
vars == <<c, phase, out, sent, hist>>

None == "(none)"

(* --- the mechanisms the library knows (SaslMechanism::fromString) --------- *)
Hashes   == <<"SHA-256", "SHA-384", "SHA-512", "SHA3-224", "SHA3-256", "SHA3-384", "SHA3-512">>
Bindings == <<"ENDP", "UNIQ", "EXPR", "NONE">>
HtName(h, b) == "HT-" \o Hashes[h] \o "-" \o Bindings[b]
HtIdx == (1..Len(Hashes)) \X (1..Len(Bindings))
HtNames == {HtName(p[1], p[2]) : p \in HtIdx}

\* family rank = index of the alternative in the SaslMechanism variant
FamRank == [xgoogle |-> 0, xwlive |-> 1, xfacebook |-> 2, anonymous |-> 3, plain |-> 4,
            digest |-> 5, scram |-> 6, ht |-> 7]

Fixed ==
    ( "X-OAUTH2"            :> [fam |-> "xgoogle",   sub |-> 0, cb |-> ""] ) @@
    ( "X-MESSENGER-OAUTH2"  :> [fam |-> "xwlive",    sub |-> 0, cb |-> ""] ) @@
    ( "X-FACEBOOK-PLATFORM" :> [fam |-> "xfacebook", sub |-> 0, cb |-> ""] ) @@
    ( "ANONYMOUS"           :> [fam |-> "anonymous", sub |-> 0, cb |-> ""] ) @@
    ( "PLAIN"               :> [fam |-> "plain",     sub |-> 0, cb |-> ""] ) @@
    ( "DIGEST-MD5"          :> [fam |-> "digest",    sub |-> 0, cb |-> ""] ) @@
    ( "SCRAM-SHA-1"         :> [fam |-> "scram",     sub |-> 0, cb |-> ""] ) @@
    ( "SCRAM-SHA-256"       :> [fam |-> "scram",     sub |-> 1, cb |-> ""] ) @@
    ( "SCRAM-SHA-512"       :> [fam |-> "scram",     sub |-> 2, cb |-> ""] ) @@
    ( "SCRAM-SHA3-512"      :> [fam |-> "scram",     sub |-> 3, cb |-> ""] )

HtTable == [n \in HtNames |->
              LET p == CHOOSE q \in HtIdx : HtName(q[1], q[2]) = n
              IN [fam |-> "ht", sub |-> p[1] * 4 + p[2], cb |-> Bindings[p[2]]]]

Table == Fixed @@ HtTable
KnownNames == DOMAIN Table

IsKnown(n) == n \in KnownNames
Rank(n) == FamRank[Table[n].fam] * 100 + Table[n].sub

\* the families the statement of C05 ranks explicitly
NamedFam == {"ht", "scram", "digest", "plain", "anonymous"}
IsNamed(n) == IsKnown(n) /\ Table[n].fam \in NamedFam

(* --- credentials (QXmppSaslClient::isMechanismAvailable) ------------------ *)
Usable(n, cr) ==
    LET m == Table[n] IN
    CASE m.fam = "ht"        -> cr.token = n /\ m.cb = "NONE"
      [] m.fam \in {"scram", "digest", "plain"} -> cr.pw
      [] m.fam = "xfacebook" -> cr.fb
      [] m.fam = "xwlive"    -> cr.wlive
      [] m.fam = "xgoogle"   -> cr.google
      [] m.fam = "anonymous" -> TRUE

(* --- the choice ----------------------------------------------------------- *)
FastActive(k) == k.v = 2 /\ k.fastFeature /\ k.useFast /\ k.userAgent
Eff(k) == k.offered \cup (IF FastActive(k) THEN k.fastMechs ELSE {})

Candidates(k) == {n \in Eff(k) \ k.disabled : IsKnown(n) /\ Usable(n, k.creds)}

Choose(k) ==
    LET C == Candidates(k) IN
    IF C = {} THEN None
    ELSE IF k.preferred \in C THEN k.preferred
    ELSE CHOOSE m \in C : \A x \in C : Rank(x) <= Rank(m)

(* --- the property, over (case, its candidate set C, observed mechanism or None, elements sent) *)
\* C is passed separately only so that a trace line evaluates Candidates once
P_NeverDisabled(k, C, o)  == o # None => o \notin k.disabled
P_Qualifies(k, C, o)      == o # None => o \in C
P_Preferred(k, C, o)      == k.preferred \in C => o = k.preferred
P_Strongest(k, C, o)      == (k.preferred \notin C /\ o # None /\ IsNamed(o)) =>
                                 \A m \in C : IsNamed(m) => Rank(m) <= Rank(o)
P_MismatchIffNone(k, C, o) == (C = {}) <=> (o = None)
P_SilentMismatch(k, C, o, n) == (o = None => n = 0) /\ (o # None => n = 1)

PropNames == {"NeverDisabled", "Qualifies", "Preferred", "Strongest", "MismatchIffNone", "SilentMismatch"}
HoldsC(p, k, C, o, n) ==
    CASE p = "NeverDisabled"   -> P_NeverDisabled(k, C, o)
      [] p = "Qualifies"       -> P_Qualifies(k, C, o)
      [] p = "Preferred"       -> P_Preferred(k, C, o)
      [] p = "Strongest"       -> P_Strongest(k, C, o)
      [] p = "MismatchIffNone" -> P_MismatchIffNone(k, C, o)
      [] p = "SilentMismatch"  -> P_SilentMismatch(k, C, o, n)
Holds(p, k, o, n) == HoldsC(p, k, Candidates(k), o, n)

\* the order the statement spells out: token > SCRAM by hash strength > DIGEST-MD5 > PLAIN > ANONYMOUS
ASSUME /\ Rank("HT-SHA-256-NONE") > Rank("SCRAM-SHA3-512")
       /\ Rank("SCRAM-SHA3-512") > Rank("SCRAM-SHA-512")
       /\ Rank("SCRAM-SHA-512") > Rank("SCRAM-SHA-256")
       /\ Rank("SCRAM-SHA-256") > Rank("SCRAM-SHA-1")
       /\ Rank("SCRAM-SHA-1") > Rank("DIGEST-MD5")
       /\ Rank("DIGEST-MD5") > Rank("PLAIN")
       /\ Rank("PLAIN") > Rank("ANONYMOUS")
       /\ \A a, b \in KnownNames : Rank(a) = Rank(b) => a = b

(* --- the case space -------------------------------------------------------- *)
CredSpace == [pw : PwSet, token : TokenSet, google : GoogleSet, wlive : WliveSet, fb : FbSet]

VF(kind) ==
    CASE kind = "v1"         -> {[v |-> 1, fastFeature |-> FALSE, fastMechs |-> {}, useFast |-> TRUE, userAgent |-> TRUE]}
      [] kind = "v2"         -> {[v |-> 2, fastFeature |-> FALSE, fastMechs |-> {}, useFast |-> TRUE, userAgent |-> TRUE]}
      [] kind = "v2fast"     -> {[v |-> 2, fastFeature |-> TRUE, fastMechs |-> f, useFast |-> TRUE, userAgent |-> TRUE] : f \in FastSets}
      [] kind = "v2fastoff"  -> {[v |-> 2, fastFeature |-> TRUE, fastMechs |-> f, useFast |-> FALSE, userAgent |-> TRUE] : f \in FastSets}
      [] kind = "v2fastnoua" -> {[v |-> 2, fastFeature |-> TRUE, fastMechs |-> f, useFast |-> TRUE, userAgent |-> FALSE] : f \in FastSets}
VFSpace == UNION {VF(kind) : kind \in VFKinds}

MkCase(vf, off, dis, pref, cr) ==
    [v |-> vf.v, offered |-> off, fastFeature |-> vf.fastFeature, fastMechs |-> vf.fastMechs,
     useFast |-> vf.useFast, userAgent |-> vf.userAgent, disabled |-> dis, preferred |-> pref, creds |-> cr]

Init ==
    /\ \E vf \in VFSpace, off \in SUBSET OfferNames, dis \in SUBSET DisabledNames,
          pref \in PreferredSet, cr \in CredSpace : c = MkCase(vf, off, dis, pref, cr)
    /\ phase = "offered" /\ out = None /\ sent = 0 /\ hist = <<>>

\* SaslManager::authenticate / Sasl2Manager::authenticate
Authenticate ==
    /\ phase = "offered"
    /\ out' = Choose(c)
    /\ sent' = IF Choose(c) = None THEN 0 ELSE 1
    /\ phase' = "done"
    /\ hist' = Append(hist, [a |-> "Authenticate"])
    /\ UNCHANGED c

Next == Authenticate
Spec == Init /\ [][Next]_vars

(* --- invariants ----------------------------------------------------------- *)
TypeOK == phase \in {"offered", "done"} /\ sent \in {0, 1} /\ (out = None \/ out \in KnownNames)
PropertyHolds == phase = "done" => \A p \in PropNames : Holds(p, c, out, sent)
\* vacuity guards (each must be violated for some case; checked by SaslChoiceVac.cfg)
View == <<c, phase, out, sent>>
=============================================================================
