SPECIFICATION SpecP
CONSTANTS
  Jids = {"j1"}
  InitSrv = {}
  Kinds = {"Probe"}
  Retries = {FALSE}
  CmdSets = {}
  OthSets = {}
  Froms = {"none"}
  MaxT = 0
  MaxO = 0
  MaxD = 0
  MaxQ = 1
  ProbeMax = 2
  MaxHist = 1
VIEW View
ACTION_CONSTRAINT EmitBehaviour
CHECK_DEADLOCK FALSE
