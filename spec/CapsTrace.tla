----------------------------- MODULE CapsTrace -----------------------------
(***************************************************************************)
(* Trace validation for Caps (written by `qxv caps`, annotated by          *)
(* lib/props/C20.py with the reference hashes -- the interpretation of the *)
(* uninterpreted Sha1, DESIGN 2.8).  Atoms, not strings, are logged for    *)
(* the arguments; c = the specification's canonical string for the step.   *)
(*   {"e":"Reset","case":"c3","o":{"ver":V,"exp":H,"refwire":H}}           *)
(*   {"e":"SwapFeats","i":1,"t":"neutral","c":[1,1000,2,1000],             *)
(*    "o":{"ver":V,"exp":H,"refwire":H}}                                   *)
(*   {"e":"Announce","q":"ver","t":"emit","c":[..],                        *)
(*    "o":{"presence":true,"adv":V,"cap":V,"rtype":"result","ansref":H}}   *)
(* ver     base64 of QXmppDiscoveryIq::verificationString() of the info    *)
(*         set built in the given order                                    *)
(* exp     SHA-1 (python hashlib) of the canonical string c with the       *)
(*         behaviour's alphabet substituted                                *)
(* refwire independent XEP-0115 implementation applied to what the IQ      *)
(*         serializes to                                                   *)
(* adv     <c ver/> of the presence the client emitted; ansref: the same   *)
(*         reference applied to the disco#info reply the client gave       *)
(*                                                                         *)
(* monitor (logged facts only): Hash ver = exp; Wire ver = refwire;        *)
(*   Neutral / Change: P_Neutral / P_Change of Caps on consecutive ver;    *)
(*   Advertised: adv = ansref and the query was answered with a result.    *)
(* compare: the model's canonical string after its own action = c; the     *)
(*   advertised hash = capabilities().verificationString().                *)
(***************************************************************************)
EXTENDS Caps, Integers, Json, CSV, IOUtils

TraceLog == ndJsonDeserialize(IOEnv.QXV_TRACE)

VARIABLES l, l0, cid, mon, viol, ndiv, divs, dflag, ncases      \* l0: line of the current execution's Reset
tvars == <<vars, l, l0, cid, mon, viol, ndiv, divs, dflag, ncases>>

TInit ==
    /\ Init
    /\ l = 1 /\ l0 = 0 /\ cid = "" /\ mon = [ver |-> ""] /\ viol = {} /\ ndiv = 0 /\ divs = <<>> /\ dflag = FALSE /\ ncases = 0

Tup4(x) == <<x[1], x[2], x[3], x[4]>>

ModelAct(ev) ==
    CASE ev.e = "AddIdentity"    -> AddIdentity(Tup4(ev.x))
      [] ev.e = "RemoveIdentity" -> RemoveIdentity(ev.i)
      [] ev.e = "AlterIdentity"  -> AlterIdentity(ev.i, Tup4(ev.x))
      [] ev.e = "SwapIds"        -> SwapIds(ev.i)
      [] ev.e = "AddFeature"     -> AddFeature(ev.f)
      [] ev.e = "DupFeature"     -> DupFeature(ev.i)
      [] ev.e = "RemoveFeature"  -> RemoveFeature(ev.f)
      [] ev.e = "AlterFeature"   -> AlterFeature(ev.f, ev.g)
      [] ev.e = "SwapFeats"      -> SwapFeats(ev.i)
      [] ev.e = "SetForm"        -> SetForm(ev.v)
      [] ev.e = "DropForm"       -> DropForm
      [] ev.e = "AddField"       -> AddField(ev.var, ev.m, ev.v)
      [] ev.e = "RetypeField"    -> RetypeField(ev.i)
      [] ev.e = "RemoveField"    -> RemoveField(ev.i)
      [] ev.e = "RenameField"    -> RenameField(ev.i, ev.var)
      [] ev.e = "AddValue"       -> AddValue(ev.i, ev.v)
      [] ev.e = "RemoveValue"    -> RemoveValue(ev.i, ev.j)
      [] ev.e = "AlterValue"     -> AlterValue(ev.i, ev.j, ev.v)
      [] ev.e = "SwapFields"     -> SwapFields(ev.i)
      [] ev.e = "SwapVals"       -> SwapVals(ev.i, ev.j)
      [] ev.e = "Announce"       -> Announce(ev.q)
      [] ev.e = "SessionOpen"    -> SessionOpen(ev.q)
      [] OTHER                   -> FALSE

IsEmit(ev) == ev.e \in {"Announce", "SessionOpen"}

Failed(m, ev) ==
    IF IsEmit(ev)
    THEN {p \in {"Advertised"} :
            ev.o.presence /\ ev.o.adv # "" /\ ~(ev.o.rtype = "result" /\ P_Equal(ev.o.adv, ev.o.ansref))}
    ELSE {p \in {"Hash", "Wire", "Neutral", "Change"} :
            CASE p = "Hash"    -> ~P_Equal(ev.o.ver, ev.o.exp)
              [] p = "Wire"    -> ~P_Equal(ev.o.ver, ev.o.refwire)
              [] p = "Neutral" -> ~P_Neutral(ev.t, m.ver, ev.o.ver)
              [] p = "Change"  -> ~P_Change(ev.t, m.ver, ev.o.ver)}

Agrees(ev) ==
    IF IsEmit(ev) THEN ev.o.presence /\ ev.o.adv # "" /\ ev.o.adv = ev.o.cap
    ELSE canon' = ev.c

ResetStep(ev) ==
    /\ Reinit
    /\ cid' = ev.case /\ l0' = l /\ mon' = [ver |-> ev.o.ver] /\ dflag' = FALSE /\ ncases' = ncases + 1
    /\ viol' = viol \cup {[case |-> ev.case, step |-> 0, prop |-> p, e |-> "Reset"] :
                            p \in {q \in {"Hash", "Wire"} : ev.o.ver # (IF q = "Hash" THEN ev.o.exp ELSE ev.o.refwire)}}
    /\ UNCHANGED <<ndiv, divs>>

OpStep(ev) ==
    /\ \/ ModelAct(ev)
       \/ (~ENABLED ModelAct(ev)) /\ UNCHANGED vars
    /\ mon' = IF IsEmit(ev) THEN mon ELSE [ver |-> ev.o.ver]
    /\ viol' = viol \cup {[case |-> cid, step |-> l - l0, prop |-> p, e |-> ev.e] : p \in Failed(mon, ev)}
    /\ LET d == ~Agrees(ev) IN
        /\ dflag' = (dflag \/ d)
        /\ ndiv' = IF d /\ ~dflag THEN ndiv + 1 ELSE ndiv
        /\ divs' = IF d /\ ~dflag /\ Len(divs) < 10
                   THEN Append(divs, [case |-> cid, step |-> l - l0, e |-> ev.e, model |-> canon', impl |-> ev]) ELSE divs
    /\ UNCHANGED <<cid, l0, ncases>>

TNext ==
    /\ l <= Len(TraceLog)
    /\ l' = l + 1
    /\ LET ev == TraceLog[l] IN
        IF ev.e = "Reset" THEN ResetStep(ev) ELSE OpStep(ev)

TSpec == TInit /\ [][TNext]_tvars

Summary == [cases |-> ncases, lines |-> l - 1, viol |-> viol, ndiv |-> ndiv, divs |-> divs]
Done == l <= Len(TraceLog) \/ CSVWrite("%1$s", <<ToJson(Summary)>>, IOEnv.QXV_SUMMARY)
=============================================================================
