-------------------------- MODULE IqDispatchTrace --------------------------
(***************************************************************************)
(* Trace validation for IqDispatch (property C08).  The trace (ndjson,      *)
(* written by `qxv iqin`) holds one line per injected <iq/>:                *)
(*  {"e":"Recv","t":type kind,"p":payload kind,"f":sender class,"k":id kind, *)
(*   "x":{"id":..,"from":..,"own":B,"domain":D,"type":..,"hastype":bool},   *)
(*                       the concrete attributes of the injected stanza       *)
(*   "out":[{"type":"result|error","id":..,"to":..,"cond":..}..],            *)
(*                       every IQ result/error stanza the client sent after   *)
(*                       the injection, until the event loop was drained      *)
(*   "oreq":n,           other stanzas sent (requests of a manager's own, ...) *)
(*   "closed":bool,      the client reported a stream error                   *)
(*   "pend":bool,        a tracked request of the client's own was outstanding *)
(*   "tdone":n}          continuation runs of that request during this step    *)
(* and one line per tracked request the harness made the client issue:        *)
(*  {"e":"SendRequest","peer":sender class,"x":{"id":..,"to":..},"nsent":n}   *)
(* (lines of older traces without pend/tdone are read as pend=FALSE, tdone=0)  *)
(* t/p/f/k and x are inputs chosen by the harness; out/oreq/closed are the    *)
(* observation.                                                              *)
(*                                                                          *)
(* Three layers per line:                                                    *)
(*  - model:   IqDispatch!Recv for the logged arguments;                     *)
(*  - monitor: the C08 predicates of IqDispatch evaluated on the number of   *)
(*             logged replies that carry the injected id and are addressed   *)
(*             to the injected sender;                                       *)
(*  - compare: the model's reply count / stream state vs the observation; a  *)
(*             mismatch marks the execution as diverged (conformance warning)*)
(***************************************************************************)
EXTENDS IqDispatch, Integers, Json, CSV, IOUtils

TraceLog == ndJsonDeserialize(IOEnv.QXV_TRACE)

VARIABLES l, cid, viol, nviol, ndiv, divs, dflag, ncases, nreq, nresp, nother, nclosed,
          npend, ncollide, ntdone, ntbyreq,
          dm,       \* monitor of the deferred replies: which of them are due, from the logged events only
          dviol,    \* violations of the deferred-reply predicates
          ndefer, ndue

dstate == <<dm, dviol, ndefer, ndue>>

tvars == <<vars, l, cid, viol, nviol, ndiv, divs, dflag, ncases, nreq, nresp, nother, nclosed,
           npend, ncollide, ntdone, ntbyreq, dstate>>

(* --- deferred replies ------------------------------------------------------ *)
\* Lines of the deferred-reply steps: {"e":action,["nh":n,]"track":[{"tag","id","n"}..],"closed":bool,"ok":bool};
\* Recv lines carry "track" as well.  A reply is *due* when the event it waits for has been driven to its end:
\*   offer  -- the application accepted or declined the job;
\*   hosts  -- a stream host completed the handshake, or the last host of the offer dropped the connection;
\*   second -- (a second hosts offer during the attempt) at the latest when that attempt is over.
\* `left` = stream hosts of the offer not yet tried to the end.  Only events that were really performed count.
DMon0 == [offer |-> FALSE, hosts |-> FALSE, second |-> FALSE, left |-> 0, sec |-> FALSE]
DMonNext(m, ev) ==
    IF ~ev.ok THEN m
    ELSE CASE ev.e \in {"AppAccept", "AppDecline"} -> [m EXCEPT !.offer = TRUE]
           [] ev.e = "HostsOffer"  -> [m EXCEPT !.left = ev.nh]
           [] ev.e = "SecondHosts" -> [m EXCEPT !.sec = TRUE]
           [] ev.e = "HostAccepts" -> [m EXCEPT !.hosts = TRUE, !.left = 0, !.second = m.sec]
           [] ev.e = "HostCloses"  -> IF m.left = 1 THEN [m EXCEPT !.hosts = TRUE, !.left = 0, !.second = m.sec]
                                      ELSE [m EXCEPT !.left = m.left - 1]
           [] OTHER -> m
Track(ev) == IF "track" \in DOMAIN ev THEN ev.track ELSE <<>>
DFailed(m, ev) ==
    LET K == 1..Len(Track(ev))
        Rec(p, k) == [case |-> cid, line |-> l, prop |-> p, tag |-> ev.track[k].tag, e |-> ev.e, n |-> ev.track[k].n]
    IN {Rec("DeferredAnswered", k) : k \in {k \in K : ~P_DeferredAnswered(m[ev.track[k].tag], ev.track[k].n)}}
       \cup {Rec("AtMostOneReply", k) : k \in {k \in K : ~P_AtMostOneReply(ev.track[k].n)}}
DObs(ev) == [g \in {ev.track[k].tag : k \in 1..Len(Track(ev))} |->
               LET k == CHOOSE k \in 1..Len(ev.track) : ev.track[k].tag = g IN ev.track[k].n]
DProjNext(ev) == [g \in DOMAIN DObs(ev) |-> rq'[g].n]

TInit ==
    /\ Init /\ ext = "none"
    /\ l = 1 /\ cid = "" /\ viol = {} /\ nviol = 0 /\ ndiv = 0 /\ divs = <<>> /\ dflag = FALSE /\ ncases = 0
    /\ nreq = 0 /\ nresp = 0 /\ nother = 0 /\ nclosed = 0
    /\ npend = 0 /\ ncollide = 0 /\ ntdone = 0 /\ ntbyreq = 0
    /\ dm = DMon0 /\ dviol = {} /\ ndefer = 0 /\ ndue = 0

(* --- facts derived from one logged line ----------------------------------- *)
\* A reply without `to` is handled by the user's server on behalf of the account: it reaches a
\* sender that is the server itself (no from / own domain) or the account (own bare JID).
AddressedToSender(x, to) == to = x.from \/ (to = "" /\ x.from \in {"", x.own, x.domain})

Replies(ev) == Cardinality({k \in 1..Len(ev.out) : ev.out[k].id = ev.x.id /\ AddressedToSender(ev.x, ev.out[k].to)})

Failed(ev) ==
    LET n == Replies(ev) IN
    {p \in {"RequestAnswered", "ResponseNotAnswered", "NoReplyLoop"} :
        CASE p = "RequestAnswered"     -> ~P_RequestAnswered(ev.t, n)
          [] p = "ResponseNotAnswered" -> ~P_ResponseNotAnswered(ev.t, n)
          [] p = "NoReplyLoop"         -> ~P_NoReplyLoop(ev.t, n)}

TDone(ev) == IF "tdone" \in DOMAIN ev THEN ev.tdone ELSE 0
HadPending(ev) == "pend" \in DOMAIN ev /\ ev.pend
Obs(ev) == [replies |-> Replies(ev), closed |-> ev.closed, tdone |-> TDone(ev) > 0]
Proj    == [replies |-> last.replies, closed |-> ~open, tdone |-> last.tdone]

ModelAct(ev) ==
    CASE ev.e = "Recv"        -> Recv(ev.t, ev.p, ev.f, ev.k)
      [] ev.e = "SendRequest" -> SendRequest(ev.peer)
      [] ev.e = "OfferSI"     -> OfferSI
      [] ev.e = "AppAccept"   -> AppAccept
      [] ev.e = "AppDecline"  -> AppDecline
      [] ev.e = "HostsOffer"  -> HostsOffer(ev.nh)
      [] ev.e = "SecondHosts" -> SecondHosts
      [] ev.e = "AbortJob"    -> AbortJob
      [] ev.e = "HostAccepts" -> HostAccepts
      [] ev.e = "HostCloses"  -> HostCloses
      [] OTHER                -> FALSE

ResetStep(ev) ==
    /\ Reinit(ev.ext)
    /\ cid' = ev.case /\ dflag' = FALSE /\ ncases' = ncases + 1
    /\ UNCHANGED <<viol, nviol, ndiv, divs, nreq, nresp, nother, nclosed, npend, ncollide, ntdone, ntbyreq>>
    /\ dm' = DMon0 /\ UNCHANGED <<dviol, ndefer, ndue>>

OpStep(ev) ==
    \* an ordinary IQ while replies are deferred: nothing becomes due, the counts are still judged
    /\ dviol' = dviol \cup DFailed(dm, ev) /\ UNCHANGED <<dm, ndefer, ndue>>
    /\ \/ ModelAct(ev)
       \/ (~ENABLED ModelAct(ev)) /\ UNCHANGED vars
    \* one record per (property, extension set, type, payload, sender class, id collides with an outstanding
    \* request): the first line that shows it
    /\ LET coll == HadPending(ev) /\ ev.k = "pending" IN
       viol' = viol \cup {[case |-> cid, line |-> l, prop |-> p, ext |-> ext, t |-> ev.t, p |-> ev.p, f |-> ev.f, k |-> ev.k,
                           coll |-> coll, peer |-> pending, n |-> Replies(ev)] :
                              p \in {q \in Failed(ev) : ~\E v \in viol : v.prop = q /\ v.ext = ext /\ v.t = ev.t /\ v.p = ev.p
                                                                           /\ v.f = ev.f /\ v.coll = coll}}
    /\ nviol' = nviol + Cardinality(Failed(ev))
    /\ nreq' = nreq + (IF ev.t \in Req THEN 1 ELSE 0)
    /\ nresp' = nresp + (IF ev.t \in Resp THEN 1 ELSE 0)
    /\ nother' = nother + (IF ev.t \notin (Req \cup Resp) THEN 1 ELSE 0)
    /\ nclosed' = nclosed + (IF ev.closed THEN 1 ELSE 0)
    /\ UNCHANGED npend
    \* IQs injected with the id of an outstanding request of the client / task completions / completions
    \* caused by something that is not a response (observation only: that clause belongs to C07)
    /\ ncollide' = ncollide + (IF HadPending(ev) /\ ev.k = "pending" THEN 1 ELSE 0)
    /\ ntdone' = ntdone + TDone(ev)
    /\ ntbyreq' = ntbyreq + (IF ~P_TaskOnlyByResponse(ev.t, TDone(ev) > 0) THEN 1 ELSE 0)
    /\ LET d == Proj' # Obs(ev) IN
        /\ dflag' = (dflag \/ d)
        /\ ndiv' = IF d /\ ~dflag THEN ndiv + 1 ELSE ndiv
        /\ divs' = IF d /\ ~dflag /\ Len(divs) < 40
                   THEN Append(divs, [case |-> cid, line |-> l, ext |-> ext, t |-> ev.t, p |-> ev.p, f |-> ev.f,
                                      model |-> Proj', impl |-> Obs(ev)]) ELSE divs
    /\ UNCHANGED <<cid, ncases>>

\* the harness made the client issue a tracked request: the model follows, nothing is judged
ReqStep(ev) ==
    /\ \/ ModelAct(ev)
       \/ (~ENABLED ModelAct(ev)) /\ UNCHANGED vars
    /\ npend' = npend + 1
    /\ UNCHANGED dstate
    /\ UNCHANGED <<cid, viol, nviol, ndiv, divs, dflag, ncases, nreq, nresp, nother, nclosed, ncollide, ntdone, ntbyreq>>

\* a step of the deferred-reply machinery (application decision, hosts offer, stream host event)
DeferStep(ev) ==
    /\ \/ ModelAct(ev)
       \/ (~ENABLED ModelAct(ev)) /\ UNCHANGED vars
    /\ dm' = DMonNext(dm, ev)
    /\ dviol' = dviol \cup DFailed(dm', ev)
    /\ ndefer' = ndefer + 1
    /\ ndue' = ndue + Cardinality({g \in DTags : dm'[g] /\ ~dm[g]})
    /\ LET d == ev.ok /\ DProjNext(ev) # DObs(ev) IN
        /\ dflag' = (dflag \/ d)
        /\ ndiv' = IF d /\ ~dflag THEN ndiv + 1 ELSE ndiv
        /\ divs' = IF d /\ ~dflag /\ Len(divs) < 40
                   THEN Append(divs, [case |-> cid, line |-> l, ext |-> ext, t |-> ev.e, p |-> "deferred", f |-> "",
                                      model |-> DProjNext(ev), impl |-> DObs(ev)]) ELSE divs
    /\ UNCHANGED <<cid, viol, nviol, ncases, nreq, nresp, nother, nclosed, npend, ncollide, ntdone, ntbyreq>>

DeferActs == {"OfferSI", "AppAccept", "AppDecline", "HostsOffer", "SecondHosts", "AbortJob", "HostAccepts", "HostCloses"}

TNext ==
    /\ l <= Len(TraceLog)
    /\ l' = l + 1
    /\ LET ev == TraceLog[l] IN
        IF ev.e = "Reset" THEN ResetStep(ev)
        ELSE IF ev.e = "Recv" THEN OpStep(ev)
        ELSE IF ev.e = "SendRequest" THEN ReqStep(ev)
        ELSE IF ev.e \in DeferActs THEN DeferStep(ev)
        ELSE UNCHANGED <<vars, cid, viol, nviol, ndiv, divs, dflag, ncases, nreq, nresp, nother, nclosed,
                         npend, ncollide, ntdone, ntbyreq, dstate>>

TSpec == TInit /\ [][TNext]_tvars

Summary == [cases |-> ncases, lines |-> l - 1, viol |-> viol, nviol |-> nviol, ndiv |-> ndiv, divs |-> divs,
            requests |-> nreq, responses |-> nresp, othertype |-> nother, closed |-> nclosed,
            tracked |-> npend, idcollisions |-> ncollide, taskdone |-> ntdone, taskdonebyrequest |-> ntbyreq,
            dviol |-> dviol, defersteps |-> ndefer, deferreddue |-> ndue]
Done == l <= Len(TraceLog) \/ CSVWrite("%1$s", <<ToJson(Summary)>>, IOEnv.QXV_SUMMARY)
=============================================================================
