-------------------------- MODULE IqDispatchTrace --------------------------
(***************************************************************************)
(* Trace validation for IqDispatch (property C08).  The trace (ndjson,      *)
(* written by `qxv iqin`) holds one line per injected <iq/>:                *)
(*  {"e":"Recv","t":type kind,"p":payload kind,"f":sender class,"k":id kind, *)
(*   "x":{"id":..,"from":..,"own":B,"domain":D,"type":..,"hastype":bool},   *)
(*                       the concrete attributes of the injected stanza       *)
(*   "out":[{"type":"result|error","id":..,"to":..,"cond":..}..],            *)
(*                       every IQ result/error stanza the client sent after   *)
(*                       the injection, until the event loop was drained      *)
(*   "oreq":n,           other stanzas sent (requests of a manager's own, ...) *)
(*   "closed":bool,      the client reported a stream error                   *)
(*   "pend":bool,        a tracked request of the client's own was outstanding *)
(*   "tdone":n}          continuation runs of that request during this step    *)
(* and one line per tracked request the harness made the client issue:        *)
(*  {"e":"SendRequest","peer":sender class,"x":{"id":..,"to":..},"nsent":n}   *)
(* (lines of older traces without pend/tdone are read as pend=FALSE, tdone=0)  *)
(* t/p/f/k and x are inputs chosen by the harness; out/oreq/closed are the    *)
(* observation.                                                              *)
(*                                                                          *)
(* Three layers per line:                                                    *)
(*  - model:   IqDispatch!Recv for the logged arguments;                     *)
(*  - monitor: the C08 predicates of IqDispatch evaluated on the number of   *)
(*             logged replies that carry the injected id and are addressed   *)
(*             to the injected sender;                                       *)
(*  - compare: the model's reply count / stream state vs the observation; a  *)
(*             mismatch marks the execution as diverged (conformance warning)*)
(***************************************************************************)
EXTENDS IqDispatch, Integers, Json, CSV, IOUtils

TraceLog == ndJsonDeserialize(IOEnv.QXV_TRACE)

VARIABLES l, cid, viol, nviol, ndiv, divs, dflag, ncases, nreq, nresp, nother, nclosed,
          npend, ncollide, ntdone, ntbyreq

tvars == <<vars, l, cid, viol, nviol, ndiv, divs, dflag, ncases, nreq, nresp, nother, nclosed,
           npend, ncollide, ntdone, ntbyreq>>

TInit ==
    /\ Init /\ ext = "none"
    /\ l = 1 /\ cid = "" /\ viol = {} /\ nviol = 0 /\ ndiv = 0 /\ divs = <<>> /\ dflag = FALSE /\ ncases = 0
    /\ nreq = 0 /\ nresp = 0 /\ nother = 0 /\ nclosed = 0
    /\ npend = 0 /\ ncollide = 0 /\ ntdone = 0 /\ ntbyreq = 0

(* --- facts derived from one logged line ----------------------------------- *)
\* A reply without `to` is handled by the user's server on behalf of the account: it reaches a
\* sender that is the server itself (no from / own domain) or the account (own bare JID).
AddressedToSender(x, to) == to = x.from \/ (to = "" /\ x.from \in {"", x.own, x.domain})

Replies(ev) == Cardinality({k \in 1..Len(ev.out) : ev.out[k].id = ev.x.id /\ AddressedToSender(ev.x, ev.out[k].to)})

Failed(ev) ==
    LET n == Replies(ev) IN
    {p \in {"RequestAnswered", "ResponseNotAnswered", "NoReplyLoop"} :
        CASE p = "RequestAnswered"     -> ~P_RequestAnswered(ev.t, n)
          [] p = "ResponseNotAnswered" -> ~P_ResponseNotAnswered(ev.t, n)
          [] p = "NoReplyLoop"         -> ~P_NoReplyLoop(ev.t, n)}

TDone(ev) == IF "tdone" \in DOMAIN ev THEN ev.tdone ELSE 0
HadPending(ev) == "pend" \in DOMAIN ev /\ ev.pend
Obs(ev) == [replies |-> Replies(ev), closed |-> ev.closed, tdone |-> TDone(ev) > 0]
Proj    == [replies |-> last.replies, closed |-> ~open, tdone |-> last.tdone]

ModelAct(ev) ==
    CASE ev.e = "Recv"        -> Recv(ev.t, ev.p, ev.f, ev.k)
      [] ev.e = "SendRequest" -> SendRequest(ev.peer)
      [] OTHER                -> FALSE

ResetStep(ev) ==
    /\ Reinit(ev.ext)
    /\ cid' = ev.case /\ dflag' = FALSE /\ ncases' = ncases + 1
    /\ UNCHANGED <<viol, nviol, ndiv, divs, nreq, nresp, nother, nclosed, npend, ncollide, ntdone, ntbyreq>>

OpStep(ev) ==
    /\ \/ ModelAct(ev)
       \/ (~ENABLED ModelAct(ev)) /\ UNCHANGED vars
    \* one record per (property, extension set, type, payload, sender class, id collides with an outstanding
    \* request): the first line that shows it
    /\ LET coll == HadPending(ev) /\ ev.k = "pending" IN
       viol' = viol \cup {[case |-> cid, line |-> l, prop |-> p, ext |-> ext, t |-> ev.t, p |-> ev.p, f |-> ev.f, k |-> ev.k,
                           coll |-> coll, peer |-> pending, n |-> Replies(ev)] :
                              p \in {q \in Failed(ev) : ~\E v \in viol : v.prop = q /\ v.ext = ext /\ v.t = ev.t /\ v.p = ev.p
                                                                           /\ v.f = ev.f /\ v.coll = coll}}
    /\ nviol' = nviol + Cardinality(Failed(ev))
    /\ nreq' = nreq + (IF ev.t \in Req THEN 1 ELSE 0)
    /\ nresp' = nresp + (IF ev.t \in Resp THEN 1 ELSE 0)
    /\ nother' = nother + (IF ev.t \notin (Req \cup Resp) THEN 1 ELSE 0)
    /\ nclosed' = nclosed + (IF ev.closed THEN 1 ELSE 0)
    /\ UNCHANGED npend
    \* IQs injected with the id of an outstanding request of the client / task completions / completions
    \* caused by something that is not a response (observation only: that clause belongs to C07)
    /\ ncollide' = ncollide + (IF HadPending(ev) /\ ev.k = "pending" THEN 1 ELSE 0)
    /\ ntdone' = ntdone + TDone(ev)
    /\ ntbyreq' = ntbyreq + (IF ~P_TaskOnlyByResponse(ev.t, TDone(ev) > 0) THEN 1 ELSE 0)
    /\ LET d == Proj' # Obs(ev) IN
        /\ dflag' = (dflag \/ d)
        /\ ndiv' = IF d /\ ~dflag THEN ndiv + 1 ELSE ndiv
        /\ divs' = IF d /\ ~dflag /\ Len(divs) < 40
                   THEN Append(divs, [case |-> cid, line |-> l, ext |-> ext, t |-> ev.t, p |-> ev.p, f |-> ev.f,
                                      model |-> Proj', impl |-> Obs(ev)]) ELSE divs
    /\ UNCHANGED <<cid, ncases>>

\* the harness made the client issue a tracked request: the model follows, nothing is judged
ReqStep(ev) ==
    /\ \/ ModelAct(ev)
       \/ (~ENABLED ModelAct(ev)) /\ UNCHANGED vars
    /\ npend' = npend + 1
    /\ UNCHANGED <<cid, viol, nviol, ndiv, divs, dflag, ncases, nreq, nresp, nother, nclosed, ncollide, ntdone, ntbyreq>>

TNext ==
    /\ l <= Len(TraceLog)
    /\ l' = l + 1
    /\ LET ev == TraceLog[l] IN
        IF ev.e = "Reset" THEN ResetStep(ev)
        ELSE IF ev.e = "Recv" THEN OpStep(ev)
        ELSE IF ev.e = "SendRequest" THEN ReqStep(ev)
        ELSE UNCHANGED <<vars, cid, viol, nviol, ndiv, divs, dflag, ncases, nreq, nresp, nother, nclosed,
                         npend, ncollide, ntdone, ntbyreq>>

TSpec == TInit /\ [][TNext]_tvars

Summary == [cases |-> ncases, lines |-> l - 1, viol |-> viol, nviol |-> nviol, ndiv |-> ndiv, divs |-> divs,
            requests |-> nreq, responses |-> nresp, othertype |-> nother, closed |-> nclosed,
            tracked |-> npend, idcollisions |-> ncollide, taskdone |-> ntdone, taskdonebyrequest |-> ntbyreq]
Done == l <= Len(TraceLog) \/ CSVWrite("%1$s", <<ToJson(Summary)>>, IOEnv.QXV_SUMMARY)
=============================================================================
