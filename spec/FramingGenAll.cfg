SPECIFICATION Spec
CONSTANTS
  Shapes <- ModelShapes
  Decoder = "stateful"
  Cache = "refresh"
  Limit = 0
INVARIANTS TypeOK PrefixOK CompleteOK Quiescent
PROPERTIES AppendOnly
ACTION_CONSTRAINT EmitBehaviour
CHECK_DEADLOCK FALSE
