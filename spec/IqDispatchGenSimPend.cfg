SPECIFICATION Spec
CONSTANTS
  Types = {"get", "set", "result", "error", "absent", "garbage"}
  Payloads = {"none", "text", "unknown", "unknownQuery", "version", "discoInfo", "discoInfoNode", "discoItems", "time", "ping", "vcard", "roster", "rosterEmpty", "archiveChat", "archiveList", "archivePref", "archiveRetrieve", "block", "unblock", "blocklist", "private", "mamFin", "mamQuery", "mucAdmin", "mucOwner", "register", "rpc", "rpcBad", "ibbOpen", "ibbData", "ibbClose", "bytestreams", "si", "siBadProfile", "uploadRequest", "uploadSlot", "jingle", "pubsub", "pubsubOwner", "bind", "session", "carbonsEnable", "extdisco", "pushEnable", "mixJoin", "bob", "errorOnly", "version+unknown", "unknown+version", "unknown+vcard", "unknown+si"}
  Froms = {"Empty", "OwnBare", "OwnFullSelf", "OwnFullOther", "Domain", "Contact", "ContactBare"}
  ExtSets = {"none", "default", "all", "allrev"}
  IdKinds = {"fresh", "dup", "pending"}
  Peers = {"OwnBare", "OwnFullSelf", "OwnFullOther", "Domain", "Contact", "ContactBare"}
  Deferred = FALSE
  MaxHosts = 2
  MaxHist = 99
VIEW PendView
ACTION_CONSTRAINT EmitPendingBehaviour
CHECK_DEADLOCK FALSE
