--------------------------- MODULE ClientStreamGen ---------------------------
(* Behaviour export for ClientStream (see TaskGen).  GenView is deliberately *)
(* coarser than the model-checking View: it drops the ghosts and the flags   *)
(* that only matter much later (bindAvail, smAvail, conn), so the transition *)
(* tour stays small enough to replay over real sockets; the exhaustive check *)
(* of the properties is ClientStream.cfg, not this.                          *)
EXTENDS ClientStreamMC, Json, CSV, IOUtils

\* `key` classifies the transition (source class, input, reaction); lib/props/C04.py replays a few
\* shortest behaviours per distinct key instead of all ~3*10^5 transitions
EmitBehaviour ==
    CSVWrite("%1$s", <<ToJson([cfg |-> cfg', steps |-> hist',
                               key |-> [tls |-> cfg.tls, lst |-> c.lst, lq |-> c.lq, enc |-> c.enc, session |-> c.session,
                                        authed |-> c.authed, canResume |-> c.canResume, iq |-> c.iq, redirect |-> c.redirect,
                                        conf |-> conf, prev |-> prev, out |-> lastOut', sig |-> lastSig', lst2 |-> c'.lst, endSock |-> c'.sock]])>>, IOEnv.QXV_GEN)

PrevClass == IF prev.none THEN 0 ELSE IF prev.authed THEN 2 ELSE 1
GenView == <<cfg, PrevClass, c.sock, c.enc, c.wrap, c.lst, c.lq, c.ver, c.authed, c.session, c.smEnabled, c.smResumed,
             c.canResume, c.redirect, c.mech, c.step, c.iq>>

=============================================================================
