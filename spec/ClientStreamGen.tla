--------------------------- MODULE ClientStreamGen ---------------------------
(* Behaviour export for ClientStream (see TaskGen).  GenView is deliberately *)
(* coarser than the model-checking View: it drops the ghosts and the flags   *)
(* that only matter much later (bindAvail, smAvail, conn), so the transition *)
(* tour stays small enough to replay over real sockets; the exhaustive check *)
(* of the properties is ClientStream.cfg, not this.                          *)
EXTENDS ClientStreamMC, Json, CSV, IOUtils

\* `key` classifies the transition (source class, input, reaction); lib/props/C04.py replays a few
\* shortest behaviours per distinct key instead of all ~3*10^6 transitions.  (`last` repeats the
\* last step inside the key so that the text before "steps" identifies cfg, key and input: the
\* generator runs breadth-first with one worker, so the first line with a given prefix carries a
\* shortest behaviour for it and all later ones are dropped without being decoded.)
EmitBehaviour ==
    CSVWrite("%1$s", <<ToJson([cfg |-> cfg',
                               key |-> [tls |-> cfg.tls, lst |-> c.lst, lq |-> c.lq, enc |-> c.enc, session |-> c.session,
                                        authed |-> c.authed, canResume |-> c.canResume, iq |-> c.iq, redirect |-> c.redirect,
                                        conf |-> conf, prev |-> prev, last |-> hist'[Len(hist')], out |-> lastOut', sig |-> lastSig', lst2 |-> c'.lst, endSock |-> c'.sock],
                               steps |-> hist'])>>, IOEnv.QXV_GEN)

\* what the previous connection of this client object left behind: nothing / an authenticated
\* stream / (not authenticated) the negotiation manager that was waiting for an answer
PrevClass == IF prev.none THEN "none" ELSE IF prev.authed THEN "authed" ELSE prev.lst
GenView == <<cfg, PrevClass, c.sock, c.enc, c.wrap, c.frag, c.lst, c.lq, c.ver, c.authed, c.session, c.smEnabled, c.smResumed,
             c.canResume, c.redirect, c.mech, c.step, c.iq>>

=============================================================================
