SPECIFICATION Spec
CONSTANTS
  Peers = {"p1", "p2"}
  Ress = {"r1"}
  PeerIds = {"lo1", "hi1"}
  Types = {"propose", "proceed", "reject", "retract", "finish"}
  Variants = {"plain"}
  Wfs = {"ok"}
  Modes = {"sm", "up"}
  Kinds = {"Propose", "Proceed", "Reject", "Retract", "Finish", "Recv", "Ack", "FailAll"}
  MaxJ = 2
  MaxP = 2
  MaxQ = 2
  MaxHist = 99
INVARIANTS TypeOK Conforms ListOK IdsOK QueueOK
VIEW View
CHECK_DEADLOCK FALSE
