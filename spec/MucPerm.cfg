SPECIFICATION Spec
CONSTANTS
  Rooms = {"r1", "r2"}
  Foreign = {"rx"}
  Nicks = {"n1"}
  Items = {"owner"}
  Codes = {"self"}
  UnKinds = {"leave"}
  MsgNicks = {"-"}
  MsgTypes = {"groupchat"}
  Subjects = {"s1"}
  Names = {}
  Users = {"u1"}
  Kinds = {"ReqPerm", "PermRes", "ReqConf", "ConfRes", "Disconnect", "Connect"}
  MaxHist = 99
INVARIANTS TypeOK JoinedIffOccupant PartsAreLatest OutsideIsEmpty NickInTable NoSessionNoRoom
PROPERTIES SignalsOnce Isolation PermTied
VIEW View
CHECK_DEADLOCK FALSE
