SPECIFICATION Spec
CONSTANTS
  Ids = {"i1", "i2"}
  Tos = {"none", "full"}
  RFroms = {"exact", "absent", "stranger"}
  Types = {"result", "error"}
  OpenKinds = {"plain", "sm", "smr", "resumed"}
  Cids = {"fresh", "empty", "dup"}
  Bodies = {"none"}
  Attempts = {}
  IdRule = "replace"
  MaxHist = 99
VIEW GenViewNoCid
ACTION_CONSTRAINT EmitBehaviour
CHECK_DEADLOCK FALSE
