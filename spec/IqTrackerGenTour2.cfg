SPECIFICATION Spec
CONSTANTS
  Ids = {"i1", "i2"}
  Tos = {"none", "full"}
  RFroms = {"exact", "absent", "stranger", "bareOf"}
  Types = {"result", "error"}
  OpenKinds = {"plain", "sm", "smr", "resumed"}
  MaxHist = 99
VIEW GenView
ACTION_CONSTRAINT EmitBehaviour
CHECK_DEADLOCK FALSE
