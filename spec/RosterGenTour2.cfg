SPECIFICATION Spec
CONSTANTS
  Jids = {"c1", "c2"}
  Items <- ItemsTwo
  Ress = {"r1"}
  Froms = {"absent", "ownBare", "ownFull", "ownOther", "server", "stranger", "contact", "look1", "look2", "look3"}
  ConnKinds = {"plain", "sm", "smr", "resumed"}
  MaxReqs = 2
  MaxItems = 1
  MaxHist = 99
CONSTRAINT ReqBound
VIEW GenView
ACTION_CONSTRAINT EmitBehaviour
CHECK_DEADLOCK FALSE
