SPECIFICATION TSpec
CONSTANTS
  Jids = {"c1", "c2", "c3"}
  Items <- ItemsFields
  Ress = {"r1", "r2", "bare"}
  Froms = {"absent", "ownBare", "ownFull", "ownOther", "server", "stranger", "contact", "look1", "look2", "look3"}
  ConnKinds = {"plain", "sm", "smr", "resumed"}
  MaxReqs = 99
  MaxItems = 9
  MaxHist = 99
INVARIANT Done
CHECK_DEADLOCK FALSE
