------------------------- MODULE SaslExchangeTrace -------------------------
(***************************************************************************)
(* Trace validation for SaslExchange (C06, message-sequence half).  The    *)
(* trace is written by `qxv saslexchange`:                                 *)
(*   {"e":"Reset","case":"b7","mech":"SCRAM","cm":"SCRAM-SHA-256","v":1}   *)
(*   {"e":"Auth","o":OBS}                                                   *)
(*   {"e":"Challenge","t":"SF","x":"ext","y":"ok","z":"ok","o":OBS} ...    *)
(* e/t/x/y/z = the server element and the abstract payload the harness      *)
(* delivered (inputs); OBS = what the real manager did: res (what the       *)
(* caller of authenticate() has been told), err, ret (HandleElementResult), *)
(* kinds (abstract elements sent by this call), n (elements sent so far).   *)
(*                                                                          *)
(*  - model:   SaslExchange's action for the logged element;                *)
(*  - monitor: `mon`: ghosts derived from the logged inputs (has the server *)
(*             presented the right / a wrong proof) and from observations   *)
(*             (did the client answer the server-first, what has the caller *)
(*             been told); the P_* predicates of SaslExchange are evaluated *)
(*             on it;                                                       *)
(*  - compare: model projection vs observation; a mismatch marks the        *)
(*             execution diverged.                                          *)
(* The byte-level half of C06 (each response equals the RFC's) is checked   *)
(* by lib/props/C06.py against lib/refcrypto.py on the same trace.          *)
(***************************************************************************)
EXTENDS SaslExchange, Integers, Json, CSV, IOUtils

TraceLog == ndJsonDeserialize(IOEnv.QXV_TRACE)

VARIABLES l, cid, mon, viol, ndiv, divs, dflag, ncases
tvars == <<vars, l, cid, mon, viol, ndiv, divs, dflag, ncases>>

Mon0 == [res |-> "Pending", n |-> 0, am |-> FALSE, proved |-> FALSE, verif |-> FALSE, bad |-> FALSE]

Reinit(m, v) ==
    /\ mech' = m /\ ver' = v
    /\ step' = 1 /\ result' = "Pending" /\ err' = "" /\ sent' = 1
    /\ lastOut' = <<"initial">> /\ lastRet' = "" /\ sf' = NoSF
    /\ verified' = FALSE /\ aborted' = FALSE /\ proved' = FALSE /\ badProof' = FALSE /\ post' = 0
    /\ hist' = <<>>

TInit ==
    /\ Init /\ mech = "PLAIN" /\ ver = 1
    /\ l = 1 /\ cid = "" /\ mon = Mon0 /\ viol = {} /\ ndiv = 0 /\ divs = <<>> /\ dflag = FALSE /\ ncases = 0

Abs(k) == IF k \in {"client-final", "digest-response"} THEN "data" ELSE k
Proj == [res |-> result, err |-> err, ret |-> lastRet, kinds |-> [i \in DOMAIN lastOut |-> Abs(lastOut[i])], n |-> sent]
ObsProj(o) == [res |-> o.res, err |-> o.err, ret |-> o.ret, kinds |-> o.kinds, n |-> o.n]

Payload(ev) == P(ev.t, ev.x, ev.y, ev.z)

ModelAct(ev) ==
    CASE ev.e = "Challenge" -> Challenge(Payload(ev))
      [] ev.e = "Success"   -> Success(Payload(ev))
      [] ev.e = "Failure"   -> Failure
      [] ev.e = "Continue"  -> Continue
      [] OTHER              -> FALSE

(* ghosts from inputs + observations only *)
TRefusable(m, ev) == BadInput(mech, ev.e, Payload(ev)) /\ ~m.verif /\ (mech = "DIGEST" => m.am)

MonNext(m, ev) ==
    LET o == ev.o
        p == Payload(ev)
        pending == m.res = "Pending"
        carries == ev.e \in {"Challenge", "Success"}
        right == carries /\ p.t \in {"FIN", "RSP"} /\ p.x = "right" /\ m.am /\ pending
        answered == pending /\ ev.e = "Challenge" /\ (ValidSF(p) \/ ValidDC(p)) /\ o.kinds = <<"data">>
    IN [res |-> o.res, n |-> o.n,
        am |-> m.am \/ answered,
        proved |-> m.proved \/ (mech = "SCRAM" /\ right),
        verif |-> m.verif \/ right,
        bad |-> m.bad \/ (pending /\ TRefusable(m, ev) /\ p.t \in {"FIN", "RSP"})]

Props == {"ScramProved", "NoSuccessAfterBadProof", "RefusedSilent", "Final", "Rejects"}
Failed(m, n, ev) ==
    {p \in Props :
        CASE p = "ScramProved"            -> ~P_ScramProved(mech, n.res, n.proved)
          [] p = "NoSuccessAfterBadProof" -> ~P_NoSuccessAfterBadProof(n.res, n.bad)
          [] p = "RefusedSilent"          -> ~P_RefusedSilent(m.res, n.res, ev.o.kinds)
          [] p = "Final"                  -> ~(P_Final(m.res, n.res, ev.o.kinds) /\ (m.res # "Pending" => n.n = m.n))
          [] p = "Rejects"                -> ~P_Rejects(m.res, n.res, TRefusable(m, ev))}

Diverge(d, ev) ==
    /\ dflag' = (dflag \/ d)
    /\ ndiv' = IF d /\ ~dflag THEN ndiv + 1 ELSE ndiv
    /\ divs' = IF d /\ ~dflag /\ Len(divs) < 10
               THEN Append(divs, [case |-> cid, line |-> l, model |-> Proj', impl |-> ObsProj(ev.o)]) ELSE divs

ResetStep(ev) ==
    /\ Reinit(ev.mech, ev.v)
    /\ cid' = ev.case /\ mon' = Mon0 /\ dflag' = FALSE /\ ncases' = ncases + 1
    /\ UNCHANGED <<viol, ndiv, divs>>

AuthStep(ev) ==
    /\ UNCHANGED vars
    /\ mon' = [mon EXCEPT !.res = ev.o.res, !.n = ev.o.n]
    /\ Diverge(Proj' # ObsProj(ev.o), ev)
    /\ UNCHANGED <<viol, cid, ncases>>

OpStep(ev) ==
    /\ \/ ModelAct(ev)
       \/ (~ENABLED ModelAct(ev)) /\ UNCHANGED vars
    /\ mon' = MonNext(mon, ev)
    /\ viol' = viol \cup {[case |-> cid, line |-> l, prop |-> p, e |-> ev.e] : p \in Failed(mon, mon', ev)}
    /\ Diverge(Proj' # ObsProj(ev.o), ev)
    /\ UNCHANGED <<cid, ncases>>

TNext ==
    /\ l <= Len(TraceLog)
    /\ l' = l + 1
    /\ LET ev == TraceLog[l] IN
        CASE ev.e = "Reset" -> ResetStep(ev)
          [] ev.e = "Auth"  -> AuthStep(ev)
          [] OTHER          -> OpStep(ev)

TSpec == TInit /\ [][TNext]_tvars

Summary == [cases |-> ncases, lines |-> l - 1, viol |-> viol, ndiv |-> ndiv, divs |-> divs]
Done == l <= Len(TraceLog) \/ CSVWrite("%1$s", <<ToJson(Summary)>>, IOEnv.QXV_SUMMARY)
=============================================================================
