------------------------------ MODULE TaskGen ------------------------------
(* Behaviour export for Task: every transition TLC generates writes the     *)
(* operation sequence that leads to it (see lib/vf.py: gen_behaviours).     *)
(* With VIEW View (TaskGenTour.cfg) hist is the BFS-shortest path to the    *)
(* source state plus the step: a transition tour.  Without a VIEW           *)
(* (TaskGenAll.cfg) every path up to MaxHist is a distinct state: all paths.*)
EXTENDS Task, Json, CSV, IOUtils

EmitBehaviour ==
    CSVWrite("%1$s", <<ToJson([kind |-> kind', steps |-> hist'])>>, IOEnv.QXV_GEN)
=============================================================================
