SPECIFICATION TSpec
CONSTANTS
  Classes = {"Plain", "Lt", "Gt", "Amp", "Quot", "Apos", "NonAscii", "Astral", "InnerSpace", "Newline"}
  MaxLen = 1
  NSlots = 1
  Contexts = {"attr", "text"}
INVARIANT Done
CHECK_DEADLOCK FALSE
