SPECIFICATION Spec
CONSTANTS
  Shapes <- ModelShapes
  Decoder = "perread"
  Cache = "refresh"
  Limit = 0
INVARIANTS TypeOK PrefixOK CompleteOK Quiescent
PROPERTIES AppendOnly
VIEW View
CHECK_DEADLOCK FALSE
