------------------------------ MODULE Carbons ------------------------------
(***************************************************************************)
(* XEP-0280 message carbons as handled by QXmppCarbonManagerV2::handleStanza *)
(* (src/client/QXmppCarbonManagerV2.cpp) and QXmppCarbonManager::handleStanza*)
(* (src/client/QXmppCarbonManager.cpp), property C11.                       *)
(*                                                                         *)
(* One client (generation `gen`, configured JID variant `jidcfg`) receives a *)
(* sequence of <message/> stanzas.  Each is described by                    *)
(*   c  the class of the *outer* `from` relative to the configured bare JID  *)
(*      (the sender-class lattice of DESIGN.md, C11),                        *)
(*   w  how (and whether) it wraps another message,                          *)
(*   i  the kind of the wrapped (inner) message.                             *)
(* The application is shown messages through QXmppClient::messageReceived,   *)
(* message-handler extensions and (generation v1) the manager's own          *)
(* messageSent / messageReceived signals; `last` is what it was shown for    *)
(* the last stanza, `unwrappedFrom` the set of sender classes whose wrapper  *)
(* was ever unwrapped (ghost).                                               *)
(*                                                                         *)
(* Intended behaviour (= what the handlers do): a stanza is unwrapped iff it *)
(* has a <sent/> or <received/> child in urn:xmpp:carbons:2 that holds       *)
(* <forwarded xmlns='urn:xmpp:forward:0'><message xmlns='jabber:client'/>,   *)
(* and the outer `from` is *exactly* the configured bare JID.  Then the      *)
(* application sees the inner message, flagged as carbon-forwarded, and not  *)
(* the outer one.  Otherwise it sees the outer stanza as an ordinary message *)
(* from the outer sender.                                                    *)
(***************************************************************************)
EXTENDS Naturals, Sequences, FiniteSets, TLC

CONSTANTS Classes,     \* sender classes of the outer stanza
          Wrappers,    \* wrapper shapes
          Inners,      \* inner message kinds
          Gens,        \* {"v1","v2"}: QXmppCarbonManager / QXmppCarbonManagerV2
          JidCfgs,     \* configured-JID variants of the client
          Estabs,      \* ways the own address of the session is established (see `estab`)
          Hows,        \* ways the application re-configures the account of a live client object (may be {})
          MaxHist

VARIABLES gen,
          estab,           \* how the own address of the session was established: "configured" (the application set the
                           \* JID, the session just uses it) or "bound<R>": the server assigned the full JID in the RFC 6120
                           \* bind result, with a resource of class R (Plain, Slash, At, Unicode, Long)
          jidcfg,          \* the JID the client object is configured with *now*
          prev,            \* the JID it was configured with before the last Reconfigure ("none": never re-configured)
          lasthow,         \* ghost: how the last Reconfigure was done ("none": never); influences nothing
          last,            \* what the application was shown for the last stanza
          unwrappedFrom,   \* ghost: classes from which a wrapper was unwrapped
          hist

mvars == <<gen, estab, jidcfg, prev, last, unwrappedFrom>>
vars  == <<mvars, lasthow, hist>>

(* --- vocabulary ----------------------------------------------------------- *)
AllClasses ==
    {"OwnBare",         \* exactly the configured bare JID
     "OwnBareCase",     \* the same address in another letter case (same address under nodeprep/nameprep)
     "OwnFullSelf",     \* configured bare JID + "/" + own resource
     "OwnFullOther",    \* configured bare JID + "/" + another resource
     "OwnBareSlash",    \* configured bare JID + "/" (empty resource)
     "OwnBareSpace",    \* configured bare JID with leading/trailing blank
     "Domain",          \* the bare server domain
     "SuffixLookalike", \* own bare JID is a proper prefix:  me@example.org.evil.net
     "PrefixLookalike", \* own bare JID is a proper suffix:  xme@example.org
     "Truncated",       \* a proper prefix of the own bare JID: me@example.or
     "Empty",           \* no from attribute / from=''
     "Contact",         \* some other bare JID
     "ContactFull",     \* some other full JID
     "OwnAsResource",   \* other bare JID with the own bare JID as resource: evil@x.org/me@example.org
     "Homoglyph",       \* visually identical, different code points
     "OwnFullPrefix",   \* bound resource contains '/': own bare JID + "/" + first segment of the resource
     "PreviousOwnBare"} \* the bare JID this client object was configured with before the application switched
                        \* accounts: now an ordinary foreign address (exists only after such a switch)

\* "plain" (me@example.org/dev1) and "nores" (me@example.org) are the same account; "mixed" is another one
SameAccount(a, b) == a = b \/ {a, b} \subseteq {"plain", "nores"}
\* the class PreviousOwnBare denotes an address (different from the own one) only after a switch of account
\* The own bare address is what RFC 7622 says it is: everything before the FIRST '/' of the full JID.  When the
\* server bound a resource that itself contains '/' (legal: romeo@montague.example/QXmpp/7f3a), the bare JID plus
\* the first resource segment (romeo@montague.example/QXmpp) is one more forged-sender class: OwnFullPrefix.
ClassExists(c) == /\ c = "PreviousOwnBare" => (prev # "none" /\ ~SameAccount(prev, jidcfg))
                  /\ c = "OwnFullPrefix" => estab = "boundSlash"

\* classes that denote the user's own bare address (XMPP addresses compare modulo case folding)
OwnBareClasses == {"OwnBare", "OwnBareCase"}

AllWrappers ==
    {"none",        \* ordinary message with a body, no wrapper
     "sent",        \* <sent xmlns=carbons><forwarded><message/></forwarded></sent>
     "received",    \* <received .../>
     "sentBody",    \* outer has its own body and other payloads, then <sent/>
     "recvBody",    \* the same with <received/>
     "privSent",    \* <private xmlns=carbons/> first, then <sent/>
     "both",        \* <sent/> and <received/> with two different inner messages (sent first)
     "nestedSent",  \* <sent/> whose inner message is itself a <received/> carbon of a second message
     "nestedRecv",  \* <received/> whose inner message is itself a <sent/> carbon
     "emptyCarbon", \* <sent/> without <forwarded/>
     "fwdWrongNs",  \* <sent/> with <forwarded/> in a foreign namespace
     "msgWrongNs",  \* <sent/> with <forwarded/> whose <message/> is in a foreign namespace
     "fwdOnly",     \* bare <forwarded/> (XEP-0297) without carbon wrapper
     "wrongNs"}     \* <sent/> in a foreign namespace (urn:xmpp:carbons:1)

\* Inner message kinds (what the wrapped message is and which markers it carries itself; the model does not
\* depend on them, the harness builds the message and the monitor compares what is shown with exactly it):
AllInners ==
    {"chatIn", "chatOut", "spoof", "noBody", "error", "rich",
     "private",     \* carries <private xmlns='urn:xmpp:carbons:2'/> itself (the other XEP-0280 marker)
     "noCopy",      \* carries the XEP-0334 <no-copy/> and <no-store/> hints
     "delay",       \* carries a XEP-0203 delay stamp
     "headline", "groupchat",
     "fwdInside"}   \* carries a XEP-0297 <forwarded/> of its own with a third message inside

\* the stanza carries a carbon element the managers recognise ...
IsCarbon(w) == w \in {"sent", "received", "sentBody", "recvBody", "privSent", "both", "nestedSent", "nestedRecv",
                      "emptyCarbon", "fwdWrongNs", "msgWrongNs"}
\* ... which holds a forwarded message
HasInner(w) == IsCarbon(w) /\ w \notin {"emptyCarbon", "fwdWrongNs", "msgWrongNs"}
\* direction named by the (first) carbon element
Dir(w) == IF w \in {"received", "recvBody", "nestedRecv"} THEN "received" ELSE "sent"

NoShow == [what |-> "nothing", fwd |-> FALSE, dir |-> "plain"]

Init ==
    /\ gen \in Gens /\ jidcfg \in JidCfgs /\ estab \in Estabs
    /\ prev = "none" /\ lasthow = "none"
    /\ last = NoShow
    /\ unwrappedFrom = {}
    /\ hist = <<>>

Log(r) == hist' = Append(hist, r)

\* As the code is: QXmppCarbonManagerV2 looks at the *first* child in the carbons namespace only, so a
\* <private/> element in front of the wrapper makes it ignore the wrapper (v1 searches by tag name).
FirstCarbonChildIsWrapper(g, w) == ~(g = "v2" /\ w = "privSent")

Unwraps(c, w) == HasInner(w) /\ c = "OwnBare" /\ FirstCarbonChildIsWrapper(gen, w)

(* --- the one handler: a <message/> arrives -------------------------------- *)
Recv(c, w, i) ==
    /\ ClassExists(c)
    /\ Log([a |-> "Recv", c |-> c, w |-> w, i |-> i])
    /\ IF Unwraps(c, w)
       THEN \* handleStanza: parse the inner message, flag it, present it, swallow the outer stanza
            /\ last' = [what |-> "inner", fwd |-> TRUE, dir |-> Dir(w)]
            /\ unwrappedFrom' = unwrappedFrom \cup {c}
       ELSE \* handleStanza returns false: the outer stanza goes down the ordinary message path
            /\ last' = [what |-> "outer", fwd |-> FALSE, dir |-> "plain"]
            /\ UNCHANGED unwrappedFrom
    /\ UNCHANGED <<gen, estab, jidcfg, prev, lasthow>>

(* --- the application changes the account of the same client object -------- *)
\* (environment move between two stanzas: configuration().setJid(), setUser()+setDomain(), assigning a new
\* configuration object, ...).  From then on "own bare JID" means the new one: every sender class of a later
\* Recv is relative to jidcfg', and the old bare JID is just somebody else's address.
Reconfigure(j, how) ==
    /\ j # jidcfg
    /\ Log([a |-> "Reconfigure", j |-> j, how |-> how, from |-> jidcfg])
    /\ prev' = jidcfg /\ jidcfg' = j /\ lasthow' = how
    /\ UNCHANGED <<gen, estab, last, unwrappedFrom>>

Next == \/ \E c \in Classes : \E w \in Wrappers : \E i \in Inners : Recv(c, w, i)
        \/ \E j \in JidCfgs : \E how \in Hows : Reconfigure(j, how)

Spec == Init /\ [][Next]_vars

(* --- properties (C11) ------------------------------------------------------ *)
\* Written over observable quantities so that CarbonsTrace evaluates the same
\* predicates on what the implementation showed the application.
\*   c        sender class of the outer stanza
\*   touched  some message shown carries inner content or the forwarded flag
\*   exact    every such message is exactly the inner message, flagged
\*   outerOk  every message shown is exactly the outer stanza, unflagged, at most once per channel
P_OnlyOwnBare(c, touched)      == touched => c \in OwnBareClasses
P_Exact(touched, exact)        == touched => exact
P_OuterOnly(c, outerOk)        == c \notin OwnBareClasses => outerOk

OnlyOwnBare == unwrappedFrom \subseteq {"OwnBare"}
ExactInner  == last.what = "inner" => last.fwd
OuterPlain  == last.what = "outer" => ~last.fwd
TypeOK ==
    /\ estab \in Estabs
    /\ gen \in Gens /\ jidcfg \in JidCfgs /\ prev \in JidCfgs \cup {"none"} /\ prev # jidcfg
    /\ last.what \in {"nothing", "inner", "outer"} /\ last.fwd \in BOOLEAN
    /\ unwrappedFrom \subseteq Classes

\* action property: whenever a step shows inner content, that step's outer sender was the own bare JID
NeverFromOthers == [][(hist'[Len(hist')].a = "Recv" /\ last'.what = "inner") => hist'[Len(hist')].c = "OwnBare"]_vars

Reinit(g, j, es) ==
    /\ gen' = g /\ jidcfg' = j /\ estab' = es
    /\ prev' = "none" /\ lasthow' = "none"
    /\ last' = NoShow
    /\ unwrappedFrom' = {}
    /\ hist' = <<>>

Bound == Len(hist) <= MaxHist
View  == mvars                  \* MC: state identity without history
TourView == <<gen, jidcfg, estab>>     \* tour: one source state per client configuration

\* Tour after a switch of account: every behaviour is  Recv(OwnBare, sent, .) -- the handler reads the
\* configured bare JID once --, then one Reconfigure(j, how), then one Recv of the tour.
ReconfPhase == IF Len(hist) < 2 THEN Len(hist) ELSE 2
ReconfView  == <<gen, estab, jidcfg, prev, lasthow, ReconfPhase>>
ReconfShape ==
    CASE Len(hist) = 0 -> hist'[1].a = "Recv" /\ hist'[1].c = "OwnBare" /\ hist'[1].w = "sent"
      [] Len(hist) = 1 -> hist'[2].a = "Reconfigure"
      [] OTHER         -> hist'[Len(hist')].a = "Recv"
=============================================================================
