SPECIFICATION Spec
CONSTANTS
  Ids = {"i1"}
  Tos = {"server"}
  RFroms = {"exact", "stranger"}
  Types = {"result"}
  OpenKinds = {"plain", "sm", "smr", "resumed"}
  Cids = {"fresh"}
  Bodies = {"none"}
  Attempts = {"authfail", "bindfail", "userabort", "precut", "abandon"}
  IdRule = "replace"
  MaxHist = 99
VIEW GenViewSess
ACTION_CONSTRAINT EmitBehaviour
CHECK_DEADLOCK FALSE
