SPECIFICATION TSpec
CONSTANTS
  Vers = {"sasl", "sasl2"}
  Mechs = {"PLAIN", "DIGEST-MD5", "ANONYMOUS", "X-UNKNOWN"}
  Creds = {"right", "wrongPw", "ownEmpty", "otherUser", "victimEmpty", "victimOwnSecret", "victimReplay", "ownOtherNonce", "ownNoNonce", "unknownPw", "unknownEmpty", "embedEmpty", "embedBareEmpty", "embedSlashEmpty", "embedKnown", "caseKnown", "malformed", "empty"}
  BindRes = {"ra", "rv"}
  Kinds = {"message", "presence", "iq"}
  Froms = {"absent", "own", "ownBare", "victim", "other", "ownOtherRes", "ownSibling", "ownCase", "ownSlash", "ownPrefix", "ownDomain", "ownLookalike"}
  Tos = {"victimBare", "victimFull", "domain", "absent"}
  Stanzas <- AllStanzas
  MaxPending = 99
  MaxRetry = 0
  MaxHist = 99
INVARIANT Done
CHECK_DEADLOCK FALSE
