SPECIFICATION Spec
CONSTANTS
  Vers = {"sasl", "sasl2"}
  Mechs = {"PLAIN", "DIGEST-MD5", "ANONYMOUS", "X-UNKNOWN"}
  Creds = {"right", "wrongPw", "otherUser", "unknownEmpty", "embedKnown", "malformed", "empty"}
  BindRes = {"ra"}
  Kinds = {"message", "presence", "iq"}
  Froms = {"absent", "own", "ownBare", "victim", "other", "ownOtherRes", "ownSibling", "ownCase", "ownSlash", "ownPrefix", "ownDomain", "ownLookalike"}
  Tos = {"victimBare", "victimFull", "domain", "absent"}
  Stanzas <- McStanzas
  MaxPending = 2
  MaxRetry = 2
  MaxHist = 99
INVARIANTS TypeOK BindOnlyAuthed AuthedOnlyApproved ApprovedSound NeverTheVictim RoutesOwn
PROPERTIES IdentityByApproval AnswersOnlyAuthed RoutedStamped
VIEW View
CHECK_DEADLOCK FALSE
