----------------------------- MODULE IbbS5Gen -----------------------------
(* Behaviour export for IbbS5 (see TaskGen).  IbbS5GenAll.cfg has no VIEW:   *)
(* every path of the bounded model.  The sockets of the replay cannot be     *)
(* single-stepped, so lib/props/C19.py keeps one behaviour per class         *)
(* (n, fault kind, unit hit) and the harness runs that class to rest.        *)
EXTENDS IbbS5, Json, CSV, IOUtils

EmitBehaviour ==
    CSVWrite("%1$s", <<ToJson([n |-> n', steps |-> hist'])>>, IOEnv.QXV_GEN)
=============================================================================
