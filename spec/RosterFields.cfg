SPECIFICATION Spec
CONSTANTS
  Jids = {"c1"}
  Items <- ItemsFields
  Ress = {"r1"}
  Froms = {"absent", "ownFull", "stranger"}
  ConnKinds = {"plain", "smr", "resumed"}
  MaxReqs = 2
  MaxItems = 1
  MaxHist = 99
CONSTRAINT ReqBound
INVARIANTS TypeOK ViewIsRef PresIsLatest
PROPERTIES UnauthPush FreshSession
VIEW View
CHECK_DEADLOCK FALSE
