SPECIFICATION Spec
CONSTANTS
  Apis = {"task", "legacy"}
  Archives = {"own"}
  Froms = {"none", "evil"}
  E2ee = FALSE
  Encs = {FALSE}
  Kinds = {"Query", "Result", "Fin", "FinErr"}
  MaxQ = 2
  MaxM = 3
  MaxD = 0
  MaxDepth = 99
  MaxHist = 99
VIEW View
ACTION_CONSTRAINT EmitBehaviour
CHECK_DEADLOCK FALSE
