----------------------------- MODULE IqApiGen -----------------------------
(* Behaviour export for IqApi.  The number of generic request APIs is the   *)
(* size of the registry of `qxv iqapi` (environment QXV_NAPIS); every       *)
(* answer script up to the all-paths depth is generated for each of them.   *)
(* Archive queries: all paths to a larger depth (IqApiGenMam.cfg).          *)
EXTENDS IqApi, Json, CSV, IOUtils

EmitBehaviour ==
    CSVWrite("%1$s", <<ToJson([steps |-> hist'])>>, IOEnv.QXV_GEN)

GenApis == {[k |-> "gen", i |-> x] : x \in 1..atoi(IOEnv.QXV_NAPIS)}
MamApis == {[k |-> "mam", i |-> 0], [k |-> "mame", i |-> 0]}
=============================================================================
