-------------------------------- MODULE Sce --------------------------------
(***************************************************************************)
(* Splitting a message for Stanza Content Encryption (XEP-0420) as used by *)
(* QXmppMessage (src/base/QXmppMessage.cpp, toXml/serializeExtensions/     *)
(* parse/parseExtensions with a QXmpp::SceMode) and the encrypted send     *)
(* path (QXmppClient::sendSensitive -> toXml(ScePublic), the e2ee manager  *)
(* -> serializeExtensions(SceSensitive) inside <content/>).                *)
(*                                                                         *)
(* A message is a set of element *kinds* (one per child element / root     *)
(* attribute the class knows; element variants that exclude each other     *)
(* share a `slot`).  The VALUE of a field is a dimension of the model      *)
(* wherever the code can branch on it: a slot has one kind per value class *)
(* -- every QXmpp::EncryptionMethod of the XEP-0380 marker, every message  *)
(* type, chat state, marker, JMI and call-invite element, both delay       *)
(* flavours, and the optional sub-fields that have their own `if` in the   *)
(* serializer (stanza-id by, MIX jid/nick, thread parent, oob description, *)
(* invitation password/reason, marker thread, spoiler hint, reply to).     *)
(* The placement of a kind never depends on the value of another kind:     *)
(* that is part of the property (a <body/> is sensitive whatever the       *)
(* encryption marker says) and what the focus configurations probe.        *)
(* The table KT is the oracle of C17: it assigns every                     *)
(* kind the category the PROPERTY STATEMENT gives it -- routing data,      *)
(* hints, ids, explicit fallback text, fallback markers -- and everything  *)
(* else is conversational payload.  It is written from the statement and   *)
(* the XEPs, not from the code; where the code disagrees the trace of the  *)
(* real classes is flagged.                                                *)
(*                                                                         *)
(* The mechanism is modelled as the code is structured: a head written by  *)
(* toXml only (root attributes, <error/>, XEP-0033 addresses), a public    *)
(* block, a public-only line (the e2ee fallback body), a sensitive block   *)
(* and a shared tail, each guarded by the mode predicate of                *)
(* QXmppGlobal.h (mode1 & mode2 == (mode1 = All \/ mode1 = mode2)).        *)
(***************************************************************************)
EXTENDS Naturals, Sequences, FiniteSets, TLC

CONSTANTS MaxSet,     \* bound on the number of kinds set on top of the base
          Ordered,    \* TRUE: kinds are set in table order (one path per set)
          Bases,      \* set of sets of kinds a behaviour may start from (focus); {{}} = none
          SendModes,  \* ways the composed message is sent through the client's ENCRYPTED path ({} = codec path only)
          PlainApis   \* ways it is sent through the unencrypted path (control, not judged)

VARIABLES msg,        \* kinds set on the message (the user's setters)
          base,       \* the kinds the behaviour started with (constant along a behaviour)
          phase,      \* "compose" | "split" | "done" (codec path) | "sentEnc" | "sentPlain" (client path)
          pub, sens, all,   \* kinds emitted by toXml(ScePublic) / serializeExtensions(SceSensitive) / toXml(SceAll)
          rec,        \* kinds whose values a fresh message holds after parse(public) ; parseExtensions(sensitive)
          wire,       \* kinds of the <message/> stanza the client put on the wire (client path)
          hist        \* behaviour export

mvars == <<msg, base, phase, pub, sens, all, rec, wire>>
vars  == <<mvars, hist>>

(* --- the table ---------------------------------------------------------- *)
\* cat: what the element IS according to the property statement
\*   "routing"  stanza addressing and delivery data (to/from/id/lang, error, XEP-0033, MIX sender data)
\*   "hint"     instructions to servers/clients about handling (XEP-0334 hints, carbons <private/>, XEP-0380 marker)
\*   "id"       XEP-0359 stanza/origin ids
\*   "fbtext"   the explicit fallback body that accompanies an encrypted message (exists only in the split)
\*   "fbmark"   XEP-0428 fallback markers (accompany both parts)
\*   "payload"  everything conversational
K(k, s, c) == [k |-> k, slot |-> s, cat |-> c]
KT == <<
  K("legacyDelay",     "stamp",       "payload"),   \* XEP-0091 (only reachable by parsing)
  \* origin class `parsed`: the message came from XML in which a sensitive element occurs TWICE -- the default one and
  \* a language variant <body xml:lang='de'/> (RFC 6121 5.2.3); both texts are distinctive and sensitive
  K("bodyLang",        "body",        "payload"),
  K("subjectLang",     "subject",     "payload"),
  K("to",              "to",          "routing"),
  K("from",            "from",        "routing"),
  K("id",              "id",          "routing"),
  K("lang",            "lang",        "routing"),
  K("typeNormal",      "type",        "routing"),   \* the type attribute (chat is the default and not a kind)
  K("typeGroupchat",   "type",        "routing"),
  K("typeHeadline",    "type",        "routing"),
  K("typeError",       "type",        "routing"),
  K("error",           "error",       "routing"),
  K("addresses",       "addresses",   "routing"),   \* XEP-0033
  K("fallbackBody",    "fallbackBody", "fbtext"),
  K("private",         "private",     "hint"),      \* XEP-0280
  K("hintNoPermanentStore", "hintNoPermanentStore", "hint"),   \* XEP-0334 (independent flags)
  K("hintNoStore",     "hintNoStore", "hint"),
  K("hintNoCopy",      "hintNoCopy",  "hint"),
  K("hintStore",       "hintStore",   "hint"),
  K("stanzaId",        "stanzaId",    "id"),        \* XEP-0359
  K("stanzaIdNoBy",    "stanzaId",    "id"),
  K("originId",        "originId",    "id"),
  K("mix",             "mix",         "routing"),   \* XEP-0369 <mix><jid/><nick/></mix>
  K("mixJidOnly",      "mix",         "routing"),
  K("mixNickOnly",     "mix",         "routing"),
  K("emeCustom",       "eme",         "hint"),      \* XEP-0380, one kind per QXmpp::EncryptionMethod value
  K("emeOtr",          "eme",         "hint"),      \*   (NoEncryption = the kind is not set;
  K("emeLegacyOpenPgp", "eme",        "hint"),      \*    UnknownEncryption = a custom namespace with a name)
  K("emeOx",           "eme",         "hint"),
  K("emeOmemo0",       "eme",         "hint"),
  K("emeOmemo1",       "eme",         "hint"),
  K("emeOmemo2",       "eme",         "hint"),
  K("subject",         "subject",     "payload"),
  K("body",            "body",        "payload"),
  K("thread",          "thread",      "payload"),
  K("threadNoParent",  "thread",      "payload"),
  K("oob",             "oob",         "payload"),   \* XEP-0066
  K("oobNoDesc",       "oob",         "payload"),
  K("xhtml",           "xhtml",       "payload"),   \* XEP-0071
  K("stateActive",     "state",       "payload"),   \* XEP-0085
  K("stateInactive",   "state",       "payload"),
  K("stateGone",       "state",       "payload"),
  K("stateComposing",  "state",       "payload"),
  K("statePaused",     "state",       "payload"),
  K("delay",           "stamp",       "payload"),   \* XEP-0203
  K("receiptReceived", "receiptReceived", "payload"),   \* XEP-0184
  K("receiptRequest",  "receiptRequest",  "payload"),
  K("attention",       "attention",   "payload"),   \* XEP-0224
  K("mucInvitation",   "mucInvitation", "payload"), \* XEP-0249
  K("mucInvitationBare", "mucInvitation", "payload"),
  K("bob",             "bob",         "payload"),   \* XEP-0231
  K("replace",         "replace",     "payload"),   \* XEP-0308
  K("markable",        "markable",    "payload"),   \* XEP-0333
  K("markerReceived",  "marker",      "payload"),
  K("markerDisplayed", "marker",      "payload"),
  K("markerDisplayedNoThread", "marker", "payload"),
  K("markerAcknowledged", "marker",   "payload"),
  K("jmiPropose",      "jmi",         "payload"),   \* XEP-0353
  K("jmiRinging",      "jmi",         "payload"),
  K("jmiProceed",      "jmi",         "payload"),
  K("jmiReject",       "jmi",         "payload"),
  K("jmiRetract",      "jmi",         "payload"),
  K("jmiFinish",       "jmi",         "payload"),
  K("attachTo",        "attachTo",    "payload"),   \* XEP-0367
  K("spoiler",         "spoiler",     "payload"),   \* XEP-0382
  K("spoilerBare",     "spoiler",     "payload"),
  K("mixInvitation",   "mixInvitation", "payload"), \* XEP-0407
  K("trustMessage",    "trustMessage", "payload"),  \* XEP-0434
  K("reaction",        "reaction",    "payload"),   \* XEP-0444
  K("fileShare",       "fileShare",   "payload"),   \* XEP-0447
  K("fileSources",     "fileSources", "payload"),
  K("reply",           "reply",       "payload"),   \* XEP-0461
  K("replyNoTo",       "reply",       "payload"),
  K("callInvite",      "callInvite",  "payload"),   \* XEP-0482
  K("callRetract",     "callInvite",  "payload"),
  K("callAccept",      "callInvite",  "payload"),
  K("callReject",      "callInvite",  "payload"),
  K("callLeft",        "callInvite",  "payload"),
  K("fallbackMarker",  "fallbackMarker", "fbmark")  \* XEP-0428
>>

Kinds    == {KT[i].k : i \in DOMAIN KT}
\* (constant functions: TLC evaluates them once)
IdxF     == [k \in Kinds |-> CHOOSE i \in DOMAIN KT : KT[i].k = k]
CatF     == [k \in Kinds |-> KT[IdxF[k]].cat]
SlotF    == [k \in Kinds |-> KT[IdxF[k]].slot]
Idx(k)   == IdxF[k]
CatOf(k) == CatF[k]
SlotOf(k) == SlotF[k]

\* the partition of the property statement
PublicCats == {"routing", "hint", "id", "fbtext"}
PartF == [k \in Kinds |-> CASE CatF[k] \in PublicCats -> "Public"
                            [] CatF[k] = "fbmark"     -> "Both"
                            [] OTHER                   -> "Sensitive"]
Part(k) == PartF[k]
SensitiveKinds == {k \in Kinds : Part(k) = "Sensitive"}
BothKinds      == {k \in Kinds : Part(k) = "Both"}
SplitOnly      == {k \in Kinds : CatOf(k) = "fbtext"}   \* not an element of the unsplit message

(* --- mechanism ----------------------------------------------------------- *)
HeadKinds == {"to", "from", "id", "lang", "typeNormal", "typeGroupchat", "typeHeadline", "typeError", "error", "addresses"}    \* written / read by toXml / QXmppStanza::parse only
BlockF == [k \in Kinds |-> CASE k \in HeadKinds        -> "head"
                             [] CatF[k] = "fbtext"     -> "pubonly"
                             [] CatF[k] = "fbmark"     -> "tail"
                             [] PartF[k] = "Public"    -> "pub"
                             [] OTHER                  -> "sens"]
Block(k) == BlockF[k]

Modes == {"All", "Public", "Sensitive"}
\* which blocks a (de)serialization in `mode` passes through.  The sensitive part is
\* produced/consumed by serializeExtensions/parseExtensions alone: no head.
InMode(mode, b) ==
    CASE b = "head"    -> mode \in {"All", "Public"}
      [] b = "pub"     -> mode \in {"All", "Public"}
      [] b = "pubonly" -> mode = "Public"
      [] b = "sens"    -> mode \in {"All", "Sensitive"}
      [] b = "tail"    -> TRUE

\* coupling the code has on purpose: an ack (<received/>) never carries a <request/>
Effective(S) == IF "receiptReceived" \in S THEN S \ {"receiptRequest"} ELSE S

\* ... and a receipt request needs an id to be answered: setReceiptRequested(true) gives the
\* stanza a generated id when it has none (an id without a distinctive value)
Implied(S) == IF "receiptRequest" \in S /\ "id" \notin S THEN {"id"} ELSE {}

Emit(mode, S)   == {k \in Effective(S) \cup Implied(S) : InMode(mode, Block(k))}
Accept(mode, k) == InMode(mode, Block(k))

(* --- behaviour ------------------------------------------------------------ *)
Log(r) == hist' = Append(hist, r)

\* focus bases: every encryption-method value with the fallback body set / the real body set / both
SlotKinds(sl) == {k \in Kinds : SlotOf(k) = sl}
BasesNone == {{}}
BasesEme  == {{e} \cup B : e \in SlotKinds("eme"), B \in {{"fallbackBody"}, {"body"}, {"fallbackBody", "body"}}}
RECURSIVE SetSteps(_)
SetSteps(B) == IF B = {} THEN <<>>
               ELSE LET k == CHOOSE x \in B : \A y \in B : Idx(x) <= Idx(y)
                    IN  <<[a |-> "Set", k |-> k]>> \o SetSteps(B \ {k})

ParsedKinds == {"legacyDelay", "bodyLang", "subjectLang"}

Init ==
    /\ \E B \in Bases : msg = B /\ base = B /\ hist = SetSteps(B)
    /\ phase = "compose"
    /\ pub = {} /\ sens = {} /\ all = {} /\ rec = {} /\ wire = {}

Set(k) ==
    /\ phase = "compose"
    /\ Cardinality(msg \ base) < MaxSet
    /\ \A j \in msg : SlotOf(j) # SlotOf(k)
    /\ Ordered => \A j \in msg \ base : Idx(j) < Idx(k)
    /\ k \in ParsedKinds => msg = {}       \* no setter: held only by a message that was parsed from XML
    /\ msg' = msg \cup {k}
    /\ Log([a |-> "Set", k |-> k])
    /\ UNCHANGED <<base, phase, pub, sens, all, rec, wire>>

Split ==
    /\ phase = "compose"
    /\ phase' = "split"
    /\ pub'  = Emit("Public", msg)
    /\ sens' = Emit("Sensitive", msg)
    /\ all'  = Emit("All", msg)
    /\ Log([a |-> "Split"])
    /\ UNCHANGED <<msg, base, rec, wire>>

Recover ==
    /\ phase = "split"
    /\ phase' = "done"
    \* rec: the kinds that are back *with their distinctive values* (a generated id is not one)
    /\ rec' = ({k \in pub : Accept("Public", k)} \cup {k \in sens : Accept("Sensitive", k)}) \ Implied(msg)
    /\ Log([a |-> "Recover"])
    /\ UNCHANGED <<msg, base, pub, sens, all, wire>>

(* --- the client path ------------------------------------------------------- *)
\* QXmppClient::sendSensitive (and reply() with e2ee metadata): the installed QXmppE2eeExtension::encryptMessage
\* returns the message with an encrypted payload added AND ITS SENSITIVE FIELDS STILL SET -- that is the contract the
\* library's own OMEMO manager follows; the client must put toXml(ScePublic) of it on the wire.
\* style "plain": the extension adds nothing but the payload.  style "omemo": like QXmppOmemoManager it drops the
\* user's fallback markers and, if there is a body or a trust message, sets the XEP-0380 marker (OMEMO 2, no name),
\* an explicit fallback body and one fallback marker.  how: the task is finished at once / from the event loop.
Payload == "e2eePayload"      \* the extension's encrypted element (not a field of the class: travels as an extension)
AllSendModes == [api : {"sendSensitive", "reply"}, style : {"plain", "omemo"}, how : {"ready", "later"}]
NoSends == {}
AllPlainApis == {"send", "sendPacket"}
BasesSend == {{}, {"body"}, {"body", "fallbackBody"}}

Enc(style, S) ==
    IF style = "plain" THEN S
    ELSE LET c == "body" \in S \/ "bodyLang" \in S \/ "trustMessage" \in S
         IN  IF c THEN ((S \ SlotKinds("eme")) \cup {"emeOmemo2", "fallbackBody", "fallbackMarker"})
                  ELSE S \ {"fallbackMarker"}

Send(sm) ==
    /\ phase = "compose"
    /\ phase' = "sentEnc"
    /\ wire' = Emit("Public", Enc(sm.style, msg)) \cup {Payload}
    /\ Log([a |-> "Send", api |-> sm.api, style |-> sm.style, how |-> sm.how])
    /\ UNCHANGED <<msg, base, pub, sens, all, rec>>

\* control: QXmppClient::send / sendPacket never encrypt -- everything is on the wire, and the harness must see it there
SendPlain(api) ==
    /\ phase = "compose"
    /\ phase' = "sentPlain"
    /\ wire' = Emit("All", msg)
    /\ Log([a |-> "SendPlain", api |-> api])
    /\ UNCHANGED <<msg, base, pub, sens, all, rec>>

Next == (\E k \in Kinds : Set(k)) \/ Split \/ Recover
        \/ (\E sm \in SendModes : Send(sm)) \/ (\E api \in PlainApis : SendPlain(api))
Spec == Init /\ [][Next]_vars

(* --- properties (C17), over observable quantities ------------------------- *)
\* Each predicate is "its set of offending kinds is empty", so that a violation can name them.
\* (1) nothing sensitive -- and nothing unknown -- in the public part: element kinds and
\*     distinctive-value tokens found in the raw public serialization
O_NoLeak(pubKinds, pubTokens) ==
    {k \in pubKinds \cup pubTokens : k \notin Kinds \/ Part(k) = "Sensitive"}
P_NoLeak(pubKinds, pubTokens) == O_NoLeak(pubKinds, pubTokens) = {}
\* (2) public + sensitive = the elements of the unsplit message, each in exactly one part
\*     (cp, cs, ca: occurrence counts per kind; fallback markers and the fallback text aside)
O_Partition(dom, cp, cs, ca) ==
    {k \in dom : k \notin BothKinds /\ k \notin SplitOnly /\ cp[k] + cs[k] # ca[k]}
P_Partition(dom, cp, cs, ca) == O_Partition(dom, cp, cs, ca) = {}
\*     ... and no distinctive value occurs in the raw text of both parts (fallback markers aside)
O_TokBoth(pubTokens, sensTokens) == {k \in pubTokens \cap sensTokens : k \notin BothKinds}
\* (3) parsing public then sensitive recovers the field values (fallback markers aside):
\*     nothing that was set is lost, nothing that was not set appears
O_Recover(S, r) == ((Effective(S) \ BothKinds) \ r) \cup ((r \ S) \ BothKinds)
P_Recover(S, r) == O_Recover(S, r) = {}

Cnt(S) == [k \in Kinds |-> IF k \in S THEN 1 ELSE 0]

NoLeak    == phase # "compose" => P_NoLeak(pub, pub)
Partition == phase # "compose" => P_Partition(Kinds, Cnt(pub), Cnt(sens), Cnt(all))
Recovered == phase = "done" => P_Recover(msg, rec)
\* client path: (1) nothing sensitive or unknown on the wire next to the payload; (2) every public element of the
\* message the extension returned is on the wire exactly as often as in its unsplit form (the sensitive ones are in
\* the payload, so public + payload = the message); cw, ca: occurrence counts on the wire / in toXml(SceAll)
O_WirePublic(dom, cw, ca) ==
    {k \in dom : k \in Kinds /\ Part(k) = "Public" /\ k \notin SplitOnly /\ cw[k] # ca[k]}
WireNoLeak == phase = "sentEnc" => P_NoLeak(wire \ {Payload}, wire \ {Payload})
WirePublic == phase = "sentEnc" =>
    O_WirePublic(Kinds, Cnt(wire), Cnt(Emit("All", Enc(hist[Len(hist)].style, msg)))) = {}
\* accepting mirrors emitting: an element is read in the mode it is written in
ASSUME Mirror == \A m \in Modes : \A k \in Kinds : Accept(m, k) <=> (k \in Emit(m, {k}))
TypeOK ==
    /\ msg \subseteq Kinds /\ phase \in {"compose", "split", "done", "sentEnc", "sentPlain"}
    /\ wire \subseteq Kinds \cup {Payload}
    /\ pub \subseteq Kinds /\ sens \subseteq Kinds /\ all \subseteq Kinds /\ rec \subseteq Kinds
    /\ Len(KT) = Cardinality(Kinds)

Reinit ==
    /\ msg' = {} /\ base' = {} /\ phase' = "compose"
    /\ pub' = {} /\ sens' = {} /\ all' = {} /\ rec' = {} /\ wire' = {}
    /\ hist' = <<>>

\* the client-path configurations do not repeat the codec path
ClientOnly == phase \notin {"split", "done"}
View == mvars
=============================================================================
