----------------------------- MODULE FramingGen -----------------------------
(* Behaviour export for Framing.  Without a VIEW (FramingGenAll.cfg) hist is *)
(* part of the state, so every composition of a shape's cells into reads is *)
(* a distinct path: 2^(n-1) of them for n cells (fewer when a restart       *)
(* boundary forbids reads that span it).  Only complete behaviours (all     *)
(* cells read) are written; the first transition of every shape also writes *)
(* the shape's cells so that lib/props/C03.py can check that its byte-exact *)
(* corpus instantiates exactly these cells.  The invariants of Framing are  *)
(* checked on the same run (every composition is model-checked).            *)
EXTENDS Framing, Json, CSV, IOUtils

EmitBehaviour ==
    /\ (Len(hist') = 1 /\ hist'[1].n = 1) =>
           CSVWrite("%1$s", <<ToJson([sid |-> sid, cells |-> Shapes[sid]])>>, IOEnv.QXV_GEN)
    /\ (pos' = Stream.n) =>
           CSVWrite("%1$s", <<ToJson([sid |-> sid, steps |-> hist'])>>, IOEnv.QXV_GEN)
=============================================================================
