SPECIFICATION Spec
CONSTANTS
  Classes = {"Plain", "Lt", "Gt", "Amp", "Quot", "Apos", "NonAscii", "Astral", "InnerSpace", "Newline"}
  MaxLen = 1
  NSlots = 3
  Contexts = {"text"}
INVARIANTS RoundTrip NoInjection Fixpoint
VIEW View
ACTION_CONSTRAINT EmitBehaviour
CHECK_DEADLOCK FALSE
