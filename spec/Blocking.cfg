SPECIFICATION Spec
CONSTANTS
  Jids = {"j1", "j2"}
  InitSrv = {"j1"}
  Kinds = {"Fetch", "Block", "Unblock", "Deliver", "Srv", "Other", "Foreign", "PushGet", "ForeignRes", "Disconnect", "Connect"}
  Retries = {FALSE, TRUE}
  Froms = {"none"}
  MaxT = 2
  MaxO = 2
  MaxD = 1
  MaxQ = 3
  ProbeMax = 2
  CmdSets = {{}, {"j2"}, {"j1", "j2"}}
  OthSets = {{}, {"j2"}, {"j1", "j2"}}
INVARIANTS TypeOK Truth SubAgree OneFetch LiveAccounted Answerable DownIsEmpty
PROPERTIES OnceOnly SignalsDelta FreshSession SentTied
VIEW View
CHECK_DEADLOCK FALSE
