SPECIFICATION Spec
CONSTANTS
  MaxId = 14
  MaxH = 16
  MaxConn = 7
  MaxRecv = 6
  MaxHist = 99
ACTION_CONSTRAINT EmitBehaviour
CHECK_DEADLOCK FALSE
