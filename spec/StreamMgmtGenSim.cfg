SPECIFICATION SimSpec
CONSTANTS
  MaxId = 40
  MaxH = 99
  MaxConn = 10
  MaxRecv = 12
  MaxHist = 999
ACTION_CONSTRAINT EmitBehaviour
CHECK_DEADLOCK FALSE
