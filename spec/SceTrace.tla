------------------------------ MODULE SceTrace ------------------------------
(***************************************************************************)
(* Trace validation for Sce (written by `qxv sce`, see harness/drv_sce.cpp).*)
(*   {"e":"Reset","case":"s7","seed":1}                                     *)
(*   {"e":"Set","k":"body","o":{"set":["body"]}}                            *)
(*   {"e":"Split","o":{"pub":[..],"sens":[..],"all":[..],                   *)
(*                     "ptok":[..],"stok":[..],"atok":[..]}}                *)
(*   {"e":"Recover","o":{"rec":[..],"rall":[..],"xpub":[..],"xsens":[..]}}  *)
(* pub/sens/all: element kinds (with repetition) of toXml(ScePublic), of    *)
(* the <content/> written with serializeExtensions(SceSensitive) and of     *)
(* toXml(SceAll), classified by (name, namespace); ptok/stok/atok: kinds    *)
(* whose distinctive values occur as raw substrings of each serialization;  *)
(* rec: kinds whose getters hold the distinctive values after               *)
(* parse(public, ScePublic); parseExtensions(content, SceSensitive);        *)
(* rall/xpub/xsens: the same after parsing the unsplit XML in SceAll /      *)
(* ScePublic / SceSensitive (conformance only).                             *)
(*                                                                          *)
(* model:   Sce's action for the logged step;                               *)
(* monitor: S = the kinds the logged Set steps named; the C17 predicates of *)
(*          Sce evaluated on the logged observations only;                  *)
(* compare: the model's sets vs the logged ones -> diverged (warning).      *)
(***************************************************************************)
EXTENDS Sce, Integers, Json, CSV, IOUtils

TraceLog == ndJsonDeserialize(IOEnv.QXV_TRACE)

VARIABLES l, cid, mon, viol, ndiv, divs, dflag, ncases
tvars == <<vars, l, cid, mon, viol, ndiv, divs, dflag, ncases>>

Mon0 == [S |-> {}]

TInit ==
    /\ Init
    /\ l = 1 /\ cid = "" /\ mon = Mon0 /\ viol = {} /\ ndiv = 0 /\ divs = <<>> /\ dflag = FALSE /\ ncases = 0

SetOf(q) == {q[i] : i \in DOMAIN q}
CountIn(q, k) == Cardinality({i \in DOMAIN q : q[i] = k})

ModelAct(ev) ==
    CASE ev.e = "Set"     -> ev.k \in Kinds /\ Set(ev.k)
      [] ev.e = "Split"   -> Split
      [] ev.e = "Recover" -> Recover
      [] ev.e = "Send"    -> Send([api |-> ev.api, style |-> ev.style, how |-> ev.how])
      [] ev.e = "SendPlain" -> SendPlain(ev.api)
      [] OTHER            -> FALSE

(* property evaluation on the logged facts; returns a set of [prop, kinds] *)
SplitFailures(ev) ==
    LET o == ev.o
        dom == Kinds \cup SetOf(o.pub) \cup SetOf(o.sens) \cup SetOf(o.all)
        cp == [k \in dom |-> CountIn(o.pub, k)]
        cs == [k \in dom |-> CountIn(o.sens, k)]
        ca == [k \in dom |-> CountIn(o.all, k)]
        leak == O_NoLeak(SetOf(o.pub), SetOf(o.ptok))
        part == O_Partition(dom, cp, cs, ca) \cup O_TokBoth(SetOf(o.ptok), SetOf(o.stok))
    IN  (IF leak # {} THEN {[prop |-> "NoLeak", kinds |-> leak]} ELSE {})
        \cup (IF part # {} THEN {[prop |-> "Partition", kinds |-> part]} ELSE {})

\* recovery is demanded relative to what the unsplit round trip (SceAll) recovers: a field the
\* codec loses even unsplit is a codec matter (C01), not one of the split
RecoverFailures(m, ev) ==
    LET o == ev.o
        full == O_Recover(m.S, SetOf(o.rec))
        excused == {k \in Effective(m.S) : k \notin SetOf(o.rall) /\ k \notin SplitOnly}
        bad == full \ excused
    IN  IF bad # {} THEN {[prop |-> "Recover", kinds |-> bad]} ELSE {}

\* client path: the stanza the client logged as sent on the encrypted path is judged like a public part
\* (wire: kinds of its children / root attributes, wtok: raw-substring hits, call: kinds of toXml(SceAll) of the
\* message the extension returned).  Plain sends are a control and never judged.
SendFailures(ev) ==
    LET o == ev.o
        dom == Kinds \cup SetOf(o.wire) \cup SetOf(o.call)
        cw == [k \in dom |-> CountIn(o.wire, k)]
        ca == [k \in dom |-> CountIn(o.call, k)]
        leak == O_NoLeak(SetOf(o.wire) \ {Payload}, SetOf(o.wtok))
        lost == O_WirePublic(dom, cw, ca)
    IN  IF o.sent = 0 THEN {}
        ELSE (IF leak # {} THEN {[prop |-> "WireNoLeak", kinds |-> leak]} ELSE {})
             \cup (IF lost # {} THEN {[prop |-> "WirePublic", kinds |-> lost]} ELSE {})

Failures(m, ev) ==
    CASE ev.e = "Split" /\ "pub" \in DOMAIN ev.o -> SplitFailures(ev)
      [] ev.e = "Split"   -> {[prop |-> "Partition", kinds |-> {"?malformed"}]}
      [] ev.e = "Recover" -> RecoverFailures(m, ev)
      [] ev.e = "Send"    -> SendFailures(ev)
      [] OTHER -> {}

MonNext(m, ev) == IF ev.e = "Set" THEN [m EXCEPT !.S = m.S \cup {ev.k}] ELSE m

(* does the logged observation equal the model's projection? *)
Agrees(ev) ==
    CASE ev.e = "Set"     -> SetOf(ev.o.set) = msg'
      [] ev.e = "Split" /\ "pub" \in DOMAIN ev.o ->
            /\ SetOf(ev.o.pub) = pub' /\ SetOf(ev.o.sens) = sens' /\ SetOf(ev.o.all) = all'
            /\ Len(ev.o.pub) = Cardinality(pub') /\ Len(ev.o.sens) = Cardinality(sens') /\ Len(ev.o.all) = Cardinality(all')
            \* every distinctive value is where its element is, and nowhere else
            /\ SetOf(ev.o.ptok) \subseteq pub' /\ SetOf(ev.o.stok) \subseteq sens' /\ SetOf(ev.o.atok) \subseteq all'
      [] ev.e = "Recover" ->
            /\ SetOf(ev.o.rec) = rec'
            /\ SetOf(ev.o.rall) = all' \ Implied(msg')
            /\ SetOf(ev.o.xpub) = {k \in all' : Accept("Public", k)} \ Implied(msg')
            /\ SetOf(ev.o.xsens) = {k \in all' : Accept("Sensitive", k)}
      [] ev.e = "Send" ->
            /\ ev.o.sent = 1 /\ ev.o.encryptCalls = 1
            /\ SetOf(ev.o.wire) = wire' /\ Len(ev.o.wire) = Cardinality(wire')
            /\ ev.o.wire = ev.o.cpub                       \* exactly toXml(ScePublic) of what the extension returned
            /\ SetOf(ev.o.wtok) \subseteq wire'
      [] ev.e = "SendPlain" ->
            /\ ev.o.sent = 1 /\ SetOf(ev.o.wire) = wire' /\ SetOf(ev.o.wtok) \subseteq wire'
      [] OTHER -> FALSE

ResetStep(ev) ==
    /\ Reinit
    /\ cid' = ev.case /\ mon' = Mon0 /\ dflag' = FALSE /\ ncases' = ncases + 1
    /\ UNCHANGED <<viol, ndiv, divs>>

OpStep(ev) ==
    /\ \/ ModelAct(ev)
       \/ (~ENABLED ModelAct(ev)) /\ UNCHANGED vars
    /\ mon' = MonNext(mon, ev)
    /\ viol' = viol \cup {[case |-> cid, line |-> l, prop |-> f.prop, kinds |-> f.kinds, e |-> ev.e] : f \in Failures(mon, ev)}
    /\ LET d == ~Agrees(ev) IN
        /\ dflag' = (dflag \/ d)
        /\ ndiv' = IF d /\ ~dflag THEN ndiv + 1 ELSE ndiv
        /\ divs' = IF d /\ ~dflag /\ Len(divs) < 10
                   THEN Append(divs, [case |-> cid, line |-> l, e |-> ev.e, impl |-> ev.o,
                                      model |-> [msg |-> msg', pub |-> pub', sens |-> sens', all |-> all', rec |-> rec', wire |-> wire']])
                   ELSE divs
    /\ UNCHANGED <<cid, ncases>>

TNext ==
    /\ l <= Len(TraceLog)
    /\ l' = l + 1
    /\ LET ev == TraceLog[l] IN
        IF ev.e = "Reset" THEN ResetStep(ev) ELSE OpStep(ev)

TSpec == TInit /\ [][TNext]_tvars

Summary == [cases |-> ncases, lines |-> l - 1, viol |-> viol, ndiv |-> ndiv, divs |-> divs]
Done == l <= Len(TraceLog) \/ CSVWrite("%1$s", <<ToJson(Summary)>>, IOEnv.QXV_SUMMARY)
=============================================================================
