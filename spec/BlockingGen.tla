----------------------------- MODULE BlockingGen -----------------------------
(* Behaviour export for Blocking (lib/vf.py: tlc_gen / tlc_simulate).        *)
(* VIEW View (BlockingGenTour*.cfg): transition tour -- every transition of  *)
(* the bounded model reached by a shortest path.  Without VIEW and with      *)
(* CONSTRAINT Bound (BlockingGenAll.cfg): every event sequence up to MaxHist.*)
(* SpecP (BlockingGenProbe.cfg): one behaviour per blockingState probe.      *)
(* SimSpec (BlockingGenSim.cfg, -simulate): one disjunct per kind of event   *)
(* with randomly drawn arguments.                                            *)
EXTENDS Blocking, Json, CSV, IOUtils

CONSTANT MaxHist

\* moves: the step changes the state or makes the client emit something
EmitBehaviour ==
    CSVWrite("%1$s", <<ToJson([steps |-> hist', srv0 |-> Sorted(InitSrv), moves |-> (st' # st \/ (out' # O0 /\ hist'[Len(hist')].a \notin {"Foreign", "PushGet"}))])>>, IOEnv.QXV_GEN)
Bound == Len(hist) <= MaxHist

NextP == \E e \in ProbeEvents : Apply(e)
SpecP == Init /\ [][NextP]_vars

\* mentions a variable so that TLC does not evaluate the draw once as a constant expression
Rnd(S) == RandomElement({x \in S : Len(hist) >= 0})
Weight(k) == IF k \in {"Deliver", "Srv"} THEN 4 ELSE IF k \in {"Fetch", "Block", "Unblock", "Other"} THEN 2 ELSE 1
SimNext ==
    \E k \in Kinds : \E w \in 1..Weight(k) :
        LET S == {e \in EventsAt(st) : e.a = k /\ Enabled(st, e)} IN S # {} /\ Apply(Rnd(S))
SimSpec == Init /\ [][SimNext]_vars
=============================================================================
