SPECIFICATION Spec
CONSTANTS
  Doms = {"R", "A"}
  NI = 1
  MaxOC = 4
  MaxMsg = 4
  Kinds = {"IOpen", "IVerifyReq", "IClose", "Listen", "Send", "OHeader", "OResult", "OStanza", "OClose", "XFrom"}
  Shapes = {"ok"}
  FromDoms = {"R"}
  Tos = {"L", "X"}
  Dev = {}
  MaxHist = 99
INVARIANTS TypeOK NoSpoof OneLiveOrig ExactlyOnceInOrder NoLeak
PROPERTIES AuthBeforeData ValidOnlyRelayed AcceptOnlyValidated
VIEW View
CHECK_DEADLOCK FALSE
