-------------------------------- MODULE Atm --------------------------------
(***************************************************************************)
(* XEP-0450 Automatic Trust Management as implemented by QXmppAtmManager   *)
(* (src/client/QXmppAtmManager.cpp) on top of QXmppAtmTrustMemoryStorage.  *)
(*                                                                         *)
(* State: the trust level of every (owner account, key id) pair and the    *)
(* set of postponed ("held") trust decisions, each remembered under the    *)
(* key id of the device that sent it.                                      *)
(*                                                                         *)
(* Moves of the environment:                                               *)
(*   Manual(o, A, D)      the user authenticates keys A / distrusts keys D  *)
(*                        of account o (QXmppAtmManager::makeTrustDecisions,*)
(*                        the public API: keys already at the target level  *)
(*                        are filtered out first);                          *)
(*   TrustMsg(acct,sk,ds) a trust message from a device of account `acct`   *)
(*                        whose e2ee sender key is sk, carrying decisions   *)
(*                        ds (QXmppAtmManager::handleMessage);              *)
(*   OwnEcho(sk, ds)      the same kind of message but from the receiving   *)
(*                        device's own full JID (carbon of an own message). *)
(*                                                                         *)
(* Code paths, one operator each (pure functions of a state record         *)
(* [lv, pp] so that AtmTrace can reuse them):                              *)
(*   AuthenticateOp  = authenticate(): set Authenticated, TOAKAFA demotion  *)
(*                     of the owners' automatically trusted keys, then      *)
(*                     makePostponedTrustDecisions() for the key ids, which *)
(*                     recursively authenticates/distrusts;                 *)
(*   DropSubsumed    = the storage call inside makePostponedTrustDecisions  *)
(*                     that removes *every* held decision with the same     *)
(*                     subject key id and direction as one that fires, also *)
(*                     those of other senders (named: the code knowingly    *)
(*                     does this);                                          *)
(*   DistrustOp      = distrust(): set ManuallyDistrusted and discard what  *)
(*                     is held under those key ids as sender keys;          *)
(*   MsgOp           = handleMessage(): sender-key lookup, scope test,      *)
(*                     decide now or hold back.                             *)
(*                                                                         *)
(* A KEY IS AN (owner, key id) PAIR.  Key ids are shared between owners:    *)
(* the id "k" names three different keys (own,k), (a,k), (b,k); messages   *)
(* may name the same id under several owners with equal or opposite        *)
(* decisions, and every level, held decision and predicate is per pair.    *)
(* The model is the INTENDED behaviour: DropSubsumed removes held          *)
(* decisions with the same owner AND key id AND direction as one that      *)
(* fires (the storage call of the unchanged code matched on the key id     *)
(* alone: fixes/C18-postponed-removal-ignores-owner.patch).                *)
(*                                                                         *)
(* ASSUMPTIONS (stated in docs/C18.md): the ids of keys that SEND trust    *)
(* messages (o1, o2, a1, b1) belong to one account each -- the storage         *)
(* interface remembers a held decision under the sender's key id only, so  *)
(* the sender of a held decision is SenderPairOf(sk); the e2ee layer       *)
(* reports the true sender key, so the sender key of a message from        *)
(* account x is a key of x; a trust message lists an owner at most once    *)
(* and a key (pair) in at most one direction.                              *)
(***************************************************************************)
EXTENDS Naturals, Sequences, FiniteSets, TLC

CONSTANTS Senders,      \* key ids that send trust messages
          EchoSenders,  \* sender keys used for the own-full-JID echo
          MsgKeys,      \* key ids a trust message may name (under each of their owners)
          MaxDec,       \* max decisions per trust message
          ManualMax,    \* max keys per manual decision
          Combos,       \* set of <<policy, initial levels>>: {"None","Toakafa"} \X {"blank","auto","mixed"}
          MaxHist       \* bound on the number of steps of a behaviour

VARIABLES lv,           \* [Accounts \X Keys -> Levels]
          pp,           \* set of [sk, o, k, t]: sender key id, owner, key id, trust?
          policy,
          init0,        \* the initial lv of this behaviour (export only)
          hist          \* sequence of events (behaviour export)

mvars == <<lv, pp, policy>>
vars  == <<lv, pp, policy, init0, hist>>

AcctSeq == <<"own", "a", "b">>
KeySeq  == <<"o1", "o2", "a1", "b1", "k">>      \* key ids; "k" exists under every account
Accounts == {AcctSeq[i] : i \in DOMAIN AcctSeq}
Keys     == {KeySeq[i] : i \in DOMAIN KeySeq}
SenderOwner == [o1 |-> "own", o2 |-> "own", a1 |-> "a", b1 |-> "b"]     \* ids of sending devices: one account each
SenderIds == DOMAIN SenderOwner
Pairs    == Accounts \X Keys
\* the keys that exist: every sending device's key and the shared id under every account
Owned    == {<<SenderOwner[k], k>> : k \in SenderIds} \cup {<<o, "k">> : o \in Accounts}
Levels   == {"Und", "ADis", "MDis", "ATru", "MTru", "Auth"}   \* QXmpp::TrustLevel
Own      == "own"

\* fixed order in which the levels of all pairs are exported / logged
PairSeq == [i \in 1..(Len(AcctSeq) * Len(KeySeq)) |->
              <<AcctSeq[((i - 1) \div Len(KeySeq)) + 1], KeySeq[((i - 1) % Len(KeySeq)) + 1]>>]
PairIdx == [p \in Pairs |-> CHOOSE i \in DOMAIN PairSeq : PairSeq[i] = p]
LvSeq(f) == [i \in DOMAIN PairSeq |-> f[PairSeq[i]]]

KeyIds(S) == {p[2] : p \in S}
OwnersOf(S) == {p[1] : p \in S}
RangeOf(s) == {s[i] : i \in DOMAIN s}
SeqOf(S, order) == SelectSeq(order, LAMBDA x : x \in S)

(* --- the code paths ------------------------------------------------------ *)
\* the key a held decision was sent with (see ASSUMPTIONS)
SenderPairOf(sk) == <<IF sk \in SenderIds THEN SenderOwner[sk] ELSE "?", sk>>

DistrustOp(s, D) ==
    IF D = {} THEN s
    ELSE [lv |-> [p \in DOMAIN s.lv |-> IF p \in D THEN "MDis" ELSE s.lv[p]],
          pp |-> {h \in s.pp : SenderPairOf(h.sk) \notin D}]

\* removal of the decisions that fire and of identical ones held for other senders:
\* same owner, same key id, same direction
DropSubsumed(held, A, D) ==
    {h \in held : ~((h.t /\ <<h.o, h.k>> \in A) \/ (~h.t /\ <<h.o, h.k>> \in D))}

RECURSIVE AuthenticateOp(_, _, _)
AuthenticateOp(s, S, pol) ==
    IF S = {} THEN s
    ELSE LET lv1 == [p \in DOMAIN s.lv |-> IF p \in S THEN "Auth" ELSE s.lv[p]]
             lv2 == IF pol = "Toakafa"
                    THEN [p \in DOMAIN lv1 |-> IF p[1] \in OwnersOf(S) /\ lv1[p] = "ATru" THEN "ADis" ELSE lv1[p]]
                    ELSE lv1
             \* makePostponedTrustDecisions(): what the newly authenticated keys sent
             F == {h \in s.pp : SenderPairOf(h.sk) \in S}
             A == {<<h.o, h.k>> : h \in {g \in F : g.t}}
             D == {<<h.o, h.k>> : h \in {g \in F : ~g.t}}
             s1 == AuthenticateOp([lv |-> lv2, pp |-> DropSubsumed(s.pp, A, D)], A, pol)
         IN DistrustOp(s1, D)

\* makeTrustDecisions(encryption, keysForAuthentication, keysForDistrusting)
DecideOp(s, A, D, pol) == DistrustOp(AuthenticateOp(s, A, pol), D)

ManualOp(s, o, A, D, pol) ==
    DecideOp(s, {<<o, k>> : k \in {x \in A : s.lv[<<o, x>>] # "Auth"}},
                {<<o, k>> : k \in {x \in D : s.lv[<<o, x>>] # "MDis"}}, pol)

\* ds: set of decisions [o, k, t]
ScopedDecs(acct, ds) == {d \in ds : acct = Own \/ acct = d.o}

MsgOp(s, acct, sk, ds, pol) ==
    LET sc == ScopedDecs(acct, ds) IN
    IF s.lv[<<acct, sk>>] = "Auth"
    THEN DecideOp(s, {<<d.o, d.k>> : d \in {x \in sc : x.t}}, {<<d.o, d.k>> : d \in {x \in sc : ~x.t}}, pol)
    ELSE \* addKeysForPostponedTrustDecisions: trusted keys first, then distrusted (overwrite)
         LET new == {[sk |-> sk, o |-> d.o, k |-> d.k, t |-> d.t] :
                        d \in {x \in sc : x.t => [o |-> x.o, k |-> x.k, t |-> FALSE] \notin sc}}
         IN [lv |-> s.lv,
             pp |-> {h \in s.pp : ~(h.sk = sk /\ \E n \in new : n.o = h.o /\ n.k = h.k)} \cup new]

(* --- events as they are exported / logged (JSON friendly: sequences) ------ *)
OwnersSeq(ds) ==
    LET os == SeqOf({d.o : d \in ds}, AcctSeq)
    IN [i \in 1..Len(os) |->
          [o |-> os[i],
           t |-> SeqOf({d.k : d \in {x \in ds : x.o = os[i] /\ x.t}}, KeySeq),
           d |-> SeqOf({d.k : d \in {x \in ds : x.o = os[i] /\ ~x.t}}, KeySeq)]]

DecsOf(ow) ==
    UNION {{[o |-> ow[i].o, k |-> ow[i].t[j], t |-> TRUE] : j \in DOMAIN ow[i].t} \cup
           {[o |-> ow[i].o, k |-> ow[i].d[j], t |-> FALSE] : j \in DOMAIN ow[i].d} : i \in DOMAIN ow}

\* the model's reaction to an event record
React(s, ev, pol) ==
    CASE ev.a = "Manual"   -> ManualOp(s, ev.o, RangeOf(ev.auth), RangeOf(ev.dis), pol)
      [] ev.a = "TrustMsg" -> MsgOp(s, ev.from, ev.sk, DecsOf(ev.owners), pol)
      [] OTHER             -> s           \* OwnEcho: message.from() == own full JID

(* --- universe of the bounded model ---------------------------------------- *)
Decisions == {[o |-> p[1], k |-> p[2], t |-> t] : p \in {q \in Owned : q[2] \in MsgKeys}, t \in BOOLEAN}
MsgDecs == {ds \in SUBSET Decisions :
              /\ Cardinality(ds) >= 1 /\ Cardinality(ds) <= MaxDec
              /\ \A d1, d2 \in ds : (d1.o = d2.o /\ d1.k = d2.k) => d1 = d2}
MsgUniverse == {OwnersSeq(ds) : ds \in MsgDecs}
EchoUniverse == {OwnersSeq(ds) : ds \in {x \in MsgDecs : Cardinality(x) = MaxDec}}
KeysOfAcct(o) == {p[2] : p \in {q \in Owned : q[1] = o /\ q[2] \in MsgKeys}}
ManualChoices ==
    {[a |-> "Manual", o |-> c.o, auth |-> SeqOf(c.A, KeySeq), dis |-> SeqOf(c.D, KeySeq)] :
        c \in {c \in [o : Accounts, A : SUBSET Keys, D : SUBSET Keys] :
                 /\ c.A \subseteq KeysOfAcct(c.o) /\ c.D \subseteq KeysOfAcct(c.o)
                 /\ c.A \cap c.D = {}
                 /\ Cardinality(c.A \cup c.D) >= 1 /\ Cardinality(c.A \cup c.D) <= ManualMax}}

InitLv(n) ==
    \* levels of the existing keys: the sending devices' keys by id, the shared id by owner
    LET dev == CASE n = "blank" -> [o1 |-> "Und", o2 |-> "Und", a1 |-> "Und", b1 |-> "Und"]
                 [] n = "auto"  -> [o1 |-> "ATru", o2 |-> "ATru", a1 |-> "ATru", b1 |-> "ATru"]
                 [] n = "mixed" -> [o1 |-> "Auth", o2 |-> "ADis", a1 |-> "MTru", b1 |-> "ADis"]
        shared == CASE n = "blank" -> [own |-> "Und", a |-> "Und", b |-> "Und"]
                    [] n = "auto"  -> [own |-> "ATru", a |-> "ATru", b |-> "ATru"]
                    [] n = "mixed" -> [own |-> "MDis", a |-> "ATru", b |-> "Und"]
    IN [p \in Pairs |-> IF p \notin Owned THEN "Und" ELSE IF p[2] = "k" THEN shared[p[1]] ELSE dev[p[2]]]

\* named choices for the constant Combos (a .cfg file cannot spell tuples)
CombosAll == {"None", "Toakafa"} \X {"blank", "auto", "mixed"}
CombosQ4  == {"None", "Toakafa"} \X {"auto", "mixed"}       \* "blank" behaves like "auto" in the model
CombosT4  == {"None", "Toakafa"} \X {"blank", "mixed"}
CombosT2  == {<<"None", "blank">>, <<"Toakafa", "mixed">>}

St == [lv |-> lv, pp |-> pp]

Init ==
    /\ \E c \in Combos : policy = c[1] /\ lv = InitLv(c[2])
    /\ init0 = lv
    /\ pp = {}
    /\ hist = <<>>

Do(ev) ==
    /\ Len(hist) < MaxHist
    /\ LET s == React(St, ev, policy) IN lv' = s.lv /\ pp' = s.pp
    /\ hist' = Append(hist, ev)
    /\ UNCHANGED <<policy, init0>>

Manual(c) == Do(c)
TrustMsg(sk, ow) == Do([a |-> "TrustMsg", from |-> SenderOwner[sk], sk |-> sk, owners |-> ow])
OwnEcho(sk, ow) == Do([a |-> "OwnEcho", from |-> Own, sk |-> sk, owners |-> ow])

Next ==
    \/ \E c \in ManualChoices : Manual(c)
    \/ \E sk \in Senders : \E ow \in MsgUniverse : TrustMsg(sk, ow)
    \/ \E sk \in EchoSenders : \E ow \in EchoUniverse : OwnEcho(sk, ow)

Spec == Init /\ [][Next]_vars

(* --- property C18 ---------------------------------------------------------- *)
(* Predicates over (pre, ev, post): pre/post are records [lv, pp] -- the      *)
(* model's own state in Atm.cfg, what the implementation reported in          *)
(* AtmTrace.  Everything is per (owner, key id) pair.  The sender of a held    *)
(* decision is identified by its key id (all the storage API reports):        *)
(* SenderPairOf(sk).                                                          *)
IsMsg(ev) == ev.a = "TrustMsg"
EvScoped(ev) == ScopedDecs(ev.from, DecsOf(ev.owners))
SenderAuth(pre, ev) == pre.lv[<<ev.from, ev.sk>>] = "Auth"

\* decisions the event itself entitles: a manual decision, or a trust message
\* whose sender key is Authenticated now, restricted to the sender's scope
DirectA(pre, ev) ==
    CASE ev.a = "Manual" -> {<<ev.o, k>> : k \in RangeOf(ev.auth)}
      [] IsMsg(ev) -> IF SenderAuth(pre, ev) THEN {<<d.o, d.k>> : d \in {x \in EvScoped(ev) : x.t}} ELSE {}
      [] OTHER -> {}
DirectD(pre, ev) ==
    CASE ev.a = "Manual" -> {<<ev.o, k>> : k \in RangeOf(ev.dis)}
      [] IsMsg(ev) -> IF SenderAuth(pre, ev) THEN {<<d.o, d.k>> : d \in {x \in EvScoped(ev) : ~x.t}} ELSE {}
      [] OTHER -> {}

\* keys that may become Authenticated in this step: the direct ones plus what
\* held decisions of (transitively) newly authenticated senders name
RECURSIVE AuthClosure(_, _)
AuthClosure(held, X) ==
    LET Y == X \cup {<<h.o, h.k>> : h \in {g \in held : g.t /\ SenderPairOf(g.sk) \in X}}
    IN IF Y = X THEN X ELSE AuthClosure(held, Y)
AuthSet(pre, ev) == AuthClosure(pre.pp, DirectA(pre, ev))
DisSetOf(pre, ev, AS) ==
    DirectD(pre, ev) \cup {<<h.o, h.k>> : h \in {g \in pre.pp : ~g.t /\ SenderPairOf(g.sk) \in AS}}
DisSet(pre, ev) == DisSetOf(pre, ev, AuthSet(pre, ev))

\* (1) frame condition: every level change is justified
P_Justified(pre, ev, post, AS, DS) ==
    \A p \in DOMAIN pre.lv :
        post.lv[p] # pre.lv[p] =>
            \/ post.lv[p] = "Auth" /\ p \in AS
            \/ post.lv[p] = "MDis" /\ p \in DS
            \/ pre.lv[p] = "ATru" /\ post.lv[p] = "ADis" /\ p[1] \in OwnersOf(AS)   \* policy demotion
\* (2) a trust message from the receiving device itself is ignored
P_Echo(pre, ev, post) == ev.a = "OwnEcho" => post = pre
\* (3) held decisions take effect in the very step their sender key becomes Authenticated
P_Applied(pre, ev, post, AS, DS) ==
    \A h \in pre.pp :
        (pre.lv[SenderPairOf(h.sk)] # "Auth" /\ post.lv[SenderPairOf(h.sk)] = "Auth") =>
            LET p == <<h.o, h.k>> IN
            IF h.t THEN post.lv[p] = "Auth" \/ (p \in DS /\ post.lv[p] = "MDis")
                   ELSE post.lv[p] = "MDis" \/ (p \in AS /\ post.lv[p] = "Auth")
\* (4) decisions of a not (yet) authenticated sender are held back ...
P_Held(pre, ev, post) ==
    (IsMsg(ev) /\ ~SenderAuth(pre, ev)) =>
        \A d \in EvScoped(ev) :
            \E h \in post.pp : h.sk = ev.sk /\ h.o = d.o /\ h.k = d.k
                               /\ (h.t = d.t \/ [o |-> d.o, k |-> d.k, t |-> ~d.t] \in EvScoped(ev))
\* (5) ... and nothing else ever enters the held set (scope, sender)
P_HeldOnlyScoped(pre, ev, post) ==
    \A h \in post.pp \ pre.pp :
        /\ IsMsg(ev) /\ ~SenderAuth(pre, ev) /\ h.sk = ev.sk
        /\ [o |-> h.o, k |-> h.k, t |-> h.t] \in EvScoped(ev)
\* (6) a held decision disappears only because it fired, its sender key was
\*     distrusted, an identical decision was applied (DropSubsumed), or the same
\*     sender replaced it by the opposite decision
P_Kept(pre, ev, post, AS, DS) ==
    \A h \in pre.pp \ post.pp :
        \/ SenderPairOf(h.sk) \in AS
        \/ SenderPairOf(h.sk) \in DS
        \/ (h.t /\ <<h.o, h.k>> \in AS) \/ (~h.t /\ <<h.o, h.k>> \in DS)
        \/ IsMsg(ev) /\ ~SenderAuth(pre, ev) /\ h.sk = ev.sk /\ [o |-> h.o, k |-> h.k, t |-> ~h.t] \in EvScoped(ev)
\* (7) when a sender key becomes (manually) distrusted its held decisions are discarded
P_Discarded(pre, ev, post) ==
    \A k \in SenderIds :
        (pre.lv[SenderPairOf(k)] # "MDis" /\ post.lv[SenderPairOf(k)] = "MDis") => \A h \in post.pp : h.sk # k

PropNames == {"Justified", "Echo", "Applied", "Held", "HeldOnlyScoped", "Kept", "Discarded"}
Failed(pre, ev, post) ==
    LET AS == AuthSet(pre, ev)
        DS == DisSetOf(pre, ev, AS) IN
    {n \in PropNames :
        CASE n = "Justified"      -> ~P_Justified(pre, ev, post, AS, DS)
          [] n = "Echo"           -> ~P_Echo(pre, ev, post)
          [] n = "Applied"        -> ~P_Applied(pre, ev, post, AS, DS)
          [] n = "Held"           -> ~P_Held(pre, ev, post)
          [] n = "HeldOnlyScoped" -> ~P_HeldOnlyScoped(pre, ev, post)
          [] n = "Kept"           -> ~P_Kept(pre, ev, post, AS, DS)
          [] n = "Discarded"      -> ~P_Discarded(pre, ev, post)}

\* the action property checked on the design: every step of the model satisfies C18
StepOK == [][Failed(St, hist'[Len(hist')], [lv |-> lv', pp |-> pp']) = {}]_vars

(* state invariants of the design *)
TypeOK ==
    /\ lv \in [Pairs -> Levels]
    /\ \A h \in pp : h.sk \in SenderIds /\ <<h.o, h.k>> \in Owned /\ h.t \in BOOLEAN
    /\ policy \in {"None", "Toakafa"}
NoHeldFromAuthenticated == \A h \in pp : lv[SenderPairOf(h.sk)] # "Auth"
HeldInScope == \A h \in pp : SenderOwner[h.sk] = Own \/ SenderOwner[h.sk] = h.o
OneDirectionPerSender == \A h1, h2 \in pp : (h1.sk = h2.sk /\ h1.o = h2.o /\ h1.k = h2.k) => h1 = h2
ForeignPairsUntouched == \A p \in Pairs \ Owned : lv[p] = "Und"

\* step classification (coverage counters of the trace validator; vacuity guard)
KindNames == {"change", "direct", "held", "fired", "cascade2", "discarded", "subsumed", "demoted", "outOfScope",
              "echo", "conflict", "sameIdMsg", "sameIdHeld", "otherOwnerKept"}
StepKinds(pre, ev, post) ==
    LET AS == AuthSet(pre, ev)
        DS == DisSetOf(pre, ev, AS)
        gone == pre.pp \ post.pp IN
    {n \in KindNames :
        CASE n = "change"     -> post.lv # pre.lv
          [] n = "direct"     -> IsMsg(ev) /\ SenderAuth(pre, ev) /\ post.lv # pre.lv
          [] n = "held"       -> post.pp \ pre.pp # {}
          [] n = "fired"      -> \E h \in gone : SenderPairOf(h.sk) \in AS
          [] n = "cascade2"   -> \E h \in gone : SenderPairOf(h.sk) \in AS /\ SenderPairOf(h.sk) \notin DirectA(pre, ev)
          [] n = "discarded"  -> \E h \in gone : SenderPairOf(h.sk) \in DS /\ SenderPairOf(h.sk) \notin AS
          [] n = "subsumed"   -> \E h \in gone : SenderPairOf(h.sk) \notin AS /\ SenderPairOf(h.sk) \notin DS
                                                    /\ ((h.t /\ <<h.o, h.k>> \in AS) \/ (~h.t /\ <<h.o, h.k>> \in DS))
          [] n = "demoted"    -> \E p \in DOMAIN pre.lv : pre.lv[p] = "ATru" /\ post.lv[p] = "ADis"
          [] n = "outOfScope" -> IsMsg(ev) /\ EvScoped(ev) # DecsOf(ev.owners)
          [] n = "echo"       -> ev.a = "OwnEcho"
          [] n = "conflict"   -> AS \cap DS # {}
          \* the same key id under two owners: named by one message / held for one sender /
          \* a decision on (o,k) fires or is dropped while one on (o2,k) of the same direction stays held
          [] n = "sameIdMsg"  -> ev.a # "Manual" /\ \E d1, d2 \in DecsOf(ev.owners) : d1.k = d2.k /\ d1.o # d2.o
          [] n = "sameIdHeld" -> \E h1, h2 \in post.pp : h1.sk = h2.sk /\ h1.k = h2.k /\ h1.o # h2.o
          [] n = "otherOwnerKept" -> \E h \in gone : \E g \in post.pp \cap pre.pp : g.k = h.k /\ g.t = h.t /\ g.o # h.o}

View == <<mvars, Len(hist)>>   \* hist itself is an observation variable
=============================================================================
