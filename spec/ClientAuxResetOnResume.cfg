SPECIFICATION Spec
CONSTANTS
  Cfgs <- AllCfgs
  PreFeats <- CorePreFeats
  PostFeats <- AllPostFeats
  MaxConn = 2
  MaxTok = 2
  MaxHist = 99
  ResumeKeepsCsi = FALSE
  AsCode = {}
INVARIANTS TypeOK CsiAgree CsiSyncedSound CarbonsOnce TokenKnown NoStepFlags
VIEW View
CHECK_DEADLOCK FALSE
