-------------------------------- MODULE Ibb --------------------------------
(***************************************************************************)
(* SI file transfer over an in-band bytestream (XEP-0095/0096/0047) as     *)
(* QXmppTransferManager implements it (src/client/QXmppTransferManager.cpp) *)
(* between a sending and a receiving client, with a network that may       *)
(* damage the sequence of data blocks.                                     *)
(*                                                                         *)
(* The file is a sequence of n blocks; block k carries the payload k.  An   *)
(* altered payload is 0.  `ann` is what the offer announces: size and MD5   *)
(* hash (what sendFile(path) produces), only one of them, or nothing        *)
(* (sendFile(jid, device, fileInfo) for generated data; a size of 0 means   *)
(* "unknown" in this code base).  The final verification of the receiver    *)
(* (checkData) compares what was announced; the hash is an uninterpreted    *)
(* injective function of the content.  The fault-free clause (CleanSuccess) *)
(* holds whatever is announced; what a fault does depends on it.            *)
(*                                                                         *)
(* One action per handler of the code / move of the environment:           *)
(*   Offer      QXmppTransferManager::sendFile                              *)
(*   RDeliver   the receiver's handleStanza for the stanza at the head of   *)
(*              the channel: streamInitiationSetReceived + accept(),       *)
(*              ibbOpenIqReceived, ibbDataIqReceived, ibbCloseIqReceived   *)
(*   SDeliver   the sender's handler for the reply at the head of the back  *)
(*              channel: streamInitiationResultReceived, ibbResponseReceived*)
(*              (request id must be the outstanding one), _q_iqReceived     *)
(*   Fault(k)   the network damages the data block at the head of the       *)
(*              channel (lost, lost+acknowledged, duplicated, altered,      *)
(*              wrong session id, wrong sender, swapped with the next       *)
(*              stanza, replaced by a close = stream cut short)             *)
(*   Inject(w,t) a third party (stranger, other resource of the sender's     *)
(*              account) or another session puts an open / block / close     *)
(*              with the right session id into the channel, at any point     *)
(*   Burst(k)   k fault-free rounds (block delivered, acknowledged, next    *)
(*              block sent) as one step: closed form used for long          *)
(*              transfers; cross-checked against the single steps by        *)
(*              CleanInv and by the state count (see lib/props/C19.py)      *)
(*                                                                         *)
(* The protocol is stop-and-wait (next block on each acknowledgement), so   *)
(* to reorder or continue after a loss the network acknowledges a block on  *)
(* behalf of the receiver (Drop, Swap).                                     *)
(*                                                                         *)
(* W is the wrap modulus of the block counter: 65536 in XEP-0047 and in the *)
(* trace specification, small in the model so that files of more than W     *)
(* blocks are explored.  The specification is the *intended* behaviour:     *)
(* both counters wrap; a block out of sequence invalidates the session at   *)
(* the receiver (XEP-0047 2.2).                                             *)
(***************************************************************************)
EXTENDS Naturals, Sequences, TLC

CONSTANTS W,            \* wrap modulus of the sequence counter
          Anns,         \* what the offers announce: subset of {"both", "size", "hash", "none"}
          Devs,         \* the receiver's output device: subset of {"all", "short", "fail"}
          Sizes,        \* set of file sizes in blocks
          MaxFaults,    \* bound on Fault steps per behaviour
          MaxInject,    \* bound on Inject steps per behaviour
          FaultKinds,   \* subset of StreamFaults
          InjectKinds,  \* subset of {"from", "res", "sid"}
          InjectElems,  \* subset of {"open", "data", "close"}
          Bursts,       \* burst lengths offered to the model checker
          MaxHist

VARIABLES n,                            \* size of the file in blocks
          ann,                          \* what the offer announces about the file (size and/or MD5 hash)
          dev, devAt,                   \* output device of the receiving application: accepts everything ("all"), or
                                        \* at its devAt-th write accepts only part of the block and says so without an
                                        \* error ("short"), or fails (write returns -1, "fail")
          nw,                           \* writes to the device so far
          hsh,                          \* payloads the receiver's running hash has seen (got: what the device holds)
          fk,                           \* kind of the last stream fault ("none": no fault yet)
          sState, sErr, sSeq, sOff,     \* sender job: state, error, next seq, blocks sent
          sReq, sNext,                  \* id of the outstanding request, next fresh id
          rState, rErr, rSeq, got,      \* receiver job: state, error, expected seq, payloads written
          s2r, r2s,                     \* channel to the receiver, replies to the sender
          held,                         \* block kept back by the network (Swap)
          nf, ni,                       \* stream faults / injected foreign blocks so far
          hist

mvars == <<n, ann, dev, devAt, hsh, nw, fk, sState, sErr, sSeq, sOff, sReq, sNext, rState, rErr, rSeq, got, s2r, r2s, held, nf, ni>>
vars  == <<mvars, hist>>

StreamFaults == {"Lose", "Drop", "Dup", "Flip", "WrongSid", "WrongFrom", "Swap", "EarlyClose"}

Msg(t, id, seq, blk, pay, sid, from) ==
    [t |-> t, id |-> id, seq |-> seq, blk |-> blk, pay |-> pay, sid |-> sid, from |-> from]
NoMsg == Msg("none", 0, 0, 0, 0, "ok", "S")
Ctl(t, id) == Msg(t, id, 0, 0, 0, "ok", "S")
Rep(t, id) == [t |-> t, id |-> id]

File(k) == [i \in 1..k |-> i]

Init ==
    /\ n \in Sizes /\ ann \in Anns /\ fk = "none"
    /\ dev \in Devs /\ devAt \in (IF dev = "all" THEN {0} ELSE 1..n) /\ hsh = <<>> /\ nw = 0
    /\ sState = "Idle" /\ sErr = "NoError" /\ sSeq = 0 /\ sOff = 0 /\ sReq = 0 /\ sNext = 1
    /\ rState = "None" /\ rErr = "NoError" /\ rSeq = 0 /\ got = <<>>
    /\ s2r = <<>> /\ r2s = <<>> /\ held = NoMsg
    /\ nf = 0 /\ ni = 0
    /\ hist = <<>>

Log(r) == hist' = Append(hist, r)

(* a stanza of the sender enters the channel; a block kept back by the      *)
(* network follows it                                                       *)
SendS(q, m) == IF held.t # "none" THEN q \o <<m, held>> ELSE Append(q, m)

(* --- sender --------------------------------------------------------------- *)
Offer ==
    /\ sState = "Idle"
    /\ sState' = "Offer" /\ sReq' = sNext /\ sNext' = sNext + 1
    /\ s2r' = Append(s2r, Ctl("offer", sNext))
    /\ Log([a |-> "Offer"])
    /\ UNCHANGED <<n, ann, dev, devAt, fk, sErr, sSeq, sOff, rState, rErr, rSeq, got, hsh, nw, r2s, held, nf, ni>>

\* streamInitiationResultReceived / ibbResponseReceived
SenderOn(a) ==
    IF a.id # sReq \/ sState \in {"Idle", "Finished"}
    THEN UNCHANGED <<sState, sErr, sSeq, sOff, sReq, sNext, s2r, held>>         \* not the outstanding request
    ELSE IF sState = "Offer"
    THEN IF a.t = "res"
         THEN \* offer accepted: open the bytestream
              /\ sState' = "Start" /\ sReq' = sNext /\ sNext' = sNext + 1
              /\ s2r' = SendS(s2r, Ctl("open", sNext)) /\ held' = NoMsg
              /\ UNCHANGED <<sErr, sSeq, sOff>>
         ELSE /\ sState' = "Finished" /\ sErr' = "Abort"
              /\ UNCHANGED <<sSeq, sOff, sReq, sNext, s2r, held>>
    ELSE IF a.t = "res"
    THEN IF sOff < n
         THEN \* next block
              /\ sState' = "Transfer" /\ sReq' = sNext /\ sNext' = sNext + 1
              /\ s2r' = SendS(s2r, Msg("data", sNext, sSeq, sOff + 1, sOff + 1, "ok", "S")) /\ held' = NoMsg
              /\ sSeq' = (sSeq + 1) % W /\ sOff' = sOff + 1
              /\ UNCHANGED sErr
         ELSE \* end of data: close, success
              /\ sState' = "Finished" /\ sErr' = "NoError" /\ sReq' = sNext /\ sNext' = sNext + 1
              /\ s2r' = SendS(s2r, Ctl("close", sNext)) /\ held' = NoMsg
              /\ UNCHANGED <<sSeq, sOff>>
    ELSE \* the peer refused a block (or the open): close, protocol error
         /\ sState' = "Finished" /\ sErr' = "Protocol" /\ sReq' = sNext /\ sNext' = sNext + 1
         /\ s2r' = SendS(s2r, Ctl("close", sNext)) /\ held' = NoMsg
         /\ UNCHANGED <<sSeq, sOff>>

SDeliver ==
    /\ r2s # <<>>
    /\ r2s' = Tail(r2s)
    /\ SenderOn(Head(r2s))
    /\ Log([a |-> "SDeliver"])
    /\ UNCHANGED <<n, ann, dev, devAt, fk, rState, rErr, rSeq, got, hsh, nw, nf, ni>>

(* --- receiver ------------------------------------------------------------- *)
\* the job is found by sender JID and session id (getIncomingJobBySid)
Matched(m) == m.sid = "ok" /\ m.from = "S"
\* replies go to the stanza's sender; a third party's replies never reach S
Reply(q, m, t) == IF m.from = "S" THEN Append(q, Rep(t, m.id)) ELSE q

\* checkData: the size is compared if one was announced (an announced size of 0 means "not
\* announced" in this code base, so an empty file never announces one), the MD5 hash if one was.
\* Sizes are in blocks here: an altered block keeps its length.
AnnSize(a) == a \in {"both", "size"}
AnnHash(a) == a \in {"both", "hash"}
DevMisbehaved == dev # "all" /\ nw >= devAt
CheckData == IF /\ (AnnSize(ann) /\ n > 0) => (Len(got) = n /\ ~(dev = "short" /\ DevMisbehaved))   \* bytes the device accepted
                /\ AnnHash(ann) => hsh = File(n)                                                   \* bytes received
             THEN "NoError" ELSE "FileCorrupt"

RDeliver ==
    /\ s2r # <<>>
    /\ LET m == Head(s2r) IN
       /\ s2r' = Tail(s2r)
       /\ CASE m.t = "offer" ->
                 IF rState = "None" /\ Matched(m)
                 THEN rState' = "Start" /\ r2s' = Reply(r2s, m, "res") /\ UNCHANGED <<rErr, rSeq, got, hsh, nw>>
                 ELSE r2s' = Reply(r2s, m, "err") /\ UNCHANGED <<rState, rErr, rSeq, got, hsh, nw>>
            [] m.t = "open" ->
                 IF rState = "Start" /\ Matched(m)
                 THEN rState' = "Transfer" /\ r2s' = Reply(r2s, m, "res") /\ UNCHANGED <<rErr, rSeq, got, hsh, nw>>
                 ELSE r2s' = Reply(r2s, m, "err") /\ UNCHANGED <<rState, rErr, rSeq, got, hsh, nw>>
            [] m.t = "data" ->
                 IF rState = "Transfer" /\ Matched(m)
                 THEN IF m.seq = rSeq
                      THEN \* expected block: write, count (with wrap), acknowledge
                           \* writeData: the counter advances by what the device accepted, the hash sees the
                           \* received block; a failed write (-1) leaves both alone.  The block is acknowledged
                           \* in every case (the result of writeData is not looked at).
                           /\ nw' = nw + 1
                           /\ IF dev = "all" \/ nw + 1 # devAt
                              THEN got' = Append(got, m.pay) /\ hsh' = Append(hsh, m.pay)
                              ELSE IF dev = "short"
                              THEN got' = Append(got, 0) /\ hsh' = Append(hsh, m.pay)     \* part of the block: not the block
                              ELSE UNCHANGED <<got, hsh>>
                           /\ rSeq' = (rSeq + 1) % W
                           /\ r2s' = Reply(r2s, m, "res") /\ UNCHANGED <<rState, rErr>>
                      ELSE \* out of sequence: refuse, the session is invalid
                           /\ rState' = "Finished" /\ rErr' = "Protocol"
                           /\ r2s' = Reply(r2s, m, "err") /\ UNCHANGED <<rSeq, got, hsh, nw>>
                 ELSE r2s' = Reply(r2s, m, "err") /\ UNCHANGED <<rState, rErr, rSeq, got, hsh, nw>>
            [] m.t = "close" ->
                 IF rState # "None" /\ Matched(m)
                 THEN /\ r2s' = Reply(r2s, m, "res")
                      /\ IF rState = "Finished" THEN UNCHANGED <<rState, rErr>>
                         ELSE rState' = "Finished" /\ rErr' = CheckData
                      /\ UNCHANGED <<rSeq, got, hsh, nw>>
                 ELSE r2s' = Reply(r2s, m, "err") /\ UNCHANGED <<rState, rErr, rSeq, got, hsh, nw>>
    /\ Log([a |-> "RDeliver"])
    /\ UNCHANGED <<n, ann, dev, devAt, fk, sState, sErr, sSeq, sOff, sReq, sNext, held, nf, ni>>

(* --- network ---------------------------------------------------------------- *)
Fault(k) ==
    /\ nf < MaxFaults /\ k \in StreamFaults
    /\ s2r # <<>> /\ Head(s2r).t = "data" /\ Head(s2r).blk > 0      \* a block of the stream
    /\ LET h == Head(s2r)  rest == Tail(s2r) IN
       CASE k = "Lose"       -> s2r' = rest /\ UNCHANGED <<r2s, held>>
         [] k = "Drop"       -> s2r' = rest /\ r2s' = Append(r2s, Rep("res", h.id)) /\ UNCHANGED held
         [] k = "Dup"        -> s2r' = <<h>> \o s2r /\ UNCHANGED <<r2s, held>>
         [] k = "Flip"       -> s2r' = <<[h EXCEPT !.pay = 0]>> \o rest /\ UNCHANGED <<r2s, held>>
         [] k = "WrongSid"   -> s2r' = <<[h EXCEPT !.sid = "bad"]>> \o rest /\ UNCHANGED <<r2s, held>>
         [] k = "WrongFrom"  -> s2r' = <<[h EXCEPT !.from = "X"]>> \o rest /\ UNCHANGED <<r2s, held>>
         [] k = "Swap"       -> /\ held.t = "none"
                                /\ held' = h /\ s2r' = rest /\ r2s' = Append(r2s, Rep("res", h.id))
         [] k = "EarlyClose" -> s2r' = <<Ctl("close", 0)>> \o rest /\ UNCHANGED <<r2s, held>>
    /\ nf' = nf + 1 /\ fk' = k
    /\ Log([a |-> "Fault", k |-> k])
    /\ UNCHANGED <<n, ann, dev, devAt, sState, sErr, sSeq, sOff, sReq, sNext, rState, rErr, rSeq, got, hsh, nw, ni>>

\* an element that is not part of the stream, at any point of the transfer: an <open/>, a block
\* (carrying the sequence number the receiver expects) or a <close/> with the RIGHT session id from a
\* stranger ("from": another bare JID, X) or from another resource of the sender's account ("res",
\* Y), or from the sender for another session ("sid").  The job is found by full JID and session
\* id, so all of them are refused (item-not-found) and change nothing.
InjectFrom(w) == IF w = "from" THEN "X" ELSE IF w = "res" THEN "Y" ELSE "S"
Inject(w, t, seq) ==
    /\ ni < MaxInject /\ w \in {"from", "res", "sid"} /\ t \in {"open", "data", "close"}
    /\ rState # "None"
    /\ s2r' = <<Msg(t, 0, IF t = "data" THEN seq ELSE 0, 0, 0, IF w = "sid" THEN "bad" ELSE "ok", InjectFrom(w))>> \o s2r
    /\ ni' = ni + 1
    /\ Log([a |-> "Inject", w |-> w, t |-> t])
    /\ UNCHANGED <<n, ann, dev, devAt, fk, sState, sErr, sSeq, sOff, sReq, sNext, rState, rErr, rSeq, got, hsh, nw, r2s, held, nf>>

(* --- k fault-free rounds as one step ---------------------------------------- *)
Steady ==
    /\ sState = "Transfer" /\ rState = "Transfer"
    /\ r2s = <<>> /\ held.t = "none" /\ Len(s2r) = 1
    /\ s2r[1] = Msg("data", sReq, rSeq, sOff, sOff, "ok", "S")
    /\ sSeq = (rSeq + 1) % W

Burst(k) ==
    /\ Steady /\ k >= 1 /\ sOff + k <= n /\ dev = "all"
    /\ got' = got \o [i \in 1..k |-> sOff + i - 1] /\ hsh' = hsh \o [i \in 1..k |-> sOff + i - 1] /\ nw' = nw + k
    /\ rSeq' = (rSeq + k) % W /\ sSeq' = (sSeq + k) % W
    /\ sOff' = sOff + k /\ sReq' = sReq + k /\ sNext' = sNext + k
    /\ s2r' = <<Msg("data", sReq + k, (rSeq + k) % W, sOff + k, sOff + k, "ok", "S")>>
    /\ Log([a |-> "Burst", k |-> k])
    /\ UNCHANGED <<n, ann, dev, devAt, fk, sState, sErr, rState, rErr, r2s, held, nf, ni>>

Next ==
    \/ Offer \/ RDeliver \/ SDeliver
    \/ \E k \in FaultKinds : Fault(k)
    \/ \E w \in InjectKinds : \E t \in InjectElems : Inject(w, t, rSeq)
    \/ \E k \in Bursts : Burst(k)

Spec == Init /\ [][Next]_vars
FairSpec == Spec /\ WF_vars(RDeliver) /\ WF_vars(SDeliver) /\ WF_vars(Offer)

(* --- properties (C19) ------------------------------------------------------- *)
\* written over the observable outcome so that IbbTrace evaluates the same
\* predicates on what the implementation reported:
\*   rs/re, ss/se  state and error of the receiving / sending job
\*   eq            the receiver's device holds exactly the bytes of the file
\*   nflt          number of stream faults;  q  the exchange is quiescent
\* "every single fault" (C19): two faults can cancel (a duplicate that is then lost),
\* so detection is claimed for exactly one; safety for any number.
Success(st, er) == st = "Finished" /\ er = "NoError"
\* What an offer announces decides what the receiver can notice.  With a hash every single fault of
\* the block sequence is detected; with the size only, everything but an alteration that keeps
\* the length; with nothing announced a lost or cut-off tail cannot be told from the end of the
\* data by anyone, so only the fault-free clause is claimed.  (The sequence numbers catch
\* duplicates and reorderings in the middle of a stream whatever is announced; not claimed.)
Detectable(k, a) == AnnHash(a) \/ (a = "size" /\ k # "Flip")
\* ... and on the output device: a device that accepts only part of a block (and says so) is noticed
\* through the announced size (the counter advances by what was accepted; the hash is over what was
\* received and cannot tell), a device whose write fails through size or hash; with less announced
\* the unannounced transfer cannot notice (documented limit, see docs/C19.md "C19-6").
SafeClaim(a, d) == CASE d = "all" -> AnnHash(a) [] d = "short" -> AnnSize(a) [] d = "fail" -> AnnSize(a) \/ AnnHash(a)
P_Safe(a, d, rs, re, eq)  == (SafeClaim(a, d) /\ Success(rs, re)) => eq
P_FaultDetected(a, k, nflt, rs, re) == (nflt = 1 /\ Detectable(k, a)) => ~Success(rs, re)
P_CleanSuccess(nflt, d, q, rs, re, ss, se, eq) == (q /\ nflt = 0 /\ d = "all") => (Success(rs, re) /\ Success(ss, se) /\ eq)

Quiescent == sState # "Idle" /\ s2r = <<>> /\ r2s = <<>>

Safe          == P_Safe(ann, dev, rState, rErr, got = File(n))
FaultDetected == P_FaultDetected(ann, fk, nf, rState, rErr)
CleanSuccess  == P_CleanSuccess(nf, dev, Quiescent, rState, rErr, sState, sErr, got = File(n))

\* fault-free states are a function of the progress (pins down Burst's closed form)
CleanInv ==
    (nf = 0 /\ ni = 0 /\ dev = "all" /\ s2r # <<>> /\ s2r[1].t = "data") =>
        /\ Steady
        /\ got = File(sOff - 1) /\ rSeq = (sOff - 1) % W /\ sReq = sOff + 2 /\ sNext = sOff + 3

\* an element that does not come from the offering full JID for this session never changes the job
ForeignInert ==
    [][(s2r # <<>> /\ ~Matched(Head(s2r)) /\ s2r' = Tail(s2r)) => UNCHANGED <<rState, rErr, rSeq, got, hsh, nw>>]_vars
\* the same on two consecutive observations (rs, re: state and error of the job, rw: blocks written)
P_ForeignInert(foreign, rs0, re0, rw0, rs1, re1, rw1) == foreign => (rs1 = rs0 /\ re1 = re0 /\ rw1 = rw0)

TypeOK ==
    /\ n \in Nat /\ ann \in {"both", "size", "hash", "none"} /\ fk \in StreamFaults \cup {"none"} /\ sOff \in 0..n /\ sSeq \in 0..(W - 1) /\ rSeq \in 0..(W - 1)
    /\ sState \in {"Idle", "Offer", "Start", "Transfer", "Finished"}
    /\ rState \in {"None", "Start", "Transfer", "Finished"}
    /\ sErr \in {"NoError", "Abort", "Protocol"} /\ rErr \in {"NoError", "Protocol", "FileCorrupt"}
    /\ nf \in 0..MaxFaults /\ ni \in 0..MaxInject
    /\ (rState # "Finished" => rErr = "NoError") /\ (sState # "Finished" => sErr = "NoError")

\* every fair behaviour comes to rest (the protocol itself has no retransmission or time-out:
\* after a silent loss both jobs wait for ever -- and nobody reports success)
Termination == <>[]((s2r = <<>> /\ r2s = <<>>) /\ sState # "Idle")

\* re-initialisation used by the trace specification at an execution boundary
Reinit(k, a, d, at) ==
    /\ n' = k /\ ann' = a /\ fk' = "none" /\ dev' = d /\ devAt' = at /\ hsh' = <<>> /\ nw' = 0
    /\ sState' = "Idle" /\ sErr' = "NoError" /\ sSeq' = 0 /\ sOff' = 0 /\ sReq' = 0 /\ sNext' = 1
    /\ rState' = "None" /\ rErr' = "NoError" /\ rSeq' = 0 /\ got' = <<>>
    /\ s2r' = <<>> /\ r2s' = <<>> /\ held' = NoMsg
    /\ nf' = 0 /\ ni' = 0
    /\ hist' = <<>>

Bound == Len(hist) <= MaxHist
View  == mvars
=============================================================================
