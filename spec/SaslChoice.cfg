SPECIFICATION Spec
CONSTANTS
  OfferNames = {"ANONYMOUS", "PLAIN", "DIGEST-MD5", "SCRAM-SHA-1", "SCRAM-SHA-256", "HT-SHA-256-NONE", "scram-sha-256"}
  FastSets = {{"HT-SHA-256-NONE"}, {"HT-SHA-256-ENDP", "HT-SHA3-512-NONE"}}
  VFKinds = {"v1", "v2", "v2fast", "v2fastoff"}
  DisabledNames = {"PLAIN", "SCRAM-SHA-256", "HT-SHA-256-NONE"}
  PreferredSet = {"", "PLAIN", "SCRAM-SHA-1"}
  PwSet = {TRUE, FALSE}
  TokenSet = {"", "HT-SHA-256-NONE"}
  GoogleSet = {FALSE}
  WliveSet = {FALSE}
  FbSet = {FALSE}
INVARIANTS TypeOK PropertyHolds
VIEW View
CHECK_DEADLOCK FALSE
