SPECIFICATION Spec
CONSTANTS
  Jids = {"c1"}
  MaxVer = 1
  Ress = {"r1"}
  Froms = {"absent", "stranger"}
  ConnKinds = {"plain", "smr", "resumed"}
  MaxReqs = 2
  MaxItems = 1
  MaxHist = 4
CONSTRAINT ReqBound
CONSTRAINT Bound
ACTION_CONSTRAINT EmitBehaviour
CHECK_DEADLOCK FALSE
