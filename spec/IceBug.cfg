SPECIFICATION Spec
CONSTANTS
  Roles = {TRUE, FALSE}
  RequireMI = FALSE
  ForgedAuth = {"none", "wrong", "trunc"}
  Usernames = {"ok", "other"}
  MaxTx = 4
  MaxTicks = 2
  Timers = FALSE
  MaxHist = 99
INVARIANTS TypeOK SelectedIsValid PairsKnown
PROPERTIES AuthOnly
CONSTRAINT Bound
VIEW View
CHECK_DEADLOCK FALSE
