SPECIFICATION Spec
CONSTANTS
  Apis <- GenApis
  StrangerPayloads = {"empty"}
  Payloads = {"empty", "error", "foreign"}
  MaxMsgs = 0
  MaxPend = 2
  MaxHist = 3
CONSTRAINT Bound
ACTION_CONSTRAINT EmitBehaviour
CHECK_DEADLOCK FALSE
