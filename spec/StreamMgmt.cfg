SPECIFICATION Spec
CONSTANTS
  MaxId = 5
  MaxH = 6
  MaxConn = 3
  MaxRecv = 2
  MaxHist = 99
INVARIANTS TypeOK AckedOnlyCovered AtMostOnce NoCoveredResent HandledCount
PROPERTIES ResendExact
VIEW View
CHECK_DEADLOCK FALSE
