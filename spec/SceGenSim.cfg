SPECIFICATION Spec
CONSTANTS
  MaxSet = 99
  Bases <- BasesNone
  Ordered = FALSE
ACTION_CONSTRAINT EmitBehaviour
CHECK_DEADLOCK FALSE
