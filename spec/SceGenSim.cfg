SPECIFICATION Spec
CONSTANTS
  MaxSet = 99
  Ordered = FALSE
ACTION_CONSTRAINT EmitBehaviour
CHECK_DEADLOCK FALSE
