---------------------------- MODULE ClientStream ----------------------------
(***************************************************************************)
(* The client stream state machine of QXmppOutgoingClient                   *)
(* (src/client/QXmppOutgoingClient.cpp): socket events, stream start,       *)
(* feature negotiation (STARTTLS, SASL, SASL 2, XEP-0078 legacy auth,       *)
(* resource binding, XEP-0198 enable/resume), session open/close, stream    *)
(* errors and redirects, against an arbitrary server.  One handler          *)
(* operator per handler of the code; handlers are functions from a          *)
(* result record r = [c: client state, out: elements written (kind, enc),   *)
(* sig: signals fired] to a result record, so that the code's nested calls  *)
(* (Rejected -> disconnectFromHost -> socket disconnected -> closeSession)  *)
(* compose the way they do in the code.                                     *)
(*                                                                          *)
(* Properties: C04 (nothing sensitive before TLS when TLS is required) and  *)
(* C10 (any connection loss leaves a consistent, reconnectable client).     *)
(*                                                                          *)
(* Behaviour the code knowingly has is modelled as it is, not idealised:    *)
(*  - WhitespaceKeepaliveRejected: a whitespace keep-alive becomes a null   *)
(*    element which every listener rejects -> the client closes the stream; *)
(*  - LegacyAuthNeverCompletes: after the XEP-0078 field offer the same     *)
(*    manager object issues the auth request, and handlePacketReceived      *)
(*    resets the listener because the variant index did not change, so the  *)
(*    server's answer is treated as an unrelated IQ result;                 *)
(*  - UnauthenticatedSession: features that offer nothing to negotiate open *)
(*    a session even though the client never authenticated;                 *)
(* A SASL <success/> is accepted only from a server that authenticated      *)
(* itself as the mechanism requires (SaslExchange.tla, C06); the scripted     *)
(* server of this model never presents a SCRAM server signature, so a SCRAM  *)
(* exchange can only end in an error here, while PLAIN succeeds.             *)
(*                                                                          *)
(* Places where the specification states the intended behaviour and the      *)
(* pinned code did not follow it (repaired by "fix:" commits in /repo):      *)
(*  - a version-less stream header started legacy authentication without     *)
(*    looking at the TLS requirement (C04);                                  *)
(*  - a see-other-host redirect received on an established session           *)
(*    reconnected without closing the session first (C04/C10).               *)
(***************************************************************************)
EXTENDS Naturals, Sequences, FiniteSets, TLC

CONSTANTS Cfgs,          \* client configurations explored: [tls, sasl2, sasl, legacy, reg]
                         \* (reg: a QXmppRegistrationManager with register-on-connect is installed,
                         \*  with ("form") or without ("noform") a cached registration form; "none")
          FeatureSets,   \* <stream:features/> contents the server may send
          MaxConn,       \* bound on connections per behaviour
          MaxQ,          \* bound on unacknowledged stanzas remembered (state constraint)
          MaxHist        \* bound on behaviour length

VARIABLES cfg,           \* configuration of this behaviour
          c,             \* client state (record, see C0)
          expect,        \* ghost: what a conforming server sends next on a fresh stream: "Hdr" | "Features" | "None"
          conf,          \* ghost: the server has been protocol-conforming so far (C10 quantifies over those)
          prev,          \* ghost: how the previous connection of this client ended (what it had reached);
                         \* the code must not carry any of it over, so behaviours are generated after
                         \* every kind of previous connection (it is part of the generators' VIEW)
          leak,          \* ghost: something sensitive was written on an unencrypted link
          connSig,       \* ghost: `connected` signals on the current connection
          lastOut, lastSig,   \* observation: what the last step wrote / signalled
          hist           \* observation: the environment's moves so far

vars == <<cfg, c, expect, conf, prev, leak, connSig, lastOut, lastSig, hist>>

TlsModes   == {"Disabled", "Enabled", "Required"}
Listeners  == {"Core", "Starttls", "Legacy", "Sasl", "Sasl2", "SmResume", "SmEnable", "Sm", "Bind"}
\* ("Sm": the stream-management job owns the stream but its request has been dropped)

\* element kinds the client can write (projection used by the harness too)
Sensitive == {"SaslAuth", "SaslResponse", "SaslAbort", "Sasl2Authenticate", "Sasl2Response", "Sasl2Abort",
              "LegacyAuthQuery", "LegacyAuthSet", "BindRequest", "SmEnable", "SmResume",
              "Iq", "Message", "Presence"}
Harmless  == {"StreamOpen", "StreamClose", "Starttls", "SmAck", "SmReq"}

C0 == [sock |-> "Off", enc |-> FALSE, wrap |-> FALSE, frag |-> FALSE, lst |-> "Core", lq |-> "None", ver |-> "none",
       authed |-> FALSE, session |-> FALSE,
       bindAvail |-> FALSE, smAvail |-> FALSE, smEnabled |-> FALSE, smResumed |-> FALSE,
       canResume |-> FALSE, redirect |-> FALSE,
       mech |-> "none", step |-> 0,
       rqB |-> FALSE, rqS |-> FALSE, rqR |-> FALSE,   \* SASL 2 inline requests: bind2, bind2+sm enable, sm resume
       ackOn |-> FALSE,        \* StreamAckManager::m_enabled
       q |-> <<>>,             \* StreamAckManager: stanzas sent with acks on and not acknowledged (kinds)
       iq |-> "none",          \* one probe request: none | out | done
       conn |-> 0]

R0(cl) == [c |-> cl, out |-> <<>>, sig |-> <<>>]

(* ---------------------------------------------------------------------- *)
(* building blocks (each mirrors a function of the code)                   *)
(* ---------------------------------------------------------------------- *)
Emit(r, k)   == [r EXCEPT !.out = Append(@, [k |-> k, enc |-> r.c.enc])]
Signal(r, s) == [r EXCEPT !.sig = Append(@, s)]
SetLst(r, l) == [r EXCEPT !.c.lst = l, !.c.lq = "None", !.c.mech = "none", !.c.step = 0,
                           !.c.rqB = FALSE, !.c.rqS = FALSE, !.c.rqR = FALSE]

\* StreamAckManager::internalSend: a stanza is remembered while acks are on
SendStanza(r, k) == Emit([r EXCEPT !.c.q = IF r.c.ackOn THEN Append(@, k) ELSE @], k)

\* StreamAckManager::enableStreamManagement: everything unacknowledged is written again
RECURSIVE Resend(_, _)
Resend(r, i) == IF i > Len(r.c.q) THEN r ELSE Resend(Emit(r, r.c.q[i]), i + 1)
EnableAcks(r) == Resend([r EXCEPT !.c.ackOn = TRUE], 1)

\* QXmppOutgoingClient::handleStart: per-stream reset, then the stream header
HandleStart(r) ==
    Emit([SetLst(r, "Core") EXCEPT !.c.ver = "none", !.c.smResumed = FALSE, !.c.smEnabled = FALSE], "StreamOpen")

\* closeSession: iqManager.onSessionClosed cancels unless resumable
CloseSession(r) ==
    Signal([r EXCEPT !.c.session = FALSE, !.c.ackOn = FALSE,
                     !.c.iq = IF ~r.c.canResume /\ r.c.iq = "out" THEN "done" ELSE @], "disconnected")

\* _q_socketDisconnected: redirect -> reconnect at once, else close the session
SocketDisconnected(r) ==
    LET r1 == [r EXCEPT !.c.sock = "Off", !.c.enc = FALSE, !.c.authed = FALSE] IN
    IF r1.c.redirect
    THEN LET r2 == IF r1.c.session THEN CloseSession(r1) ELSE r1 IN
         HandleStart([r2 EXCEPT !.c.redirect = FALSE, !.c.sock = "On", !.c.wrap = FALSE, !.c.conn = @ + 1])
    ELSE CloseSession(r1)

\* XmppSocket::disconnectFromHost: closing tag if connected, then the socket goes down
SocketClose(r) ==
    IF r.c.sock = "On" THEN SocketDisconnected(Emit(r, "StreamClose")) ELSE r

\* QXmppOutgoingClient::disconnectFromHost: resumption is given up
LocalClose(r) == SocketClose([r EXCEPT !.c.canResume = FALSE])

\* handlePacketReceived, Rejected branch (also used for setError + disconnectFromHost)
ErrorClose(r) == LocalClose(Signal(r, "error"))

\* openSession: onSessionOpened cancels requests of a non-resumed stream; QXmppClient
\* sends the initial presence when authenticated and not resumed
OpenSession(r) ==
    LET r1 == Signal([r EXCEPT !.c.session = TRUE,
                              !.c.iq = IF ~r.c.smResumed /\ r.c.iq = "out" THEN "done" ELSE @,
                              \* C2sStreamManager::onSessionOpened: a session without stream management
                              \* replaces any earlier session; its resumption state is forgotten
                              !.c.canResume = IF r.c.smEnabled THEN @ ELSE FALSE], "connected") IN
    IF r1.c.authed /\ ~r1.c.smResumed THEN SendStanza(r1, "Presence") ELSE r1

StartSmEnable(r) == Emit(SetLst(r, "SmEnable"), "SmEnable")
StartSmResume(r) == Emit(SetLst(r, "SmResume"), "SmResume")
StartBind(r)     == Emit(SetLst(r, "Bind"), "BindRequest")
StartLegacy(r)   == Emit([SetLst(r, "Legacy") EXCEPT !.c.lq = "Options"], "LegacyAuthQuery")

Mech(ms) == CASE ms = "scram" -> "SCRAM" [] ms = "plain" -> "PLAIN" [] OTHER -> "none"

\* SaslManager::authenticate / Sasl2Manager::authenticate: mechanism mismatch -> error, nothing sent
StartSasl(r, ms, l, k) ==
    IF Mech(ms) = "none"
    THEN ErrorClose(SetLst(r, l))
    ELSE Emit([SetLst(r, l) EXCEPT !.c.mech = Mech(ms), !.c.step = 1], k)

\* startSasl2Auth: the <authenticate/> carries the inline requests the features allow:
\* bind2 (with a stream-management <enable/> when bind2 lists it) and stream resumption
StartSasl2(r, F) ==
    LET r1 == StartSasl(r, F.s2, "Sasl2", "Sasl2Authenticate") IN
    IF Mech(F.s2) = "none" THEN r1
    ELSE [r1 EXCEPT !.c.rqB = F.b2 # "none", !.c.rqS = F.b2 = "sm",
                    !.c.rqR = F.r2 /\ ~r.c.smEnabled /\ r.c.canResume]

\* the part of handleStreamFeatures after authentication
AfterAuthFeatures(r, F) ==
    LET r1 == [r EXCEPT !.c.bindAvail = F.bind, !.c.smAvail = F.sm] IN
    IF r1.c.smAvail /\ ~r1.c.smEnabled /\ r1.c.canResume THEN StartSmResume(r1)
    ELSE IF r1.c.bindAvail THEN StartBind(r1)
    ELSE IF r1.c.smAvail /\ ~r1.c.smEnabled THEN StartSmEnable(r1)
    ELSE OpenSession(r1)

\* handleStreamFeatures: STARTTLS decision first, then SASL 2, SASL, legacy auth, then the rest
\* QXmppRegistrationManager::handleStanza with register-on-connect: the extension sees the
\* features before the stream does (elementReceived is emitted first).  It drives the stream's
\* own STARTTLS decision (handleStarttls) first -- which is what gives up when TLS is required
\* and not offered --, then gives up if in-band registration is not advertised, otherwise sends
\* the cached form (an <iq type='set'/> carrying user name and password) or asks for the form;
\* the features never reach the stream's authentication.
RegFeatures(r, F) ==
    IF ~r.c.enc /\ cfg.tls = "Required" /\ F.tls = "absent" THEN LocalClose(r)
    ELSE IF ~r.c.enc /\ cfg.tls # "Disabled" /\ F.tls # "absent" THEN Emit(SetLst(r, "Starttls"), "Starttls")
    ELSE IF ~F.register THEN LocalClose(r)          \* QXmppClient::disconnectFromServer before any session
    ELSE Emit(r, "Iq")

HandleFeatures(r, F) ==
    IF ~r.c.enc /\ cfg.tls = "Required" /\ F.tls = "absent" THEN LocalClose(r)
    ELSE IF ~r.c.enc /\ cfg.tls # "Disabled" /\ F.tls # "absent" THEN Emit(SetLst(r, "Starttls"), "Starttls")
    ELSE IF F.s2 # "none" /\ cfg.sasl2 THEN StartSasl2(r, F)
    ELSE IF F.mechs # "none" /\ cfg.sasl THEN StartSasl(r, F.mechs, "Sasl", "SaslAuth")
    ELSE IF F.legacy /\ cfg.legacy THEN StartLegacy(r)
    ELSE AfterAuthFeatures(r, F)

(* ---------------------------------------------------------------------- *)
(* element dispatch: handlePacketReceived -> current listener               *)
(* An element is a record with field k (kind) and kind-specific fields.     *)
(* ---------------------------------------------------------------------- *)
\* QXmppOutgoingClient::handleElement (listener = the client itself)
CoreElement(r, e) ==
    CASE e.k = "Features"   -> IF cfg.reg # "none" THEN RegFeatures(r, e.f) ELSE HandleFeatures(r, e.f)
      [] e.k = "IqReply"    -> IF r.c.iq = "out" THEN [r EXCEPT !.c.iq = "done"] ELSE r   \* known id / plain iqReceived
      [] e.k \in {"IqOther", "AuthFields", "LegacyResult", "BindResult"} -> r           \* IQ result/error of no request: iqReceived
      [] e.k = "SeeOtherHost" -> SocketClose([r EXCEPT !.c.redirect = TRUE])
      [] e.k = "StreamError" -> Signal(r, "error")
      [] OTHER              -> ErrorClose(r)      \* proceed, tls failure, SASL, SM nonzas, whitespace, ...

\* "ProceedThen": <proceed/> and a plaintext features element in the same segment (a peer or an
\* attacker on the plain link injects data between <proceed/> and the TLS handshake).  The
\* handshake has only been started when the second element is dispatched, so the stream is not
\* encrypted yet: with TLS required and no STARTTLS in those features the client gives up
\* (handleStarttls).  Only generated for TLS-required configurations and features without
\* STARTTLS, where the outcome does not depend on how the pending handshake ends.
StarttlsElement(r, e) ==
    IF e.k = "Proceed"
    THEN HandleStart([SetLst(r, "Core") EXCEPT !.c.enc = TRUE, !.c.wrap = FALSE])   \* startClientEncryption; `encrypted` -> handleStart
    ELSE IF e.k = "ProceedThen"
    THEN HandleFeatures(SetLst(r, "Core"), e.f)
    ELSE ErrorClose(r)

SaslElement(r, e) ==
    CASE e.k = "Success"   -> IF r.c.mech = "SCRAM"            \* the scripted server never proves itself (no server signature)
                              THEN SetLst(ErrorClose(r), "Core")
                              ELSE HandleStart([SetLst(r, "Core") EXCEPT !.c.authed = TRUE])   \* restart the stream
      [] e.k = "Challenge" -> IF r.c.mech = "SCRAM" /\ r.c.step = 1 /\ e.good
                              THEN Emit([r EXCEPT !.c.step = 2], "SaslResponse")
                              ELSE SetLst(ErrorClose(r), "Core")      \* job finished with an error
      [] e.k = "Failure"   -> SetLst(ErrorClose(r), "Core")
      [] OTHER             -> ErrorClose(r)                           \* Rejected: the job stays

Sasl2Element(r, e) ==
    CASE e.k = "Success2"   ->
            IF r.c.mech = "SCRAM" THEN SetLst(ErrorClose(r), "Core")
            ELSE \* continuation of startSasl2Auth: inline resumption result, then the bind2 result,
                 \* then the session opens at once if the stream was resumed; otherwise features follow
                 LET r1 == [SetLst(r, "Core") EXCEPT !.c.authed = TRUE]
                     r2 == IF e.res = "resumed"
                           THEN EnableAcks([r1 EXCEPT !.c.smResumed = TRUE, !.c.smEnabled = TRUE]) ELSE r1
                     r3 == IF e.bnd \in {"enabled", "enabledNoResume"}
                           THEN EnableAcks([r2 EXCEPT !.c.smEnabled = TRUE, !.c.canResume = (e.bnd = "enabled")]) ELSE r2
                 IN IF e.res = "resumed" THEN OpenSession(r3) ELSE r3
      [] e.k = "Challenge2" -> IF r.c.mech = "SCRAM" /\ r.c.step = 1 /\ e.good
                               THEN Emit([r EXCEPT !.c.step = 2], "Sasl2Response")
                               ELSE SetLst(ErrorClose(r), "Core")
      [] e.k = "Failure2"   -> SetLst(ErrorClose(r), "Core")
      [] e.k = "Continue2"  -> Emit(r, "Sasl2Abort")
      [] OTHER              -> ErrorClose(r)

\* NonSaslAuthManager::handleElement + continuations of startNonSaslAuth.
\* LegacyAuthNeverCompletes: the listener is reset to the client after the field offer.
LegacyElement(r, e) ==
    IF e.k \notin {"AuthFields", "LegacyResult", "IqOther", "IqReply", "BindResult"} THEN ErrorClose(r)   \* not an <iq/>
    ELSE IF r.c.lq = "Options"
         THEN IF e.k = "AuthFields" /\ (e.plain \/ e.digest)
              THEN Emit(SetLst(r, "Core"), "LegacyAuthSet")
              ELSE LocalClose(SetLst(r, "Core"))      \* no usable field / error / other iq: give up (no error signal)
         ELSE ErrorClose(r)

BindElement(r, e) ==
    IF e.k = "BindResult"
    THEN IF e.ok
         THEN LET r1 == SetLst(r, "Core") IN
              IF r1.c.smAvail /\ ~r1.c.smEnabled THEN StartSmEnable(r1) ELSE OpenSession(r1)
         ELSE ErrorClose(SetLst(r, "Core"))
    ELSE ErrorClose(r)

SmResumeElement(r, e) ==
    CASE e.k = "Resumed"  -> OpenSession(EnableAcks([SetLst(r, "Core") EXCEPT !.c.smResumed = TRUE, !.c.smEnabled = TRUE]))
      [] e.k = "SmFailed" -> LET r1 == SetLst(r, "Core") IN
                             IF r1.c.bindAvail THEN StartBind(r1) ELSE OpenSession(r1)
      [] OTHER            -> ErrorClose(SetLst(r, "Sm"))     \* the pending request is dropped, then Rejected

SmEnableElement(r, e) ==
    CASE e.k = "Enabled"  -> OpenSession(EnableAcks([SetLst(r, "Core") EXCEPT !.c.smEnabled = TRUE, !.c.canResume = e.resume]))
      [] e.k = "SmFailed" -> OpenSession(SetLst(r, "Core"))
      [] OTHER            -> ErrorClose(SetLst(r, "Sm"))

Dispatch(r, e) ==
    CASE r.c.lst = "Core"     -> CoreElement(r, e)
      [] r.c.lst = "Starttls" -> StarttlsElement(r, e)
      [] r.c.lst = "Sasl"     -> SaslElement(r, e)
      [] r.c.lst = "Sasl2"    -> Sasl2Element(r, e)
      [] r.c.lst = "Legacy"   -> LegacyElement(r, e)
      [] r.c.lst = "Bind"     -> BindElement(r, e)
      [] r.c.lst = "SmResume" -> SmResumeElement(r, e)
      [] r.c.lst = "SmEnable" -> SmEnableElement(r, e)
      [] r.c.lst = "Sm"       -> ErrorClose(r)

\* handleStream: a stream header (not routed through the listener)
HandleHeader(r0, versioned) ==
    LET r == [r0 EXCEPT !.c.wrap = TRUE] IN      \* XmppSocket caches the header for wrapping later reads
    IF r.c.ver = "none"
    THEN LET r1 == [r EXCEPT !.c.ver = IF versioned THEN "v1" ELSE "none"] IN
         IF ~versioned /\ cfg.legacy
         THEN IF cfg.tls = "Required" /\ ~r1.c.enc THEN LocalClose(r1)    \* cannot negotiate TLS on a pre-1.0 stream: give up
              ELSE StartLegacy(r1)
         ELSE r1
    ELSE r

(* ---------------------------------------------------------------------- *)
(* the environment's alphabet                                               *)
(* ---------------------------------------------------------------------- *)
Elements ==
    {[k |-> "Features", f |-> F] : F \in FeatureSets}
    \cup {[k |-> "ProceedThen", f |-> F] : F \in {G \in FeatureSets : G.tls = "absent"}}
    \cup {[k |-> "Success2", res |-> rs, bnd |-> b] : rs \in {"none", "resumed", "failed"},
                                                    b \in {"none", "plain", "enabled", "enabledNoResume", "smfailed"}}
    \cup {[k |-> x] : x \in {"Proceed", "TlsFailure", "Success", "Failure", "Failure2", "Continue2",
                             "IqOther", "IqReply", "LegacyResult", "Resumed", "SmFailed",
                             "SeeOtherHost", "StreamError", "Whitespace"}}
    \cup {[k |-> x, good |-> g] : x \in {"Challenge", "Challenge2"}, g \in BOOLEAN}
    \cup {[k |-> "AuthFields", plain |-> p, digest |-> d] : p \in BOOLEAN, d \in BOOLEAN}
    \cup {[k |-> "BindResult", ok |-> b] : b \in BOOLEAN}
    \cup {[k |-> "Enabled", resume |-> b] : b \in BOOLEAN}

\* what a step wrote that must not be on an unencrypted link
LeaksIn(out) == \E i \in DOMAIN out : out[i].k \in Sensitive /\ ~out[i].enc

\* Would a protocol-conforming server send element e to a client in state cl?
\* (the server answers the request the client has pending; features follow a header)
Conforming(cl, ex, e) ==
    CASE cl.lst = "Starttls" -> e.k \in {"Proceed", "TlsFailure"}
      [] cl.lst = "Sasl"     -> e.k \in {"Challenge", "Success", "Failure"}
      [] cl.lst = "Sasl2"    -> \/ e.k \in {"Challenge2", "Failure2", "Continue2"}
                                \/ /\ e.k = "Success2"         \* inline results only for what was requested
                                   /\ (e.res # "none" => cl.rqR)
                                   /\ (e.bnd # "none" => cl.rqB /\ e.res # "resumed")
                                   /\ (e.bnd \in {"enabled", "enabledNoResume", "smfailed"} => cl.rqS)
      [] cl.lst = "Legacy"   -> e.k \in {"AuthFields"}
      [] cl.lst = "Bind"     -> e.k = "BindResult"
      [] cl.lst = "SmResume" -> e.k \in {"Resumed", "SmFailed"}
      [] cl.lst = "SmEnable" -> e.k \in {"Enabled", "SmFailed"}
      [] cl.lst = "Sm"       -> FALSE
      [] cl.lst = "Core"     -> \/ e.k = "Features" /\ ex = "Features"
                                \/ e.k \in {"IqReply", "SeeOtherHost", "StreamError"}
                                \/ e.k = "Hdr" /\ ex = "Hdr"

\* expectation after a step: a stream header written by the client is answered by a header,
\* a header (and a SASL 2 success) by features
NextExpect(r, ev) ==
    IF \E i \in DOMAIN r.out : r.out[i].k = "StreamOpen" THEN "Hdr"
    ELSE IF r.c.sock = "Off" THEN "None"
    ELSE IF ev.k = "Hdr" /\ expect = "Hdr" THEN "Features"
    ELSE IF ev.k = "Success2" /\ c.lst = "Sasl2" /\ ev.res # "resumed" THEN "Features"
    ELSE IF ev.k = "Features" THEN "None"
    ELSE expect

Min2(n) == IF n > 2 THEN 2 ELSE n

Prev0 == [none |-> TRUE, enc |-> FALSE, authed |-> FALSE, session |-> FALSE, sm |-> FALSE, resumed |-> FALSE, redirected |-> FALSE,
          lst |-> "Core"]     \* lst: the negotiation manager that was installed when the connection ended

Apply(r, ev) ==
    /\ c' = r.c
    /\ prev' = IF c.sock = "On" /\ (r.c.sock = "Off" \/ r.c.conn # c.conn)     \* this step ended a connection
               THEN [none |-> FALSE, enc |-> c.enc, authed |-> c.authed, session |-> c.session, sm |-> c.smEnabled,
                     resumed |-> c.smResumed, redirected |-> (r.c.conn # c.conn), lst |-> c.lst]
               ELSE prev
    /\ expect' = NextExpect(r, ev)
    /\ conf' = (conf /\ (ev.k \in {"Connect", "Cut", "Disconnect", "SendIq"} \/ Conforming(c, expect, ev)))
    /\ lastOut' = r.out
    /\ lastSig' = r.sig
    /\ leak' = (leak \/ (cfg.tls = "Required" /\ LeaksIn(r.out)))
    /\ connSig' = Min2((IF r.c.conn # c.conn THEN 0 ELSE connSig)
                       + Cardinality({i \in DOMAIN r.sig : r.sig[i] = "connected"}))   \* saturates at 2
    /\ hist' = Append(hist, ev)
    /\ UNCHANGED cfg

Init ==
    /\ cfg \in Cfgs
    /\ c = C0 /\ expect = "None" /\ conf = TRUE /\ prev = Prev0 /\ leak = FALSE /\ connSig = 0 /\ lastOut = <<>> /\ lastSig = <<>> /\ hist = <<>>

\* QXmppClient::connectToServer with an explicit host; the socket connects -> handleStart
Connect ==
    /\ c.sock = "Off" /\ c.conn < MaxConn
    /\ Apply(HandleStart(R0([c EXCEPT !.sock = "On", !.wrap = FALSE, !.frag = FALSE, !.conn = @ + 1])), [k |-> "Connect"])

ServerHeader(versioned) ==
    /\ c.sock = "On" /\ ~c.frag
    /\ Apply(HandleHeader(R0(c), versioned), [k |-> "Hdr", versioned |-> versioned])

\* XmppSocket can only parse elements once it has a stream header to wrap them with (wrap);
\* what a server writes before its header just sits in the read buffer
ServerElement(e) ==
    /\ c.sock = "On" /\ c.wrap /\ ~c.frag
    /\ e.k = "IqReply" => c.iq = "out"            \* the server can only answer what was asked
    /\ e.k = "SeeOtherHost" => c.conn < MaxConn   \* (bound: a redirect opens another connection)
    /\ e.k = "ProceedThen" => (cfg.tls = "Required" /\ c.lst = "Starttls" /\ cfg.reg = "none")
    /\ Apply(Dispatch(R0(c), e), e)

\* The connection is about to be lost in the middle of an element: the beginning of an element
\* (w = "element") or of a multi-byte character (w = "utf8") arrives and nothing after it.  The
\* client does not react; the fragment sits in the receive buffer (frag) and must be gone when
\* the next connection starts (XmppSocket clears its buffers when the socket connects).
ServerPartial(w) ==
    /\ c.sock = "On" /\ c.wrap /\ ~c.frag
    /\ Apply(R0([c EXCEPT !.frag = TRUE]), [k |-> "Partial", what |-> w])

\* The remote end goes silent for longer than the client's keep-alive interval while no session
\* exists.  The keep-alive (ping) timer only runs during a session, so nothing is written.  (Not part
\* of Next: time is not a dimension of the exhaustive model; the step is appended to selected
\* behaviours by lib/props/_stream.py and followed here by the trace specification.)
Stall ==
    /\ c.sock = "On" /\ ~c.session
    /\ Apply(R0(c), [k |-> "Stall"])

\* the connection drops (peer abort)
Cut ==
    /\ c.sock = "On"
    /\ Apply(SocketDisconnected(R0(c)), [k |-> "Cut"])

\* QXmppClient::disconnectFromServer
UserDisconnect ==
    /\ c.sock = "On"
    /\ Apply(LocalClose(IF c.session THEN SendStanza(R0(c), "Presence") ELSE R0(c)), [k |-> "Disconnect"])

\* the application issues a request on an established session
SendIq ==
    /\ c.sock = "On" /\ c.session /\ c.iq = "none"
    /\ Apply(SendStanza(R0([c EXCEPT !.iq = "out"]), "Iq"), [k |-> "SendIq"])

Next ==
    \/ Connect \/ Cut \/ UserDisconnect \/ SendIq
    \/ \E v \in BOOLEAN : ServerHeader(v)
    \/ \E e \in Elements : ServerElement(e)
    \/ \E w \in {"element", "utf8"} : ServerPartial(w)

Spec == Init /\ [][Next]_vars

(* ---------------------------------------------------------------------- *)
(* properties                                                               *)
(* ---------------------------------------------------------------------- *)
TypeOK ==
    /\ cfg \in Cfgs
    /\ c.sock \in {"Off", "On"} /\ c.wrap \in BOOLEAN /\ c.lst \in Listeners /\ c.ver \in {"none", "v1"}
    /\ c.iq \in {"none", "out", "done"} /\ c.conn \in 0..MaxConn
    /\ \A i \in DOMAIN lastOut : lastOut[i].k \in Sensitive \cup Harmless

\* C04 --------------------------------------------------------------------
\* written as operators over observable quantities (reused by ClientStreamTrace)
P_NoLeak(tls, out)            == tls = "Required" => ~LeaksIn(out)
P_NoAuthUnencrypted(tls, enc, authed, session, sock) ==
    (tls = "Required" /\ sock = "On" /\ ~enc) => (~authed /\ ~session)

C04_NoLeak      == cfg.tls = "Required" => ~leak
C04_NoAuthPlain == P_NoAuthUnencrypted(cfg.tls, c.enc, c.authed, c.session, c.sock)
\* if encryption cannot be negotiated the client gives up (same step: the handler disconnects)
C04_GivesUp == [][(\E F \in FeatureSets :
                     /\ hist' = Append(hist, [k |-> "Features", f |-> F])
                     /\ cfg.tls = "Required" /\ ~c.enc /\ c.lst = "Core" /\ F.tls = "absent")
                  => c'.sock = "Off"]_vars

\* C10 --------------------------------------------------------------------
P_DownMeansDown(sock, session, authed) == sock = "Off" => (~session /\ ~authed)
C10_DownMeansDown == P_DownMeansDown(c.sock, c.session, c.authed)
C10_OneSessionPerConnection == conf => connSig <= 1
\* a session is declared only by a terminal branch of the negotiation: never while a
\* negotiation job owns the stream
P_SessionOnlyWhenDone(session, sock, lst) == (session /\ sock = "On") => lst = "Core"
C10_SessionOnlyWhenDone == conf => P_SessionOnlyWhenDone(c.session, c.sock, c.lst)
\* every outstanding request is completed, or retained only while the session is resumable
C10_RequestsSettled == (c.sock = "Off" /\ ~c.canResume) => c.iq # "out"
\* a new stream starts from scratch
C10_FreshStart == [][(c.sock = "Off" /\ c'.sock = "On") =>
                        (c'.lst = "Core" /\ c'.ver = "none" /\ ~c'.enc /\ ~c'.authed /\ ~c'.smEnabled /\ ~c'.smResumed
                         /\ Len(lastOut') = 1 /\ lastOut'[1].k = "StreamOpen")]_vars

Bound == Len(hist) <= MaxHist
QBound == Len(c.q) <= MaxQ
View  == <<cfg, c, expect, conf, leak, connSig>>
=============================================================================
