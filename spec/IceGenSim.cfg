SPECIFICATION Spec
CONSTANTS
  Roles = {TRUE, FALSE}
  RequireMI = TRUE
  ForgedAuth = {"none", "wrong", "trunc"}
  Usernames = {"ok", "other"}
  MaxTx = 8
  MaxTicks = 0
  Timers = FALSE
  MaxHist = 40
CONSTRAINT Bound
ACTION_CONSTRAINT EmitBehaviour
CHECK_DEADLOCK FALSE
