SPECIFICATION Spec
CONSTANTS
  Roles = {TRUE, FALSE}
  RequireMI = TRUE
  Dispatch = "class"
  Methods = {"binding", "other"}
  Priorities = {TRUE, FALSE}
  ForgedAuth = {"none", "wrong", "trunc"}
  Usernames = {"ok", "other"}
  MaxTx = 8
  MaxTicks = 0
  Timers = FALSE
  MaxHist = 40
ACTION_CONSTRAINT EmitBehaviour
CHECK_DEADLOCK FALSE
