SPECIFICATION TSpec
CONSTANTS
  Shapes <- ModelShapes
  Decoder = "stateful"
  Cache = "refresh"
  Limit = 0
INVARIANT Done
CHECK_DEADLOCK FALSE
