SPECIFICATION TSpec
CONSTANTS
  Shapes <- ModelShapes
  Decoder = "stateful"
  Cache = "refresh"
INVARIANT Done
CHECK_DEADLOCK FALSE
