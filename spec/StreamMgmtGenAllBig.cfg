SPECIFICATION Spec
CONSTANTS
  MaxId = 3
  MaxH = 2
  MaxConn = 3
  MaxRecv = 1
  MaxHist = 5
CONSTRAINT Bound
ACTION_CONSTRAINT EmitBehaviour
CHECK_DEADLOCK FALSE
