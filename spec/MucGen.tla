------------------------------- MODULE MucGen -------------------------------
(* Behaviour export for Muc (see lib/vf.py: tlc_gen / tlc_simulate).         *)
(* With VIEW View (MucGenTour*.cfg): transition tour -- every transition of  *)
(* the bounded model reached by a shortest path.  Without a VIEW and with    *)
(* CONSTRAINT Bound (MucGenAll*.cfg): every event sequence up to MaxHist.    *)
(* SimSpec (MucGenSim.cfg, -simulate): one disjunct per kind of event with   *)
(* randomly drawn arguments, so that random walks are not dominated by the   *)
(* kinds that have the most argument values; the presence kinds are drawn    *)
(* more often than the rest.                                                 *)
EXTENDS Muc, Json, CSV, IOUtils

EmitBehaviour ==
    CSVWrite("%1$s", <<ToJson([steps |-> hist'])>>, IOEnv.QXV_GEN)

\* mentions a variable so that TLC does not evaluate the draw once as a constant expression
Rnd(S) == RandomElement({x \in S : Len(hist) >= 0})
Weight(k) == IF k \in {"PresAv", "PresUn"} THEN 4 ELSE IF k \in {"Join", "Msg", "PermRes", "SetNick"} THEN 2 ELSE 1
SimNext ==
    \E k \in Kinds : \E w \in 1..Weight(k) :
        LET S == {e \in Events : e.a = k /\ Enabled(e)} IN S # {} /\ Apply(Rnd(S))
SimSpec == Init /\ [][SimNext]_vars
=============================================================================
