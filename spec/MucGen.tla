------------------------------- MODULE MucGen -------------------------------
(* Behaviour export for Muc (see lib/vf.py: tlc_gen / tlc_simulate).         *)
(* With VIEW View (MucGenTour*.cfg): transition tour -- every transition of  *)
(* the bounded model reached by a shortest path.  Without a VIEW and with    *)
(* CONSTRAINT Bound (MucGenAll*.cfg): every event sequence up to MaxHist     *)
(* that starts with the joining prefix.                                      *)
(* SimSpec (MucGenSim.cfg, -simulate): one disjunct per kind of event with   *)
(* randomly drawn arguments, so that random walks are not dominated by the   *)
(* kinds that have the most argument values; the presence kinds are drawn    *)
(* more often than the rest.                                                 *)
EXTENDS Muc, Json, CSV, IOUtils

\* `moves`: the last step changes the state or makes the rooms/manager emit something.  The tour
\* contains one behaviour per transition; lib/ext/muc.py replays every moving one and (quick tier) a
\* seeded sample of the others (events that must be -- and in the model are -- ignored).
Quiet(o) == o.msig = <<>> /\ o.sent = <<>> /\ \A r \in Rooms : o.sig[r] = <<>>
EmitBehaviour ==
    CSVWrite("%1$s", <<ToJson([steps |-> hist', moves |-> (View' # View \/ ~Quiet(out'))])>>, IOEnv.QXV_GEN)

\* All-paths generation starts inside the room (MucGenAll*.cfg: SpecJ): the prefix that joins r1 as
\* n1 next to the occupant n2 is part of the exported behaviour, then every event sequence up to
\* MaxHist - Len(Prefix) further steps follows.
Prefix == << [a |-> "SetNick", r |-> "r1", n |-> "n1"], [a |-> "Join", r |-> "r1"],
             [a |-> "PresAv", src |-> "r1", n |-> "n2", c |-> "none", it |-> "mod"],
             [a |-> "PresAv", src |-> "r1", n |-> "n1", c |-> "self", it |-> "mod"] >>
RECURSIVE Fold(_, _)
Fold(f, seq) == IF seq = <<>> THEN f ELSE Fold(StepOut(f, Head(seq)).st, Tail(seq))
InitJ ==
    /\ conn = TRUE /\ resumable = FALSE
    /\ rm = Fold([r \in Rooms |-> R0], Prefix)
    /\ out = Out0
    /\ hist = Prefix
SpecJ == InitJ /\ [][Next]_vars

\* mentions a variable so that TLC does not evaluate the draw once as a constant expression
Rnd(S) == RandomElement({x \in S : Len(hist) >= 0})
Weight(k) == IF k \in {"PresAv", "PresUn"} THEN 4 ELSE IF k \in {"Join", "Msg", "PermRes", "SetNick"} THEN 2 ELSE 1
SimNext ==
    \E k \in Kinds : \E w \in 1..Weight(k) :
        LET S == {e \in Events : e.a = k /\ Enabled(e)} IN S # {} /\ Apply(Rnd(S))
SimSpec == Init /\ [][SimNext]_vars
=============================================================================
