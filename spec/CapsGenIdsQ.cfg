SPECIFICATION Spec
CONSTANTS
  Cats = {0, 2}
  Types = {1}
  Langs = {0, 3}
  Names = {0, 2}
  Feats = {1}
  FTypes = {1}
  Vars = {1}
  Vals = {1}
  MaxIds = 2
  MaxFeats = 0
  MaxFields = 0
  MaxVals = 1
  EmitMin = 0
  MaxHist = 99
INVARIANTS TypeOK
PROPERTIES NeutralKeeps ChangeChanges SetsFollow
VIEW View
ACTION_CONSTRAINT EmitBehaviour
CHECK_DEADLOCK FALSE
