------------------------------ MODULE SceGen ------------------------------
(* Behaviour export for Sce (see lib/vf.py tlc_gen).  With Ordered = TRUE   *)
(* every set of kinds is reached by exactly one Set-sequence, so the         *)
(* exhaustive configurations enumerate every consistent set of at most       *)
(* MaxSet kinds once; SceGenSim.cfg (Ordered = FALSE, -simulate) gives random *)
(* larger sets.  The first emitted line of a run carries the table, so that   *)
(* lib/props/C17.py can check the driver knows exactly the spec's kinds.      *)
EXTENDS Sce, Json, CSV, IOUtils

EmitBehaviour ==
    CSVWrite("%1$s", <<ToJson([steps |-> hist'])>>, IOEnv.QXV_GEN)

\* evaluated once (ASSUME): export the table
ASSUME IOEnv.QXV_TABLE = "" \/ CSVWrite("%1$s", <<ToJson([kinds |-> [i \in DOMAIN KT |-> [k |-> KT[i].k, slot |-> KT[i].slot, cat |-> KT[i].cat, part |-> Part(KT[i].k)]]])>>, IOEnv.QXV_TABLE)
=============================================================================
