SPECIFICATION Spec
CONSTANTS
  Ids = {"i1", "k1"}
  Tos = {"server"}
  RFroms = {"exact", "stranger"}
  Types = {"result", "error"}
  OpenKinds = {"plain", "smr", "resumed"}
  Cids = {"fresh"}
  Bodies = {"sendNew"}
  Attempts = {"authfail", "userabort", "precut", "abandon"}
  IdRule = "replace"
  MaxHist = 99
VIEW GenView
ACTION_CONSTRAINT EmitBehaviour
CHECK_DEADLOCK FALSE
