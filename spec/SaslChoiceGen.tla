--------------------------- MODULE SaslChoiceGen ---------------------------
(* Case export for SaslChoice: every Authenticate transition TLC generates  *)
(* writes its case (the inputs of the choice) as one JSON line.             *)
EXTENDS SaslChoice, Json, CSV, IOUtils

EmitBehaviour ==
    CSVWrite("%1$s", <<ToJson([c |-> c', steps |-> hist'])>>, IOEnv.QXV_GEN)
=============================================================================
