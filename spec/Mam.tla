-------------------------------- MODULE Mam --------------------------------
(***************************************************************************)
(* Extension `mam`: QXmppMamManager (src/client/QXmppMamManager.cpp,       *)
(* XEP-0313 Message Archive Management) with its environment: the user     *)
(* (both APIs: retrieveMessages -> task, retrieveArchivedMessages ->       *)
(* signals), the archives (<result/> messages, the <fin/> IQ result, IQ     *)
(* errors), entities that forge results / fins, the end-to-end encryption   *)
(* extension (decryption jobs that finish later, in any order, or fail) and *)
(* the session.                                                             *)
(*                                                                         *)
(* Event driven: `Step(s, e)` is the reaction to ONE event as a pure        *)
(* function -> [st, out]; `Enabled(s, e)` the assumption about the          *)
(* environment.  MamTrace applies the same function to the logged events.   *)
(*                                                                         *)
(* State: conn; qs = the queries made, in order (the n-th query has the     *)
(* query id of the n-th request written):                                   *)
(*   api  "task" / "legacy"      to  "own" (no `to`: the account's archive) *)
(*                                   / "muc" (another entity's archive)     *)
(*   st   "open"  request written, <fin/> not yet received                  *)
(*        "dec"   <fin/> received, decryption jobs running (task API)       *)
(*        "done"  finished / answered / cancelled                           *)
(*   msgs the results collected (task API): [tok, enc]                      *)
(*   proc per collected result: "" job running, "p" parsed as it is,        *)
(*        "d" replaced by the decrypted message                             *)
(*   c    `complete` of the <fin/>                                          *)
(* nm counts the <result/> messages injected (tok = their number).          *)
(*                                                                         *)
(* The reaction is the INTENDED one.  Where the checked tree departs        *)
(* (docs/ext-mam.md):                                                       *)
(*   [A1] a <result/> is accepted into a query only from the archive that   *)
(*        was queried (XEP-0313, security considerations): no `from` / the  *)
(*        account's bare JID for the own archive, the queried JID otherwise;*)
(*        unknown / finished query ids are reported through the signal API  *)
(*        only when our own server sent them; anything else is not MAM's    *)
(*   [A2] the <fin/> of somebody we did not ask is ignored                  *)
(*   [A3] a <result/> that arrives after the <fin/> of its query (while the *)
(*        decryption jobs run) does not belong to the query any more        *)
(* Everything else follows the code.                                        *)
(***************************************************************************)
EXTENDS Naturals, Sequences, FiniteSets, TLC

CONSTANTS Apis,      \* subset of {"task", "legacy"}
          Archives,  \* subset of {"own", "muc"}
          Froms,     \* senders of injected stanzas: "none", "own", "muc", "evil"
          E2ee,      \* an encryption extension is installed
          Encs,      \* values of the `enc` flag of generated results (the archived message is encrypted)
          Kinds,     \* event kinds switched on
          MaxQ,      \* queries
          MaxM,      \* <result/> messages
          MaxD,      \* disconnects
          MaxDepth   \* MamPaths*.cfg (no VIEW: the history is part of the state): length of the event sequences

VARIABLES st, out, hist
vars == <<st, out, hist>>

Range(q) == {q[i] : i \in DOMAIN q}
Cnt(q, x) == Cardinality({i \in DOMAIN q : q[i] = x})

\* the sender the queried archive writes on its stanzas
Right(to, fr) == IF to = "own" THEN fr \in {"none", "own"} ELSE fr = to
OwnServer(fr) == fr \in {"none", "own"}
\* IQ responses: OutgoingIqManager also accepts a response without `from` (written by our own server, which is trusted)
RightIq(to, fr) == fr = "none" \/ Right(to, fr)

Snt(k, id, to)      == [k |-> k, id |-> id, to |-> to]               \* written by the client
Sg(s, q, tok, c)    == [s |-> s, q |-> q, tok |-> tok, c |-> c]      \* archivedMessageReceived / resultsRecieved
Dn(t, r, msgs, c)   == [t |-> t, r |-> r, msgs |-> msgs, c |-> c]    \* a task finished; msgs = <<[tok, how]>>
O(sent, sig, done, passed, jobs) == [sent |-> sent, sig |-> sig, done |-> done, passed |-> passed, jobs |-> jobs]
O0 == O(<<>>, <<>>, <<>>, 0, <<>>)
R(s, o) == [st |-> s, out |-> o]
Quiet(s) == R(s, O0)
Q0(api, to, state) == [api |-> api, to |-> to, st |-> state, msgs |-> <<>>, proc |-> <<>>, c |-> FALSE]

S0 == [conn |-> "up", qs |-> <<>>, nm |-> 0, nd |-> 0]

Valid(s, q) == q \in 1..Len(s.qs)
Live(s, q)  == Valid(s, q) /\ s.qs[q].st = "open"
Processed(x) == [i \in DOMAIN x.msgs |-> [tok |-> x.msgs[i].tok, how |-> x.proc[i]]]

(* ------------------------------------------------------------------ user *)
QueryStep(s, e) ==
    LET n == Len(s.qs) + 1 IN
    IF s.conn = "up"
    THEN R([s EXCEPT !.qs = Append(@, Q0(e.api, e.to, "open"))], [O0 EXCEPT !.sent = <<Snt("query", n, e.to)>>])
    ELSE R([s EXCEPT !.qs = Append(@, Q0(e.api, e.to, "done"))],                      \* nothing can be written
           IF e.api = "task" THEN [O0 EXCEPT !.done = <<Dn(n, "err", <<>>, FALSE)>>] ELSE O0)

(* ------------------------------------------------------- <result/> message *)
ResultStep(s, e) ==
    LET q  == e.q
        s1 == [s EXCEPT !.nm = @ + 1]
    IN IF Live(s, q) /\ Right(s.qs[q].to, e.fr)                                                          \* [A1]
       THEN (IF s.qs[q].api = "task"
             THEN Quiet([s1 EXCEPT !.qs[q].msgs = Append(@, [tok |-> e.tok, enc |-> e.enc])])
             ELSE R(s1, [O0 EXCEPT !.sig = <<Sg("archived", q, e.tok, FALSE)>>]))
       ELSE IF ~Live(s, q) /\ OwnServer(e.fr)                                                            \* [A3]
            THEN R(s1, [O0 EXCEPT !.sig = <<Sg("archived", q, e.tok, FALSE)>>])     \* signal API: unknown / finished id
       ELSE R(s1, [O0 EXCEPT !.passed = 1])                                          \* not MAM's: an ordinary message

(* ------------------------------------------------------------ <fin/> / error *)
FinishOk(s, q, x) == R([s EXCEPT !.qs[q] = [x EXCEPT !.st = "done"]], [O0 EXCEPT !.done = <<Dn(q, "ok", Processed(x), x.c)>>])

FinStep(s, e) ==
    LET q == e.q IN
    IF ~(Live(s, q) /\ RightIq(s.qs[q].to, e.fr)) THEN Quiet(s)                                             \* [A2]
    ELSE IF s.qs[q].api = "legacy"
         THEN R([s EXCEPT !.qs[q].st = "done"], [O0 EXCEPT !.sig = <<Sg("results", q, 0, e.c)>>])
    ELSE LET x    == s.qs[q]
             proc == [i \in DOMAIN x.msgs |-> IF E2ee /\ x.msgs[i].enc THEN "" ELSE "p"]
             jobs == SelectSeq(x.msgs, LAMBDA m : E2ee /\ m.enc)
             y    == [x EXCEPT !.proc = proc, !.c = e.c]
         IN IF jobs = <<>> THEN FinishOk(s, q, y)
            ELSE R([s EXCEPT !.qs[q] = [y EXCEPT !.st = "dec"]], [O0 EXCEPT !.jobs = [i \in DOMAIN jobs |-> jobs[i].tok]])

FinErrStep(s, e) ==
    LET q == e.q IN
    IF ~Live(s, q) THEN Quiet(s)
    ELSE IF s.qs[q].api = "legacy" THEN Quiet([s EXCEPT !.qs[q].st = "done"])      \* the signal API reports no errors
    ELSE R([s EXCEPT !.qs[q].st = "done"], [O0 EXCEPT !.done = <<Dn(q, "err", <<>>, FALSE)>>])

(* ------------------------------------------------------- decryption finishes *)
JobOf(s, tok) == {<<q, i>> \in (1..Len(s.qs)) \X (1..s.nm) :
                    /\ s.qs[q].st = "dec" /\ i \in DOMAIN s.qs[q].msgs
                    /\ s.qs[q].msgs[i].tok = tok /\ s.qs[q].proc[i] = ""}
DecryptStep(s, e) ==
    IF JobOf(s, e.tok) = {} THEN Quiet(s)
    ELSE LET j == CHOOSE j \in JobOf(s, e.tok) : TRUE
             q == j[1]
             x == [s.qs[q] EXCEPT !.proc[j[2]] = IF e.ok THEN "d" ELSE "p"]      \* failure: the message as it was stored
         IN IF \E i \in DOMAIN x.proc : x.proc[i] = "" THEN Quiet([s EXCEPT !.qs[q] = x])
            ELSE FinishOk(s, q, x)

(* --------------------------------------------------------------- session *)
RECURSIVE CancelFrom(_, _)
CancelFrom(s, q) == IF q > Len(s.qs) THEN <<>>
                    ELSE (IF s.qs[q].st = "open" /\ s.qs[q].api = "task" THEN <<Dn(q, "err", <<>>, FALSE)>> ELSE <<>>) \o CancelFrom(s, q + 1)
\* only the task API has a notion of cancellation: a query of the signal API stays "open" until its <fin/> / error arrives
Cancelled(s) == [s EXCEPT !.qs = [q \in DOMAIN s.qs |-> IF s.qs[q].st = "open" /\ s.qs[q].api = "task"
                                                         THEN [s.qs[q] EXCEPT !.st = "done", !.msgs = <<>>] ELSE s.qs[q]]]

DisconnectStep(s, e) ==
    IF e.kd = "resumable" THEN Quiet([s EXCEPT !.conn = "res", !.nd = @ + 1])
    ELSE R([Cancelled(s) EXCEPT !.conn = "down", !.nd = @ + 1], [O0 EXCEPT !.done = CancelFrom(s, 1)])
ConnectStep(s, e) ==
    IF e.kc = "resumed" THEN Quiet([s EXCEPT !.conn = "up"])
    ELSE R([Cancelled(s) EXCEPT !.conn = "up"], [O0 EXCEPT !.sent = <<Snt("pres", 0, "")>>, !.done = CancelFrom(s, 1)])

Step(s, e) ==
    CASE e.a = "Query"      -> QueryStep(s, e)
      [] e.a = "Result"     -> ResultStep(s, e)
      [] e.a = "Fin"        -> FinStep(s, e)
      [] e.a = "FinErr"     -> FinErrStep(s, e)
      [] e.a = "Decrypt"    -> DecryptStep(s, e)
      [] e.a = "Disconnect" -> DisconnectStep(s, e)
      [] e.a = "Connect"    -> ConnectStep(s, e)
      [] OTHER              -> Quiet(s)

(* ------------------------------------------ assumptions about the environment *)
\* results and fins travel on a live session; an archive answers a request once (a second <fin/> for the same
\* request is not generated); forged stanzas may name any query, also ids nobody used (q = 0)
Enabled(s, e) ==
    CASE e.a = "Query"      -> s.conn = "up" /\ Len(s.qs) < MaxQ
      [] e.a = "Result"     -> s.conn = "up" /\ s.nm < MaxM /\ e.tok = s.nm + 1 /\ (e.q = 0 \/ Valid(s, e.q))
      [] e.a = "Fin"        -> s.conn = "up" /\ Live(s, e.q)
      [] e.a = "FinErr"     -> s.conn = "up" /\ Live(s, e.q)
      [] e.a = "Decrypt"    -> JobOf(s, e.tok) # {}
      [] e.a = "Disconnect" -> s.conn = "up" /\ s.nd < MaxD
      [] e.a = "Connect"    -> s.conn # "up" /\ (e.kc = "resumed" => s.conn = "res")
      [] OTHER -> FALSE

EventsAt(s) ==
    {e \in    [a : {"Query"}, api : Apis, to : Archives]
         \cup [a : {"Result"}, q : 0..Len(s.qs), fr : Froms, enc : Encs, tok : {s.nm + 1}]
         \cup [a : {"Fin"}, q : 1..Len(s.qs), fr : Froms, c : BOOLEAN]
         \cup [a : {"FinErr"}, q : 1..Len(s.qs)]
         \cup [a : {"Decrypt"}, tok : 1..s.nm, ok : BOOLEAN]
         \cup [a : {"Disconnect"}, kd : {"plain", "resumable"}]
         \cup [a : {"Connect"}, kc : {"new", "resumed"}] : e.a \in Kinds}

Init == st = S0 /\ out = O0 /\ hist = <<>>
Apply(e) == LET r == Step(st, e) IN st' = r.st /\ out' = r.out /\ hist' = Append(hist, e)
Next == \E e \in EventsAt(st) : Enabled(st, e) /\ Apply(e)
Spec == Init /\ [][Next]_vars

(* ------------------------------------------------------------ properties *)
\* What a query must deliver, read off the history alone: the tokens of the <result/> messages that named ITS id
\* and came from ITS archive, between its request (the n-th Query) and the event that closed it, in arrival order.
QueryPos(h, n) == CHOOSE i \in DOMAIN h : h[i].a = "Query" /\ Cardinality({j \in 1..i : h[j].a = "Query"}) = n
Closes(e, n, to) == \/ e.a = "Fin" /\ e.q = n /\ RightIq(to, e.fr)
                    \/ e.a = "FinErr" /\ e.q = n
                    \/ e.a = "Disconnect" /\ e.kd = "plain"
                    \/ e.a = "Connect" /\ e.kc = "new"
RECURSIVE Collect(_, _, _, _)
Collect(h, i, n, to) ==
    IF i > Len(h) \/ Closes(h[i], n, to) THEN <<>>
    ELSE (IF h[i].a = "Result" /\ h[i].q = n /\ Right(to, h[i].fr) THEN <<h[i].tok>> ELSE <<>>) \o Collect(h, i + 1, n, to)
Expected(h, n) == LET p == QueryPos(h, n) IN Collect(h, p + 1, n, h[p].to)
Toks(msgs) == [i \in DOMAIN msgs |-> msgs[i].tok]

\* P_Attr: a task that finishes with messages returns exactly the results of its own query from its own archive
P_Attr(h, done) == \A i \in DOMAIN done : done[i].r = "ok" => Toks(done[i].msgs) = Expected(h, done[i].t)
\* P_Once: a task finishes at most once, and only a task that was handed out
P_Once(fin, n, done) == \A i \in DOMAIN done : done[i].t \in (1..n) \ fin /\ Cnt([j \in DOMAIN done |-> done[j].t], done[i].t) = 1
\* P_Sender: a result is reported through the signal API only if the queried archive (live legacy query) or our own server sent it
P_Sender(s, e, sig) == \A i \in DOMAIN sig : sig[i].s = "archived" =>
                            /\ e.a = "Result" /\ sig[i].tok = e.tok /\ sig[i].q = e.q
                            /\ IF Live(s, e.q) THEN s.qs[e.q].api = "legacy" /\ Right(s.qs[e.q].to, e.fr) ELSE OwnServer(e.fr)

LastEv == hist'[Len(hist')]
Finished(s) == {q \in DOMAIN s.qs : s.qs[q].st = "done"}
TypeOK == /\ st.conn \in {"up", "res", "down"} /\ Len(st.qs) <= MaxQ /\ st.nm <= MaxM
          /\ \A q \in DOMAIN st.qs : /\ st.qs[q].st \in {"open", "dec", "done"}
                                      /\ (st.qs[q].api = "legacy" => st.qs[q].msgs = <<>> /\ st.qs[q].st # "dec")
                                      /\ (st.qs[q].st = "dec" => \E i \in DOMAIN st.qs[q].proc : st.qs[q].proc[i] = "")
\* the mechanism agrees with the history: an open task query holds exactly what the history says it must deliver
Attribution == \A q \in DOMAIN st.qs : (st.qs[q].api = "task" /\ st.qs[q].st = "open") => Toks(st.qs[q].msgs) = Expected(hist, q)
DownIsClosed == st.conn = "down" => \A q \in DOMAIN st.qs : st.qs[q].api = "task" => st.qs[q].st # "open"
Delivered  == [][P_Attr(hist', out'.done)]_vars
OnceOnly   == [][/\ P_Once({q \in DOMAIN st.qs : st.qs[q].st = "done"}, Len(st'.qs), out'.done)
                 /\ \A q \in DOMAIN st.qs : st.qs[q].st = "done" => st'.qs[q] = st.qs[q]]_vars             \* released: nothing moves it
SenderChecked == [][P_Sender(st, LastEv, out'.sig)]_vars

\* MamPaths.cfg: no VIEW (the history is part of the state), every event sequence up to this length
Depth == Len(hist) <= MaxDepth
Reinit == st' = S0 /\ out' = O0 /\ hist' = <<>>
View == st
=============================================================================
