------------------------------ MODULE Framing ------------------------------
(***************************************************************************)
(* Stream framing of QXmpp::Private::XmppSocket (src/base/Stream.cpp:      *)
(* setSocket()'s readyRead handler and processData(), src/base/            *)
(* XmppSocket.h).  Property C03: whatever way the transport cuts the byte  *)
(* sequence of a valid XMPP stream into reads, the receiver delivers the   *)
(* same sequence of stream-open / stanza / stream-close events, with the   *)
(* same content, as when the stream arrives in one read.                   *)
(*                                                                         *)
(* A stream is a sequence of ATOMS.  An atom is the smallest unit a read   *)
(* boundary can separate: in the design model (Framing.cfg) an atom is a   *)
(* CELL --                                                                 *)
(*    hdr(e, piece)   piece of stream header e (decl, sp, tag, attr, ...)  *)
(*    st(e, piece)    piece of stanza e (tag, attr, ent, text, cdata, or a *)
(*                    part mb1 [mbm]* mb2 of one multi-byte character)     *)
(*    ws              one whitespace keep-alive character                  *)
(*    cl(piece)       piece of the close tag                               *)
(* -- and in trace validation (FramingTrace) an atom is a BYTE of a        *)
(* concrete corpus stream.  Both are described by the same record (a       *)
(* parameter of the actions, not a variable)                               *)
(*    [n, elems, chars, sync]                                              *)
(* n      number of atoms                                                  *)
(* elems  the top-level elements in order, [k, e, to]: kind "hdr" |        *)
(*        "stanza" | "ws" | "close", identity e, last atom `to` (element j *)
(*        occupies atoms elems[j-1].to+1 .. elems[j].to)                   *)
(* chars  the characters that occupy more than one atom, [from, to]        *)
(* bnd, held  the same information indexed by position (see FromCells)     *)
(* sync   positions at which the peer waits for the receiver (stream       *)
(*        restart: the new header is an answer to something the receiver   *)
(*        sent after it had processed everything before), so that no read  *)
(*        spans them.                                                      *)
(*                                                                         *)
(* Mechanism modelled (one action, as in the code: readyRead -> decode ->  *)
(* append -> try to parse -> deliver):                                     *)
(*   carry  atoms of an incomplete character held back by the decoder      *)
(*   buf    [lo, hi]: decoded atoms lo+1..hi wait in m_dataBuffer          *)
(*   hdr    the cached stream header (m_streamOpenElement), 0 = none       *)
(* The buffer parses iff it is  [complete header] (complete stanza | ws)*  *)
(* [complete close], i.e. iff it ends on an element boundary.              *)
(*                                                                         *)
(* Decoder = "stateful" is the intended system (the property demands it).  *)
(* Decoder = "perread" (every read decoded on its own, a cut character     *)
(* becomes replacement characters) and Cache = "stale" (cached header not  *)
(* refreshed on restart) are negative controls: FramingPerRead.cfg and     *)
(* FramingStale.cfg must FAIL.  So must FramingLimit.cfg (Limit = 64: an   *)
(* incomplete remainder heavier than 64 KiB is discarded).                 *)
(***************************************************************************)
EXTENDS Naturals, Sequences, FiniteSets, TLC

CONSTANTS Shapes,     \* function: shape id -> cell sequence (design model)
          Decoder,    \* "stateful" | "perread"
          Cache,      \* "refresh" | "stale"
          Limit       \* 0 = the unparsed remainder may grow without bound (intended: the code has no
                      \* maximum stanza size); > 0: remainder dropped when heavier than Limit KiB

VARIABLES sid,        \* which stream is being received (design model: a shape of Shapes)
          pos,        \* atoms read from the transport so far
          carry,      \* atoms held by the decoder (tail of pos)
          buf,        \* [lo, hi] pending decoded atoms
          hdr,        \* cached header id
          garbled,    \* characters destroyed by decoding (always {} for the stateful decoder)
          delivered,  \* events handed to the application so far
          hist        \* reads performed (behaviour export)

mvars == <<sid, pos, carry, buf, hdr, garbled, delivered>>
vars  == <<mvars, hist>>

(* ----------------------------------------------------------------------- *)
(* cells -> description                                                     *)
(* ----------------------------------------------------------------------- *)
\* w = SIZE CLASS of the cell: its weight in KiB (0 = less than 1 KiB).  How much unparsed data
\* the receiver has to carry from read to read is a dimension of the model: a stanza may be far
\* larger than anything a single read delivers.
Cell(t, e, p) == [t |-> t, e |-> e, p |-> p, sync |-> FALSE, w |-> 0]
SyncCell(t, e, p) == [t |-> t, e |-> e, p |-> p, sync |-> TRUE, w |-> 0]
BigCell(t, e, p, w) == [t |-> t, e |-> e, p |-> p, sync |-> FALSE, w |-> w]

ElemKind(t) == CASE t = "hdr" -> "hdr" [] t = "st" -> "stanza" [] t = "ws" -> "ws" [] t = "cl" -> "close"

\* cell i is the last cell of its top-level element
FinalCell(cs, i) ==
    \/ i = Len(cs)
    \/ cs[i].t = "ws"
    \/ cs[i + 1].t # cs[i].t \/ cs[i + 1].e # cs[i].e
    \/ cs[i + 1].sync

Idx(n) == [i \in 1..n |-> i]

FromCells(cs) ==
    LET fin   == SelectSeq(Idx(Len(cs)), LAMBDA i : FinalCell(cs, i))
        start == SelectSeq(Idx(Len(cs)), LAMBDA i : cs[i].p = "mb1")
        sy    == SelectSeq(Idx(Len(cs)), LAMBDA i : cs[i].sync)
        EndOf(i) == CHOOSE j \in i + 1..Len(cs) : cs[j].p = "mb2" /\ \A m \in i + 1..j - 1 : cs[m].p = "mbm"
        mbs(i)   == CHOOSE j \in 1..i : cs[j].p = "mb1" /\ \A m \in j + 1..i : cs[m].p = "mbm"
        cum[i \in 0..Len(cs)] == IF i = 0 THEN 0 ELSE cum[i - 1] + cs[i].w
    IN [n     |-> Len(cs),
        elems |-> [j \in 1..Len(fin) |-> [k |-> ElemKind(cs[fin[j]].t), e |-> cs[fin[j]].e, to |-> fin[j]]],
        chars |-> [c \in 1..Len(start) |-> [from |-> start[c], to |-> EndOf(start[c])]],
        sync  |-> [j \in 1..Len(sy) |-> sy[j] - 1],     \* POSITION = number of atoms before the cell
        \* indexes (redundant, for O(1) evaluation on long byte-level streams):
        \* bnd[p]  = j if element j ends with atom p, else 0
        \* held[p] = atoms of an incomplete character that end at position p, else 0
        bnd   |-> [p \in 1..Len(cs) |-> IF FinalCell(cs, p) THEN Cardinality({i \in 1..p : FinalCell(cs, i)}) ELSE 0],
        held  |-> [p \in 1..Len(cs) |-> IF cs[p].p \in {"mb1", "mbm"} THEN p - mbs(p) + 1 ELSE 0],
        \* cw[p] = weight (KiB) of the atoms 1..p
        cw    |-> [p \in 1..Len(cs) |-> cum[p]]]

SyncPositions(s) == {s.sync[i] : i \in DOMAIN s.sync}

(* ----------------------------------------------------------------------- *)
(* the ten shapes of the design model  (<= 14 cells each); m7..m9 contain  *)
(* one LARGE stanza each (70 KiB of text, 300 KiB in an attribute value    *)
(* with a multi-byte character, 1.1 MiB of child elements) whose pieces    *)
(* end after 4, 63, 64, 65 KiB ..., so that the reads of a composition     *)
(* leave every size class of incomplete remainder in the buffer            *)
(* ----------------------------------------------------------------------- *)
ModelShapes ==
    "m1" :> <<Cell("hdr", 1, "decl"), Cell("hdr", 1, "sp"), Cell("hdr", 1, "tag"), Cell("hdr", 1, "attr"),
              Cell("hdr", 1, "mb1"), Cell("hdr", 1, "mb2"), Cell("hdr", 1, "tag")>>
 @@ "m2" :> <<Cell("hdr", 1, "tag"), Cell("hdr", 1, "attr"),
              Cell("st", 1, "tag"), Cell("st", 1, "attr"), Cell("st", 1, "mb1"), Cell("st", 1, "mb2"),
              Cell("st", 1, "tag"), Cell("st", 1, "text"), Cell("st", 1, "ent"), Cell("st", 1, "ent"),
              Cell("st", 1, "mb1"), Cell("st", 1, "mbm"), Cell("st", 1, "mb2"), Cell("st", 1, "tag")>>
 @@ "m3" :> <<Cell("hdr", 1, "tag"), Cell("ws", 0, "ws"),
              Cell("st", 1, "tag"), Cell("st", 1, "text"), Cell("st", 1, "tag"),
              Cell("ws", 0, "ws"), Cell("ws", 0, "ws"),
              Cell("st", 2, "tag"), Cell("st", 2, "ent"), Cell("st", 2, "tag"), Cell("ws", 0, "ws")>>
 @@ "m4" :> <<Cell("hdr", 1, "tag"), Cell("hdr", 1, "tag"),
              Cell("st", 1, "tag"), Cell("st", 1, "tag"),
              Cell("st", 2, "tag"), Cell("st", 2, "mb1"), Cell("st", 2, "mb2"), Cell("st", 2, "tag"),
              Cell("st", 3, "tag"), Cell("st", 3, "tag"),
              Cell("ws", 0, "ws"), Cell("cl", 0, "tag"), Cell("cl", 0, "tag")>>
 @@ "m5" :> <<Cell("hdr", 1, "tag"), Cell("hdr", 1, "tag"),
              Cell("st", 1, "tag"), Cell("st", 1, "tag"),
              SyncCell("hdr", 2, "tag"), Cell("hdr", 2, "attr"), Cell("hdr", 2, "tag"),
              Cell("st", 2, "tag"), Cell("st", 2, "text"), Cell("st", 2, "tag"),
              Cell("ws", 0, "ws"), Cell("cl", 0, "tag"), Cell("cl", 0, "tag")>>
 @@ "m6" :> <<Cell("hdr", 1, "decl"), Cell("hdr", 1, "sp"), Cell("hdr", 1, "tag"), Cell("hdr", 1, "attr"), Cell("hdr", 1, "tag"),
              Cell("st", 1, "tag"), Cell("st", 1, "cdata"), Cell("st", 1, "cdata"), Cell("st", 1, "tag"),
              Cell("cl", 0, "tag"), Cell("cl", 0, "tag"), Cell("cl", 0, "tag")>>
 @@ "m7" :> <<Cell("hdr", 1, "tag"), Cell("st", 1, "tag"),
              Cell("st", 2, "tag"), BigCell("st", 2, "text", 4), BigCell("st", 2, "text", 59), BigCell("st", 2, "text", 1),
              BigCell("st", 2, "text", 1), BigCell("st", 2, "text", 5), Cell("st", 2, "tag"),
              Cell("st", 3, "tag"), Cell("cl", 0, "tag")>>
 @@ "m8" :> <<Cell("hdr", 1, "tag"),
              Cell("st", 1, "tag"), BigCell("st", 1, "attr", 64), BigCell("st", 1, "attr", 64), Cell("st", 1, "mb1"), Cell("st", 1, "mb2"),
              BigCell("st", 1, "attr", 172), Cell("st", 1, "tag"),
              Cell("st", 2, "tag"), Cell("cl", 0, "tag")>>
 @@ "m9" :> <<Cell("hdr", 1, "tag"),
              Cell("st", 1, "tag"), BigCell("st", 1, "child", 16), BigCell("st", 1, "child", 48), BigCell("st", 1, "child", 1),
              BigCell("st", 1, "child", 1061), Cell("st", 1, "tag"),
              Cell("ws", 0, "ws"), Cell("st", 2, "tag"), Cell("cl", 0, "tag"), Cell("cl", 0, "tag")>>
 \* mA: the size class of the HEADER: a stream header of ~5 KiB (4 KiB in one attribute value, then a multi-byte
 \* character, more attributes), so that a read may end anywhere inside a header far longer than usual
 @@ "mA" :> <<Cell("hdr", 1, "decl"), Cell("hdr", 1, "tag"), BigCell("hdr", 1, "attr", 4), Cell("hdr", 1, "mb1"), Cell("hdr", 1, "mb2"),
              Cell("hdr", 1, "attr"), Cell("hdr", 1, "tag"),
              Cell("st", 1, "tag"), Cell("st", 2, "tag"), Cell("cl", 0, "tag")>>

(* ----------------------------------------------------------------------- *)
(* geometry of a stream description                                         *)
(* ----------------------------------------------------------------------- *)
NElems(s) == Len(s.elems)
ElemFrom(s, j) == IF j = 1 THEN 0 ELSE s.elems[j - 1].to       \* position before element j
Boundary(s, p) == p = 0 \/ s.bnd[p] # 0

\* position p (0..n) lies strictly inside character c
Inside(s, c, p) == s.chars[c].from <= p /\ p < s.chars[c].to
CutChars(s, p) == {c \in DOMAIN s.chars : Inside(s, c, p)}
\* atoms of an incomplete character before position p
Held(s, p) == s.held[p]

\* the indexes agree with elems / chars (checked for the shapes by ASSUME, for corpus streams by
\* lib/framing_corpus.describe(), which builds them from elems / chars)
IndexOK(s) ==
    /\ \A p \in 1..s.n : s.bnd[p] = (IF \E j \in 1..NElems(s) : s.elems[j].to = p
                                     THEN CHOOSE j \in 1..NElems(s) : s.elems[j].to = p ELSE 0)
    /\ \A p \in 1..s.n : s.held[p] = (IF CutChars(s, p) = {} THEN 0
                                      ELSE LET c == CHOOSE c \in CutChars(s, p) : TRUE IN p - (s.chars[c].from - 1))

\* weight (KiB) of the atoms lo+1..hi
Weight(s, lo, hi) == s.cw[hi] - (IF lo = 0 THEN 0 ELSE s.cw[lo])

\* header in force for element j according to the stream itself
TrueHdr(s, j) ==
    LET H == {i \in 1..j : s.elems[i].k = "hdr"}
    IN IF H = {} THEN 0 ELSE s.elems[CHOOSE i \in H : \A m \in H : m <= i].e

EvKind(k) == CASE k = "hdr" -> "open" [] k = "stanza" -> "stanza" [] k = "close" -> "close"

\* event of element j when header h is in force and the characters g are destroyed
Event(s, j, h, g) ==
    [k   |-> EvKind(s.elems[j].k),
     e   |-> s.elems[j].e,
     h   |-> IF s.elems[j].k = "stanza" THEN h ELSE 0,
     alt |-> \E c \in g : ElemFrom(s, j) < s.chars[c].from /\ s.chars[c].to <= s.elems[j].to]

NonWs(s, js) == SelectSeq(js, LAMBDA j : s.elems[j].k # "ws")

\* what the one-read execution delivers: every element, in order, unaltered, each stanza in
\* the namespace context of the header that precedes it
Reference(s) ==
    LET js == NonWs(s, Idx(NElems(s)))
    IN [i \in 1..Len(js) |-> Event(s, js[i], TrueHdr(s, js[i]), {})]

IsPrefix(a, b) == Len(a) <= Len(b) /\ \A i \in 1..Len(a) : a[i] = b[i]

(* ----------------------------------------------------------------------- *)
(* behaviour                                                               *)
(* ----------------------------------------------------------------------- *)
\* The description of the stream is a parameter `s` of the actions, not a variable: in the design
\* model it is Stream (the description of shape sid), in FramingTrace the description logged with
\* the corpus stream.  Both are constant-level, so they are not part of the state.
Desc   == [id \in DOMAIN Shapes |-> FromCells(Shapes[id])]
Stream == Desc[sid]

Init ==
    /\ sid \in DOMAIN Shapes
    /\ pos = 0 /\ carry = 0 /\ buf = [lo |-> 0, hi |-> 0] /\ hdr = 0
    /\ garbled = {} /\ delivered = <<>> /\ hist = <<>>

CanRead(s, k) ==
    /\ k >= 1 /\ pos + k <= s.n
    /\ \A p \in SyncPositions(s) : ~(pos < p /\ p < pos + k)

\* elements completely inside (lo, hi], in order
Batch(s, lo, hi) ==
    LET a == IF lo = 0 THEN 1 ELSE s.bnd[lo] + 1
        b == s.bnd[hi]
    IN [i \in 1..(b - a + 1) |-> a + i - 1]

\* the header the mechanism uses for element j of a batch js: a header earlier in the same
\* batch (hs = indices into js of the headers of the batch), else the cached one
MechHdr(s, js, hs, j) ==
    LET H == {i \in hs : js[i] < j}
    IN IF H = {} \/ (Cache = "stale" /\ hdr # 0) THEN hdr
       ELSE s.elems[js[CHOOSE i \in H : \A m \in H : m <= i]].e

Hdrs(s, js) == {i \in 1..Len(js) : s.elems[js[i]].k = "hdr"}

\* readyRead: k atoms arrive; decode; append to the buffer; try to parse; deliver
Read(s, k) ==
    /\ CanRead(s, k)
    /\ LET np == pos + k
           c  == IF Decoder = "stateful" THEN Held(s, np) ELSE 0
           hi == np - c
           g  == IF Decoder = "stateful" THEN garbled ELSE garbled \cup CutChars(s, np)
       IN /\ pos' = np /\ carry' = c /\ garbled' = g
          /\ IF Boundary(s, hi) /\ Boundary(s, buf.lo) /\ hi > buf.lo
             THEN LET js == Batch(s, buf.lo, hi)
                      hs == Hdrs(s, js)
                      ev == NonWs(s, js)
                  IN /\ delivered' = delivered \o [i \in 1..Len(ev) |-> Event(s, ev[i], MechHdr(s, js, hs, ev[i]), g)]
                     /\ hdr' = MechHdr(s, js, hs, s.n + 1)
                     /\ buf' = [lo |-> hi, hi |-> hi]
             ELSE \* keep buffering -- whatever the size of the remainder.  (Limit > 0: the wrong
                  \* variant that gives up on a remainder heavier than Limit; what is left of the
                  \* element after that never parses.)
                  /\ buf' = IF Limit > 0 /\ hi > buf.lo /\ Weight(s, buf.lo, hi) > Limit
                             THEN [lo |-> hi, hi |-> hi] ELSE [lo |-> buf.lo, hi |-> hi]
                  /\ UNCHANGED <<delivered, hdr>>
    /\ hist' = Append(hist, [a |-> "Read", n |-> k])
    /\ UNCHANGED sid

Next == \E k \in 1..Stream.n : Read(Stream, k)

Spec == Init /\ [][Next]_vars

(* ----------------------------------------------------------------------- *)
(* properties (C03), as operators over observable quantities so that        *)
(* FramingTrace evaluates the same predicates on what the code reported    *)
(* ----------------------------------------------------------------------- *)
P_Prefix(d, ref)         == IsPrefix(d, ref)                \* nothing lost, duplicated, reordered, altered so far
P_Complete(p, n, d, ref) == p = n => d = ref                \* everything delivered once all bytes are in
P_Grow(d, dn)            == IsPrefix(d, dn)                 \* delivery is append-only

PrefixOK   == P_Prefix(delivered, Reference(Stream))
CompleteOK == P_Complete(pos, Stream.n, delivered, Reference(Stream))
Quiescent  == pos = Stream.n => carry = 0 /\ buf.lo = buf.hi /\ buf.hi = pos
AppendOnly == [][P_Grow(delivered, delivered')]_vars

TypeOK ==
    /\ pos \in 0..Stream.n /\ carry \in 0..3 /\ buf.lo <= buf.hi /\ buf.hi = pos - carry
    /\ (Limit = 0 => Boundary(Stream, buf.lo))
    /\ (Decoder = "stateful" => garbled = {})

\* sanity of the shapes themselves
ShapesOK ==
    \A s \in DOMAIN Shapes :
        LET d == FromCells(Shapes[s])
        IN /\ d.n <= 14 /\ d.elems[NElems(d)].to = d.n /\ d.elems[1].k = "hdr"
           /\ \A c \in DOMAIN d.chars : d.chars[c].to > d.chars[c].from
           /\ IndexOK(d)
ASSUME ShapesOK

\* re-initialisation used by the trace specification at an execution boundary
Reinit(id) ==
    /\ sid' = id
    /\ pos' = 0 /\ carry' = 0 /\ buf' = [lo |-> 0, hi |-> 0] /\ hdr' = 0
    /\ garbled' = {} /\ delivered' = <<>> /\ hist' = <<>>

View == mvars          \* hist is an observation variable: hidden from state identity
=============================================================================
