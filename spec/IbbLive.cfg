SPECIFICATION FairSpec
CONSTANTS
  W = 4
  Anns = {"both", "size", "hash", "none"}
  Sizes = {0, 1, 2, 5}
  MaxFaults = 1
  MaxInject = 1
  FaultKinds = {"Lose", "Drop", "Dup", "Flip", "WrongSid", "WrongFrom", "Swap", "EarlyClose"}
  InjectKinds = {"from", "res", "sid"}
  InjectElems = {"open", "data", "close"}
  Bursts = {}
  MaxHist = 999
INVARIANTS TypeOK
PROPERTIES Termination
CHECK_DEADLOCK FALSE
