SPECIFICATION Spec
CONSTANTS
  Ids = {"i1", "i2"}
  Tos = {"none", "server", "bare", "full"}
  RFroms = {"exact", "absent", "bareOf", "otherRes", "ownFull", "ownOther", "ownBare", "server", "stranger", "look", "look2"}
  Types = {"result", "error", "errorBare", "set", "get"}
  OpenKinds = {"plain", "sm", "smr", "resumed"}
  Cids = {"fresh", "empty", "dup"}
  Bodies = {"none"}
  Attempts = {"authfail", "bindfail", "userabort", "precut", "abandon"}
  IdRule = "replace"
  MaxHist = 99
INVARIANTS TypeOK AtMostOnce DoneOnce NonePending
PROPERTIES GivenUp WrongSender RightSender FreshOpen
VIEW View
CHECK_DEADLOCK FALSE
