----------------------------- MODULE ClientAuxMC -----------------------------
(* constants of the exhaustive / generation configurations of ClientAux *)
EXTENDS ClientAux

AllCfgs == [carb : BOOLEAN, fast : BOOLEAN, tok0 : BOOLEAN]

PF(s2, b2, b2csi, b2carb, b2sm, r2, fast) ==
    [s2 |-> s2, b2 |-> b2, b2csi |-> b2csi, b2carb |-> b2carb, b2sm |-> b2sm, r2 |-> r2, fast |-> fast]

Classic == PF(FALSE, FALSE, FALSE, FALSE, FALSE, FALSE, FALSE)

\* every meaningful combination: SASL only; SASL 2 with/without bind2 (and its inline features),
\* inline resumption, FAST: 1 + 4 + 32 = 37 feature elements
AllPreFeats ==
    {Classic}
    \cup {PF(TRUE, FALSE, FALSE, FALSE, FALSE, r2, f) : r2 \in BOOLEAN, f \in BOOLEAN}
    \cup {PF(TRUE, TRUE, a, b, m, r2, f) : a \in BOOLEAN, b \in BOOLEAN, m \in BOOLEAN, r2 \in BOOLEAN, f \in BOOLEAN}

\* representative subset (quick tier): SASL; SASL 2 bare; SASL 2 + FAST; bind2 without inline
\* features; bind2 with everything (+/- FAST); bind2 with CSI and carbons but no stream management; bind2 with stream management only
CorePreFeats ==
    { Classic,
      PF(TRUE, FALSE, FALSE, FALSE, FALSE, FALSE, FALSE),
      PF(TRUE, FALSE, FALSE, FALSE, FALSE, TRUE, TRUE),
      PF(TRUE, TRUE, FALSE, FALSE, FALSE, FALSE, FALSE),
      PF(TRUE, TRUE, TRUE, TRUE, FALSE, FALSE, TRUE),
      PF(TRUE, TRUE, FALSE, FALSE, TRUE, TRUE, FALSE),
      PF(TRUE, TRUE, TRUE, TRUE, TRUE, TRUE, FALSE),
      PF(TRUE, TRUE, TRUE, TRUE, TRUE, TRUE, TRUE) }

AllPostFeats == [csi : BOOLEAN, sm : BOOLEAN]

\* generation, quick tier: one configuration per manager (nothing registered; carbons extension;
\* FAST without / with a stored token) and everything together
SliceCfgs == { [carb |-> FALSE, fast |-> FALSE, tok0 |-> FALSE], [carb |-> TRUE, fast |-> FALSE, tok0 |-> FALSE],
               [carb |-> FALSE, fast |-> TRUE, tok0 |-> FALSE], [carb |-> FALSE, fast |-> TRUE, tok0 |-> TRUE],
               [carb |-> TRUE, fast |-> TRUE, tok0 |-> TRUE] }
=============================================================================
