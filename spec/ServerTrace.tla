---------------------------- MODULE ServerTrace ----------------------------
(***************************************************************************)
(* Trace validation for Server.  The trace (ndjson, written by `qxv        *)
(* server`) holds, per step of the attacker's script (or per checker        *)
(* reply), the step with its arguments and what was observed while the      *)
(* real QXmppServer reacted:                                                 *)
(*   {"e":"Stanza","k":"message","f":"absent","t":"victimFull",             *)
(*    "att":[..],"vic":[..],"sig":[..],"chk":[..],"closed":false}            *)
(* att / vic: one record per top-level element the attacker's / the         *)
(*   victim's raw TCP client received during the step:                       *)
(*   [k, t, c, id, f, to, j] (harness/rawclient.h), addresses as [u, d, r]   *)
(* sig: clientConnected / clientDisconnected signals [s, j]                  *)
(* chk: what the password checker (part of the harness) was asked ("ask")    *)
(*   and which verdict it delivered ("fin"): [ev, op, user, ok]; ok is the   *)
(*   harness's ground truth "the credentials presented in the asking         *)
(*   exchange are the right ones of `user`".                                 *)
(*                                                                           *)
(* Three layers per line (docs/BUILDING-A-CHECK.md):                         *)
(*  - model:   Server's action for the logged step, or stuttering;           *)
(*  - monitor: `mon`, built only from logged inputs and observations:        *)
(*             appr = users for whom an approving verdict was delivered on   *)
(*             this connection, res = resource of the address the server     *)
(*             last reported to the attacker.  The C16 predicates are        *)
(*             evaluated on it;                                              *)
(*  - compare: the model's outputs vs the logged ones; a mismatch marks the  *)
(*             execution as diverged (conformance warning, not a violation). *)
(* {"e":"Crash"} lines (the implementation crashed; the harness went on      *)
(* with the next behaviour) are counted, nothing else.                       *)
(***************************************************************************)
EXTENDS Server, Integers, Json, CSV, IOUtils   \* (FiniteSets comes with Server)

TraceLog == ndJsonDeserialize(IOEnv.QXV_TRACE)

VARIABLES l, cid, mon, nviol, ndiv, divs, dflag, ncases, ncrash

tvars == <<vars, l, cid, mon, nviol, ndiv, divs, dflag, ncases, ncrash>>

Mon0 == [appr |-> {}, res |-> ""]

TInit ==
    /\ Init
    /\ l = 1 /\ cid = "" /\ mon = Mon0 /\ nviol = 0 /\ ndiv = 0 /\ divs = <<>> /\ dflag = FALSE
    /\ ncases = 0 /\ ncrash = 0

ModelAct(ev) ==
    CASE ev.e = "Open"     -> Open(ev.dom)
      [] ev.e = "Auth"     -> Auth(ev.ver, ev.mech, ev.cred, ev.b2)
      [] ev.e = "Response" -> Response(ev.ver, ev.cred)
      [] ev.e = "Reply"    -> Reply(ev.i)
      [] ev.e = "Abort"    -> Abort(ev.ver)
      [] ev.e = "Bind"     -> Bind(ev.r)
      [] ev.e = "Session"  -> Session
      [] ev.e = "Stanza"   -> Stanza(ev.k, ev.f, ev.t)
      [] OTHER             -> FALSE

(* model outputs and logged observations in one shape.  Logged addresses carry, besides the    *)
(* [u, d, r] the model talks about (r with the random Bind 2 suffix normalised), the lossless  *)
(* decomposition [u, at, d, sl, rr] of the string as received (harness/rawclient.h).           *)
UDR(j) == [u |-> j.u, d |-> j.d, r |-> j.r]
Proj == [att |-> out, vic |-> dlv, sig |-> sig, closed |-> c.phase = "closed"]
Obs(ev) ==
    [att |-> [i \in 1..Len(ev.att) |-> [k |-> ev.att[i].k, t |-> ev.att[i].t, j |-> UDR(ev.att[i].j)]],
     vic |-> [i \in 1..Len(ev.vic) |-> [k |-> ev.vic[i].k, f |-> UDR(ev.vic[i].f), to |-> UDR(ev.vic[i].to)]],
     sig |-> [i \in 1..Len(ev.sig) |-> [s |-> ev.sig[i].s, j |-> UDR(ev.sig[i].j)]], closed |-> ev.closed]

(* --- monitor ---------------------------------------------------------------- *)
Idx(s) == 1..Len(s)
IsBindResult(r) == r.k = "iq" /\ r.c = "bind"
\* addresses the server assigned to / announced for the attacker's connection in this step
Ids(ev) == {ev.att[i].j : i \in {n \in Idx(ev.att) : IsBindResult(ev.att[n]) \/ ev.att[n].k = "success2"}}
           \cup {ev.sig[i].j : i \in {n \in Idx(ev.sig) : ev.sig[n].s = "connected"}}
LastIdIdx(ev) == {n \in Idx(ev.att) : (IsBindResult(ev.att[n]) \/ ev.att[n].k = "success2")
                                      /\ \A m \in Idx(ev.att) : (m > n => ~(IsBindResult(ev.att[m]) \/ ev.att[m].k = "success2"))}

MonNext(m, ev) ==
    [appr |-> m.appr \cup {ev.chk[i].user : i \in {n \in Idx(ev.chk) : ev.chk[n].ev = "fin" /\ ev.chk[n].ok}},
     res  |-> IF LastIdIdx(ev) = {} THEN m.res ELSE ev.att[CHOOSE n \in LastIdIdx(ev) : TRUE].j.rr]

\* The from of a routed stanza, compared EXACTLY (as a string) with the sender's own address:
\* user@domain of an approved user, alone or followed by "/" and exactly the resource (as received,
\* case and all) that the server last reported to this connection.  A trailing slash, another
\* resource of the same account, a longer resource, another case, a missing "@" all fail.
P_FromExact(f, appr, res) ==
    /\ f.u \in appr /\ f.at /\ f.d = Domain
    /\ \/ ~f.sl /\ f.rr = ""
       \/ f.sl /\ res # "" /\ f.rr = res
\* an address the server assigns / announces: approved user, served domain, well-formed
P_IdentityExact(j, appr) == j.u \in appr /\ j.at /\ j.d = Domain /\ (j.sl => j.rr # "")

Props == {"AuthOnlyApproved", "BindOnlyAuthed", "IdentityApproved", "AnswersOnlyAuthed", "RoutedOnlyAuthed", "RoutedStamped"}

Failed(n, ev) ==
    {p \in Props :
        CASE p = "AuthOnlyApproved" ->       \* accepted (<success/>) without an approving verdict
                 n.appr = {} /\ \E i \in Idx(ev.att) : ev.att[i].k \in {"success", "success2"}
          [] p = "BindOnlyAuthed" ->         \* a resource bound / the client announced, not authenticated
                 n.appr = {} /\ ((\E i \in Idx(ev.att) : IsBindResult(ev.att[i]) /\ ev.att[i].t = "result")
                                 \/ \E i \in Idx(ev.sig) : ev.sig[i].s = "connected")
          [] p = "IdentityApproved" ->       \* accepted / bound as somebody the verdicts do not cover
                 n.appr # {} /\ \E j \in Ids(ev) : ~P_IdentityExact(j, n.appr)
          [] p = "AnswersOnlyAuthed" ->      \* a stanza answered before authentication
                 n.appr = {} /\ \E i \in Idx(ev.att) : ev.att[i].k \in StanzaKinds /\ ~IsBindResult(ev.att[i])
          [] p = "RoutedOnlyAuthed" ->       \* a stanza routed before authentication
                 n.appr = {} /\ \E i \in Idx(ev.vic) : ev.vic[i].k \in StanzaKinds
          [] p = "RoutedStamped" ->          \* routed with a from that is not the sender's own address
                 n.appr # {} /\ \E i \in Idx(ev.vic) : ev.vic[i].k \in StanzaKinds /\ ~P_FromExact(ev.vic[i].f, n.appr, n.res)}

\* whose address was wrongly assigned / stamped (user part; "" = nobody's), for the report
Who(p, n, ev) ==
    CASE p = "IdentityApproved" -> (CHOOSE j \in Ids(ev) : ~P_IdentityExact(j, n.appr)).u
      [] p = "RoutedStamped" ->
             ev.vic[CHOOSE i \in Idx(ev.vic) : ev.vic[i].k \in StanzaKinds /\ ~P_FromExact(ev.vic[i].f, n.appr, n.res)].f.u
      [] OTHER -> ""

ResetStep(ev) ==
    /\ Reinit
    /\ cid' = ev.case /\ mon' = Mon0 /\ dflag' = FALSE /\ ncases' = ncases + 1
    /\ UNCHANGED <<nviol, ndiv, divs, ncrash>>

CrashStep(ev) ==
    /\ ncrash' = ncrash + 1
    /\ UNCHANGED <<vars, cid, mon, nviol, ndiv, divs, dflag, ncases>>

OpStep(ev) ==
    /\ \/ ModelAct(ev)
       \* the model cannot take the step (e.g. it has closed the connection, or has nothing pending):
       \* it stays where it is and expects no output
       \/ (~ENABLED ModelAct(ev)) /\ UNCHANGED <<mvars, hist>> /\ out' = <<>> /\ dlv' = <<>> /\ sig' = <<>>
    /\ mon' = MonNext(mon, ev)
    \* failed predicates are written out at once (IOEnv.QXV_VIOL, one JSON line per failing step):
    \* accumulating them in the state would make every later state carry them
    /\ LET n == MonNext(mon, ev)
           F == Failed(n, ev)
       IN /\ nviol' = nviol + Cardinality(F)
          /\ IF F = {} THEN TRUE
             ELSE CSVWrite("%1$s", <<ToJson([case |-> cid, line |-> l, e |-> ev.e,
                                            failed |-> {[prop |-> p, who |-> Who(p, n, ev)] : p \in F}])>>, IOEnv.QXV_VIOL)
    /\ LET d == Proj' # Obs(ev) IN
        /\ dflag' = (dflag \/ d)
        /\ ndiv' = IF d /\ ~dflag THEN ndiv + 1 ELSE ndiv
        /\ divs' = IF d /\ ~dflag /\ Len(divs) < 10
                   THEN Append(divs, [case |-> cid, line |-> l, e |-> ev.e, model |-> Proj', impl |-> Obs(ev)]) ELSE divs
    /\ UNCHANGED <<cid, ncases, ncrash>>

TNext ==
    /\ l <= Len(TraceLog)
    /\ l' = l + 1
    /\ LET ev == TraceLog[l] IN
        CASE ev.e = "Reset" -> ResetStep(ev)
          [] ev.e = "Crash" -> CrashStep(ev)
          [] OTHER          -> OpStep(ev)

TSpec == TInit /\ [][TNext]_tvars

Summary == [cases |-> ncases, lines |-> l - 1, nviol |-> nviol, ndiv |-> ndiv, divs |-> divs, ncrash |-> ncrash]
Done == l <= Len(TraceLog) \/ CSVWrite("%1$s", <<ToJson(Summary)>>, IOEnv.QXV_SUMMARY)
=============================================================================
