SPECIFICATION Spec
CONSTANTS
  Types = {"get", "result"}
  Payloads = {"version", "unknown"}
  Froms = {"Contact"}
  ExtSets = {"all"}
  IdKinds = {"fresh"}
  Peers = {}
  Deferred = TRUE
  MaxHosts = 2
  MaxHist = 99
ACTION_CONSTRAINT EmitBehaviour
CHECK_DEADLOCK FALSE
