SPECIFICATION TSpec
CONSTANTS
  MaxMut = 99
  Depths = {1, 2, 3}
  MaxNodes = 9999
INVARIANT Done
CHECK_DEADLOCK FALSE
