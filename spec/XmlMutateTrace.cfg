SPECIFICATION TSpec
CONSTANTS
  MaxMut = 99
  Depths = {1, 2, 3}
  Alphabet = {"DeleteChild", "DuplicateChild", "SwapSiblings", "MoveUnderSibling", "Renamespace", "Rename", "AddUnknownChild", "AddKnownSibling", "MoveText", "DuplicateWithOtherChild", "DropAttr", "EmptyAttr", "HugeAttr", "NegativeAttr", "NonNumericAttr", "UnknownEnum", "Nest"}
  MaxNodes = 9999
INVARIANT Done
CHECK_DEADLOCK FALSE
