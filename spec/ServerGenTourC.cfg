SPECIFICATION Spec
CONSTANTS
  Vers = {"sasl", "sasl2"}
  Mechs = {"PLAIN", "DIGEST-MD5"}
  Creds = {"right", "wrongPw", "ownEmpty", "otherUser", "victimEmpty", "victimOwnSecret", "victimReplay", "ownOtherNonce", "ownNoNonce", "unknownPw", "unknownEmpty", "embedEmpty", "embedBareEmpty", "embedSlashEmpty", "embedKnown", "caseKnown", "malformed", "empty"}
  BindRes = {"ra"}
  Kinds = {"message", "presence", "iq"}
  Froms = {"absent", "own", "ownBare", "victim", "other", "ownOtherRes", "ownSibling", "ownCase", "ownSlash", "ownPrefix", "ownDomain", "ownLookalike"}
  Tos = {"victimBare", "victimFull", "domain", "absent"}
  Stanzas <- OneStanza
  MaxPending = 1
  MaxRetry = 0
  MaxHist = 99
VIEW GenView
ACTION_CONSTRAINT EmitOneAuth
CHECK_DEADLOCK FALSE
