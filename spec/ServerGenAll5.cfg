SPECIFICATION Spec
CONSTANTS
  Vers = {"sasl", "sasl2"}
  Mechs = {"PLAIN", "DIGEST-MD5"}
  Creds = {"right", "otherUser"}
  BindRes = {"ra"}
  Kinds = {"message", "presence", "iq"}
  Froms = {"absent", "own", "ownBare", "victim", "other", "ownOtherRes", "ownSibling", "ownCase", "ownSlash", "ownPrefix", "ownDomain", "ownLookalike"}
  Tos = {"victimBare", "victimFull", "domain", "absent"}
  Stanzas <- CoreStanzas
  MaxPending = 2
  MaxRetry = 0
  MaxHist = 5
CONSTRAINT Bound
ACTION_CONSTRAINT EmitBehaviour
CHECK_DEADLOCK FALSE
