---------------------------- MODULE IbbS5Trace ----------------------------
(***************************************************************************)
(* Trace validation for IbbS5 (`qxv ibbs5`).  The real sockets cannot be    *)
(* single-stepped: per execution the trace holds the behaviour of the model *)
(* that stands for the class being run (echoed steps, no observation) and   *)
(* one observed outcome:                                                    *)
(*  {"e":"Reset","case":"s3","n":3,"size":3000,"unit":1000,"k":"Flip","at":1} *)
(*  {"e":"Start"} {"e":"SWrite"} ... {"e":"Fault","k":"Flip","u":2} ...      *)
(*  {"e":"End","o":{"rs":"Finished","re":"FileCorrupt","ss":"Finished",       *)
(*        "se":"NoError","eq":0,"applied":true,"rlen":..,"slen":..,...}}        *)
(* o.ann / o.k: what the harness put into the offer (size and/or hash) and   *)
(* the fault kind it configured; o.applied: the proxy really damaged the      *)
(* stream (ground truth of the                                                *)
(* harness); o.eq: the receiver's device holds exactly the sent bytes.        *)
(* The monitor evaluates the C19 predicates on the observed outcome only;     *)
(* the model's final state is compared with it (receiver state and error,     *)
(* content equality; the sender's error after a cut depends on how much it    *)
(* had written, so the sender is compared on fault-free runs only):           *)
(* a mismatch is divergence.                                                  *)
(***************************************************************************)
EXTENDS IbbS5, Integers, Json, CSV, IOUtils, FiniteSets

TraceLog == ndJsonDeserialize(IOEnv.QXV_TRACE)

VARIABLES l, cid, viol, ndiv, divs, ncases, nfaulted, nclean

tvars == <<vars, l, cid, viol, ndiv, divs, ncases, nfaulted, nclean>>

TInit ==
    /\ Init /\ n = 0
    /\ l = 1 /\ cid = "" /\ viol = {} /\ ndiv = 0 /\ divs = <<>> /\ ncases = 0 /\ nfaulted = 0 /\ nclean = 0

ModelAct(ev) ==
    CASE ev.e = "Start"  -> Start
      [] ev.e = "SWrite" -> SWrite
      [] ev.e = "SDone"  -> SDone
      [] ev.e = "SDisc"  -> SDisc
      [] ev.e = "RRead"  -> RRead
      [] ev.e = "RDisc"  -> RDisc
      [] ev.e = "Fault"  -> Fault(ev.k)
      [] ev.e = "ForeignOffer" -> ForeignOffer(ev.w)
      [] OTHER           -> FALSE

FailedEnd(o) ==
    LET nflt == IF o.applied THEN 1 ELSE 0 IN
    {p \in {"Safe", "FaultDetected", "CleanSuccess", "ForeignInert"} :
        CASE p = "Safe"          -> ~P_Safe(o.ann, o.dev, o.rs, o.re, o.eq = 1)
          [] p = "FaultDetected" -> ~P_FaultDetected(o.ann, o.k, nflt, o.rs, o.re)
          [] p = "ForeignInert"  -> o.trap # 0
          [] p = "CleanSuccess"  -> ~P_CleanSuccess(nflt, o.dev, TRUE, o.rs, o.re, o.ss, o.se, o.eq = 1)}

ResetStep(ev) ==
    /\ Reinit(ev.n, ev.ann, ev.dev)
    /\ cid' = ev.case /\ ncases' = ncases + 1
    /\ UNCHANGED <<viol, ndiv, divs, nfaulted, nclean>>

EchoStep(ev) ==
    /\ \/ ModelAct(ev)
       \/ (~ENABLED ModelAct(ev)) /\ UNCHANGED vars
    /\ viol' = IF ev.e = "ForeignOffer" /\ ~P_ForeignInert(ev.o.rs0, ev.o.re0, ev.o.rs, ev.o.re, ev.o.trap)
               THEN viol \cup {[case |-> cid, line |-> l, prop |-> "ForeignInert", e |-> ev.e]} ELSE viol
    /\ UNCHANGED <<cid, ndiv, divs, ncases, nfaulted, nclean>>

EndStep(ev) ==
    LET o == ev.o
        model == [rs |-> rState, re |-> rErr, eq |-> IF got = File(n) THEN 1 ELSE 0,
                  ss |-> IF nf = 0 THEN sState ELSE "-", se |-> IF nf = 0 THEN sErr ELSE "-", flt |-> nf]
        impl  == [rs |-> o.rs, re |-> o.re, eq |-> o.eq,
                  ss |-> IF nf = 0 THEN o.ss ELSE "-", se |-> IF nf = 0 THEN o.se ELSE "-", flt |-> IF o.applied THEN 1 ELSE 0]
        d == model # impl
    IN
    /\ UNCHANGED <<vars, cid, ncases>>
    /\ viol' = viol \cup {[case |-> cid, line |-> l, prop |-> p, e |-> ev.e] : p \in FailedEnd(o)}
    /\ nfaulted' = nfaulted + (IF o.applied THEN 1 ELSE 0)
    /\ nclean' = nclean + (IF o.applied THEN 0 ELSE 1)
    /\ ndiv' = IF d THEN ndiv + 1 ELSE ndiv
    /\ divs' = IF d /\ Len(divs) < 10 THEN Append(divs, [case |-> cid, line |-> l, model |-> model, impl |-> impl]) ELSE divs

TNext ==
    /\ l <= Len(TraceLog)
    /\ l' = l + 1
    /\ LET ev == TraceLog[l] IN
        CASE ev.e = "Reset" -> ResetStep(ev)
          [] ev.e = "End"   -> EndStep(ev)
          [] OTHER          -> EchoStep(ev)

TSpec == TInit /\ [][TNext]_tvars

Summary == [cases |-> ncases, lines |-> l - 1, viol |-> viol, ndiv |-> ndiv, divs |-> divs,
            faulted |-> nfaulted, clean |-> nclean]
Done == l <= Len(TraceLog) \/ CSVWrite("%1$s", <<ToJson(Summary)>>, IOEnv.QXV_SUMMARY)
=============================================================================
