------------------------- MODULE ClientStreamTrace -------------------------
(***************************************************************************)
(* Trace validation for ClientStream (traces written by `qxv stream`).      *)
(* Per line: the environment's move with its arguments, what the real       *)
(* QXmppClient wrote (`out`: kind + was the socket encrypted at that write),*)
(* the signals it fired (`sig`) and a projection of its state afterwards    *)
(* (`post`, read through the repository's own TestClient friend seam).      *)
(*                                                                          *)
(* Layers (see TaskTrace): model step / monitor over observed facts /       *)
(* comparison.  C04 and most of C10 are judged on the observed facts only;  *)
(* two C10 clauses ("a session is reported only when negotiation has really *)
(* finished", "the server was protocol-conforming") use the model as the    *)
(* definition and are evaluated only while the execution has not diverged.  *)
(***************************************************************************)
EXTENDS ClientStreamMC, Integers, Json, CSV, IOUtils

TraceLog == ndJsonDeserialize(IOEnv.QXV_TRACE)

VARIABLES l, cid, mon, viol, ndiv, divs, dflag, ncases

tvars == <<vars, l, cid, mon, viol, ndiv, divs, dflag, ncases>>

\* monitor: last observed projection + per-connection counters
Mon0 == [sock |-> "Off", enc |-> FALSE, lst |-> "Core", authed |-> FALSE, session |-> FALSE, redirect |-> FALSE,
         conn |-> 0, connSig |-> 0, hung |-> FALSE, iq |-> "none", sm |-> FALSE, canResume |-> FALSE]

TInit ==
    /\ cfg = CHOOSE x \in AllCfgs : TRUE
    /\ c = C0 /\ expect = "None" /\ conf = TRUE /\ prev = Prev0 /\ leak = FALSE /\ connSig = 0 /\ lastOut = <<>> /\ lastSig = <<>> /\ hist = <<>>
    /\ l = 1 /\ cid = "" /\ mon = Mon0 /\ viol = {} /\ ndiv = 0 /\ divs = <<>> /\ dflag = FALSE /\ ncases = 0

ElemOf(ev) ==
    CASE ev.e \in {"Features", "ProceedThen"} -> [k |-> ev.e, f |-> ev.f]
      [] ev.e \in {"Challenge", "Challenge2"} -> [k |-> ev.e, good |-> ev.good]
      [] ev.e = "AuthFields"                -> [k |-> "AuthFields", plain |-> ev.plain, digest |-> ev.digest]
      [] ev.e = "BindResult"                -> [k |-> "BindResult", ok |-> ev.ok]
      [] ev.e = "Enabled"                   -> [k |-> "Enabled", resume |-> ev.resume]
      [] ev.e = "Success2"                  -> [k |-> "Success2", res |-> ev.res, bnd |-> ev.bnd]
      [] OTHER                              -> [k |-> ev.e]

ModelAct(ev) ==
    CASE ev.e = "Connect"    -> Connect
      [] ev.e = "Cut"        -> Cut
      [] ev.e = "Disconnect" -> UserDisconnect
      [] ev.e = "SendIq"     -> SendIq
      [] ev.e = "Hdr"        -> ServerHeader(ev.versioned)
      [] ev.e = "Partial"    -> ServerPartial(ev.what)
      [] ev.e = "Stall"      -> Stall
      [] OTHER               -> ServerElement(ElemOf(ev))

\* observed output without the stream-management chatter that ClientStream does not model
Relevant(out) == SelectSeq(out, LAMBDA o : o.k \notin {"SmReq", "SmAck"})
SessSig(sig)  == SelectSeq(sig, LAMBDA s : s \in {"connected", "disconnected"})
NConnected(sig) == Cardinality({i \in DOMAIN sig : sig[i] = "connected"})

ModelProj == [sock |-> c.sock, enc |-> c.enc, lst |-> c.lst, ver |-> c.ver, authed |-> c.authed, session |-> c.session,
              bindAvail |-> c.bindAvail, smAvail |-> c.smAvail, smEnabled |-> c.smEnabled, smResumed |-> c.smResumed,
              canResume |-> c.canResume, redirect |-> c.redirect, iq |-> c.iq]
ImplProj(p) == [sock |-> p.sock, enc |-> p.enc, lst |-> p.lst, ver |-> p.ver, authed |-> p.authed, session |-> p.session,
                bindAvail |-> p.bindAvail, smAvail |-> p.smAvail, smEnabled |-> p.smEnabled, smResumed |-> p.smResumed,
                canResume |-> p.canResume, redirect |-> p.redirect, iq |-> p.iq]

MonNext(m, ev) ==
    LET p == ev.post
        newConn == p.conn # m.conn
    IN [sock |-> p.sock, enc |-> p.enc, lst |-> p.lst, authed |-> p.authed, session |-> p.session, redirect |-> p.redirect,
        conn |-> p.conn,
        connSig |-> (IF newConn THEN 0 ELSE m.connSig) + NConnected(ev.sig),
        hung |-> ev.hang, iq |-> p.iq, sm |-> p.smEnabled, canResume |-> p.canResume]

\* the set of failures is kept bounded per clause: a broken implementation fails in thousands of
\* executions, the first ones per clause identify it (and the validation stays linear)
AddViol(new) == IF new = {} THEN viol
                ELSE viol \cup {v \in new : Cardinality({w \in viol : w.prop = v.prop}) < 40}


\* property predicates on observed facts. m = monitor before the step, n = after,
\* okModel = the execution had not diverged before this step, cf = the model's `conf` after the step,
\* modelConnected = number of `connected` signals the model predicts for this step
Failed(m, n, ev, okModel, cf, modelConnected) ==
    LET tls == cfg.tls
        p == ev.post
        out == ev.out
    IN {x \in {"C04-SensitiveBeforeTls", "C04-SecretBeforeTls", "C04-AuthenticatedUnencrypted", "C04-DoesNotGiveUp",
               "C10-DownButSession", "C10-CutNotDisconnected", "C10-SessionTwice", "C10-SessionDuringNegotiation",
               "C10-SessionBeforeNegotiationFinished", "C10-RequestCompletedTwice", "C10-RequestRetainedNotResumable",
               "C10-RequestSurvivesNewSession", "C10-StreamManagementLeftOver",
               "C10-StaleStateOnNewStream"} :
        CASE x = "C04-SensitiveBeforeTls" -> ~P_NoLeak(tls, out)
          [] x = "C04-SecretBeforeTls" -> tls = "Required" /\ ev.rawLeak
          [] x = "C04-AuthenticatedUnencrypted" -> ~P_NoAuthUnencrypted(tls, p.enc, p.authed, p.session, p.sock)
          [] x = "C04-DoesNotGiveUp" ->
                /\ ev.e = "Features" /\ tls = "Required" /\ ev.f.tls = "absent"
                /\ m.sock = "On" /\ ~m.enc /\ m.lst = "Core" /\ ~ev.hang
                /\ p.sock # "Off"
          [] x = "C10-DownButSession" -> ~P_DownMeansDown(p.sock, p.session, p.authed)
          [] x = "C10-CutNotDisconnected" -> ev.e = "Cut" /\ ~m.redirect /\ ~ev.hang /\ (p.sock # "Off" \/ p.state # 0)
          [] x = "C10-SessionTwice" -> okModel /\ cf /\ n.connSig > 1
          [] x = "C10-SessionDuringNegotiation" -> okModel /\ cf /\ ~P_SessionOnlyWhenDone(p.session, p.sock, p.lst)
          [] x = "C10-SessionBeforeNegotiationFinished" -> okModel /\ cf /\ NConnected(ev.sig) > modelConnected
          [] x = "C10-RequestCompletedTwice" -> p.iqDone > 1
          \* C10_RequestsSettled on observed facts: disconnected and not resumable, yet a request is still pending
          [] x = "C10-RequestRetainedNotResumable" -> ~ev.hang /\ p.sock = "Off" /\ p.state = 0 /\ ~p.canResume /\ p.iq = "out"
          \* a session that is not a resumption of the one the request was sent on cannot answer it
          \* any more: when such a session is reported the request must have been completed
          [] x = "C10-RequestSurvivesNewSession" ->
                NConnected(ev.sig) > 0 /\ ~p.smResumed /\ m.iq = "out" /\ ev.e # "SendIq" /\ p.iq = "out"
          \* stream-management chatter (<r/>, <a/>) while the client itself says, before and after the
          \* step, that stream management is not enabled: state of an earlier session is still in use.
          \* (Judged while the server has been protocol-conforming: a server that restarts the stream
          \* inside an established session makes the two halves of the client disagree legitimately.)
          [] x = "C10-StreamManagementLeftOver" ->
                /\ cf /\ ~m.sm /\ ~p.smEnabled /\ ~p.smResumed
                /\ \E i \in DOMAIN ev.out : ev.out[i].k \in {"SmReq", "SmAck"}
          \* a new connection -- opened by the application or by following a redirect within this
          \* step -- starts from scratch: its last output is the stream header, nothing of the
          \* previous connection is left (the pending-redirect marker included)
          [] x = "C10-StaleStateOnNewStream" ->
                /\ \/ ev.e = "Connect" /\ ~ev.hang
                   \/ ev.e = "SeeOtherHost" /\ p.conn # m.conn
                /\ p.sock = "On"
                /\ ~( /\ Len(out) >= 1 /\ out[Len(out)].k = "StreamOpen" /\ ~out[Len(out)].enc
                      /\ (ev.e = "Connect" => Len(out) = 1)
                      /\ p.lst = "Core" /\ p.ver = "none" /\ ~p.enc /\ ~p.authed /\ ~p.session
                      /\ ~p.smEnabled /\ ~p.smResumed /\ ~p.redirect )}

ResetStep(ev) ==
    /\ cfg' = ev.cfg
    /\ c' = C0 /\ expect' = "None" /\ conf' = TRUE /\ prev' = Prev0 /\ leak' = FALSE /\ connSig' = 0 /\ lastOut' = <<>> /\ lastSig' = <<>> /\ hist' = <<>>
    /\ cid' = ev.case /\ mon' = [Mon0 EXCEPT !.conn = ev.conn0] /\ dflag' = FALSE /\ ncases' = ncases + 1
    /\ UNCHANGED <<viol, ndiv, divs>>

Note(d, rec) == IF d /\ ~dflag /\ Len(divs) < 12 THEN Append(divs, rec) ELSE divs

OpStep(ev) ==
    /\ \/ ModelAct(ev)
       \/ (~ENABLED ModelAct(ev)) /\ UNCHANGED vars
    /\ mon' = MonNext(mon, ev)
    /\ LET stepped == hist' # hist
           d == \/ ~stepped
                \/ ModelProj' # ImplProj(ev.post)
                \/ lastOut' # Relevant(ev.out)
                \/ SessSig(lastSig') # SessSig(ev.sig)
       IN /\ viol' = AddViol({[case |-> cid, line |-> l, prop |-> x, e |-> ev.e] :
                                 x \in Failed(mon, mon', ev, ~dflag /\ stepped, conf', NConnected(lastSig'))})
          /\ dflag' = (dflag \/ d)
          /\ ndiv' = IF d /\ ~dflag THEN ndiv + 1 ELSE ndiv
          /\ divs' = Note(d, [case |-> cid, line |-> l, e |-> ev.e, stepped |-> stepped,
                              model |-> ModelProj', impl |-> ImplProj(ev.post),
                              modelOut |-> lastOut', implOut |-> Relevant(ev.out),
                              modelSig |-> SessSig(lastSig'), implSig |-> SessSig(ev.sig)])
    /\ UNCHANGED <<cid, ncases>>

\* end of an execution: the client object is gone; every request issued completed exactly once.
\* "Epilogue" marks the end of the honest reconnection appended to every behaviour: it must have
\* produced a session.
EndStep(ev) ==
    \* (a request that is still retained for a resumption when the client object is destroyed is
    \* dropped without a completion: the object's destruction is not something C10 speaks about)
    /\ viol' = AddViol(IF ev.iqIssued /\ (ev.iqDone > 1 \/ (ev.iqDone = 0 /\ ~mon.canResume))
                         THEN {[case |-> cid, line |-> l, prop |-> "C10-RequestNotCompletedExactlyOnce", e |-> "End"]} ELSE {})
    /\ UNCHANGED <<vars, cid, mon, ndiv, divs, dflag, ncases>>

EpilogueStep(ev) ==
    /\ viol' = AddViol(IF ~ev.skipped /\ ~(mon.session /\ mon.sock = "On" /\ mon.connSig = 1)
                         THEN {[case |-> cid, line |-> l, prop |-> "C10-ReconnectDoesNotSucceed", e |-> "Epilogue"]} ELSE {})
    /\ UNCHANGED <<vars, cid, mon, ndiv, divs, dflag, ncases>>

\* the behaviour could not be continued on the real objects (the implementation is somewhere the
\* model is not): the rest of the execution is not judged
ImpossibleStep(ev) ==
    /\ dflag' = TRUE
    /\ ndiv' = IF ~dflag THEN ndiv + 1 ELSE ndiv
    /\ divs' = Note(TRUE, [case |-> cid, line |-> l, e |-> "Impossible"])
    /\ UNCHANGED <<vars, cid, mon, viol, ncases>>

TNext ==
    /\ l <= Len(TraceLog)
    /\ l' = l + 1
    /\ LET ev == TraceLog[l] IN
        CASE ev.e = "Reset"      -> ResetStep(ev)
          [] ev.e = "End"        -> EndStep(ev)
          [] ev.e = "Epilogue"   -> EpilogueStep(ev)
          [] ev.e = "Impossible" -> ImpossibleStep(ev)
          [] OTHER               -> OpStep(ev)

TSpec == TInit /\ [][TNext]_tvars

Summary == [cases |-> ncases, lines |-> l - 1, viol |-> viol, ndiv |-> ndiv, divs |-> divs]
Done == l <= Len(TraceLog) \/ CSVWrite("%1$s", <<ToJson(Summary)>>, IOEnv.QXV_SUMMARY)
=============================================================================
