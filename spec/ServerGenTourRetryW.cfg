SPECIFICATION Spec
CONSTANTS
  Vers = {"sasl", "sasl2"}
  Mechs = {"PLAIN", "DIGEST-MD5"}
  Creds = {"right", "wrongPw", "otherUser", "victimOwnSecret"}
  BindRes = {"ra"}
  Kinds = {"message", "presence", "iq"}
  Froms = {"absent", "own", "ownBare", "victim", "other", "ownOtherRes", "ownSibling", "ownCase", "ownSlash", "ownPrefix", "ownDomain", "ownLookalike"}
  Tos = {"victimBare", "victimFull", "domain", "absent"}
  Stanzas <- OneStanza
  MaxPending = 1
  MaxRetry = 2
  MaxHist = 99
VIEW GenView
ACTION_CONSTRAINT EmitNoReauth
CHECK_DEADLOCK FALSE
