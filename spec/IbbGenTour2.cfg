SPECIFICATION Spec
CONSTANTS
  W = 4
  Anns = {"both"}
  Devs = {"all"}
  Sizes = {0, 1, 2, 3, 4, 5, 6}
  MaxFaults = 2
  MaxInject = 1
  FaultKinds = {"Lose", "Drop", "Dup", "Flip", "WrongSid", "WrongFrom", "Swap", "EarlyClose"}
  InjectKinds = {"from", "res"}
  InjectElems = {"data", "close"}
  Bursts = {}
  MaxHist = 99
VIEW View
ACTION_CONSTRAINT EmitBehaviour
CHECK_DEADLOCK FALSE
