SPECIFICATION Spec
CONSTANTS
  Cfgs <- AllCfgs
  PreFeats <- AllPreFeats
  PostFeats <- AllPostFeats
  MaxConn = 6
  MaxTok = 4
  MaxHist = 99
  ResumeKeepsCsi = TRUE
  AsCode = {}

ACTION_CONSTRAINT EmitBehaviour
CHECK_DEADLOCK FALSE
