SPECIFICATION Spec
CONSTANTS
  Apis = {"task"}
  Archives = {"own"}
  Froms = {"none", "evil"}
  E2ee = TRUE
  Encs = {TRUE}
  Kinds = {"Query", "Result", "Fin", "Decrypt", "Disconnect"}
  MaxQ = 2
  MaxM = 3
  MaxD = 1
  MaxDepth = 99
  MaxHist = 5
CONSTRAINT Bound
ACTION_CONSTRAINT EmitBehaviour
CHECK_DEADLOCK FALSE
