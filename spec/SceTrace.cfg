SPECIFICATION TSpec
CONSTANTS
  MaxSet = 99
  Ordered = FALSE
INVARIANT Done
CHECK_DEADLOCK FALSE
