SPECIFICATION TSpec
CONSTANTS
  MaxSet = 99
  Bases <- BasesNone
  Ordered = FALSE
INVARIANT Done
CHECK_DEADLOCK FALSE
