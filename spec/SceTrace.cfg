SPECIFICATION TSpec
CONSTANTS
  MaxSet = 99
  Bases <- BasesNone
  SendModes <- AllSendModes
  PlainApis <- AllPlainApis
  Ordered = FALSE
INVARIANT Done
CHECK_DEADLOCK FALSE
