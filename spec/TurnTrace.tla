------------------------------ MODULE TurnTrace ------------------------------
(***************************************************************************)
(* Trace validation for Turn.  The trace is written by `qxv turn` and       *)
(* annotated by lib/ext/turn.py (every datagram the client sent is decoded  *)
(* from its raw bytes with an independent STUN walk; MESSAGE-INTEGRITY is   *)
(* verified with lib/refstun.py under MD5(user:realm:password)).  Lines:    *)
(*  {"e":"Reset","case":ID,"pw":B}                                          *)
(*  {"e":STEP,"i":K,"t":T,"sh":SH,"r":RESP,"p":P,"c":C,"src":S,"len":L,"sn":N,    *)
(*   "ret":R,"quiet":B,"o":OBS}      (fields a step does not use: defaults) *)
(*  {"e":"Abort",...}  the step was impossible on the real object           *)
(*  OBS = [st, sig, rx, rtx, dg, relp, rt, ct]                              *)
(*    rx   datagrams the client sent to the harness sockets, in order,      *)
(*         retransmissions excluded:                                        *)
(*         [k "req"|"cd"|"junk", t, m, user, realm, cn, pmi, smi, fp, wf,   *)
(*          lt, ch, p, sock, dok, lenok, rng]                               *)
(*         user/realm "ok"|"none"|"bad"; cn nonce index (0 absent, -1       *)
(*         unknown); pmi / smi: MESSAGE-INTEGRITY under the key of the      *)
(*         configured / the server's password: "valid"|"none"|"bad"         *)
(*    rtx  retransmissions (same shape, `same`: byte-identical)             *)
(*    dg   datagramReceived emissions [p, dok]                              *)
(*    relp relayedPort(), rt refresh timer (s, 0 stopped), ct channel timer *)
(*                                                                          *)
(* Three layers per line: the model takes Turn's action for the logged step *)
(* (or stutters); the monitor `mon` is built ONLY from logged inputs and    *)
(* observations and the predicates below are evaluated on it; the model's   *)
(* projection is compared with the observation, a difference only marks the *)
(* execution diverged.                                                      *)
(***************************************************************************)
EXTENDS Turn, Json, CSV, IOUtils

TraceLog == ndJsonDeserialize(IOEnv.QXV_TRACE)

VARIABLES l, cid, mon, viol, nviol, failed, ndiv, divs, dcs, dflag, ncases, stats

tvars == <<vars, l, cid, mon, viol, nviol, failed, ndiv, divs, dcs, dflag, ncases, stats>>

\* monitor: what an observer of the wire and of the public API knows
\*   req    requests seen, by transaction index      open   transactions seen and not yet answered / cancelled
\*   chal   nonce of the last challenge the client had to accept in this attempt (0 none)
\*   binds  [c, p, s]: ChannelBind requested ("req") / confirmed ("ok") in this allocation, failed ones removed
\*   unsure an authentic response arrived from a foreign address: RFC 5766 does not say whether the client
\*          must take it, so nothing is demanded for the rest of the execution
Mon0 == [st |-> "unconnected", relp |-> 0, rt |-> 0, ct |-> FALSE, req |-> <<>>, open |-> {}, chal |-> 0,
         binds |-> {}, unsure |-> FALSE]

Stats0 == [steps |-> 0, authentic |-> 0, unauthentic |-> 0, inbound |-> 0, early |-> 0, foreign |-> 0,
           dataind |-> 0, dataind_delivered |-> 0, unquiet |-> 0, aborted |-> 0, retransmissions |-> 0]

TInit ==
    /\ Init /\ pw = TRUE
    /\ l = 1 /\ cid = "" /\ mon = Mon0 /\ viol = {} /\ nviol = 0 /\ failed = {} /\ ndiv = 0 /\ divs = <<>> /\ dcs = {}
    /\ dflag = FALSE /\ ncases = 0 /\ stats = Stats0

(* --- reading an observation ------------------------------------------------------------------------------ *)
Sel(s, k) == SelectSeq(s, LAMBDA x : x.k = k)
Reqs(o) == Sel(o.rx, "req")
Cds(o)  == Sel(o.rx, "cd")
Range(s) == {s[i] : i \in 1..Len(s)}

\* the request with transaction index t, as it was seen on the wire (indices are consecutive in a trace the harness
\* wrote; a lookup keeps the monitor total on any trace)
NoReq == [k |-> "req", t |-> 0, m |-> "none", user |-> "none", realm |-> "none", cn |-> 0, pmi |-> "none", smi |-> "none",
          lt |-> -1, ch |-> -1, p |-> 0]
ReqOf(m, t) == LET S == {x \in Range(m.req) : x.t = t} IN IF S = {} THEN NoReq ELSE CHOOSE x \in S : TRUE

CredC(x)     == x.user = "ok" /\ x.realm = "ok" /\ x.cn > 0 /\ x.pmi = "valid"
Bare(x)      == x.user = "none" /\ x.realm = "none" /\ x.cn = 0 /\ x.pmi = "none"

\* RFC 5389 10.2.3: the response answers an outstanding request; its integrity code is not wrong; a success
\* response has one
AccM(m, ev) ==
    /\ ev.e = "Reply" /\ ev.t \in m.open
    /\ ev.r.idm = "match" /\ ev.r.mi # "bad" /\ (ev.r.cls = "ok" => ev.r.mi = "valid")

IsChalM(m, ev) ==
    LET q == ReqOf(m, ev.t) IN
    ev.r.cls = "err" /\ ((ev.r.code = 401 /\ q.cn = 0 /\ q.pmi = "none") \/ (ev.r.code = 438 /\ q.cn # 0 /\ ev.r.nonce # q.cn))

TimedOut(m, ev) == ev.e = "Timeout" /\ ev.t \in m.open

MonNext(m, ev) ==
    LET o      == ev.o
        nr     == Reqs(o)
        acc    == AccM(m, ev)
        chal   == acc /\ IsChalM(m, ev)
        over   == (acc /\ ~chal) \/ TimedOut(m, ev)          \* transaction ev.t ended with a verdict
        q      == ReqOf(m, ev.t)
        gone   == o.st = "unconnected"
        cancel == ev.e = "Disconnect" \/ gone
        open0  == IF cancel THEN {} ELSE IF acc \/ TimedOut(m, ev) THEN m.open \ {ev.t} ELSE m.open
        b0     == IF cancel THEN {}
                  ELSE IF over /\ q.m = "bind"
                       THEN IF ev.e = "Reply" /\ ev.r.cls = "ok"
                            THEN {IF b.c = q.ch THEN [b EXCEPT !.s = "ok"] ELSE b : b \in m.binds}
                            ELSE {b \in m.binds : b.c # q.ch}
                       ELSE m.binds
        nb     == {[c |-> x.ch, p |-> x.p, s |-> "req"] : x \in {y \in Range(nr) : y.m = "bind"}}
    IN [st |-> o.st, relp |-> o.relp, rt |-> o.rt, ct |-> o.ct,
        req |-> m.req \o nr,
        open |-> IF gone THEN {} ELSE open0 \cup {nr[i].t : i \in 1..Len(nr)},
        chal |-> IF gone THEN 0 ELSE IF chal THEN ev.r.nonce ELSE m.chal,
        binds |-> IF gone THEN {} ELSE b0 \cup {b \in nb : ~\E a \in b0 : a.c = b.c},
        unsure |-> m.unsure \/ (ev.e = "Reply" /\ ev.r.src = "oth" /\ acc)]

(* --- the predicates (RFC 5766; RFC 5389 10.2) ------------------------------------------------------------- *)
\* the allocation is reported only after an authentic success response to an Allocate request that carried
\* valid credentials for the server's realm and current nonce; the relayed address is the one granted
P_Connected(m, ev, o) ==
    (o.st = "connected" /\ m.st # "connected") =>
        /\ m.st = "connecting" /\ AccM(m, ev) /\ ev.r.cls = "ok" /\ ev.r.rel = "ok"
        /\ LET q == ReqOf(m, ev.t) IN q.m = "allocate" /\ q.user = "ok" /\ q.realm = "ok" /\ q.cn = ev.sn /\ q.smi = "valid"
        /\ o.relp = 49000 + ev.t
P_Relayed(m, ev, o) == o.relp # m.relp => (o.st = "connected" /\ m.st # "connected")

\* every request carries either no credentials at all or USERNAME, REALM, NONCE and a MESSAGE-INTEGRITY that
\* verifies under MD5(user:realm:password); after a challenge every new request carries them, with its nonce
P_Authed(m, ev, o) ==
    LET chalAt == IF AccM(m, ev) /\ IsChalM(m, ev) THEN ev.r.nonce ELSE m.chal IN
    /\ \A x \in Range(Reqs(o)) \cup Range(o.rtx) : (Bare(x) \/ CredC(x)) /\ x.fp # "bad" /\ x.wf /\ x.sock = "srv"
    /\ \A x \in Range(Reqs(o)) : chalAt > 0 => x.cn = chalAt
    /\ \A x \in Range(o.rtx) : x.same
    /\ Sel(o.rx, "junk") = <<>>

\* 401 to a request without credentials and 438 with a fresh nonce are answered by the same request in a new
\* transaction with the credentials of the challenge (RFC 5389 10.2.3: SHOULD for 401, MUST for 438)
P_Retry(m, ev, o) ==
    (AccM(m, ev) /\ IsChalM(m, ev) /\ ev.r.src = "srv") =>
        LET q == ReqOf(m, ev.t) IN
        /\ o.st = m.st
        /\ \E x \in Range(Reqs(o)) : x.m = q.m /\ x.cn = ev.r.nonce /\ CredC(x) /\ x.lt = q.lt /\ x.ch = q.ch /\ x.p = q.p

\* responses with an unknown transaction id, of another method, to a finished transaction, failing integrity,
\* or success responses without integrity change nothing
P_NoEffect(m, ev, o) ==
    (ev.e = "Reply" /\ ~AccM(m, ev)) =>
        /\ o.st = m.st /\ o.sig = <<>> /\ o.rx = <<>> /\ o.dg = <<>>
        /\ o.relp = m.relp /\ o.rt = m.rt /\ o.ct = m.ct

\* application data leaves only while connected, as ChannelData (number in 0x4000..0x7FFF, length = payload,
\* payload unchanged, to the server) on a channel for which a ChannelBind to exactly that peer was requested in
\* this allocation and has not failed; writeDatagram reports success only if it sent something
P_ChannelData(m, n, ev, o) ==
    /\ \A x \in Range(Cds(o)) :
            /\ ev.e = "Write" /\ m.st = "connected" /\ x.rng /\ x.lenok /\ x.dok /\ x.sock = "srv"
            /\ \E b \in n.binds : b.c = x.ch /\ b.p = ev.p
    /\ Len(Cds(o)) <= 1
    /\ (ev.e = "Write" /\ ev.ret = "ok" => Len(Cds(o)) = 1)

\* inbound data is delivered only while connected, unchanged, labelled with the peer of the channel it came
\* on (a Data indication: with its XOR-PEER-ADDRESS, if that peer has a permission); never for an unknown channel
P_Deliver(m, ev, o) ==
    o.dg # <<>> =>
        /\ Len(o.dg) = 1 /\ m.st = "connected" /\ o.dg[1].dok
        /\ \/ ev.e = "ChanIn" /\ ev.len # "over" /\ \E b \in m.binds : b.c = ev.c /\ b.p = o.dg[1].p
           \/ ev.e = "DataInd" /\ o.dg[1].p = ev.p /\ \E b \in m.binds : b.p = ev.p

\* disconnectFromHost() releases a connected allocation with Refresh LIFETIME 0 and ends unconnected
P_Release(m, ev, o) ==
    /\ (ev.e = "Disconnect" /\ m.st = "connected" =>
            o.st = "closing" /\ \E x \in Range(Reqs(o)) : x.m = "refresh" /\ x.lt = 0 /\ CredC(x))
    /\ (ev.e = "Disconnect" /\ m.st # "connected" => o.st = "unconnected")
    /\ (m.st = "closing" /\ ((AccM(m, ev) /\ ~IsChalM(m, ev) /\ ev.r.src = "srv") \/ TimedOut(m, ev)) => o.st = "unconnected")

P_Lifecycle(m, ev, o) ==
    /\ (o.st # m.st =>
            /\ <<m.st, o.st>> \in Edges
            /\ CASE o.st = "connecting"  -> ev.e = "Connect"
                 [] o.st = "closing"     -> ev.e = "Disconnect"
                 [] o.st = "connected"   -> ev.e = "Reply"
                 [] OTHER                -> ev.e \in {"Reply", "Timeout", "Disconnect"})
    /\ o.sig = (IF o.st = "connected" /\ m.st # "connected" THEN <<"connected">>
                ELSE IF o.st = "unconnected" /\ m.st # "unconnected" THEN <<"disconnected">> ELSE <<>>)

\* RFC 5766 7: the allocation is refreshed before it expires
P_RefreshScheduled(m, ev, o) ==
    (AccM(m, ev) /\ ev.r.src = "srv" /\ ev.r.cls = "ok" /\ ev.r.lt >= 600 /\ ReqOf(m, ev.t).m \in {"allocate", "refresh"} /\ o.st = "connected")
        => o.rt > 0 /\ o.rt < ev.r.lt

Failed(m, n, ev) ==
    LET o == ev.o IN
    IF m.unsure THEN {} ELSE
    {p \in {"Connected", "Relayed", "Authed", "Retry", "NoEffect", "ChannelData", "Deliver", "Release", "Lifecycle", "RefreshScheduled"} :
        CASE p = "Connected"   -> ~P_Connected(m, ev, o)
          [] p = "Relayed"     -> ~P_Relayed(m, ev, o)
          [] p = "Authed"      -> ~P_Authed(m, ev, o)
          [] p = "Retry"       -> ~P_Retry(m, ev, o)
          [] p = "NoEffect"    -> ~P_NoEffect(m, ev, o)
          [] p = "ChannelData" -> ~P_ChannelData(m, n, ev, o)
          [] p = "Deliver"     -> ~P_Deliver(m, ev, o)
          [] p = "Release"     -> ~P_Release(m, ev, o)
          [] p = "Lifecycle"   -> ~P_Lifecycle(m, ev, o)
          [] p = "RefreshScheduled" -> ~P_RefreshScheduled(m, ev, o)}

(* --- the model's step, in the shape of the observation ----------------------------------------------------- *)
NonRe(s) == SelectSeq(s, LAMBDA x : ~x.re)
ProjRx(s) == [i \in 1..Len(s) |-> [k |-> s[i].k, t |-> s[i].t, m |-> s[i].m, cn |-> s[i].cn, lt |-> s[i].lt, ch |-> s[i].ch,
                                    p |-> IF s[i].k = "cd" THEN 0 ELSE s[i].p]]
Proj == [st |-> st', sig |-> sig', rx |-> ProjRx(NonRe(out')), dg |-> [i \in 1..Len(dg') |-> dg'[i].p],
         relp |-> relp', rt |-> rt', ct |-> ct', ret |-> ret']
ObsProj(ev) ==
    LET o == ev.o IN
    [st |-> o.st, sig |-> o.sig, rx |-> ProjRx([i \in 1..Len(o.rx) |-> [o.rx[i] EXCEPT !.p = IF o.rx[i].k = "cd" THEN 0 ELSE @]]),
     dg |-> [i \in 1..Len(o.dg) |-> o.dg[i].p], relp |-> o.relp, rt |-> o.rt, ct |-> o.ct, ret |-> ev.ret]
\* retransmissions the model expects must be there (the wall clock may add more)
RtxOk(ev) == \A i \in 1..Len(out') : out'[i].re => \E x \in Range(ev.o.rtx) : x.t = out'[i].t

ModelAct(ev) ==
    CASE ev.e = "Connect"      -> Connect
      [] ev.e = "Disconnect"   -> Disconnect
      [] ev.e = "Write"        -> Write(ev.p)
      [] ev.e = "RefreshTimer" -> RefreshTimer
      [] ev.e = "ChannelTimer" -> ChannelTimer
      [] ev.e = "Retransmit"   -> Retransmit(ev.t)
      [] ev.e = "Timeout"      -> Timeout(ev.t)
      [] ev.e = "Reply"        -> IF ev.sh = "dup" THEN Dup(ev.t) ELSE Reply(ev.t, ev.sh, ev.r)
      [] ev.e = "ChanIn"       -> ChanIn(ev.c, ev.src, ev.len)
      [] ev.e = "DataInd"      -> DataInd(ev.p)
      [] OTHER                 -> FALSE

Diverge(d, info) ==
    /\ dflag' = (dflag \/ d)
    /\ ndiv' = IF d /\ ~dflag THEN ndiv + 1 ELSE ndiv
    /\ divs' = IF d /\ ~dflag /\ Len(divs) < 10 THEN Append(divs, [case |-> cid, line |-> l] @@ info) ELSE divs
    /\ dcs' = IF d THEN dcs \cup {cid} ELSE dcs

ViolCap == 40
AddViol(S) ==
    /\ viol' = viol \cup {v \in S : Cardinality({u \in viol : u.prop = v.prop}) < ViolCap}
    /\ nviol' = nviol + Cardinality(S)
    /\ failed' = IF S = {} THEN failed ELSE failed \cup {cid}

ResetStep(ev) ==
    /\ Reinit(ev.pw)
    /\ cid' = ev.case /\ mon' = Mon0 /\ dflag' = FALSE /\ ncases' = ncases + 1
    /\ UNCHANGED <<viol, nviol, failed, ndiv, divs, dcs, stats>>

AbortStep(ev) ==
    /\ Diverge(TRUE, [what |-> "Abort", model |-> <<>>, impl |-> ev.why])
    /\ stats' = [stats EXCEPT !.aborted = @ + 1]
    /\ UNCHANGED <<vars, cid, mon, viol, nviol, failed, ncases>>

OpStep(ev) ==
    LET o == ev.o
        n == MonNext(mon, ev)
    IN
    /\ \/ ModelAct(ev)
       \/ (~ENABLED ModelAct(ev)) /\ UNCHANGED vars
    /\ mon' = n
    \* the predicates are evaluated while the implementation has followed the model so far: after a divergence the
    \* script (transaction numbering, the server's idea of the session) no longer fits what the client is doing
    /\ AddViol(IF dflag THEN {} ELSE
               {[case |-> cid, line |-> l, i |-> ev.i, prop |-> p, e |-> ev.e, sh |-> ev.sh,
                 obs |-> ToJson([st |-> o.st, sig |-> o.sig, rt |-> o.rt, relp |-> o.relp, nrx |-> Len(o.rx), ndg |-> Len(o.dg)])]
                    : p \in Failed(mon, n, ev)})
    /\ stats' = [stats EXCEPT
                    !.steps = @ + 1,
                    !.authentic = IF AccM(mon, ev) THEN @ + 1 ELSE @,
                    !.unauthentic = IF ev.e = "Reply" /\ ~AccM(mon, ev) THEN @ + 1 ELSE @,
                    !.inbound = IF ev.e = "ChanIn" THEN @ + 1 ELSE @,
                    \* ChannelData sent on a channel whose ChannelBind has not been confirmed yet (the server drops it)
                    !.early = @ + Cardinality({x \in Range(Cds(o)) : ~\E b \in n.binds : b.c = x.ch /\ b.s = "ok"}),
                    \* something from a foreign address was taken
                    !.foreign = IF (ev.e = "ChanIn" /\ ev.src = "oth" /\ o.dg # <<>>)
                                   \/ (ev.e = "Reply" /\ ev.r.src = "oth" /\ AccM(mon, ev) /\ (o.st # mon.st \/ o.rx # <<>> \/ o.rt # mon.rt))
                                THEN @ + 1 ELSE @,
                    !.dataind = IF ev.e = "DataInd" THEN @ + 1 ELSE @,
                    !.dataind_delivered = IF ev.e = "DataInd" /\ o.dg # <<>> THEN @ + 1 ELSE @,
                    !.unquiet = IF ev.quiet THEN @ ELSE @ + 1,
                    !.retransmissions = @ + Len(o.rtx)]
    /\ Diverge(Proj # ObsProj(ev) \/ ~RtxOk(ev) \/ ~ev.quiet, [what |-> ev.e, model |-> Proj, impl |-> ObsProj(ev)])
    /\ UNCHANGED <<cid, ncases>>

TNext ==
    /\ l <= Len(TraceLog)
    /\ l' = l + 1
    /\ LET ev == TraceLog[l] IN
        CASE ev.e = "Reset" -> ResetStep(ev)
          [] ev.e = "Abort" -> AbortStep(ev)
          [] OTHER          -> OpStep(ev)

TSpec == TInit /\ [][TNext]_tvars

Summary == [cases |-> ncases, lines |-> l - 1, viol |-> viol, nviol |-> nviol, nfailed |-> Cardinality(failed),
            failed |-> failed, ndiv |-> ndiv, divs |-> divs, dcases |-> dcs, stats |-> stats]
Done == l <= Len(TraceLog) \/ CSVWrite("%1$s", <<ToJson(Summary)>>, IOEnv.QXV_SUMMARY)
=============================================================================
