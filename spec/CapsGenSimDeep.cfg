SPECIFICATION Spec
CONSTANTS
  Cats = {0, 1, 2}
  Types = {1, 2}
  Langs = {0, 1, 2}
  Names = {0, 1, 2}
  Feats = {0, 1, 2, 3, 4}
  FTypes = {1, 2}
  Vars = {0, 1, 2, 3}
  Vals = {0, 1, 2, 3, 4}
  MaxIds = 4
  MaxFeats = 6
  MaxFields = 3
  MaxVals = 3
  EmitMin = 30
  MaxHist = 30
ACTION_CONSTRAINT EmitBehaviour
CHECK_DEADLOCK FALSE
