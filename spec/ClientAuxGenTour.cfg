SPECIFICATION Spec
CONSTANTS
  Cfgs <- SliceCfgs
  PreFeats <- CorePreFeats
  PostFeats <- AllPostFeats
  MaxConn = 2
  MaxTok = 2
  MaxHist = 99
  ResumeKeepsCsi = TRUE
  AsCode = {}
VIEW GenView
ACTION_CONSTRAINT EmitBehaviour
CHECK_DEADLOCK FALSE
