SPECIFICATION Spec
CONSTANTS
  Mode = "rotate"
  Variants = {0, 1, 2, 3, 4, 5}
  KeyLens <- KeyLensAll
  AddrMode = "on"
  TamperMode = "singles"
  TamperVariants = {1, 4}
  TamperAllVariants = {}
  HoldMode = "singles"
  Aliased = {}
  HelperKeyMax = 300
  HelperTexts = {0, 1, 55, 64, 150}
INVARIANTS TypeOK Integrity Fingerprint RoundTrip OtherKeyRejected ProtectedFlipRejected CoveredFlipRejected EncodedFrame ValueStable
VIEW View
CHECK_DEADLOCK FALSE
