SPECIFICATION Spec
CONSTANTS
  Apis <- GenApis
  StrangerPayloads = {"empty", "error", "foreign"}
  Payloads = {"empty", "error", "foreign"}
  MaxMsgs = 0
  MaxPend = 2
  MaxHist = 4
CONSTRAINT Bound
ACTION_CONSTRAINT EmitBehaviour
CHECK_DEADLOCK FALSE
