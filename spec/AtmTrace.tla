----------------------------- MODULE AtmTrace -----------------------------
(***************************************************************************)
(* Trace validation for Atm.  The trace (ndjson, written by `qxv atm`)     *)
(* holds one line per step: the event with its arguments and what the real  *)
(* QXmppAtmManager / QXmppAtmTrustMemoryStorage reported afterwards through *)
(* the trust manager / storage API:                                         *)
(*   {"e":"TrustMsg","from":"a","sk":"a1","owners":[{"o":"a","t":["a2"],   *)
(*    "d":[]}],"lv":[15 levels in the order of PairSeq],                    *)
(*    "pp":[{"sk":"a1","o":"a","k":"a2","t":true}],"xk":0,"xp":0,           *)
(*    "fin":true,"sent":[...]}                                              *)
(* xk / xp: stored keys / held decisions outside the universe (must be 0).  *)
(* A "Reset" line starts an execution and carries the policy and the        *)
(* observed initial state.                                                  *)
(*                                                                          *)
(* Three layers per line:                                                   *)
(*  - model:   Atm's reaction to the logged event (model variables follow   *)
(*             the specification, not the implementation);                  *)
(*  - monitor: `obs` is the state the implementation reported after the     *)
(*             previous line; the C18 step predicates of Atm are evaluated  *)
(*             on (obs, logged event, newly reported state) -- only logged  *)
(*             inputs and observations, never model state;                  *)
(*  - compare: the model's state vs the reported one; a mismatch marks the  *)
(*             execution as diverged (conformance warning).                 *)
(***************************************************************************)
EXTENDS Atm, Integers, Json, CSV, IOUtils

TraceLog == ndJsonDeserialize(IOEnv.QXV_TRACE)

VARIABLES l,        \* next line
          cid, cl,  \* current execution id, line of its Reset
          obs,      \* last reported state [lv, pp]
          viol,     \* set of property violations found
          ndiv, divs, dflag,  \* diverged executions: count, first few, current flag
          ncases,
          kinds,    \* how many steps of each kind (StepKinds) the model took: vacuity guard of the behaviours
          okinds    \* the same classification on the reported states (evidence)

tvars == <<vars, l, cid, cl, obs, viol, ndiv, divs, dflag, ncases, kinds, okinds>>

ObsOf(ln) ==
    [lv |-> [p \in Pairs |-> ln.lv[PairIdx[p]]],
     pp |-> {[sk |-> ln.pp[i].sk, o |-> ln.pp[i].o, k |-> ln.pp[i].k, t |-> ln.pp[i].t] : i \in DOMAIN ln.pp}]

EvOf(ln) ==
    IF ln.e = "Manual"
    THEN [a |-> "Manual", o |-> ln.o, auth |-> ln.auth, dis |-> ln.dis]
    ELSE [a |-> ln.e, from |-> ln.from, sk |-> ln.sk, owners |-> ln.owners]

TInit ==
    /\ lv = InitLv("blank") /\ init0 = lv /\ pp = {} /\ policy = "None" /\ hist = <<>>
    /\ l = 1 /\ cid = "" /\ cl = 0 /\ obs = [lv |-> lv, pp |-> pp] /\ viol = {}
    /\ ndiv = 0 /\ divs = <<>> /\ dflag = FALSE /\ ncases = 0
    /\ kinds = [n \in KindNames |-> 0] /\ okinds = [n \in KindNames |-> 0]

ResetStep(ln) ==
    /\ policy' = ln.policy
    /\ obs' = ObsOf(ln)
    /\ lv' = ObsOf(ln).lv /\ pp' = ObsOf(ln).pp      \* the model starts from the reported initial state
    /\ cid' = ln.case /\ cl' = l /\ dflag' = FALSE /\ ncases' = ncases + 1
    /\ viol' = viol \cup {[case |-> ln.case, line |-> l, step |-> 0, prop |-> p, e |-> "Reset"] :
                             p \in {q \in {"Justified", "HeldOnlyScoped"} :
                                       (q = "Justified" /\ ln.xk # 0) \/ (q = "HeldOnlyScoped" /\ (ln.xp # 0 \/ ln.pp # <<>>))}}
    /\ UNCHANGED <<init0, hist, ndiv, divs, kinds, okinds>>

OpStep(ln) ==
    LET ev == EvOf(ln)
        post == ObsOf(ln)
        m == React(St, ev, policy)
        bad == Failed(obs, ev, post)
                 \cup (IF ln.xk # 0 THEN {"Justified"} ELSE {})
                 \cup (IF ln.xp # 0 THEN {"HeldOnlyScoped"} ELSE {})
        ks == StepKinds(St, ev, m)
        oks == StepKinds(obs, ev, post)
        d == (m # post) \/ ~ln.fin
    IN
    /\ lv' = m.lv /\ pp' = m.pp
    /\ obs' = post
    /\ viol' = viol \cup {[case |-> cid, line |-> l, step |-> l - cl, prop |-> p, e |-> ln.e] : p \in bad}
    /\ kinds' = [n \in KindNames |-> IF n \in ks THEN kinds[n] + 1 ELSE kinds[n]]
    /\ okinds' = [n \in KindNames |-> IF n \in oks THEN okinds[n] + 1 ELSE okinds[n]]
    /\ dflag' = (dflag \/ d)
    /\ ndiv' = IF d /\ ~dflag THEN ndiv + 1 ELSE ndiv
    /\ divs' = IF d /\ ~dflag /\ Len(divs) < 10
               THEN Append(divs, [case |-> cid, line |-> l, step |-> l - cl, e |-> ln.e,
                                  model |-> [lv |-> LvSeq(m.lv), pp |-> m.pp],
                                  impl |-> [lv |-> LvSeq(post.lv), pp |-> post.pp]])
               ELSE divs
    /\ UNCHANGED <<policy, init0, hist, cid, cl, ncases>>

TNext ==
    /\ l <= Len(TraceLog)
    /\ l' = l + 1
    /\ LET ln == TraceLog[l] IN
        IF ln.e = "Reset" THEN ResetStep(ln) ELSE OpStep(ln)

TSpec == TInit /\ [][TNext]_tvars

Summary == [cases |-> ncases, lines |-> l - 1, viol |-> viol, ndiv |-> ndiv, divs |-> divs, kinds |-> kinds, okinds |-> okinds]
Done == l <= Len(TraceLog) \/ CSVWrite("%1$s", <<ToJson(Summary)>>, IOEnv.QXV_SUMMARY)
=============================================================================
