SPECIFICATION Spec
CONSTANTS
  MaxSet = 1
  Bases <- BasesSend
  SendModes <- AllSendModes
  PlainApis <- AllPlainApis
  Ordered = TRUE
INVARIANTS TypeOK WireNoLeak WirePublic
CONSTRAINT ClientOnly
ACTION_CONSTRAINT EmitBehaviour
CHECK_DEADLOCK FALSE
